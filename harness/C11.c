/* C11 harness: n four-counter termination monitors of the REAL module
 * (parsec/mca/termdet/fourcounter/termdet_fourcounter_module.c) simulated in one process.
 * The module source of $PARSEC_REPO is compiled into this program (that gives access to the
 * monitor structure, which is private to the .c file); every monitor is driven exclusively through
 * the exported parsec_termdet_fourcounter_module.module.* entry points and
 * parsec_termdet_fourcounter_msg_dispatch; parsec_ce.send_am is replaced by a recording stub and
 * the harness plays the network.  Assertions of the module are active (no NDEBUG here).
 *
 *   C11                  : script mode, operations on stdin (see step() in lean/Driver/C11.lean)
 *   C11 gen N MAXN LEN   : generates N cases itself (PRNG from VERIF_SEED), choosing among the
 *                          operations enabled in the real state, then drains the run
 */
#include "parsec/mca/termdet/fourcounter/termdet_fourcounter_module.c"
#include "parsec/parsec_comm_engine.h"
#include "parsec/class/list.h"
#include "pv.h"

#define MAXN 64
#define NETCAP 4096
typedef parsec_termdet_fourcounter_monitor_t mon_t;
typedef struct { parsec_taskpool_t tp; parsec_context_t ctx; int cbs; int opn; parsec_list_item_t *delayed[NETCAP]; int ndelayed; } rank_t;
typedef struct { int src, dst, kind; uint32_t a, b; int held; } pkt_t;   /* kind 0 UP, 1 DOWN, 2 application */

static rank_t *R; static int N = 0;
static pkt_t net[NETCAP]; static int nnet = 0;
static int cur_rank = -1;
static uint32_t shared_id;
static const parsec_termdet_module_t *M = &parsec_termdet_fourcounter_module;

static void net_push(pkt_t p) { if( nnet < NETCAP ) net[nnet++] = p; else printf("!viol C11 more than %d messages in flight\n", NETCAP); }
static void net_erase(int k) { memmove(&net[k], &net[k+1], (nnet - k - 1) * sizeof(pkt_t)); nnet--; }

static int stub_send_am(parsec_comm_engine_t *ce, parsec_ce_tag_t tag, int remote, void *addr, size_t size)
{
    (void)ce;
    parsec_termdet_fourcounter_msg_up_t *u = (parsec_termdet_fourcounter_msg_up_t*)addr;
    parsec_termdet_fourcounter_msg_down_t *d = (parsec_termdet_fourcounter_msg_down_t*)addr;
    pkt_t p; memset(&p, 0, sizeof(p)); p.src = cur_rank; p.dst = remote;
    if( tag != PARSEC_TERMDET_FOURCOUNTER_MSG_TAG ) printf("!viol C11 control message sent with tag %d\n", (int)tag);
    if( u->tp_id != shared_id ) printf("!viol C11 control message carries tp_id %u, expected %u\n", u->tp_id, shared_id);
    if( remote < 0 || remote >= N || remote == cur_rank ) printf("!viol C11 rank %d sends a control message to rank %d (n=%d)\n", cur_rank, remote, N);
    if( u->msg_type == PARSEC_TERMDET_FOURCOUNTER_MSG_TYPE_UP ) {
        p.kind = 0; p.a = u->nb_sent; p.b = u->nb_received;
        if( size != sizeof(*u) ) printf("!viol C11 UP message of size %d\n", (int)size);
    } else if( d->msg_type == PARSEC_TERMDET_FOURCOUNTER_MSG_TYPE_DOWN ) {
        p.kind = 1; p.a = d->result;
        if( size != sizeof(*d) ) printf("!viol C11 DOWN message of size %d\n", (int)size);
    } else { printf("!viol C11 control message of unknown type %d\n", (int)u->msg_type); return 0; }
    net_push(p);
    return 0;
}

/* every simulated process owns its own delayed-message list (the library has one per process) */
static void enter_rank(int q)
{
    rank_t *r = &R[q]; cur_rank = q;
    parsec_taskpool_register(&r->tp);      /* process q resolves the shared id to ITS taskpool */
    for(int i = 0; i < r->ndelayed; i++)
        parsec_list_nolock_push_back(&parsec_termdet_fourcounter_delayed_messages, r->delayed[i]);
    r->ndelayed = 0;
}
static void leave_rank(int q)
{
    rank_t *r = &R[q]; parsec_list_item_t *it;
    while( NULL != (it = parsec_list_nolock_pop_front(&parsec_termdet_fourcounter_delayed_messages)) )
        r->delayed[r->ndelayed++] = it;
    cur_rank = -1;
}
static void term_cb(parsec_taskpool_t *tp) { ((rank_t*)tp)->cbs++; }
static mon_t *mon(int q) { return (mon_t*)R[q].tp.tdm.monitor; }
static int st(int q) { return (int)mon(q)->state; }
static int wl(int q) { return R[q].tp.nb_tasks + R[q].tp.nb_pending_actions; }
#define NR PARSEC_TERMDET_FOURCOUNTER_NOT_READY
#define TM PARSEC_TERMDET_FOURCOUNTER_TERMINATED

static void fini(void)
{
    for(int q = 0; q < N; q++) {
        for(int i = 0; i < R[q].ndelayed; i++) free(R[q].delayed[i]);
        free(R[q].tp.tdm.monitor);
    }
    free(R); R = NULL; N = 0; nnet = 0;
}
static void init(int n)
{
    fini();
    N = n; R = calloc(n, sizeof(rank_t));
    for(int q = 0; q < n; q++) {
        R[q].ctx.my_rank = q; R[q].ctx.nb_nodes = n;
        R[q].tp.context = &R[q].ctx; R[q].tp.taskpool_id = shared_id;
        R[q].tp.tdm.module = &M->module;
        M->module.monitor_taskpool(&R[q].tp, term_cb);
    }
}

static const char *stcode(int s)
{
    static const char *c[] = { "NR", "BC", "BP", "IC", "IP", "T" };
    return (s >= 0 && s < 6) ? c[s] : "??";
}
static void pk_print(const pkt_t *p)
{
    if( p->kind == 0 ) printf("U%d>%d:%u:%u", p->src, p->dst, p->a, p->b);
    else if( p->kind == 1 ) printf("D%d>%d:%u", p->src, p->dst, p->a);
    else printf("A%d>%d", p->src, p->dst);
    if( p->held ) printf("h");
}
static void net_print(int from)
{
    printf("[");
    for(int i = from; i < nnet; i++) { if( i > from ) printf(" "); pk_print(&net[i]); }
    printf("]");
}
static void outcome(const char *op, int q, int from)
{
    mon_t *m = mon(q);
    printf("%s => r%d %s ms=%u mr=%u ncl=%d acc=%u/%u last=%d/%d nt=%d npa=%d opn=%d cb=%d | ", op, q, stcode(m->state),
           m->messages_sent, m->messages_received, (int32_t)m->nb_child_left, m->acc_sent, m->acc_received,
           (int32_t)m->last_acc_sent_at_root, (int32_t)m->last_acc_received_at_root,
           R[q].tp.nb_tasks, R[q].tp.nb_pending_actions, R[q].opn, R[q].cbs);
    net_print(from); printf("\n");
    /* the monitor's public view must agree with its private state */
    parsec_termdet_taskpool_state_t pub = M->module.taskpool_state(&R[q].tp);
    int s = m->state;
    int want = s == NR ? PARSEC_TERM_TP_NOT_READY : s == TM ? PARSEC_TERM_TP_TERMINATED :
               (s == PARSEC_TERMDET_FOURCOUNTER_BUSY_WAITING_FOR_CHILDREN || s == PARSEC_TERMDET_FOURCOUNTER_BUSY_WAITING_FOR_PARENT) ? PARSEC_TERM_TP_BUSY : PARSEC_TERM_TP_IDLE;
    if( (int)pub != want ) printf("!viol C11 taskpool_state reports %d for monitor state %s\n", (int)pub, stcode(s));
}
static int may_work(int q, int neww) { return !(wl(q) == 0 && neww > 0) || st(q) == NR || R[q].opn > 0; }

/* one operation; prints exactly one transcript line */
static void do_op(const char *line)
{
    char op[32] = ""; long a = 0, b = 0; char extra[8];
    char clean[128]; snprintf(clean, sizeof(clean), "%s", line);
    for(char *c = clean; *c; c++) if( *c == '\n' || *c == '\r' ) *c = 0;
    int nf = sscanf(clean, "%31s %ld %ld %7s", op, &a, &b, extra);
    if( nf < 1 ) return;
    if( !strcmp(op, "case") && nf == 2 ) { fini(); printf("%s => ok\n", clean); return; }
    if( !strcmp(op, "init") && nf == 2 ) {
        if( a < 0 ) { printf("%s => bad-op\n", clean); return; }
        if( a < 1 || a > MAXN ) { printf("%s => rejected\n", clean); return; }
        init((int)a); printf("%s => ok\n", clean); return;
    }
    if( !strcmp(op, "dump") && nf == 1 ) {
        printf("%s => ", clean);
        if( N == 0 ) printf("-");
        for(int q = 0; q < N; q++) printf("%s%s", q ? " " : "", stcode(st(q)));
        printf(" | "); net_print(0); printf("\n"); return;
    }
    int unary = !strcmp(op, "ready") || !strcmp(op, "rstart") || !strcmp(op, "rend") || !strcmp(op, "deliver");
    int binary = !strcmp(op, "sett") || !strcmp(op, "setpa") || !strcmp(op, "addt") || !strcmp(op, "addpa") || !strcmp(op, "send");
    if( !(unary && nf == 2) && !(binary && nf == 3) ) { printf("%s => bad-op\n", clean); return; }
    if( a < 0 || ((!strcmp(op, "sett") || !strcmp(op, "setpa") || !strcmp(op, "send")) && b < 0) ) { printf("%s => bad-op\n", clean); return; }
    if( a > 1000000 || b > 1000000 || b < -1000000 ) { printf("%s => rejected\n", clean); return; }
    int p = (int)a, from = nnet;
    if( !strcmp(op, "ready") ) {
        if( p >= N || st(p) != NR ) goto rejected;
        enter_rank(p); M->module.taskpool_ready(&R[p].tp); leave_rank(p);
        if( R[p].ndelayed ) printf("!viol C11 rank %d: %d delayed messages left after taskpool_ready\n", p, R[p].ndelayed);
        for(int k = 0; k < nnet; ) {                       /* the replayed messages leave the network */
            if( net[k].held && net[k].dst == p ) { net_erase(k); from--; } else k++;
        }
        outcome(clean, p, from); return;
    }
    if( !strcmp(op, "sett") || !strcmp(op, "setpa") ) {
        int t = !strcmp(op, "sett");
        if( p >= N || st(p) == TM ) goto rejected;
        if( !may_work(p, t ? (int)b + R[p].tp.nb_pending_actions : R[p].tp.nb_tasks + (int)b) ) goto rejected;
        enter_rank(p);
        if( t ) M->module.taskpool_set_nb_tasks(&R[p].tp, (int)b); else M->module.taskpool_set_runtime_actions(&R[p].tp, (int)b);
        leave_rank(p);
        outcome(clean, p, from); return;
    }
    if( !strcmp(op, "addt") || !strcmp(op, "addpa") ) {
        int t = !strcmp(op, "addt");
        if( p >= N || st(p) == TM ) goto rejected;
        int cur = t ? R[p].tp.nb_tasks : R[p].tp.nb_pending_actions, oth = t ? R[p].tp.nb_pending_actions : R[p].tp.nb_tasks;
        if( cur + b < 0 || !may_work(p, (int)(cur + b) + oth) ) goto rejected;
        enter_rank(p);
        int ret = t ? M->module.taskpool_addto_nb_tasks(&R[p].tp, (int)b) : M->module.taskpool_addto_runtime_actions(&R[p].tp, (int)b);
        leave_rank(p);
        if( ret != cur + b ) printf("!viol C11 %s returned %d, expected %ld\n", op, ret, cur + b);
        outcome(clean, p, from); return;
    }
    if( !strcmp(op, "send") ) {
        int q = (int)b;
        if( p >= N || q >= N || p == q || st(p) == TM || wl(p) <= 0 ) goto rejected;
        enter_rank(p);
        int go = M->module.outgoing_message_start(&R[p].tp, q, NULL);
        int pos = 0; M->module.outgoing_message_pack(&R[p].tp, q, NULL, &pos, 0);
        leave_rank(p);
        if( !go ) printf("!viol C11 outgoing_message_start refused the message\n");
        if( pos != 0 ) printf("!viol C11 outgoing_message_pack piggybacked %d bytes\n", pos);
        pkt_t k; memset(&k, 0, sizeof(k)); k.src = p; k.dst = q; k.kind = 2; net_push(k);
        outcome(clean, p, from); return;
    }
    if( !strcmp(op, "rstart") ) {
        if( p >= nnet || net[p].kind != 2 ) goto rejected;
        int q = net[p].dst, src = net[p].src;
        if( st(q) == NR || st(q) == TM ) goto rejected;
        net_erase(p);
        enter_rank(q);
        int pos = 0; M->module.incoming_message_start(&R[q].tp, src, NULL, &pos, 0, NULL);
        leave_rank(q);
        R[q].opn++;
        outcome(clean, q, from - 1); return;
    }
    if( !strcmp(op, "rend") ) {
        if( p >= N || R[p].opn <= 0 || st(p) == NR || st(p) == TM ) goto rejected;
        enter_rank(p); M->module.incoming_message_end(&R[p].tp, NULL); leave_rank(p);
        R[p].opn--;
        outcome(clean, p, from); return;
    }
    if( !strcmp(op, "deliver") ) {
        if( p >= nnet || net[p].kind == 2 || net[p].held ) goto rejected;
        pkt_t k = net[p]; int q = k.dst;
        if( q < 0 || q >= N ) goto rejected;
        int was = R[q].ndelayed, wasnr = (st(q) == NR);
        net_erase(p);
        enter_rank(q);
        if( k.kind == 0 ) {
            parsec_termdet_fourcounter_msg_up_t u; u.msg_type = PARSEC_TERMDET_FOURCOUNTER_MSG_TYPE_UP; u.tp_id = shared_id; u.nb_sent = k.a; u.nb_received = k.b;
            parsec_termdet_fourcounter_msg_dispatch(&parsec_ce, PARSEC_TERMDET_FOURCOUNTER_MSG_TAG, &u, sizeof(u), k.src, NULL);
        } else {
            parsec_termdet_fourcounter_msg_down_t d; d.msg_type = PARSEC_TERMDET_FOURCOUNTER_MSG_TYPE_DOWN; d.tp_id = shared_id; d.result = k.a;
            parsec_termdet_fourcounter_msg_dispatch(&parsec_ce, PARSEC_TERMDET_FOURCOUNTER_MSG_TAG, &d, sizeof(d), k.src, NULL);
        }
        leave_rank(q);
        if( R[q].ndelayed == was + 1 ) {                   /* the module delayed it */
            if( !wasnr ) printf("!viol C11 message delayed by a monitor that was ready\n");
            k.held = 1; net_push(k); printf("%s => held\n", clean); return;
        }
        if( wasnr ) printf("!viol C11 message handled by a monitor that was not ready\n");
        outcome(clean, q, from - 1); return;
    }
rejected:
    printf("%s => rejected\n", clean);
}

/* ---------------------------------------------------------------- generated cases */
static void opf(const char *fmt, long a, long b) { char l[96]; snprintf(l, sizeof(l), fmt, a, b); do_op(l); }

static int pick_net(pv_rng_t *g, int want_app)
{
    int c = 0, sel = -1;
    for(int k = 0; k < nnet; k++) {
        int ok = want_app ? (net[k].kind == 2 && st(net[k].dst) != NR && st(net[k].dst) != TM) : (net[k].kind != 2 && !net[k].held);
        if( ok && pv_below(g, ++c) == 0 ) sel = k;
    }
    return sel;
}

static void gen_case(pv_rng_t *g, int k, int maxn, int len)
{
    int n = (k % 7 == 0) ? 1 + k / 7 % maxn : (int)pv_range(g, 1, maxn);
    if( n > maxn ) n = maxn;
    opf("case %ld", k, 0); opf("init %ld", n, 0);
    int lazy = pv_below(g, 12) == 0;          /* some taskpools become ready without startup work */
    int eager_ctl = (int)pv_below(g, 3);      /* bias: 0 deliver control fast, 2 slowly */
    for(int q = 0; q < n; q++) {
        if( lazy && pv_below(g, 3) == 0 ) continue;
        if( pv_below(g, 2) ) opf("addpa %ld %ld", q, 1 + (long)pv_below(g, 2)); else opf("addt %ld %ld", q, 1 + (long)pv_below(g, 3));
        if( pv_below(g, 4) == 0 ) opf("addt %ld %ld", q, 1);
    }
    for(int i = 0; i < len; i++) {
        int r = (int)pv_below(g, 100), q = (int)pv_below(g, n), k2;
        if( r < 10 ) { if( st(q) == NR ) opf("ready %ld", q, 0); else if( (k2 = pick_net(g, 0)) >= 0 ) opf("deliver %ld", k2, 0); }
        else if( r < 30 + 10 * (2 - eager_ctl) ) {
            if( (k2 = pick_net(g, 0)) >= 0 ) opf("deliver %ld", k2, 0);
        }
        else if( r < 62 ) {                    /* application progress on a process that has work */
            if( st(q) == TM ) continue;
            if( wl(q) > 0 ) {
                int c = (int)pv_below(g, 10);
                if( st(q) == NR && !lazy && wl(q) == 1 && c >= 4 ) c = 6;   /* keep the startup work until ready */
                if( c < 4 && n > 1 ) { int d = (int)pv_below(g, n - 1); if( d >= q ) d++; opf("send %ld %ld", q, d); }
                else if( c < 6 ) { if( R[q].tp.nb_tasks > 0 ) opf("addt %ld %ld", q, -1); else opf("addpa %ld %ld", q, -1); }
                else if( c < 7 ) opf("addt %ld %ld", q, 1);
                else if( c < 8 ) opf("addpa %ld %ld", q, pv_below(g, 2) ? 1 : -(long)(R[q].tp.nb_pending_actions > 0));
                else if( c < 9 ) opf("sett %ld %ld", q, (long)pv_below(g, 3) * (R[q].tp.nb_pending_actions > 0 || pv_below(g, 2)));
                else opf("setpa %ld %ld", q, (long)pv_below(g, 3));
            } else if( R[q].opn > 0 ) opf(pv_below(g, 2) ? "addt %ld %ld" : "addpa %ld %ld", q, 1);
            else if( pv_below(g, 6) == 0 ) opf("addt %ld %ld", q, pv_below(g, 2));   /* mostly rejected: work out of nothing */
        }
        else if( r < 80 ) { if( (k2 = pick_net(g, 1)) >= 0 ) { int d = net[k2].dst; opf("rstart %ld", k2, 0); if( pv_below(g, 3) ) opf("addt %ld %ld", d, 1); } }
        else if( r < 92 ) { if( R[q].opn > 0 ) opf("rend %ld", q, 0); }
        else if( r < 96 ) { if( st(q) != TM && (st(q) != NR || lazy || R[q].tp.nb_pending_actions > 0) ) opf("sett %ld %ld", q, 0); }
        else if( r < 98 ) { if( st(q) != TM && (st(q) != NR || lazy || R[q].tp.nb_tasks > 0) ) opf("setpa %ld %ld", q, 0); }
        else opf("dump", 0, 0);
    }
    /* drain: everything becomes ready, the application finishes, the network empties */
    for(int q = 0; q < n; q++) if( st(q) == NR ) opf("ready %ld", q, 0);
    for(int round = 0; round < 100000; round++) {          /* phase 1: the application finishes */
        int k2, progress = 0;
        while( (k2 = pick_net(g, 1)) >= 0 ) { opf("rstart %ld", k2, 0); progress = 1; }
        for(int q = 0; q < n; q++) {
            if( st(q) == TM ) continue;
            if( R[q].opn > 0 ) {
                if( wl(q) == 0 ) opf("addpa %ld %ld", q, 1);
                while( R[q].opn > 0 ) opf("rend %ld", q, 0);
                progress = 1;
            }
            if( R[q].tp.nb_tasks > 0 ) { if( pv_below(g, 2) ) opf("sett %ld %ld", q, 0); else opf("addt %ld %ld", q, -(long)R[q].tp.nb_tasks); progress = 1; }
            if( R[q].tp.nb_pending_actions > 0 ) { if( pv_below(g, 2) ) opf("setpa %ld %ld", q, 0); else opf("addpa %ld %ld", q, -(long)R[q].tp.nb_pending_actions); progress = 1; }
        }
        if( !progress ) break;
    }
    printf("#xp\n");                                       /* quiescent (unless a monitor is stuck busy): exploration point */
    {   /* phase 2: the control protocol runs alone; it must stop by itself (bound 7(n-1), see notes) */
        int k2, budget = 16 * n + 16;
        while( (k2 = pick_net(g, 0)) >= 0 && budget-- > 0 ) opf("deliver %ld", k2, 0);
        if( k2 >= 0 ) printf("!viol C11-live control messages keep flowing after %d deliveries in a quiescent run of %d processes\n", 16 * n + 16, n);
    }
    opf("dump", 0, 0);
    pv_stat("gen_cases", 1); pv_stat("gen_ranks", n);
}

int main(int argc, char **argv)
{
    rank_t dummy; memset(&dummy, 0, sizeof(dummy));
    PARSEC_OBJ_CONSTRUCT(&parsec_termdet_fourcounter_delayed_messages, parsec_list_t);
    parsec_ce.send_am = stub_send_am;
    shared_id = (uint32_t)parsec_taskpool_reserve_id(&dummy.tp);
    setvbuf(stdout, NULL, _IOFBF, 1 << 16);
    if( argc >= 5 && !strcmp(argv[1], "gen") ) {
        pv_rng_t rng = { pv_seed_from_env() };
        int ncases = atoi(argv[2]), maxn = atoi(argv[3]), len = atoi(argv[4]);
        for(int k = 0; k < ncases; k++) { pv_rng_t g = pv_fork(&rng, k); gen_case(&g, k, maxn, (int)pv_range(&g, len / 4, len)); fflush(stdout); }
    } else {
        char line[256];
        while( fgets(line, sizeof(line), stdin) ) { do_op(line); fflush(stdout); }
    }
    fini();
    return 0;
}
