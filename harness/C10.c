/* C10 harness: the REAL local termination detector (parsec_termdet_local_module.module.*) on a
 * fabricated taskpool, driven by N script threads under the cooperative scheduler.
 *
 * stdin lines:  case <k> <op>... / <op>... / ... | [pre <p> ;] <rng SEED | dfs MAX | replay t0 t1 ... | stress ROUNDS>
 *   ops:  R (taskpool_ready)  T+n T-n (addto_nb_tasks)  A+n A-n (addto_runtime_actions)
 *         STn (set_nb_tasks)  SAn (set_runtime_actions)  Q (taskpool_state)
 *         pXn / gXn  X in T,A,K : harness-level hand-over pool (put / take-or-quit); no PaRSEC code
 *   pre p: thread 0 runs alone until it has completed its first p ops (sequential set-up phase)
 * A thread parks (kind "idle") between two calls; every atomic primitive of the real code is a park point.
 * One line per step:  step t => <park> m=<monitor> nt= npa= cb=<callbacks> rc=<refcount-base> ret=<last return value>
 */
#include "parsec/parsec_config.h"
#include "parsec/parsec_internal.h"
#include "parsec/runtime.h"
#include "parsec/include/parsec/execution_stream.h"
#include "parsec/mca/termdet/termdet.h"
#include "parsec/mca/termdet/local/termdet_local.h"
#include "pv.h"
#include "ctl_sched.h"

#define MAXOPS 64
#define RC_BASE 1000
#define K_IDLE 99
enum { O_READY, O_ADDT, O_ADDA, O_SETT, O_SETA, O_STATE, O_PUT, O_TAKE };
typedef struct { int kind, c, v; } op_t;

static const parsec_termdet_module_t *M = &parsec_termdet_local_module;
static parsec_taskpool_t *tp;
static volatile int cbs, cb_nt, cb_npa;
static op_t ops[CTL_MAXT][MAXOPS];
static int nops[CTL_MAXT], nthreads;
static volatile int opidx[CTL_MAXT], retv[CTL_MAXT];
static volatile int pool[3];
static pthread_mutex_t pool_mx = PTHREAD_MUTEX_INITIALIZER;
static int pre_ops;
static volatile int acc_t[CTL_MAXT], acc_a[CTL_MAXT], acc_r[CTL_MAXT];   /* per thread: net units added by executed calls, ready executed */

static void term_cb(parsec_taskpool_t *t) { cb_nt = t->nb_tasks; cb_npa = t->nb_pending_actions; cbs++; }
static void term_cb_atomic(parsec_taskpool_t *t) { cb_nt = t->nb_tasks; cb_npa = t->nb_pending_actions; __sync_fetch_and_add(&cbs, 1); }

static int monv(void) { return (int)(intptr_t)tp->tdm.monitor; }
static int refc(void) { return ((parsec_object_t*)tp)->obj_reference_count - RC_BASE; }

static void reset_tp(parsec_termdet_termination_detected_function_t cb)
{
    memset(tp, 0, sizeof *tp);
    ((parsec_object_t*)tp)->obj_reference_count = RC_BASE;   /* never reaches 0: OBJ_RELEASE cannot free */
    tp->tdm.module = &M->module;
    M->module.monitor_taskpool(tp, cb);
    cbs = 0; cb_nt = cb_npa = 0;
    pool[0] = pool[1] = 0; pool[2] = 1;                       /* the set-up token starts in the pool */
    for(int i = 0; i < CTL_MAXT; i++) { opidx[i] = 0; retv[i] = 0; acc_t[i] = acc_a[i] = acc_r[i] = 0; }
}

static int parse_op(const char *w, op_t *o)
{
    char *e; long n;
    const char *kinds = "TAK", *p;
    memset(o, 0, sizeof *o);
    if( !strcmp(w, "R") ) { o->kind = O_READY; return 1; }
    if( !strcmp(w, "Q") ) { o->kind = O_STATE; return 1; }
    if( (w[0] == 'p' || w[0] == 'g') && w[1] && (p = strchr(kinds, w[1])) && w[2] >= '0' && w[2] <= '9' ) {
        n = strtol(w + 2, &e, 10); if( *e ) return 0;
        o->kind = w[0] == 'p' ? O_PUT : O_TAKE; o->c = (int)(p - kinds); o->v = (int)n; return 1;
    }
    if( w[0] == 'S' && (w[1] == 'T' || w[1] == 'A') && w[2] ) {
        if( !((w[2] >= '0' && w[2] <= '9') || ((w[2] == '-' || w[2] == '+') && w[3] >= '0' && w[3] <= '9')) ) return 0;
        n = strtol(w + 2, &e, 10); if( *e ) return 0;
        o->kind = w[1] == 'T' ? O_SETT : O_SETA; o->v = (int)n; return 1;
    }
    if( (w[0] == 'T' || w[0] == 'A') && (w[1] == '+' || w[1] == '-') && w[2] >= '0' && w[2] <= '9' ) {
        n = strtol(w + 2, &e, 10); if( *e ) return 0;
        o->kind = w[0] == 'T' ? O_ADDT : O_ADDA; o->v = w[1] == '-' ? -(int)n : (int)n; return 1;
    }
    return 0;
}

/* executes one op with the real module functions; returns 0 when the thread must stop (failed take) */
static int exec_op(int tid, const op_t *o)
{
    switch( o->kind ) {
    case O_READY: acc_r[tid] = 1; retv[tid] = M->module.taskpool_ready(tp); break;
    case O_ADDT:  acc_t[tid] += o->v; retv[tid] = M->module.taskpool_addto_nb_tasks(tp, o->v); break;
    case O_ADDA:  acc_a[tid] += o->v; retv[tid] = M->module.taskpool_addto_runtime_actions(tp, o->v); break;
    case O_SETT:  retv[tid] = M->module.taskpool_set_nb_tasks(tp, o->v); break;
    case O_SETA:  retv[tid] = M->module.taskpool_set_runtime_actions(tp, o->v); break;
    case O_STATE: retv[tid] = (int)M->module.taskpool_state(tp); break;
    case O_PUT:
        pthread_mutex_lock(&pool_mx); pool[o->c] += o->v; pthread_mutex_unlock(&pool_mx);
        retv[tid] = 1; break;
    case O_TAKE: {
        int ok;
        pthread_mutex_lock(&pool_mx);
        ok = pool[o->c] >= o->v; if( ok ) pool[o->c] -= o->v;
        pthread_mutex_unlock(&pool_mx);
        retv[tid] = ok; if( !ok ) return 0;
        break; }
    }
    return 1;
}

static void body(int tid, void *arg)
{
    (void)arg;
    for(int i = 0; i < nops[tid]; i++) {
        opidx[tid] = i;
        if( i > 0 ) ctl_yield_cb(K_IDLE, NULL);          /* park between two calls */
        if( !exec_op(tid, &ops[tid][i]) ) break;
    }
    opidx[tid] = MAXOPS + 1;
}

static const char *park(int tid)
{
    int k = ctl_kind_of(tid);
    volatile void *a = ctl_cur ? ctl_cur->addr[tid] : NULL;
    const char *w = a == (void*)&tp->tdm.monitor ? "mon" : a == (void*)&tp->nb_tasks ? "nt" :
                    a == (void*)&tp->nb_pending_actions ? "npa" : a == (void*)&((parsec_object_t*)tp)->obj_reference_count ? "rc" : "other";
    static __thread char buf[32];
    if( k == CTL_K_DONE ) return "done";
    if( k == CTL_K_START || k == K_IDLE ) return "idle";
    snprintf(buf, sizeof buf, "%s:%s", k == PARSEC_VERIF_K_CAS ? "cas" : k == PARSEC_VERIF_K_RMW ? "rmw" : "other", w);
    return buf;
}

static char endline[CTL_MAXT * 12 + 8];
static void observe(void *o, int step, int t)
{
    (void)o; (void)step;
    printf("step %d => %s m=%d nt=%d npa=%d cb=%d rc=%d ret=%d\n", t, park(t), monv(), (int)tp->nb_tasks, (int)tp->nb_pending_actions, cbs, refc(), retv[t]);
    char *p = endline; p += sprintf(p, "[");
    for(int i = 0; i < nthreads; i++) p += sprintf(p, "%s%s", i ? " " : "", park(i));
    sprintf(p, "]");
}

/* choosers wrapped by the sequential set-up prefix: thread 0 alone until it completed pre_ops ops */
typedef struct { ctl_choose_t inner; void *ictx; } pre_t;
static int choose_pre(void *cctx, int step, int ne, const int *enabled)
{
    pre_t *p = (pre_t*)cctx;
    if( opidx[0] < pre_ops ) for(int i = 0; i < ne; i++) if( enabled[i] == 0 ) return i;
    return p->inner(p->ictx, step, ne, enabled);
}
/* DFS odometer indexed by decision number (forced prefix steps are not decisions) */
typedef struct { int choice[CTL_DFS_MAX], width[CTL_DFS_MAX]; int depth, len, cur; } dfs2_t;
static int choose_dfs2(void *cctx, int step, int ne, const int *enabled)
{
    dfs2_t *d = (dfs2_t*)cctx; (void)enabled; (void)step;
    int k = d->cur++;
    if( k >= CTL_DFS_MAX ) return -1;
    if( k >= d->len ) { d->choice[k] = 0; d->len = k + 1; }
    d->width[k] = ne; d->depth = k + 1;
    return d->choice[k] < ne ? d->choice[k] : ne - 1;
}
static int dfs2_next(dfs2_t *d)
{
    int i = d->depth - 1;
    while( i >= 0 && d->choice[i] + 1 >= d->width[i] ) i--;
    if( i < 0 ) return 0;
    d->choice[i]++; d->len = i + 1; d->cur = 0;
    return 1;
}

static void one_run(const char *caseline, ctl_choose_t ch, void *cctx)
{
    int sched[512], complete;
    pre_t p = { ch, cctx };
    reset_tp(term_cb);
    printf("%s => ok n=%d\n", caseline, nthreads);
    strcpy(endline, "[");
    for(int i = 0; i < nthreads; i++) { strcat(endline, i ? " " : ""); strcat(endline, nops[i] ? "idle" : "done"); }
    strcat(endline, "]");
    ctl_run(nthreads, body, NULL, choose_pre, &p, observe, NULL, 500, sched, &complete);
    printf("end => %s\n", endline);
    printf("proto => ?\n");
    if( cbs > 0 ) printf("#cbobs nt=%d npa=%d\n", cb_nt, cb_npa);
    if( !complete ) pv_stat("incomplete_runs", 1);
}

/* free-running search: the same scripts with really concurrent threads, many rounds; end-state oracle only */
static pthread_barrier_t bar, bar2;
static int s_rounds;
static void *stress_worker(void *p)
{
    int tid = (int)(intptr_t)p;
    for(int r = 0; r < s_rounds; r++) {
        int i = 0, quit = 0;
        pthread_barrier_wait(&bar);                       /* round start (main has reset the taskpool) */
        if( 0 == tid ) for(; i < pre_ops && i < nops[0] && !quit; i++) quit = !exec_op(0, &ops[0][i]);   /* sequential set-up */
        pthread_barrier_wait(&bar2);
        for(; i < nops[tid] && !quit; i++) quit = !exec_op(tid, &ops[tid][i]);
        pthread_barrier_wait(&bar);                       /* round end (main checks) */
    }
    return NULL;
}
static void stress(const char *caseline, int rounds)
{
    long term = 0, nonterm = 0, bad = 0;
    pthread_t th[CTL_MAXT];
    s_rounds = rounds;
    pthread_barrier_init(&bar, NULL, nthreads + 1);
    pthread_barrier_init(&bar2, NULL, nthreads);
    for(int i = 0; i < nthreads; i++) pthread_create(&th[i], NULL, stress_worker, (void*)(intptr_t)i);
    for(int r = 0; r < rounds; r++) {
        reset_tp(term_cb_atomic);
        pthread_barrier_wait(&bar);
        pthread_barrier_wait(&bar);
        int m = monv(), nt = tp->nb_tasks, npa = tp->nb_pending_actions;
        const char *what = NULL;
        if( cbs > 1 ) what = "termination callback ran more than once";
        else if( cbs == 1 && (cb_nt != 0 || cb_npa != 0) ) what = "termination callback ran while a counter was non-zero";
        else if( (m == 0 || m == 3) && (nt != 0 || npa != 0) ) what = "reported terminated with a non-zero counter";
        else if( m == 3 ) what = "left in TERMINATING after all calls returned";
        else if( m == 0 && cbs != 1 ) what = "TERMINATED without exactly one callback";
        else if( m == 2 && nt == 0 && npa == 0 ) what = "ready, both counters zero, all calls returned, but termination not reported";
        else if( refc() != 0 && m == 0 ) what = "reference count not balanced after termination";
        else {   /* what the counters mean (scripts without set_*): units added minus units released by the executed calls */
            int et = 0, ea = 0, er = 0;
            for(int i = 0; i < nthreads; i++) { et += acc_t[i]; ea += acc_a[i]; er |= acc_r[i]; }
            if( nt != et || npa != ea + (et > 0) ) what = "counters do not match the units outstanding after all calls returned";
            else if( er && 0 == et && 0 == ea && !(m == 0 && cbs == 1) ) what = "ready called, every unit released, all calls returned, but termination not reported";
        }
        if( what ) { if( !bad ) printf("!viol C10 free-running %s round %d: %s (monitor=%d nb_tasks=%d nb_pending_actions=%d callbacks=%d, at callback nt=%d npa=%d)\n", caseline, r, what, m, nt, npa, cbs, cb_nt, cb_npa); bad++; }
        if( m == 0 ) term++; else nonterm++;
    }
    for(int i = 0; i < nthreads; i++) pthread_join(th[i], NULL);
    pthread_barrier_destroy(&bar); pthread_barrier_destroy(&bar2);
    printf("%s => stress rounds=%d\n", caseline, rounds);
    pv_stat("stress_rounds", rounds); pv_stat("stress_terminated", term); pv_stat("stress_not_terminated", nonterm); pv_stat("stress_bad", bad);
}

int main(void)
{
    static char line[8192], caseline[8192];
    tp = calloc(1, sizeof *tp);
    setvbuf(stdout, NULL, _IOFBF, 1 << 20);
    while( fgets(line, sizeof line, stdin) ) {
        line[strcspn(line, "\n")] = 0;
        char *barp = strstr(line, " | ");
        if( !barp ) { printf("%s => bad-op\n", line); continue; }
        *barp = 0; strcpy(caseline, line); strcat(caseline, " |");
        char *pol = barp + 3;
        int nt = 0, bad = 0; char *tok[256];
        for(char *p = strtok(line, " "); p && nt < 256; p = strtok(NULL, " ")) tok[nt++] = p;
        if( nt < 2 || strcmp(tok[0], "case") ) { printf("%s => bad-op\n", caseline); continue; }
        nthreads = 1; memset(nops, 0, sizeof nops);
        for(int i = 2; i < nt && !bad; i++) {
            if( !strcmp(tok[i], "/") ) { if( ++nthreads > CTL_MAXT ) bad = 1; continue; }
            if( nops[nthreads-1] >= MAXOPS || !parse_op(tok[i], &ops[nthreads-1][nops[nthreads-1]]) ) bad = 1;
            else nops[nthreads-1]++;
        }
        if( bad ) { printf("%s => bad-op\n", caseline); continue; }
        pre_ops = 0;
        if( !strncmp(pol, "pre ", 4) ) { pre_ops = atoi(pol + 4); char *s = strstr(pol, "; "); if( !s ) { printf("%s => bad-op\n", caseline); continue; } pol = s + 2; }
        if( !strncmp(pol, "rng ", 4) ) {
            pv_rng_t r = { strtoull(pol + 4, NULL, 10) };
            one_run(caseline, ctl_choose_rng, &r);
        } else if( !strncmp(pol, "dfs ", 4) ) {
            long max = atol(pol + 4), cnt = 0; dfs2_t *d = calloc(1, sizeof *d);
            do { d->cur = 0; one_run(caseline, choose_dfs2, d); cnt++; } while( cnt < max && dfs2_next(d) );
            pv_stat("dfs_schedules", cnt);
            if( cnt < max ) pv_stat("dfs_exhausted_spaces", 1); else pv_stat("dfs_truncated_spaces", 1);
            free(d);
        } else if( !strncmp(pol, "replay", 6) ) {
            int sc[512], len = 0; char *p = pol + 6;
            while( *p && len < 512 ) { while( *p == ' ' ) p++; if( !*p ) break; sc[len++] = atoi(p); while( *p && *p != ' ' ) p++; }
            ctl_replay_t rp = { sc, len };
            pre_ops = 0;
            one_run(caseline, ctl_choose_replay, &rp);
        } else if( !strncmp(pol, "stress ", 7) ) {
            stress(caseline, atoi(pol + 7));
        } else printf("%s => bad-op\n", caseline);
    }
    return 0;
}
