/* C38 harness: executes an operation script (stdin) on the real MCA parameter system
 * (parsec/utils/mca_param.c, mca_parse_paramfile.c, keyval_parse.c, cmd_line.c, mca_param_cmd_line.c)
 * and prints a transcript `op => result`.
 *
 *   case k                         finalize the registry, clear every PARSEC_MCA_* variable, delete the files
 *   home <str|null>                set / unset $HOME (only before the registry is initialised)
 *   file i n=v n=v ...             write parameter file F<i> (cwd) with lines `n = v`; `n=` writes `n =` (NULL value)
 *   rmfile i
 *   env name <str>                 setenv PARSEC_MCA_<name>
 *   unenv name
 *   init                           parsec_mca_param_init()
 *   recache                        parsec_mca_param_recache_files()
 *   reg t tname pname ro dflt look parsec_mca_param_reg_{int,sizet,string}_name   (t = i|z|s, tname `-` = NULL)
 *   syn idx tname pname depr       parsec_mca_param_reg_syn_name
 *   set idx v / unset idx          parsec_mca_param_set_{int,sizet,string} / parsec_mca_param_unset
 *   get idx                        parsec_mca_param_lookup_{int,sizet,string} + parsec_mca_param_lookup_source
 *   args tok tok ...               what parsec_init does with its argument vector: parsec_cmd_line_parse,
 *                                  parsec_mca_cmd_line_process_args, copy of the context environment into environ
 *   genv name                      getenv PARSEC_MCA_<name>
 * In mode `e2e` the op `pinit tok ...` calls the real parsec_init(1, &argc, &argv) instead of init+args.
 *
 * Strings are written `=text` (`^` = space, `|` = tab, `=` alone = empty string) or `null`.
 * Calls outside the API precondition are not issued: the harness prints `rejected`, and so does the model. */
#include "parsec/parsec_config.h"
#include "parsec/runtime.h"
#include "parsec/constants.h"
#include "parsec/utils/mca_param.h"
#include "parsec/utils/mca_param_cmd_line.h"
#include "parsec/utils/cmd_line.h"
#include "parsec/utils/parsec_environ.h"
#include "parsec/utils/installdirs.h"
#include "parsec/utils/show_help.h"
#include "parsec/utils/argv.h"
#include "pv.h"
#include <stdarg.h>
#include <unistd.h>
#include <ctype.h>
#if defined(PARSEC_HAVE_MPI)
#include <mpi.h>
#endif

extern char **environ;

#define MAXP 256
#define MAXW 64
static int inited = 0;
static char ptype[MAXP];       /* type of each registered parameter, by relative index */
static int nparams = 0;        /* number of parameters (relative indices 0 .. nparams-1) */
static int base = 1;           /* real index of relative index 1 */
static int warn_ro = 0;
static int e2e = 0;
static parsec_context_t *ctx = NULL;

static int stub_show_help(const char *filename, const char *topic, int want_error_header, ...)
{
    (void)filename; (void)want_error_header;
    if( 0 == strcmp(topic, "read-only-param-set") ) warn_ro++;
    return PARSEC_SUCCESS;
}

static int real_idx(int rel) { return rel == 0 ? 0 : rel + base - 1; }
static int rel_idx(int real) { return real <= 0 ? real : real - base + 1; }

/* decode a string token; returns 0 on malformed, 1 for a string (in *out, malloc'ed), 2 for null */
static int decode(const char *tok, char **out)
{
    *out = NULL;
    if( 0 == strcmp(tok, "null") ) return 2;
    if( tok[0] != '=' ) return 0;
    char *s = strdup(tok + 1);
    for(char *p = s; *p; p++) { if( *p == '^' ) *p = ' '; else if( *p == '|' ) *p = '\t'; }
    *out = s;
    return 1;
}

static void print_str(const char *s)
{
    if( NULL == s ) { printf("null"); return; }
    size_t n = strlen(s);
    if( n >= 22 && 0 == strcmp(s + n - 22, "parsec-mca-params.conf") ) { printf("=DEFAULTFILES"); return; }
    putchar('=');
    for(; *s; s++) putchar(*s == ' ' ? '^' : *s == '\t' ? '|' : *s);
}

static int name_ok(const char *n)
{
    if( !*n ) return 0;
    for(; *n; n++) if( !(isalnum((unsigned char)*n) || *n == '_' || *n == '-' || *n == '.') ) return 0;
    return 1;
}

static int fileval_ok(const char *v)
{
    size_t n = strlen(v);
    if( n == 0 ) return 1;
    if( v[0] == ' ' || v[0] == '\t' || v[n-1] == ' ' || v[n-1] == '\t' ) return 0;
    for(; *v; v++) if( *v == '#' || *v == '\n' || *v == '\f' || *v == '\v' ) return 0;
    return 1;
}

static void clear_env(void)
{
    for(;;) {
        int found = 0;
        for(char **e = environ; e && *e; e++) {
            if( 0 == strncmp(*e, "PARSEC_MCA_", 11) ) {
                char *eq = strchr(*e, '=');
                char *n = eq ? strndup(*e, (size_t)(eq - *e)) : strdup(*e);
                unsetenv(n); free(n); found = 1; break;
            }
        }
        if( !found ) break;
    }
}

static void reset(void)
{
    char f[8];
    if( ctx ) { parsec_fini(&ctx); ctx = NULL; }
    parsec_mca_param_finalize();
    parsec_show_help = stub_show_help;
    inited = 0; nparams = 0; base = 1;
    clear_env();
    for(int i = 0; i < 4; i++) { snprintf(f, sizeof f, "F%d", i); unlink(f); }
    setenv("HOME", "/hm", 1);
}

static void after_init(void)
{
    if( !inited ) { inited = 1; nparams = 1; ptype[0] = 's'; }
}

static void do_get(int rel)
{
    int idx = real_idx(rel), rc = 0, rc2;
    parsec_mca_param_source_t src = MCA_PARAM_SOURCE_MAX;
    char *sf = NULL;
    static const char *sn[] = { "default", "env", "file", "override", "max" };
    warn_ro = 0;
    if( ptype[rel] == 'i' ) {
        int v = -12345;
        rc = parsec_mca_param_lookup_int(idx, &v);
        printf("%d ", rc);
        rc2 = parsec_mca_param_lookup_source(idx, &src, &sf);
        printf("%s %d", sn[src], v);
    } else if( ptype[rel] == 'z' ) {
        size_t v = 12345;
        rc = parsec_mca_param_lookup_sizet(idx, &v);
        printf("%d ", rc);
        rc2 = parsec_mca_param_lookup_source(idx, &src, &sf);
        printf("%s %zu", sn[src], v);
    } else {
        char *v = NULL;
        rc = parsec_mca_param_lookup_string(idx, &v);
        printf("%d ", rc);
        rc2 = parsec_mca_param_lookup_source(idx, &src, &sf);
        printf("%s ", sn[src]);
        print_str(v);
        free(v);
    }
    printf(" f=%s w=%d", sf ? sf : "-", warn_ro > 0);
    if( rc2 != rc ) printf(" source-rc=%d", rc2);
    printf("\n");
}

/* the argument handling of parsec_init (parsec/parsec.c), with the library's own functions */
static int do_args(int argc, char **argv)
{
    int ret = 0;
    char **ctx_environ = NULL, **env_variable, *env_name, *env_value;
    parsec_cmd_line_t *cmd_line = PARSEC_OBJ_NEW(parsec_cmd_line_t);
    parsec_cmd_line_make_opt3(cmd_line, '\0', NULL, "parsec-version", 0, "Show the version text.");
    parsec_cmd_line_make_opt3(cmd_line, '\0', NULL, "parsec-help", 0, "Show the usage text.");
    parsec_mca_cmd_line_setup(cmd_line);
    if( argc != 0 ) {
        int start = 0;
        if( 0 == strcmp(argv[0], "--") || '-' != argv[0][0] ) start = 1;
        int cargc = argc - start + 1;
        char **cargv = (char**)malloc((size_t)(cargc + 1) * sizeof(char*));
        cargv[0] = "pvC38";
        for(int i = start; i < argc; i++) cargv[i - start + 1] = argv[i];
        cargv[cargc] = NULL;
        ret = parsec_cmd_line_parse(cmd_line, true, cargc, cargv);
        free(cargv);
    }
    parsec_mca_cmd_line_process_args(cmd_line, &ctx_environ, &environ);
    if( ctx_environ != NULL ) {
        for(env_variable = ctx_environ; *env_variable != NULL; env_variable++) {
            env_name = *env_variable;
            for(env_value = env_name; *env_value != '\0' && *env_value != '='; env_value++) /* nothing */;
            if( *env_value == '=' ) { *env_value = '\0'; env_value++; }
            parsec_setenv(env_name, env_value, true, &environ);
            free(*env_variable);
        }
        free(ctx_environ);
    }
    PARSEC_OBJ_RELEASE(cmd_line);
    return ret;
}

int main(int argc, char **argv)
{
    static char line[8192], copy[8192];
    char *w[MAXW];
    if( argc > 1 && chdir(argv[1]) != 0 ) { perror("chdir"); return 2; }
    if( argc > 2 && 0 == strcmp(argv[2], "e2e") ) e2e = 1;
#if defined(PARSEC_HAVE_MPI)
    if( e2e ) { int prov; MPI_Init_thread(NULL, NULL, MPI_THREAD_SERIALIZED, &prov); }
#endif
    setvbuf(stdout, NULL, _IOLBF, 0);
    parsec_installdirs_open();
    reset();
    while( fgets(line, sizeof line, stdin) ) {
        int nw = 0;
        line[strcspn(line, "\n")] = 0;
        if( line[0] == 0 ) continue;
        printf("%s => ", line);
        strcpy(copy, line);
        for(char *t = strtok(copy, " "); t && nw < MAXW; t = strtok(NULL, " ")) w[nw++] = t;
        if( nw == 0 ) { printf("bad-op\n"); continue; }
        if( 0 == strcmp(w[0], "case") && nw == 2 ) { reset(); printf("ok\n"); }
        else if( 0 == strcmp(w[0], "home") && nw == 2 ) {
            char *v; int k = decode(w[1], &v);
            if( k == 0 ) { printf("bad-op\n"); continue; }
            if( inited ) { printf("rejected\n"); free(v); continue; }
            if( k == 2 ) unsetenv("HOME"); else setenv("HOME", v, 1);
            free(v); printf("ok\n");
        }
        else if( 0 == strcmp(w[0], "file") && nw >= 2 ) {
            int i = atoi(w[1]), ok = (strlen(w[1]) == 1 && w[1][0] >= '0' && w[1][0] <= '3');
            if( !ok ) { printf("bad-op\n"); continue; }
            int bad = 0, rej = 0;
            for(int k = 2; k < nw; k++) {
                char *eq = strchr(w[k], '=');
                if( !eq ) { bad = 1; break; }
                *eq = 0;
                char *v; char tmp[4096]; snprintf(tmp, sizeof tmp, "=%s", eq + 1);
                decode(tmp, &v);
                if( !name_ok(w[k]) || !fileval_ok(v) ) rej = 1;
                if( 0 == strcmp(w[k], "mca_param_files") && v[0] == 0 ) rej = 1;
                free(v); *eq = '=';
            }
            if( bad ) { printf("bad-op\n"); continue; }
            if( rej ) { printf("rejected\n"); continue; }
            char f[8]; snprintf(f, sizeof f, "F%d", i);
            FILE *fh = fopen(f, "w");
            for(int k = 2; k < nw; k++) {
                char *eq = strchr(w[k], '='); *eq = 0;
                char *v; char tmp[4096]; snprintf(tmp, sizeof tmp, "=%s", eq + 1);
                decode(tmp, &v);
                if( v[0] ) fprintf(fh, "%s = %s\n", w[k], v); else fprintf(fh, "%s =\n", w[k]);
                free(v);
            }
            fclose(fh);
            printf("ok\n");
        }
        else if( 0 == strcmp(w[0], "rmfile") && nw == 2 && strlen(w[1]) == 1 && w[1][0] >= '0' && w[1][0] <= '3' ) {
            char f[8]; snprintf(f, sizeof f, "F%s", w[1]); unlink(f); printf("ok\n");
        }
        else if( 0 == strcmp(w[0], "env") && nw == 3 ) {
            char *v; int k = decode(w[2], &v);
            if( k != 1 ) { printf("bad-op\n"); free(v); continue; }
            char n[4096]; snprintf(n, sizeof n, "PARSEC_MCA_%s", w[1]);
            setenv(n, v, 1); free(v); printf("ok\n");
        }
        else if( 0 == strcmp(w[0], "unenv") && nw == 2 ) {
            char n[4096]; snprintf(n, sizeof n, "PARSEC_MCA_%s", w[1]);
            unsetenv(n); printf("ok\n");
        }
        else if( 0 == strcmp(w[0], "genv") && nw == 2 ) {
            char n[4096]; snprintf(n, sizeof n, "PARSEC_MCA_%s", w[1]);
            char *v = getenv(n);
            if( v ) { print_str(v); printf("\n"); } else printf("unset\n");
        }
        else if( 0 == strcmp(w[0], "init") && nw == 1 ) {
            if( e2e ) { printf("rejected\n"); continue; }
            parsec_mca_param_init(); after_init(); printf("ok\n");
        }
        else if( 0 == strcmp(w[0], "recache") && nw == 1 ) {
            if( !inited ) { printf("rejected\n"); continue; }
            parsec_mca_param_recache_files(); printf("ok\n");
        }
        else if( 0 == strcmp(w[0], "pinit") ) {
            if( !e2e || inited ) { printf("rejected\n"); continue; }
            int bad = 0, ac = nw - 1; char *av[MAXW + 1];
            for(int k = 1; k < nw; k++) { if( decode(w[k], &av[k-1]) != 1 || strchr(av[k-1], '=') ) bad = 1; }
            av[ac] = NULL;
            if( bad ) { printf("bad-op\n"); continue; }
            char **avp = av;
            ctx = parsec_init(1, &ac, &avp);
            parsec_show_help = stub_show_help;
            inited = 1; nparams = 1; ptype[0] = 's';
            {   /* relative indices: the first parameter registered after parsec_init is 1 */
                int probe = -1;
                int r = parsec_mca_param_reg_int_name("pvprobe", "base", "probe", false, false, 0, &probe);
                base = r + 1;
            }
            printf("%s\n", ctx ? "0" : "-1");
        }
        else if( 0 == strcmp(w[0], "reg") && nw == 7 ) {
            char t = w[1][0];
            int ro = atoi(w[4]), look = atoi(w[6]), r;
            const char *tn = 0 == strcmp(w[2], "-") ? NULL : w[2];
            if( strlen(w[1]) != 1 || !strchr("izs", t) || !name_ok(w[3]) || (tn && !name_ok(tn)) ) { printf("bad-op\n"); continue; }
            if( e2e && !inited ) { printf("rejected\n"); continue; }
            if( nparams >= MAXP - 1 ) { printf("rejected\n"); continue; }
            warn_ro = 0;
            if( t == 'i' ) {
                char *end; long d = strtol(w[5], &end, 10);
                if( *end || d < INT32_MIN || d > INT32_MAX ) { printf("bad-op\n"); continue; }
                int cur = -12345;
                r = parsec_mca_param_reg_int_name(tn, w[3], "pv int", false, ro, (int)d, &cur);
                after_init();
                printf("%d", rel_idx(r)); if( r >= 0 ) printf(" %d", cur);
            } else if( t == 'z' ) {
                char *end; unsigned long long d = strtoull(w[5], &end, 10);
                if( *end || w[5][0] == '-' ) { printf("bad-op\n"); continue; }
                size_t cur = 12345;
                r = parsec_mca_param_reg_sizet_name(tn, w[3], "pv sizet", false, ro, (size_t)d, &cur);
                after_init();
                printf("%d", rel_idx(r)); if( r >= 0 ) printf(" %zu", cur);
            } else {
                char *d; int k = decode(w[5], &d);
                if( k == 0 ) { printf("bad-op\n"); continue; }
                char *cur = NULL;
                r = parsec_mca_param_reg_string_name(tn, w[3], "pv string", false, ro, d, look ? &cur : NULL);
                after_init();
                printf("%d", rel_idx(r));
                if( r >= 0 && look ) { printf(" "); print_str(cur); free(cur); }
                free(d);
            }
            if( r >= 0 ) { int rel = rel_idx(r); if( rel >= nparams ) { ptype[rel] = t; nparams = rel + 1; } }
            printf("\n");
        }
        else if( 0 == strcmp(w[0], "syn") && nw == 5 ) {
            int rel = atoi(w[1]);
            const char *tn = 0 == strcmp(w[2], "-") ? NULL : w[2];
            if( !name_ok(w[3]) || (tn && !name_ok(tn)) ) { printf("bad-op\n"); continue; }
            if( !inited || rel <= 0 || rel >= nparams ) { printf("rejected\n"); continue; }
            printf("%d\n", parsec_mca_param_reg_syn_name(real_idx(rel), tn, w[3], atoi(w[4]) != 0));
        }
        else if( 0 == strcmp(w[0], "set") && nw == 3 ) {
            int rel = atoi(w[1]);
            if( !inited || rel < 0 || rel >= nparams ) { printf("rejected\n"); continue; }
            if( ptype[rel] == 'i' ) {
                char *end; long d = strtol(w[2], &end, 10);
                if( *end || !w[2][0] || d < INT32_MIN || d > INT32_MAX ) { printf("rejected\n"); continue; }
                printf("%d\n", parsec_mca_param_set_int(real_idx(rel), (int)d));
            } else if( ptype[rel] == 'z' ) {
                char *end; unsigned long long d = strtoull(w[2], &end, 10);
                if( *end || !isdigit((unsigned char)w[2][0]) ) { printf("rejected\n"); continue; }
                printf("%d\n", parsec_mca_param_set_sizet(real_idx(rel), (size_t)d));
            } else {
                char *d; int k = decode(w[2], &d);
                if( k != 1 ) { printf("rejected\n"); free(d); continue; }   /* NULL override: strdup(NULL) in lookup_override */
                printf("%d\n", parsec_mca_param_set_string(real_idx(rel), d));
                free(d);
            }
        }
        else if( 0 == strcmp(w[0], "unset") && nw == 2 ) {
            int rel = atoi(w[1]);
            if( !inited || rel < 0 || rel >= nparams ) { printf("rejected\n"); continue; }
            printf("%d\n", parsec_mca_param_unset(real_idx(rel)));
        }
        else if( 0 == strcmp(w[0], "get") && nw == 2 ) {
            int rel = atoi(w[1]);
            if( !inited || rel < 0 || rel >= nparams ) { printf("rejected\n"); continue; }
            do_get(rel);
        }
        else if( 0 == strcmp(w[0], "args") ) {
            if( e2e ) { printf("rejected\n"); continue; }
            int bad = 0, ac = nw - 1; char *av[MAXW + 1];
            for(int k = 1; k < nw; k++) { if( decode(w[k], &av[k-1]) != 1 || strchr(av[k-1], '=') ) bad = 1; }
            av[ac] = NULL;
            if( bad ) { printf("bad-op\n"); for(int k = 0; k < ac; k++) free(av[k]); continue; }
            printf("%d\n", do_args(ac, av));
            for(int k = 0; k < ac; k++) free(av[k]);
        }
        else printf("bad-op\n");
    }
    if( ctx ) parsec_fini(&ctx);
#if defined(PARSEC_HAVE_MPI)
    if( e2e ) MPI_Finalize();
#endif
    return 0;
}
