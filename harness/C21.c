/* C21 harness: runs the REAL parsec_redistribute (the generated redistribute.c / redistribute_reshuffle.c of
 * the build tree and redistribute_wrapper.c are compiled into this executable with `memcpy` routed through
 * pv_memcpy, see harness/C21_hook.h) on 1..n MPI ranks and prints, per request, the gathered target matrix
 * and the gathered write counts in a canonical run-length form.
 *
 *   usage:  mpiexec -n P C21 <script> <transcript> [cores]
 *   script lines:
 *     case k
 *     redist np  kY mbY nbY lmY lnY aY bY cY  kT mbT nbT lmT lnT aT bT cT  sr sc diY djY diT djT
 *        k? = bc (a=P b=kp c=kq, Q=np/P) | tab (a=seed) | sbcL / sbcU (a=r) | sym (a=P, Q=np/P, lower)
 *   result:  ok path=g|r nc=<num_col> nt=<NT> T=<matrix> W=<matrix>      or   refused T=- W=-
 *     T: target elements that hold a source value, as  rows:[cols]<di,dj>  (source = target + (di,dj));
 *        untouched (sentinel) elements are not listed.   W: number of writes per target element (x<count>).
 *   `!viol` lines: source matrix modified, write/read outside the tile it started in, sentinel displaced.
 */
#include "parsec.h"
#include "parsec/data.h"
#include "parsec/data_dist/matrix/matrix.h"
#include "parsec/data_dist/matrix/two_dim_rectangle_cyclic.h"
#include "parsec/data_dist/matrix/sym_two_dim_rectangle_cyclic.h"
#include "parsec/data_dist/matrix/two_dim_tabular.h"
#include "parsec/data_dist/matrix/sbc.h"
#include "redistribute.h"
#include "redistribute_reshuffle.h"
#include <mpi.h>
#include <stdio.h>
#include <stdlib.h>
#include <string.h>

#define ENC 4096
static int rank, np;
static FILE *out;
static const char *cur_line = "";   /* the op being executed; printed together with its result */
static char markfile[1200];
static int opno = 0;
/* progress marker of this rank (one small file per rank, overwritten): tells where each rank was if the run hangs */
static void mark(const char *phase)
{
    FILE *f = fopen(markfile, "w");
    if( f ) { fprintf(f, "rank %d: request %d %s\n", rank, opno, phase); fclose(f); }
}

typedef struct { int m, n; double *ptr; int *w; } tile_t;
typedef struct {
    char kind[8];
    int mb, nb, lm, ln, a, b, c;
    parsec_tiled_matrix_t *desc;
    parsec_matrix_block_cyclic_t bc;
    parsec_matrix_sym_block_cyclic_t sym;
    parsec_matrix_tabular_t tab;
    parsec_matrix_sbc_t sbc;
    void *mat;
    int ntiles;
    tile_t *tiles;
} mat_t;

static mat_t Y, T;
static volatile int tracking = 0;
static int oob_write = 0, oob_read = 0;
static int n_direct = 0, n_pack = 0, n_unpack = 0;   /* memcpy calls: source tile -> target tile, source tile -> buffer, buffer -> target tile */

/* every memcpy of the redistribute task bodies comes here */
void *pv_memcpy(void *dst, const void *src, size_t n)
{
    if( tracking && n > 0 ) {
        int to_t = 0, from_y = 0;
        size_t tsz = (size_t)T.mb * T.nb, ysz = (size_t)Y.mb * Y.nb;
        for( int i = 0; i < T.ntiles; i++ ) {
            double *p = T.tiles[i].ptr;
            if( (double*)dst >= p && (double*)dst < p + tsz ) {
                size_t off = (double*)dst - p, cnt = n / sizeof(double);
                if( off + cnt > tsz || (n % sizeof(double)) ) { __atomic_store_n(&oob_write, 1, __ATOMIC_RELAXED); cnt = tsz - off; }
                for( size_t k = 0; k < cnt; k++ ) __atomic_fetch_add(&T.tiles[i].w[off + k], 1, __ATOMIC_RELAXED);
                to_t = 1;
                break;
            }
        }
        for( int i = 0; i < Y.ntiles; i++ ) {
            double *p = Y.tiles[i].ptr;
            if( (const double*)src >= p && (const double*)src < p + ysz ) {
                size_t off = (const double*)src - p, cnt = n / sizeof(double);
                if( off + cnt > ysz ) __atomic_store_n(&oob_read, 1, __ATOMIC_RELAXED);
                from_y = 1;
                break;
            }
        }
        if( to_t && from_y ) __atomic_fetch_add(&n_direct, 1, __ATOMIC_RELAXED);
        else if( from_y ) __atomic_fetch_add(&n_pack, 1, __ATOMIC_RELAXED);
        else if( to_t ) __atomic_fetch_add(&n_unpack, 1, __ATOMIC_RELAXED);
    }
    return memcpy(dst, src, n);
}

/* parsec_redistribute() hands the taskpool it built to the runtime through this call (renamed by the hook
 * header in redistribute_wrapper.c only): note which taskpool it is and how it is batched, then pass it on. */
static char obs_path = '-';
static int obs_nc = 0, obs_nt = 0;
int pv_context_add_taskpool(parsec_context_t *c, parsec_taskpool_t *tp)
{
    if( NULL != tp && NULL != tp->taskpool_name ) {
        if( !strcmp(tp->taskpool_name, "redistribute_reshuffle") ) {
            obs_path = 'r';
            obs_nc = ((parsec_redistribute_reshuffle_taskpool_t*)tp)->_g_num_col;
            obs_nt = ((parsec_redistribute_reshuffle_taskpool_t*)tp)->_g_NT;
        } else {
            obs_path = 'g';
            obs_nc = ((parsec_redistribute_taskpool_t*)tp)->_g_num_col;
            obs_nt = ((parsec_redistribute_taskpool_t*)tp)->_g_NT;
        }
    }
    return parsec_context_add_taskpool(c, tp);
}

static int stored(const mat_t *M, int m, int n)
{
    if( !strcmp(M->kind, "sbcL") || !strcmp(M->kind, "sym") ) return m >= n;
    if( !strcmp(M->kind, "sbcU") ) return n >= m;
    return 1;
}

static int sbc_ok(int r)
{
    if( r < 2 || r > 64 ) return 0;
    return np == r * (r - 1) / 2 || ((r % 2) == 0 && np == r * r / 2);
}

static int spec_ok(const mat_t *M)
{
    if( M->mb < 1 || M->nb < 1 || M->lm < 1 || M->ln < 1 || M->mb > 64 || M->nb > 64 || M->lm > 512 || M->ln > 512 ) return 0;
    if( !strcmp(M->kind, "bc") ) return M->a >= 1 && (np % M->a) == 0 && M->b >= 1 && M->c >= 1 && M->b <= 8 && M->c <= 8;
    if( !strcmp(M->kind, "sym") ) return M->a >= 1 && (np % M->a) == 0;
    if( !strcmp(M->kind, "tab") ) return M->a >= 0;
    if( !strcmp(M->kind, "sbcL") || !strcmp(M->kind, "sbcU") ) return sbc_ok(M->a);
    return 0;
}

static void mat_create(mat_t *M, const char *name, int is_source)
{
    size_t bytes;
    M->mat = NULL;
    if( !strcmp(M->kind, "bc") ) {
        parsec_matrix_block_cyclic_init(&M->bc, PARSEC_MATRIX_DOUBLE, PARSEC_MATRIX_TILE, rank, M->mb, M->nb, M->lm, M->ln,
                                        0, 0, M->lm, M->ln, M->a, np / M->a, M->b, M->c, 0, 0);
        M->desc = &M->bc.super;
        bytes = (size_t)M->desc->nb_local_tiles * M->desc->bsiz * sizeof(double);
        M->mat = M->bc.mat = malloc(bytes ? bytes : 8);
    } else if( !strcmp(M->kind, "sym") ) {
        parsec_matrix_sym_block_cyclic_init(&M->sym, PARSEC_MATRIX_DOUBLE, rank, M->mb, M->nb, M->lm, M->ln,
                                            0, 0, M->lm, M->ln, M->a, np / M->a, PARSEC_MATRIX_LOWER);
        M->desc = &M->sym.super;
        bytes = (size_t)M->desc->nb_local_tiles * M->desc->bsiz * sizeof(double);
        M->mat = M->sym.mat = malloc(bytes ? bytes : 8);
    } else if( !strcmp(M->kind, "tab") ) {
        parsec_matrix_tabular_init(&M->tab, PARSEC_MATRIX_DOUBLE, np, rank, M->mb, M->nb, M->lm, M->ln, 0, 0, M->lm, M->ln, NULL);
        parsec_matrix_tabular_set_random_table(&M->tab, (unsigned)M->a);
        M->desc = &M->tab.super;
    } else {
        int rc = parsec_matrix_sbc_init(&M->sbc, PARSEC_MATRIX_DOUBLE, rank, M->mb, M->nb, M->lm, M->ln, 0, 0, M->lm, M->ln,
                                        np, M->a, M->kind[3] == 'L' ? PARSEC_MATRIX_LOWER : PARSEC_MATRIX_UPPER);
        if( rc != PARSEC_SUCCESS ) { fprintf(stderr, "sbc_init failed\n"); MPI_Abort(MPI_COMM_WORLD, 3); }
        M->desc = &M->sbc.super;
        bytes = (size_t)M->desc->nb_local_tiles * M->desc->bsiz * sizeof(double);
        M->mat = M->sbc.mat = malloc(bytes ? bytes : 8);
    }
    parsec_data_collection_set_key(&M->desc->super, name);
    /* local tiles, filled with f(i,j) (source) or the sentinel -f(i,j) (target) */
    M->tiles = calloc((size_t)M->desc->lmt * M->desc->lnt + 1, sizeof(tile_t));
    M->ntiles = 0;
    for( int n = 0; n < M->desc->lnt; n++ )
        for( int m = 0; m < M->desc->lmt; m++ ) {
            if( !stored(M, m, n) ) continue;
            if( (int)M->desc->super.rank_of(&M->desc->super, m, n) != rank ) continue;
            parsec_data_t *d = M->desc->super.data_of(&M->desc->super, m, n);
            tile_t *t = &M->tiles[M->ntiles++];
            t->m = m; t->n = n;
            t->ptr = (double*)parsec_data_copy_get_ptr(parsec_data_get_copy(d, 0));
            t->w = calloc((size_t)M->mb * M->nb, sizeof(int));
            for( int b = 0; b < M->nb; b++ )
                for( int a = 0; a < M->mb; a++ ) {
                    double v = 1.0 + (double)(m * M->mb + a) * ENC + (double)(n * M->nb + b);
                    t->ptr[(size_t)b * M->mb + a] = is_source ? v : -v;
                }
        }
}

static void mat_destroy(mat_t *M)
{
    for( int i = 0; i < M->ntiles; i++ ) free(M->tiles[i].w);
    free(M->tiles); M->tiles = NULL; M->ntiles = 0;
    if( !strcmp(M->kind, "tab") ) {
        parsec_matrix_tabular_destroy(&M->tab);
    } else {
        parsec_tiled_matrix_destroy(M->desc);
        free(M->mat);
    }
    M->mat = NULL;
}

/* ---- canonical rendering (the Lean driver prints the same) ---- */
typedef struct { char *s; size_t len, cap; } sb_t;
static void sb_add(sb_t *b, const char *t)
{
    size_t l = strlen(t);
    if( b->len + l + 1 > b->cap ) { b->cap = (b->len + l + 1) * 2 + 64; b->s = realloc(b->s, b->cap); }
    memcpy(b->s + b->len, t, l + 1); b->len += l;
}

/* tag of element (i,j): writes into buf, returns 0 when the element is "untouched" */
typedef int (*tagfn_t)(int i, int j, char *buf);
static double *gT; static int *gW; static int GR, GC;
static int bad_sentinel = 0;

static int tag_T(int i, int j, char *buf)
{
    double v = gT[(size_t)j * GR + i];
    if( v == 0.0 ) return 0;                       /* tile stored nowhere (other triangle of SBC) */
    if( v < 0.0 ) {
        if( v != -(1.0 + (double)i * ENC + (double)j) ) { bad_sentinel = 1; sprintf(buf, "?"); return 1; }
        return 0;
    }
    long e = (long)v - 1; long si = e / ENC, sj = e % ENC;
    sprintf(buf, "<%ld,%ld>", si - i, sj - j);
    return 1;
}
static int tag_W(int i, int j, char *buf)
{
    int c = gW[(size_t)j * GR + i];
    if( c == 0 ) return 0;
    sprintf(buf, "x%d", c);
    return 1;
}

static char *render(tagfn_t f)
{
    sb_t res = {0}; sb_add(&res, "");
    char *prev = NULL; int i0 = 0;
    for( int i = 0; i <= GR; i++ ) {
        sb_t row = {0}; sb_add(&row, "");
        if( i < GR ) {
            char cur[64] = "", t[64]; int j0 = 0, have = 0;
            for( int j = 0; j <= GC; j++ ) {
                int h = (j < GC) ? f(i, j, t) : 0;
                if( have && (!h || strcmp(t, cur)) ) {
                    char seg[160]; sprintf(seg, "[%d-%d]%s", j0, j - 1, cur); sb_add(&row, seg); have = 0;
                }
                if( h && !have ) { strcpy(cur, t); j0 = j; have = 1; }
            }
        }
        if( prev && (i == GR || strcmp(prev, row.s)) ) {
            char hd[64]; sprintf(hd, "%s%d-%d:", res.len ? ";" : "", i0, i - 1);
            sb_add(&res, hd); sb_add(&res, prev); free(prev); prev = NULL;
        }
        if( i < GR && row.len && !prev ) { prev = row.s; i0 = i; row.s = NULL; }
        free(row.s);
    }
    if( !res.len ) sb_add(&res, "-");
    return res.s;
}

static void run_request(parsec_context_t *ctx, char **w)
{
    int v[22];
    /* w[1]=np, w[2..9]=Y, w[10..17]=T, w[18..23]=request */
    int k = 0, ok = 1;
    for( int i = 1; i <= 23; i++ ) {
        if( i == 2 || i == 10 ) continue;
        char *e; long x = strtol(w[i], &e, 10);
        if( *e || e == w[i] || x < -100000 || x > 100000 ) ok = 0;
        v[k++] = (int)x;
    }
    memset(&Y, 0, sizeof(Y)); memset(&T, 0, sizeof(T));
    snprintf(Y.kind, sizeof(Y.kind), "%s", w[2]); snprintf(T.kind, sizeof(T.kind), "%s", w[10]);
    Y.mb = v[1]; Y.nb = v[2]; Y.lm = v[3]; Y.ln = v[4]; Y.a = v[5]; Y.b = v[6]; Y.c = v[7];
    T.mb = v[8]; T.nb = v[9]; T.lm = v[10]; T.ln = v[11]; T.a = v[12]; T.b = v[13]; T.c = v[14];
    int sr = v[15], sc = v[16], diY = v[17], djY = v[18], diT = v[19], djT = v[20];
    if( !ok || v[0] != np || !spec_ok(&Y) || !spec_ok(&T) ) { if( out ) fprintf(out, "%s => bad-op\n", cur_line); return; }

    mark("creating the matrices");
    mat_create(&Y, "dcY", 1);
    mat_create(&T, "dcT", 0);

    obs_path = '-'; obs_nc = 0; obs_nt = 0;
    oob_write = oob_read = 0; bad_sentinel = 0; n_direct = n_pack = n_unpack = 0;
    tracking = 1;
    mark("inside parsec_redistribute");
    int rc = parsec_redistribute(ctx, Y.desc, T.desc, sr, sc, diY, djY, diT, djT);
    tracking = 0;
    mark("gathering the target (MPI_Reduce)");

    /* gather */
    GR = T.desc->lmt * T.mb; GC = T.desc->lnt * T.nb;
    size_t tot = (size_t)GR * GC;
    double *lT = calloc(tot, sizeof(double)); int *lW = calloc(tot, sizeof(int));
    for( int i = 0; i < T.ntiles; i++ )
        for( int b = 0; b < T.nb; b++ )
            for( int a = 0; a < T.mb; a++ ) {
                size_t g = (size_t)(T.tiles[i].n * T.nb + b) * GR + (T.tiles[i].m * T.mb + a);
                lT[g] = T.tiles[i].ptr[(size_t)b * T.mb + a];
                lW[g] = T.tiles[i].w[(size_t)b * T.mb + a];
            }
    gT = calloc(tot, sizeof(double)); gW = calloc(tot, sizeof(int));
    MPI_Reduce(lT, gT, (int)tot, MPI_DOUBLE, MPI_SUM, 0, MPI_COMM_WORLD);
    MPI_Reduce(lW, gW, (int)tot, MPI_INT, MPI_SUM, 0, MPI_COMM_WORLD);
    /* source must be unchanged */
    int flags[4] = {0, oob_write, oob_read, 0}, gflags[4];
    for( int i = 0; i < Y.ntiles; i++ )
        for( int b = 0; b < Y.nb; b++ )
            for( int a = 0; a < Y.mb; a++ )
                if( Y.tiles[i].ptr[(size_t)b * Y.mb + a] != 1.0 + (double)(Y.tiles[i].m * Y.mb + a) * ENC + (double)(Y.tiles[i].n * Y.nb + b) )
                    flags[0] = 1;
    flags[3] = (rc == PARSEC_SUCCESS) ? 0 : (rc == PARSEC_ERR_NOT_SUPPORTED ? 1 : 2);
    MPI_Reduce(flags, gflags, 4, MPI_INT, MPI_MAX, 0, MPI_COMM_WORLD);
    int cnts[3] = {n_direct, n_pack, n_unpack}, gcnts[3] = {0, 0, 0};
    MPI_Reduce(cnts, gcnts, 3, MPI_INT, MPI_SUM, 0, MPI_COMM_WORLD);
    if( 0 == rank ) {
        char *sT = render(tag_T), *sW = render(tag_W);
        if( gflags[3] == 0 ) fprintf(out, "%s => ok path=%c nc=%d nt=%d T=%s W=%s\n", cur_line, obs_path, obs_nc, obs_nt, sT, sW);
        else if( gflags[3] == 1 ) fprintf(out, "%s => refused T=%s W=%s\n", cur_line, sT, sW);
        else fprintf(out, "%s => error rc=%d T=%s W=%s\n", cur_line, rc, sT, sW);
        if( gflags[0] ) fprintf(out, "!viol source matrix was modified by parsec_redistribute\n");
        if( gflags[1] ) fprintf(out, "!viol a copy wrote past the end of the target tile it started in\n");
        if( gflags[2] ) fprintf(out, "!viol a copy read past the end of the source tile it started in\n");
        if( bad_sentinel ) fprintf(out, "!viol a target element outside every copy changed value (sentinel displaced)\n");
        fprintf(out, "#stat requests 1\n#stat path_%c 1\n#stat target_elems %zu\n", obs_path == '-' ? 'x' : obs_path, tot);
        fprintf(out, "#stat memcpy_source_tile_to_target_tile %d\n#stat memcpy_pack_at_sender %d\n#stat memcpy_unpack_at_receiver %d\n", gcnts[0], gcnts[1], gcnts[2]);
        free(sT); free(sW);
    }
    free(lT); free(lW); free(gT); free(gW); gT = NULL; gW = NULL;
    mark("destroying the matrices");
    mat_destroy(&T);
    mat_destroy(&Y);
    mark("done");
}

int main(int argc, char **argv)
{
    int provided;
    if( argc < 3 ) { fprintf(stderr, "usage: C21 script transcript [cores]\n"); return 2; }
    MPI_Init_thread(&argc, &argv, MPI_THREAD_MULTIPLE, &provided);
    MPI_Comm_size(MPI_COMM_WORLD, &np);
    MPI_Comm_rank(MPI_COMM_WORLD, &rank);
    int cores = argc > 3 ? atoi(argv[3]) : 2;
    snprintf(markfile, sizeof(markfile), "%s.rank%d", argv[2], rank);
    int pargc = 0; char **pargv = NULL;
    parsec_context_t *ctx = parsec_init(cores, &pargc, &pargv);
    if( NULL == ctx ) { fprintf(stderr, "parsec_init failed\n"); MPI_Abort(MPI_COMM_WORLD, 2); }
    FILE *in = fopen(argv[1], "r");
    if( !in ) { fprintf(stderr, "cannot read %s\n", argv[1]); MPI_Abort(MPI_COMM_WORLD, 2); }
    out = (0 == rank) ? fopen(argv[2], "w") : NULL;
    char line[1024];
    while( fgets(line, sizeof(line), in) ) {
        char copy[1024]; strcpy(copy, line);
        char *w[32]; int nw = 0;
        for( char *t = strtok(copy, " \t\r\n"); t && nw < 32; t = strtok(NULL, " \t\r\n") ) w[nw++] = t;
        if( 0 == nw ) continue;
        line[strcspn(line, "\r\n")] = 0;
        cur_line = line;
        opno++;
        if( !strcmp(w[0], "case") && nw == 2 ) { if( out ) fprintf(out, "%s => ok\n", line); }
        else if( !strcmp(w[0], "redist") && nw == 24 ) run_request(ctx, w);
        else if( out ) fprintf(out, "%s => bad-op\n", line);
        if( out ) fflush(out);
    }
    if( out ) { fprintf(out, "#end\n"); fclose(out); }
    fclose(in);
    parsec_fini(&ctx);
    MPI_Finalize();
    return 0;
}
