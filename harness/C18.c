/* C18 — runtime linked with every generated producer / fan-out JDF program (gen: checks/C18.py).
 * Runs the REAL runtime (reshape promises, data-copy futures, remote deps) and the REAL generated code.
 *
 *  - data collection: NT tiles of MB x NB int32, leading dimension LD, tile k on rank k mod world, guard words between tiles;
 *  - arena datatypes (ADTs) for the shapes below, built with the real parsec_matrix_define_datatype; every arena uses a
 *    poisoning allocator (fresh copies are filled with POISON, nothing is cached or reused, freed blocks are quarantined
 *    and filled with DEAD) so that "what a fresh copy contains outside the written elements" is observable;
 *  - producer body fills its tile with val(k, i); consumer bodies record the complete footprint of the copy they see,
 *    the datatype handle of that copy and its address;
 *  - after the run: per rank the views, the sharing partition (which consumers saw the same copy), the final contents of
 *    the collection tiles (the producer's data "afterwards") and the guard words.
 *
 * Transcript: docs/notes/C18.md. */
#include "parsec.h"
#include "parsec/parsec_internal.h"
#include "parsec/arena.h"
#include "parsec/data_internal.h"
#include "parsec/data_distribution.h"
#include "parsec/data_dist/matrix/matrix.h"
#include "parsec/utils/mca_param.h"
#include <stdarg.h>
#include <stdio.h>
#include <stdlib.h>
#include <string.h>
#include <pthread.h>
#include <unistd.h>
#include <mpi.h>

#define C18_POISON (-7777)
#define C18_DEAD   (-9999)
#define C18_GUARD  (-5555)
#define C18_NGUARD 8
#define C18_NSHAPE 8          /* 0 DEFAULT(full) 1 LO 2 LON 3 UP 4 UPN 5 FULL2(full, own handle) 6 LO2 (lower+diag, own handle) 7 DC (collection default, full) */
#define C18_MAXF   400

static int c18_mb = 3, c18_nb = 3, c18_ld = 3, c18_nt = 4, c18_foot;
static int c18_rank, c18_world;
static FILE *c18_out;
static parsec_arena_datatype_t c18_adts[C18_NSHAPE];
static parsec_datatype_t c18_dtt[C18_NSHAPE];

/* ------------------------------------------------------------------ poisoning allocator */
typedef struct { char *base; size_t size; int live; } c18_blk_t;
static c18_blk_t *c18_blks; static int c18_nblk, c18_capblk;
static pthread_mutex_t c18_mx = PTHREAD_MUTEX_INITIALIZER;
static long c18_allocs, c18_frees;

static void c18_fill(void *p, size_t size, int32_t v)
{
    int32_t *q = (int32_t *)p;
    for (size_t i = 0; i + 4 <= size; i += 4) *q++ = v;
}
static void *c18_alloc(size_t size)
{
    size_t sz = (size + 63) & ~(size_t)63;
    char *p = NULL;
    if (posix_memalign((void **)&p, 64, sz + 64) != 0) return NULL;
    c18_fill(p, sz + 64, C18_POISON);
    pthread_mutex_lock(&c18_mx);
    if (c18_nblk == c18_capblk) { c18_capblk = c18_capblk ? 2 * c18_capblk : 256; c18_blks = realloc(c18_blks, c18_capblk * sizeof(c18_blk_t)); }
    c18_blks[c18_nblk].base = p; c18_blks[c18_nblk].size = sz + 64; c18_blks[c18_nblk].live = 1; c18_nblk++;
    c18_allocs++;
    pthread_mutex_unlock(&c18_mx);
    return p;
}
static void c18_free(void *p)
{
    pthread_mutex_lock(&c18_mx);
    for (int i = c18_nblk - 1; i >= 0; i--) if (c18_blks[i].base == (char *)p) {
        c18_blks[i].live = 0;
        c18_fill(p, c18_blks[i].size, C18_DEAD);     /* quarantined: never handed out again, stale readers see DEAD */
        break;
    }
    c18_frees++;
    pthread_mutex_unlock(&c18_mx);
}
/* block index (= identity of the arena copy) of an address; -1: not arena memory (a collection tile) */
static int c18_blk_of(void *p)
{
    int r = -1;
    pthread_mutex_lock(&c18_mx);
    for (int i = 0; i < c18_nblk; i++) if ((char *)p >= c18_blks[i].base && (char *)p < c18_blks[i].base + c18_blks[i].size) { r = c18_blks[i].live ? i : -2 - i; break; }
    pthread_mutex_unlock(&c18_mx);
    return r;
}

/* ------------------------------------------------------------------ datatypes */
static void c18_make_adt(int id, parsec_matrix_uplo_t uplo, int diag)
{
    ptrdiff_t extent = 0;
    parsec_datatype_t t;
    int rc = parsec_matrix_define_datatype(&t, parsec_datatype_int32_t, uplo, diag, c18_mb, c18_nb, c18_ld, -1, &extent);
    if (rc != PARSEC_SUCCESS) { fprintf(stderr, "C18: define_datatype failed for shape %d\n", id); exit(2); }
    PARSEC_OBJ_CONSTRUCT(&c18_adts[id], parsec_arena_datatype_t);
    c18_adts[id].arena = PARSEC_OBJ_NEW(parsec_arena_t);
    /* no caching (max_cached_memory = 0): every copy is a new block of the poisoning allocator */
    parsec_arena_construct_ex(c18_adts[id].arena, (size_t)extent, PARSEC_ARENA_ALIGNMENT_SSE, SIZE_MAX, 0);
    c18_adts[id].arena->data_malloc = c18_alloc;
    c18_adts[id].arena->data_free = c18_free;
    c18_adts[id].opaque_dtt = t;
    c18_dtt[id] = t;
}
static void c18_make_adts(void)
{
    c18_make_adt(0, PARSEC_MATRIX_FULL, 1);
    c18_make_adt(1, PARSEC_MATRIX_LOWER, 1);
    c18_make_adt(2, PARSEC_MATRIX_LOWER, 0);
    c18_make_adt(3, PARSEC_MATRIX_UPPER, 1);
    c18_make_adt(4, PARSEC_MATRIX_UPPER, 0);
    c18_make_adt(5, PARSEC_MATRIX_FULL, 1);
    c18_make_adt(6, PARSEC_MATRIX_LOWER, 1);
    c18_make_adt(7, PARSEC_MATRIX_FULL, 1);
}
parsec_arena_datatype_t *c18_adt(int id) { return &c18_adts[id]; }
static int c18_dtt_id(parsec_datatype_t t)
{
    for (int i = 0; i < C18_NSHAPE; i++) if (t == c18_dtt[i]) return i;
    return t == PARSEC_DATATYPE_NULL ? -1 : -2;
}
/* is element (i, j) of the tile in the region of shape id (independent of the MPI types: used only for the two checksums) */
static int c18_in_region(int id, int i, int j)
{
    switch (id) { case 1: case 6: return j <= i; case 2: return j < i; case 3: return i <= j; case 4: return i < j; default: return 1; }
}

/* ------------------------------------------------------------------ data collection */
typedef struct { parsec_data_collection_t super; parsec_data_t **data; int nt; int32_t *mem; size_t stride; } c18_dc_t;
static c18_dc_t *c18_dc;
static int c18_norm(int k, int n) { int r = k % n; return r < 0 ? r + n : r; }
static int32_t *c18_tile(c18_dc_t *m, int t) { return m->mem + (size_t)t * m->stride + C18_NGUARD; }
static uint32_t c18_rank_of(parsec_data_collection_t *d, ...) { va_list ap; va_start(ap, d); int k = va_arg(ap, int); va_end(ap); return (uint32_t)c18_norm(k, (int)d->nodes); }
static int32_t c18_vpid_of(parsec_data_collection_t *d, ...) { (void)d; return 0; }
static parsec_data_key_t c18_data_key(parsec_data_collection_t *d, ...) { va_list ap; va_start(ap, d); int k = va_arg(ap, int); va_end(ap); return (parsec_data_key_t)c18_norm(k, ((c18_dc_t *)d)->nt); }
static parsec_data_t *c18_data_of(parsec_data_collection_t *d, ...)
{
    c18_dc_t *m = (c18_dc_t *)d;
    va_list ap; va_start(ap, d); int k = va_arg(ap, int); va_end(ap);
    int t = c18_norm(k, m->nt);
    return parsec_data_create(&m->data[t], d, t, c18_tile(m, t), (size_t)c18_ld * c18_nb * sizeof(int32_t), 0);
}
static uint32_t c18_rank_of_key(parsec_data_collection_t *d, parsec_data_key_t key) { return (uint32_t)(key % d->nodes); }
static int32_t c18_vpid_of_key(parsec_data_collection_t *d, parsec_data_key_t key) { (void)d; (void)key; return 0; }
static parsec_data_t *c18_data_of_key(parsec_data_collection_t *d, parsec_data_key_t key) { return c18_data_of(d, (int)key); }
static int32_t c18_init_val(int t, int i) { return 500000 + 1000 * t + i; }

static c18_dc_t *c18_dc_new(int rank, int world, int nt)
{
    c18_dc_t *m = calloc(1, sizeof(*m));
    parsec_data_collection_init(&m->super, world, rank);
    m->super.rank_of = c18_rank_of;      m->super.rank_of_key = c18_rank_of_key;
    m->super.vpid_of = c18_vpid_of;      m->super.vpid_of_key = c18_vpid_of_key;
    m->super.data_of = c18_data_of;      m->super.data_of_key = c18_data_of_key;
    m->super.data_key = c18_data_key;
    m->super.default_dtt = c18_dtt[7];
    m->nt = nt;
    m->data = calloc(nt, sizeof(parsec_data_t *));
    m->stride = (size_t)c18_ld * c18_nb + 2 * C18_NGUARD;
    m->mem = malloc(m->stride * nt * sizeof(int32_t));
    for (size_t i = 0; i < m->stride * nt; i++) m->mem[i] = C18_GUARD;
    for (int t = 0; t < nt; t++) for (int i = 0; i < c18_ld * c18_nb; i++) c18_tile(m, t)[i] = c18_init_val(t, i);
    return m;
}

/* ------------------------------------------------------------------ event log */
typedef struct { int kind, cls, k, t, decl, dtt; void *ptr; int blk; int32_t v[C18_MAXF]; } c18_ev_t;
static c18_ev_t *c18_log; static int c18_nlog, c18_caplog;
static volatile long c18_progress;

static c18_ev_t *c18_new_ev(void)
{
    if (c18_nlog == c18_caplog) { c18_caplog = c18_caplog ? 2 * c18_caplog : 256; c18_log = realloc(c18_log, c18_caplog * sizeof(c18_ev_t)); }
    return &c18_log[c18_nlog++];
}
static int32_t c18_val(int k, int i) { return 1000 * (k + 1) + i; }

/* producer body: A is the tile the producer holds (RW) */
void c18_prod(int k, void *A, parsec_data_copy_t *copy)
{
    int32_t *a = (int32_t *)A;
    int blk = c18_blk_of(A), dtt = copy ? c18_dtt_id(copy->dtt) : -3;
    pthread_mutex_lock(&c18_mx);
    c18_ev_t *e = c18_new_ev();
    e->kind = 'P'; e->cls = -1; e->k = k; e->t = 0; e->decl = 0; e->dtt = dtt; e->ptr = A; e->blk = blk;
    /* what the producer received (footprint), then its own values */
    for (int i = 0; i < c18_foot; i++) e->v[i] = a[i];
    pthread_mutex_unlock(&c18_mx);
    for (int j = 0; j < c18_nb; j++) for (int i = 0; i < c18_mb; i++) a[j * c18_ld + i] = c18_val(k, j * c18_ld + i);
    __atomic_fetch_add(&c18_progress, 1, __ATOMIC_SEQ_CST);
}

/* consumer body: records everything it can see of its copy; decl = the shape the consumer's dependency declares */
void c18_view(int cls, int k, int t, int decl, void *A, parsec_data_copy_t *copy)
{
    int32_t *a = (int32_t *)A;
    int blk = c18_blk_of(A), dtt = copy ? c18_dtt_id(copy->dtt) : -3;
    pthread_mutex_lock(&c18_mx);
    c18_ev_t *e = c18_new_ev();
    e->kind = 'V'; e->cls = cls; e->k = k; e->t = t; e->decl = decl; e->dtt = dtt; e->ptr = A; e->blk = blk;
    for (int i = 0; i < c18_foot; i++) e->v[i] = a ? a[i] : 0;
    pthread_mutex_unlock(&c18_mx);
    __atomic_fetch_add(&c18_progress, 1, __ATOMIC_SEQ_CST);
}

static const char *c18_names[] = { "DEFAULT", "LO", "LON", "UP", "UPN", "FULL2", "LO2", "DC" };
static const char *c18_dtt_name(int id) { return id >= 0 && id < C18_NSHAPE ? c18_names[id] : (id == -1 ? "NULL" : (id == -3 ? "nocopy" : "unknown")); }

static int c18_cmp_ev(const void *x, const void *y)
{
    const c18_ev_t *a = x, *b = y;
    if (a->k != b->k) return a->k - b->k;
    if (a->cls != b->cls) return a->cls - b->cls;
    return a->t - b->t;
}
static long c18_mix(long h, long x) { return (h * 31 + (x & 0xffffffffL)) % 1000003; }

static void c18_dump(void)
{
    qsort(c18_log, c18_nlog, sizeof(c18_ev_t), c18_cmp_ev);
    for (int n = 0; n < c18_nlog; n++) {
        c18_ev_t *e = &c18_log[n];
        if (e->kind == 'P') {
            fprintf(c18_out, "prod %d => r%d d%s :", e->k, c18_rank, c18_dtt_name(e->dtt));
            for (int i = 0; i < c18_foot; i++) fprintf(c18_out, " %d", e->v[i]);
            fprintf(c18_out, "\n");
            continue;
        }
        long hs = 17, hu = 17;
        for (int j = 0; j < c18_nb; j++) for (int i = 0; i < c18_ld; i++) {
            int x = j * c18_ld + i;
            if (x >= c18_foot) continue;
            if (i < c18_mb && c18_in_region(e->decl, i, j)) hs = c18_mix(c18_mix(hs, x), e->v[x]); else hu = c18_mix(c18_mix(hu, x), e->v[x]);
        }
        fprintf(c18_out, "view %d %d %d => r%d d%s s%ld u%ld :", e->cls, e->k, e->t, c18_rank, c18_dtt_name(e->dtt), hs, hu);
        for (int i = 0; i < c18_foot; i++) fprintf(c18_out, " %d", e->v[i]);
        fprintf(c18_out, "\n");
        if (e->blk < -1) fprintf(c18_out, "!viol consumer %d(%d,%d) on rank %d was handed a copy that had already been freed\n", e->cls, e->k, e->t, c18_rank);
    }
    /* sharing partition per producer instance: events of the same k with the same address saw the same copy */
    for (int n = 0; n < c18_nlog; ) {
        int k = c18_log[n].k, m = n;
        while (m < c18_nlog && c18_log[m].k == k) m++;
        fprintf(c18_out, "share %d %d =>", k, c18_rank);
        char done[4096]; memset(done, 0, sizeof done);
        int first = 1;
        for (int a = n; a < m; a++) {
            if (done[a - n]) continue;
            fprintf(c18_out, "%s", first ? " " : "|"); first = 0;
            int f2 = 1;
            for (int b = a; b < m; b++) if (!done[b - n] && c18_log[b].ptr == c18_log[a].ptr) {
                done[b - n] = 1;
                if (c18_log[b].kind == 'P') fprintf(c18_out, "%sP", f2 ? "" : ","); else fprintf(c18_out, "%s%d.%d", f2 ? "" : ",", c18_log[b].cls, c18_log[b].t);
                f2 = 0;
            }
            if (c18_log[a].blk == -1) fprintf(c18_out, "@tile");
        }
        fprintf(c18_out, "\n");
        n = m;
    }
    /* the producers' data afterwards + guard words */
    int bad = 0;
    for (int t = 0; t < c18_dc->nt; t++) {
        if (c18_norm(t, c18_world) != c18_rank) continue;
        fprintf(c18_out, "final %d => r%d :", t, c18_rank);
        for (int i = 0; i < c18_foot; i++) fprintf(c18_out, " %d", c18_tile(c18_dc, t)[i]);
        fprintf(c18_out, "\n");
    }
    for (int t = 0; t < c18_dc->nt; t++) for (int g = 0; g < C18_NGUARD; g++) {
        if (c18_tile(c18_dc, t)[-1 - g] != C18_GUARD) bad++;
        if (c18_tile(c18_dc, t)[c18_ld * c18_nb + g] != C18_GUARD) bad++;
    }
    fprintf(c18_out, "guard %d => %s\n", c18_rank, bad ? "overwritten" : "ok");
    if (bad) fprintf(c18_out, "!viol %d guard words around the collection tiles of rank %d were overwritten\n", bad, c18_rank);
    fprintf(c18_out, "#stat arena_allocs %ld\n#stat arena_frees %ld\n", c18_allocs, c18_frees);
}

/* ------------------------------------------------------------------ watchdog */
static int c18_timeout_ms = 60000;
static volatile int c18_done;
static void *c18_watchdog(void *arg)
{
    (void)arg;
    long last = -1; int idle = 0;
    while (!c18_done && idle < c18_timeout_ms) {
        usleep(20000);
        long now = c18_progress;
        if (now != last) { last = now; idle = 0; } else idle += 20;
    }
    if (!c18_done) {
        pthread_mutex_lock(&c18_mx);
        fprintf(c18_out, "#hang: partial log follows\n");
        c18_dump();
        fprintf(c18_out, "end %d => hang\n", c18_rank);
        fflush(c18_out);
        _exit(3);
    }
    return NULL;
}


/* ------------------------------------------------------------------ unit mode: the conversion alone
 * `rs su sdg du ddg m n ld`: real parsec_matrix_define_datatype for both shapes, a fresh destination copy from a real
 * arena (poisoning allocator, what reshape_copy_allocate obtains), the real parsec_ce.reshape (parsec_mpi_sendrecv).
 * Source tile: val(0, i).  Answer: `ok : <footprint of the destination>`; `rejected` when the source type is larger than the
 * destination type (MPI_ERR_TRUNCATE: outside the precondition, not issued). */
#include "parsec/parsec_comm_engine.h"
#include "parsec/execution_stream.h"
#include "parsec/vpmap.h"
static int c18_unit(parsec_context_t *ctx)
{
    char line[512];
    parsec_execution_stream_t *es = ctx->virtual_processes[0]->execution_streams[0];
    /* the communication engine installs its function table when it is enabled (normally by the communication thread at
     * parsec_context_start); no context is started in unit mode, so this thread is the only one that calls MPI */
    if (NULL == parsec_ce.reshape && NULL != parsec_ce.enable) parsec_ce.enable(&parsec_ce);
    if (NULL == parsec_ce.reshape) { fprintf(stderr, "C18: parsec_ce.reshape is not installed\n"); return 2; }
    while (fgets(line, sizeof line, stdin)) {
        int su, sdg, du, ddg, m, n, ld;
        char *nl = strchr(line, '\n'); if (nl) *nl = 0;
        if (!line[0]) continue;
        fprintf(c18_out, "%s => ", line);
        if (sscanf(line, "rs %d %d %d %d %d %d %d", &su, &sdg, &du, &ddg, &m, &n, &ld) != 7 || m < 1 || n < 1 || ld < m || ld * n > 4096
            || (su != 121 && su != 122 && su != 123) || (du != 121 && du != 122 && du != 123)) { fprintf(c18_out, "bad-op\n"); continue; }
        parsec_datatype_t ts, td; ptrdiff_t es_ext, ed_ext; int ssz, dsz;
        if (parsec_matrix_define_datatype(&ts, parsec_datatype_int32_t, su, sdg, m, n, ld, -1, &es_ext) != PARSEC_SUCCESS ||
            parsec_matrix_define_datatype(&td, parsec_datatype_int32_t, du, ddg, m, n, ld, -1, &ed_ext) != PARSEC_SUCCESS) { fprintf(c18_out, "define-failed\n"); continue; }
        MPI_Type_size(ts, &ssz); MPI_Type_size(td, &dsz);
        if (ssz > dsz) { fprintf(c18_out, "rejected\n"); parsec_type_free(&ts); parsec_type_free(&td); continue; }
        int foot = (n - 1) * ld + m;
        int32_t *src = malloc(sizeof(int32_t) * (size_t)ld * n);
        for (int i = 0; i < ld * n; i++) src[i] = c18_val(0, i);
        parsec_data_copy_t *sc = PARSEC_OBJ_NEW(parsec_data_copy_t);
        sc->device_private = src; sc->dtt = ts;
        parsec_arena_t *ar = PARSEC_OBJ_NEW(parsec_arena_t);
        parsec_arena_construct_ex(ar, (size_t)ed_ext, PARSEC_ARENA_ALIGNMENT_SSE, SIZE_MAX, 0);
        ar->data_malloc = c18_alloc; ar->data_free = c18_free;
        parsec_data_copy_t *dc = parsec_arena_get_new_copy(ar, 1, 0, td);
        int rc = parsec_ce.reshape(&parsec_ce, es, dc, 0, td, 1, sc, 0, ts, 1);
        int32_t *d = (int32_t *)PARSEC_DATA_COPY_GET_PTR(dc);
        fprintf(c18_out, rc == 0 ? "ok :" : "error :");
        for (int i = 0; i < foot; i++) fprintf(c18_out, " %d", d[i]);
        fprintf(c18_out, "\n");
        /* the source must be untouched */
        for (int i = 0; i < ld * n; i++) if (src[i] != c18_val(0, i)) { fprintf(c18_out, "!viol the conversion %s modified its source at offset %d\n", line, i); break; }
        /* nothing may be written past the destination's arena element (the block is 64-byte padded and poisoned) */
        { int blk = c18_blk_of(d); if (blk >= 0) { int32_t *e = (int32_t *)(c18_blks[blk].base + c18_blks[blk].size); int32_t *q = d + ed_ext / 4;
            for (; q + 1 <= e; q++) if (*q != C18_POISON) { fprintf(c18_out, "!viol the conversion %s wrote past the destination element\n", line); break; } } }
        PARSEC_DATA_COPY_RELEASE(dc);
        PARSEC_OBJ_RELEASE(ar);
        sc->device_private = NULL; PARSEC_OBJ_RELEASE(sc);
        free(src);
        parsec_type_free(&ts); parsec_type_free(&td);
    }
    return 0;
}

typedef parsec_taskpool_t *(*c18_make_fn)(parsec_data_collection_t *dc, int nt);
typedef void (*c18_unmake_fn)(parsec_taskpool_t *tp);

int c18_rt_main(int argc, char **argv, c18_make_fn mk, c18_unmake_fn unmk)
{
    int threads = 2, rc, mt = 0, unit = 0;
    const char *outfile = NULL;
    int pargc = 0; char **pargv = NULL;
    for (int i = 1; i < argc; i++) {
        if (!strcmp(argv[i], "--")) { pargc = argc - i; pargv = argv + i; break; }
        if (!strcmp(argv[i], "-t") && i + 1 < argc) threads = atoi(argv[++i]);
        else if (!strcmp(argv[i], "-n") && i + 1 < argc) c18_nt = atoi(argv[++i]);
        else if (!strcmp(argv[i], "-m") && i + 1 < argc) c18_mb = atoi(argv[++i]);
        else if (!strcmp(argv[i], "-N") && i + 1 < argc) c18_nb = atoi(argv[++i]);
        else if (!strcmp(argv[i], "-l") && i + 1 < argc) c18_ld = atoi(argv[++i]);
        else if (!strcmp(argv[i], "-M") && i + 1 < argc) mt = atoi(argv[++i]);
        else if (!strcmp(argv[i], "-o") && i + 1 < argc) outfile = argv[++i];
        else if (!strcmp(argv[i], "-U")) unit = 1;
        else { fprintf(stderr, "usage: %s [-t threads] [-n tiles] [-m MB] [-N NB] [-l LD] [-M 0|1] [-o out] [-- parsec args]\n", argv[0]); return 2; }
    }
    if (c18_mb < 1 || c18_nb < 1 || c18_ld < c18_mb) { fprintf(stderr, "C18: bad tile geometry\n"); return 2; }
    c18_foot = (c18_nb - 1) * c18_ld + c18_mb;
    if (c18_foot > C18_MAXF) { fprintf(stderr, "C18: tile too large\n"); return 2; }
    if (getenv("C18_TIMEOUT_MS")) c18_timeout_ms = atoi(getenv("C18_TIMEOUT_MS"));
    { int provided; MPI_Init_thread(&argc, &argv, mt ? MPI_THREAD_MULTIPLE : MPI_THREAD_SERIALIZED, &provided);
      MPI_Comm_size(MPI_COMM_WORLD, &c18_world); MPI_Comm_rank(MPI_COMM_WORLD, &c18_rank);
      if (mt && provided < MPI_THREAD_MULTIPLE) { fprintf(stderr, "C18: MPI_THREAD_MULTIPLE not provided\n"); return 2; } }
    c18_out = stdout;
    if (outfile) {
        char name[1024];
        snprintf(name, sizeof name, "%s.%d", outfile, c18_rank);
        c18_out = fopen(name, "w");
        if (!c18_out) { perror(name); return 2; }
    }
    parsec_context_t *ctx = parsec_init(threads, &pargc, &pargv);
    if (!ctx) { fprintf(stderr, "parsec_init failed\n"); return 2; }
    if (unit) {
        rc = c18_unit(ctx);
        fflush(c18_out);
        parsec_fini(&ctx);
        MPI_Finalize();
        return rc;
    }
    c18_make_adts();
    c18_dc = c18_dc_new(c18_rank, c18_world, c18_nt);
    parsec_taskpool_t *tp = mk(&c18_dc->super, c18_nt);
    fprintf(c18_out, "#c18 rank %d world %d threads %d mt %d mb %d nb %d ld %d nt %d short %s\n", c18_rank, c18_world, threads, mt, c18_mb, c18_nb, c18_ld, c18_nt,
            getenv("PARSEC_MCA_runtime_comm_short_limit") ? getenv("PARSEC_MCA_runtime_comm_short_limit") : "default");
    pthread_t wd; pthread_create(&wd, NULL, c18_watchdog, NULL);
    rc = parsec_context_add_taskpool(ctx, tp);   PARSEC_CHECK_ERROR(rc, "parsec_context_add_taskpool");
    rc = parsec_context_start(ctx);              PARSEC_CHECK_ERROR(rc, "parsec_context_start");
    rc = parsec_context_wait(ctx);               PARSEC_CHECK_ERROR(rc, "parsec_context_wait");
    c18_done = 1;
    pthread_join(wd, NULL);
    pthread_mutex_lock(&c18_mx);
    c18_dump();
    pthread_mutex_unlock(&c18_mx);
    fprintf(c18_out, "end %d => complete\n", c18_rank);
    fflush(c18_out);
    unmk(tp);
    parsec_taskpool_free(tp);
    parsec_fini(&ctx);
    MPI_Finalize();
    if (c18_out != stdout) fclose(c18_out);
    return 0;
}
