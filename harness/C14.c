/* C14 harness: the REAL MPI funnelled communication engine (parsec/parsec_mpi_funnelled.c) driven through the
 * parsec_ce API by 2..4 real MPI ranks.
 *
 * The engine source is #included below (from $PARSEC_REPO), so that its file-static bookkeeping
 * (array_of_requests / array_of_callbacks, the per-tag pools, the two FIFOs, the counters) can be printed.
 * Because libparsec is a shared library without -Bsymbolic, the definitions of this translation unit
 * interpose the library's copy: parsec_init() -> parsec_comm_engine_init() -> mpi_funnelled_init() runs THIS
 * copy (checked at start-up: `parsec_ce.enable == mpi_no_thread_enable`).  Three MPI calls made by the engine
 * are routed through logging wrappers by macro (the calls themselves are forwarded unchanged):
 *   MPI_Testsome  -> the list of completed indices of every pass of the progress loop (`test` line),
 *   MPI_Get_count -> called once per served index just before its callback (`serve` line),
 *   MPI_Start     -> called once at the end of the service of an active message (`done` line).
 * The comm thread created by parsec_init() stays asleep (the context is never started); the main thread is
 * the only thread using MPI and the engine.
 *
 * usage: mpiexec -n K C14 run <script> <outprefix>        each rank writes <outprefix>.<rank>
 *
 * script (every rank reads all of it; a line is executed by the rank that acts in it):
 *   am <src> <dst> <tag> <seq> <len>        src sends one active message of len bytes on stream tag 8|9|10
 *   xfer <id> get|put <owner> <peer> <size> <inside>
 *                                           move size bytes owner -> peer.  get: the owner offers its memory handle on
 *                                           tag 11 and the peer calls ce->get; put: the peer offers its handle and the
 *                                           owner calls ce->put.  inside=1: the call is made inside the tag-11 callback
 *                                           (put only if can_serve, as remote_dep_mpi.c does), 0: from the main loop.
 *   poll <rank> <k>                         rank calls ce->progress k times (and issues deferred get/put)
 *   pollhold <rank> <k>                     same, but get/put calls stay deferred;   issue <rank>: make the deferred calls now
 *   barrier                                 MPI_Barrier on all ranks (fixes the relative order of two ranks' actions)
 *   drain                                   all ranks: progress until everything addressed to them in this phase arrived
 *                                           and completed, then MPI_Barrier
 *   late <tag>                              (after a drain) all ranks register <tag> with the engine already enabled,
 *                                           barrier, rank 0 sends one message to rank 1, rank 1 polls
 *   nexttag <max> <val> <k...>              rank 0: set MAX_MPI_TAG/__VAL_NEXT_TAG, call next_tag(k) for each k
 *
 * transcript lines (`op => result`, fed to the Lean driver pv_C14): init, inst, test, serve, done, finish, tagcfg, nexttag.
 * `E ...` lines are the delivery log for the end-to-end oracle, `#...` are comments/statistics.
 */
#include <mpi.h>
#include <stdio.h>
#include <stdlib.h>
#include <string.h>
#include <stdint.h>
#include <unistd.h>
#include <time.h>

static int pv_Testsome(int incount, MPI_Request reqs[], int *outcount, int idx[], MPI_Status st[]);
static int pv_Get_count(const MPI_Status *st, MPI_Datatype dt, int *count);
static int pv_Start(MPI_Request *req);
static int pv_Isend(const void *buf, int count, MPI_Datatype dt, int dest, int tag, MPI_Comm comm, MPI_Request *req);
static int pv_Irecv(void *buf, int count, MPI_Datatype dt, int src, int tag, MPI_Comm comm, MPI_Request *req);
#define MPI_Isend     pv_Isend
#define MPI_Irecv     pv_Irecv
#define MPI_Testsome  pv_Testsome
#define MPI_Get_count pv_Get_count
#define MPI_Start     pv_Start
#include "parsec/parsec_mpi_funnelled.c"
#undef MPI_Testsome
#undef MPI_Isend
#undef MPI_Irecv
#undef MPI_Get_count
#undef MPI_Start
#include "parsec.h"

/* ------------------------------------------------------------------ globals */
#define TAG_S0 8
#define TAG_S1 9
#define TAG_S2 10
#define TAG_CTL 11
static const size_t stream_len[3] = { 64, 2048, 16384 };
#define GUARD 64
#define MAXX 4096

static FILE *tr;
static int me, world;
static parsec_comm_engine_t *ce;

typedef struct { int used, id, isput, owner, peer, inside; size_t size; } xdesc_t;
static xdesc_t xd[MAXX];

typedef struct xrec_s {           /* one end of a transfer */
    int id, isput; size_t size;
    unsigned char *buf;           /* GUARD + size + GUARD */
    parsec_ce_mem_reg_handle_t lreg;
    mpi_funnelled_mem_reg_handle_t rcopy;   /* copy of the remote handle */
    int remote;
    uintptr_t rfn;                /* address, in the remote process, of the function to call there at completion */
    struct xrec_s *next;
} xrec_t;
static xrec_t *deferred_head, *deferred_tail;
static xrec_t *srcrec[MAXX];      /* owner side of a get (to free at remote completion) */
static xrec_t *dstrec[MAXX];      /* peer side of a put */

static long got_am, got_ctl, got_xl, got_xr;         /* events seen in the current phase */
static long st_am, st_xfer, st_inst_direct, st_inst_fifo, st_test_nonempty, st_multi, st_outwin, st_maxsq, st_maxrq, st_bytes;

static unsigned char pat(unsigned a, unsigned b, unsigned c, size_t i)
{
    uint32_t x = (uint32_t)(a * 2654435761u) ^ (b * 40503u) ^ (c * 2246822519u) ^ (uint32_t)(i * 3266489917u) ^ (uint32_t)(i >> 7);
    x ^= x >> 15; x *= 2246822519u; x ^= x >> 13;
    return (unsigned char)x;
}

/* ------------------------------------------------------------------ canonical state print */
static char kind_letter(const mpi_funnelled_callback_t *cb, int *id)
{
    if( cb->type == MPI_FUNNELLED_TYPE_ONESIDED ) {
        xrec_t *x = (xrec_t*)cb->cb_data; *id = x->id;
        return x->isput ? 'P' : 'G';
    } else if( cb->type == MPI_FUNNELLED_TYPE_ONESIDED_MIMIC_AM ) {
        uint32_t v; memcpy(&v, cb->cb_type.onesided_mimic_am.msg, 4); *id = (int)v;
        return (*id >= 0 && *id < MAXX && xd[*id].used && xd[*id].isput) ? 'p' : 'g';
    }
    *id = -1; return 'z';
}

static char *show_cb(char *p, int i, int with_st1)
{
    const mpi_funnelled_callback_t *cb = &array_of_callbacks[i];
    if( cb->type == MPI_FUNNELLED_TYPE_AM ) {
        if( NULL == cb->tag_reg ) p += sprintf(p, "z");
        else p += sprintf(p, "a%d:%ld", (int)cb->tag_reg->tag, cb->storage2);
    } else {
        int id; char k = kind_letter(cb, &id);
        p += sprintf(p, "%c%d", k, id);
    }
    if( cb->is_dynamic_recv ) *p++ = 'r';
    if( with_st1 && cb->storage1 != i ) *p++ = '!';
    *p = 0;
    return p;
}

static char *show_q(char *p, parsec_list_t *l)
{
    int first = 1, n = 0;
    *p++ = '[';
    PARSEC_LIST_NOLOCK_ITERATOR(l, it, {
        mpi_funnelled_dynamic_req_t *d = (mpi_funnelled_dynamic_req_t*)it;
        int id; char k = kind_letter(&d->cb, &id);
        p += sprintf(p, "%s%c%d", first ? "" : " ", k, id); first = 0; n++;
    });
    *p++ = ']'; *p = 0;
    if( l == &mpi_funnelled_dynamic_sendreq_fifo ) { if( n > st_maxsq ) st_maxsq = n; } else if( n > st_maxrq ) st_maxrq = n;
    return p;
}

static char dig[1 << 16];
static const char *digest(void)
{
    char *p = dig;
    p += sprintf(p, "L=%d R=%d", mpi_funnelled_last_active_req, mpi_funnelled_num_recv_req_in_arr);
    for(int t = 0; t < PARSEC_MAX_REGISTERED_TAGS; t++) {
        mpi_funnelled_tag_t *ts = &parsec_mpi_funnelled_array_of_registered_tags[t];
        if( ts->status != PARSEC_CE_TAG_STATUS_ACTIVE ) continue;
        p += sprintf(p, " t%d i=%d w=", t, ts->req_idx);
        for(int r = 0; r < ts->req_count; r++) *p++ = ts->reqs_in_testsome[r] ? '1' : '0';
        *p++ = ' '; *p++ = '[';
        for(int j = 0; j < ts->tested_count; j++) {
            int i = ts->start_idx + j;
            if( j ) *p++ = ' ';
            if( MPI_REQUEST_NULL == array_of_requests[i] ) *p++ = '.';
            else p = show_cb(p, i, 1);
        }
        *p++ = ']';
    }
    p += sprintf(p, " D[");
    for(int i = mpi_funnelled_static_req_idx; i < mpi_funnelled_last_active_req; i++) {
        if( i > mpi_funnelled_static_req_idx ) *p++ = ' ';
        if( MPI_REQUEST_NULL == array_of_requests[i] ) *p++ = '.';
        else p = show_cb(p, i, 1);
    }
    for(int i = mpi_funnelled_last_active_req; i < current_size_of_total_reqs; i++)
        if( MPI_REQUEST_NULL != array_of_requests[i] ) p += sprintf(p, " ?%d", i);   /* a live request beyond last_active_req */
    p += sprintf(p, "] sq=");
    p = show_q(p, &mpi_funnelled_dynamic_sendreq_fifo);
    p += sprintf(p, " rq=");
    p = show_q(p, &mpi_funnelled_dynamic_recvreq_fifo);
    *p = 0;
    return dig;
}

/* ------------------------------------------------------------------ progress-loop wrappers */
static int it_open;               /* a pass with outcount > 0 is being logged */
static int it_n, it_k;            /* number of completed indices of the pass, number of Get_count calls so far */
static int it_pos = -1;           /* index being served whose `done` line is still to be written */
static int in_progress;

static void close_served(void)
{
    if( it_pos >= 0 ) { fprintf(tr, "done %d => -\n", it_pos); it_pos = -1; }
}

static void close_iter(void)
{
    if( !it_open ) return;
    close_served();
    fprintf(tr, "finish => %s\n", digest());
    it_open = 0;
}

static unsigned long quick_sig(void)
{
    unsigned long h = (unsigned long)mpi_funnelled_last_active_req * 1000003ul + (unsigned long)mpi_funnelled_num_recv_req_in_arr * 10007ul;
    h += 31ul * (unsigned long)mpi_funnelled_dynamic_sendreq_fifo.ghost_element.list_next + 17ul * (unsigned long)mpi_funnelled_dynamic_recvreq_fifo.ghost_element.list_next;
    return h;
}
static unsigned long empty_sig; static int empty_pending;

static int pv_Testsome(int incount, MPI_Request reqs[], int *outcount, int idx[], MPI_Status st[])
{
    close_iter();
    if( empty_pending ) {   /* the previous pass completed nothing: its feed loop must not have changed anything */
        if( quick_sig() != empty_sig ) fprintf(tr, "test => -\nfinish => %s\n", digest());
        empty_pending = 0;
    }
    int rc = PMPI_Testsome(incount, reqs, outcount, idx, st);
    if( *outcount == MPI_UNDEFINED ) { fprintf(tr, "!viol MPI_Testsome reported no active request in %d slots\n", incount); return rc; }
    if( *outcount <= 0 ) { empty_sig = quick_sig(); empty_pending = 1; return rc; }
    char line[8192], *p = line;
    fprintf(tr, "test");
    for(int k = 0; k < *outcount; k++) {
        fprintf(tr, " %d", idx[k]);
        if( k ) *p++ = ' ';
        p = show_cb(p, idx[k], 0);
        if( idx[k] < mpi_funnelled_static_req_idx ) {
            /* was the completed receive the oldest one of the window? (statistics only) */
        }
    }
    fprintf(tr, " => %s\n", line);
    st_test_nonempty++; if( *outcount > 1 ) st_multi++;
    it_open = 1; it_n = *outcount; it_k = 0; it_pos = -1;
    return rc;
}

static int pv_Get_count(const MPI_Status *st, MPI_Datatype dt, int *count)
{
    if( in_progress && it_open && it_k < it_n ) {
        close_served();
        it_pos = array_of_indices[it_k++];
        fprintf(tr, "serve %d => R=%d\n", it_pos, mpi_funnelled_num_recv_req_in_arr);
    }
    return PMPI_Get_count(st, dt, count);
}

static int pv_Start(MPI_Request *req)
{
    /* end of the service of an active message; the internal GET/PUT callbacks just created a dynamic request */
    if( in_progress && it_pos >= 0 ) {
        mpi_funnelled_callback_t *cb = &array_of_callbacks[it_pos];
        if( cb->type == MPI_FUNNELLED_TYPE_AM && NULL != cb->tag_reg ) {
            mpi_funnelled_tag_t *ts = cb->tag_reg;
            if( ts->tag == PARSEC_CE_MPI_FUNNELLED_GET_TAG_INTERNAL || ts->tag == PARSEC_CE_MPI_FUNNELLED_PUT_TAG_INTERNAL ) {
                char *msg = ts->am_backend_memory + ts->msg_length * cb->storage2;
                uint32_t id; memcpy(&id, msg + sizeof(mpi_funnelled_handshake_info_t), 4);
                fprintf(tr, "inst %c %u => %s\n", ts->tag == PARSEC_CE_MPI_FUNNELLED_GET_TAG_INTERNAL ? 'g' : 'p', id, digest());
            }
        }
        /* which persistent request is restarted */
        int ft = -1, fr = -1;
        for(int t = 0; t < PARSEC_MAX_REGISTERED_TAGS && ft < 0; t++) {
            mpi_funnelled_tag_t *ts = &parsec_mpi_funnelled_array_of_registered_tags[t];
            if( ts->status == PARSEC_CE_TAG_STATUS_ACTIVE && req >= ts->reqs && req < ts->reqs + ts->req_count ) { ft = t; fr = (int)(req - ts->reqs); }
        }
        fprintf(tr, "done %d => s%d:%d\n", it_pos, ft, fr);
        it_pos = -1;
    }
    return PMPI_Start(req);
}

static int pv_Isend(const void *buf, int count, MPI_Datatype dt, int dest, int tag, MPI_Comm comm, MPI_Request *req)
{
    fprintf(tr, "#isend to %d tag %d count %d\n", dest, tag, count);
    return PMPI_Isend(buf, count, dt, dest, tag, comm, req);
}
static int pv_Irecv(void *buf, int count, MPI_Datatype dt, int src, int tag, MPI_Comm comm, MPI_Request *req)
{
    fprintf(tr, "#irecv from %d tag %d count %d\n", src, tag, count);
    return PMPI_Irecv(buf, count, dt, src, tag, comm, req);
}

static double last_event;
static double now(void) { struct timespec t; clock_gettime(CLOCK_MONOTONIC, &t); return t.tv_sec + 1e-9 * t.tv_nsec; }

static void do_progress(void)
{
    in_progress = 1;
    int n = ce->progress(ce);
    in_progress = 0;
    if( n > 0 ) last_event = now();
    close_iter();
    if( empty_pending ) {
        if( quick_sig() != empty_sig ) fprintf(tr, "test => -\nfinish => %s\n", digest());
        empty_pending = 0;
    }
}

/* ------------------------------------------------------------------ test-owned callbacks */
static int stream_cb(parsec_comm_engine_t *e, parsec_ce_tag_t tag, void *msg, size_t size, int src, void *cb_data)
{
    (void)e;
    unsigned char *m = msg;
    long seq = -1; int ok = 1;
    if( (long)cb_data != (long)tag + 1000 ) ok = 0;
    if( size >= 8 ) {
        uint32_t s, l; memcpy(&s, m, 4); memcpy(&l, m + 4, 4);
        seq = s; if( l != size ) ok = 0;
        for(size_t i = 8; i < size; i++) if( m[i] != pat(src, tag, s, i) ) { ok = 0; break; }
    } else {
        for(size_t i = 0; i < size; i++) if( m[i] != pat(src, tag, 0xfffffffu, i) ) { ok = 0; break; }
    }
    fprintf(tr, "E am %d %d %d %ld %zu %d\n", src, me, (int)tag, seq, size, ok);
    got_am++;
    return 1;
}

static int get_local_done(parsec_comm_engine_t *e, parsec_ce_mem_reg_handle_t lreg, ptrdiff_t ldispl,
                          parsec_ce_mem_reg_handle_t rreg, ptrdiff_t rdispl, size_t size, int remote, void *cb_data);
static int put_local_done(parsec_comm_engine_t *e, parsec_ce_mem_reg_handle_t lreg, ptrdiff_t ldispl,
                          parsec_ce_mem_reg_handle_t rreg, ptrdiff_t rdispl, size_t size, int remote, void *cb_data);
static int get_remote_done(parsec_comm_engine_t *e, parsec_ce_tag_t tag, void *msg, size_t size, int src, void *cb_data);
static int put_remote_done(parsec_comm_engine_t *e, parsec_ce_tag_t tag, void *msg, size_t size, int src, void *cb_data);

static int check_buf(xrec_t *x)
{
    int ok = 1;
    for(int i = 0; i < GUARD; i++) if( x->buf[i] != 0xA5 || x->buf[GUARD + x->size + i] != 0xA5 ) ok = 0;   /* nothing outside the requested bytes */
    for(size_t i = 0; i < x->size; i++) if( x->buf[GUARD + i] != pat(0x5eed, x->id, 7, i) ) { ok = 0; break; }
    return ok;
}

static xrec_t *mkrec(int id, int fill)
{
    xrec_t *x = calloc(1, sizeof(xrec_t));
    x->id = id; x->isput = xd[id].isput; x->size = xd[id].size;
    x->buf = malloc(x->size + 2 * GUARD);
    memset(x->buf, 0xA5, x->size + 2 * GUARD);
    if( fill ) for(size_t i = 0; i < x->size; i++) x->buf[GUARD + i] = pat(0x5eed, id, 7, i);
    else memset(x->buf + GUARD, 0x11, x->size);
    size_t hs;
    ce->mem_register(x->buf + GUARD, PARSEC_MEM_TYPE_NONCONTIGUOUS, x->size, parsec_datatype_uint8_t, x->size, &x->lreg, &hs);
    return x;
}

static void issue(xrec_t *x)
{
    uint32_t rdata[2] = { (uint32_t)x->id, 0xC14C14u };
    if( x->isput )
        ce->put(ce, x->lreg, 0, &x->rcopy, 0, x->size, x->remote, put_local_done, x,
                (parsec_ce_tag_t)x->rfn, rdata, sizeof rdata);
    else
        ce->get(ce, x->lreg, 0, &x->rcopy, 0, x->size, x->remote, get_local_done, x,
                (parsec_ce_tag_t)x->rfn, rdata, sizeof rdata);
    fprintf(tr, "inst %c %d => %s\n", x->isput ? 'P' : 'G', x->id, digest());
}

static void defer(xrec_t *x) { x->next = NULL; if( deferred_tail ) deferred_tail->next = x; else deferred_head = x; deferred_tail = x; }

static void run_deferred(void)
{
    while( deferred_head ) {
        xrec_t *x = deferred_head;
        if( x->isput && !ce->can_serve(ce) ) break;     /* API precondition of put (asserted in mpi_no_thread_put) */
        deferred_head = x->next; if( !deferred_head ) deferred_tail = NULL;
        issue(x);
    }
}

typedef struct { uint32_t kind, id; uintptr_t cb_fn; mpi_funnelled_mem_reg_handle_t h; } offer_t;

static int ctl_cb(parsec_comm_engine_t *e, parsec_ce_tag_t tag, void *msg, size_t size, int src, void *cb_data)
{
    (void)e; (void)tag; (void)cb_data;
    offer_t o; memcpy(&o, msg, sizeof o);
    got_ctl++;
    if( size != sizeof o || o.id >= MAXX || !xd[o.id].used ) { fprintf(tr, "!viol malformed offer of %zu bytes from %d\n", size, src); return 1; }
    fprintf(tr, "E offer %d %d %u\n", src, me, o.id);
    xrec_t *x = mkrec(o.id, xd[o.id].isput);     /* put: I own the data; get: I receive */
    x->rcopy = o.h; x->remote = src; x->rfn = o.cb_fn;
    if( xd[o.id].isput ) srcrec[o.id] = x; else dstrec[o.id] = x;
    if( xd[o.id].inside && (!x->isput || ce->can_serve(ce)) ) issue(x);
    else defer(x);
    return 1;
}

static int get_local_done(parsec_comm_engine_t *e, parsec_ce_mem_reg_handle_t lreg, ptrdiff_t ldispl,
                          parsec_ce_mem_reg_handle_t rreg, ptrdiff_t rdispl, size_t size, int remote, void *cb_data)
{
    (void)e; (void)ldispl; (void)rdispl; (void)rreg;
    xrec_t *x = cb_data;
    int ok = check_buf(x) && lreg == x->lreg && size == x->size && remote == x->remote;
    fprintf(tr, "E xl %d %d %d\n", x->id, me, ok);
    got_xl++; st_bytes += x->size;
    ce->mem_unregister(&x->lreg);
    free(x->buf); x->buf = NULL;
    return 1;
}

static int put_local_done(parsec_comm_engine_t *e, parsec_ce_mem_reg_handle_t lreg, ptrdiff_t ldispl,
                          parsec_ce_mem_reg_handle_t rreg, ptrdiff_t rdispl, size_t size, int remote, void *cb_data)
{
    (void)e; (void)ldispl; (void)rdispl; (void)rreg; (void)size;
    xrec_t *x = cb_data;
    int ok = lreg == x->lreg && remote == x->remote;
    fprintf(tr, "E xl %d %d %d\n", x->id, me, ok);
    got_xl++;
    ce->mem_unregister(&x->lreg);
    free(x->buf); x->buf = NULL;
    return 1;
}

static int get_remote_done(parsec_comm_engine_t *e, parsec_ce_tag_t tag, void *msg, size_t size, int src, void *cb_data)
{
    (void)e; (void)tag; (void)size;
    uint32_t r[2]; memcpy(r, msg, sizeof r);
    int id = (int)r[0];
    int ok = r[1] == 0xC14C14u && id >= 0 && id < MAXX && srcrec[id] && (void*)srcrec[id]->lreg == cb_data;   /* src is the MPI_SOURCE of a send status: undefined */
    fprintf(tr, "E xr %d %d %d\n", id, me, ok);
    got_xr++;
    if( ok ) { ce->mem_unregister(&srcrec[id]->lreg); free(srcrec[id]->buf); srcrec[id]->buf = NULL; }
    return 1;
}

static int put_remote_done(parsec_comm_engine_t *e, parsec_ce_tag_t tag, void *msg, size_t size, int src, void *cb_data)
{
    (void)e; (void)tag; (void)size; (void)cb_data;   /* cb_data is not initialised by the engine on this path */
    uint32_t r[2]; memcpy(r, msg, sizeof r);
    int id = (int)r[0];
    int ok = r[1] == 0xC14C14u && id >= 0 && id < MAXX && dstrec[id] && src == xd[id].owner;
    if( ok ) ok = check_buf(dstrec[id]);
    fprintf(tr, "E xr %d %d %d\n", id, me, ok);
    got_xr++; if( id >= 0 && id < MAXX ) st_bytes += xd[id].size;
    if( id >= 0 && id < MAXX && dstrec[id] ) { ce->mem_unregister(&dstrec[id]->lreg); free(dstrec[id]->buf); dstrec[id]->buf = NULL; }
    return 1;
}

static int late_got;
static int late_cb(parsec_comm_engine_t *e, parsec_ce_tag_t tag, void *msg, size_t size, int src, void *cb_data)
{
    (void)e; (void)tag; (void)msg; (void)size; (void)src; (void)cb_data;
    late_got++;
    return 1;
}

/* ------------------------------------------------------------------ script */
typedef struct { char op[16]; long a[8]; char s[8]; int na; } cmd_t;
static cmd_t *cmds; static int ncmds;

static void load(const char *path)
{
    FILE *f = fopen(path, "r");
    if( !f ) { perror(path); MPI_Abort(MPI_COMM_WORLD, 2); }
    char line[4096]; int cap = 0;
    while( fgets(line, sizeof line, f) ) {
        if( line[0] == '#' || line[0] == '\n' ) continue;
        if( ncmds == cap ) { cap = cap ? 2 * cap : 256; cmds = realloc(cmds, cap * sizeof(cmd_t)); }
        cmd_t *c = &cmds[ncmds]; memset(c, 0, sizeof *c);
        char *tok = strtok(line, " \t\n");
        if( !tok ) continue;
        strncpy(c->op, tok, 15);
        while( (tok = strtok(NULL, " \t\n")) && c->na < 8 ) {
            if( !strcmp(tok, "get") || !strcmp(tok, "put") ) { strncpy(c->s, tok, 7); continue; }
            c->a[c->na++] = strtol(tok, NULL, 10);
        }
        ncmds++;
    }
    fclose(f);
}

static void send_stream(int dst, int tag, long seq, size_t len)
{
    unsigned char *m = malloc(len + 8);
    if( len >= 8 ) {
        uint32_t s = (uint32_t)seq, l = (uint32_t)len; memcpy(m, &s, 4); memcpy(m + 4, &l, 4);
        for(size_t i = 8; i < len; i++) m[i] = pat(me, tag, s, i);
    } else for(size_t i = 0; i < len; i++) m[i] = pat(me, tag, 0xfffffffu, i);
    ce->send_am(ce, tag, dst, m, len);
    free(m);
    st_am++;
}

static void start_xfer(int id)
{
    /* the side that owns the registered memory of the handshake sends the offer */
    xdesc_t *d = &xd[id];
    xrec_t *x = mkrec(id, !d->isput);          /* get: I am the owner with the data; put: I am the peer receiving */
    if( d->isput ) dstrec[id] = x; else srcrec[id] = x;
    offer_t o; memset(&o, 0, sizeof o);
    o.kind = d->isput ? 2 : 1; o.id = id;
    o.cb_fn = d->isput ? (uintptr_t)put_remote_done : (uintptr_t)get_remote_done;
    memcpy(&o.h, x->lreg, sizeof o.h);
    ce->send_am(ce, TAG_CTL, d->isput ? d->owner : d->peer, &o, sizeof o);
    st_xfer++;
}

int main(int argc, char **argv)
{
    int prov;
    MPI_Init_thread(&argc, &argv, MPI_THREAD_SERIALIZED, &prov);
    MPI_Comm_rank(MPI_COMM_WORLD, &me); MPI_Comm_size(MPI_COMM_WORLD, &world);
    if( argc < 4 || strcmp(argv[1], "run") ) { fprintf(stderr, "usage: C14 run <script> <outprefix>\n"); MPI_Abort(MPI_COMM_WORLD, 2); }
    char path[4096]; snprintf(path, sizeof path, "%s.%d", argv[3], me);
    tr = fopen(path, "w");
    if( !tr ) { perror(path); MPI_Abort(MPI_COMM_WORLD, 2); }
    if( getenv("C14_LINEBUF") ) setvbuf(tr, NULL, _IOLBF, 0);
    load(argv[2]);

    int pargc = 1; char *pargv[] = { argv[0], NULL }; char **pa = pargv;
    parsec_context_t *ctx = parsec_init(1, &pargc, &pa);
    if( !ctx ) { fprintf(tr, "#infra parsec_init failed\n"); fclose(tr); MPI_Abort(MPI_COMM_WORLD, 3); }
    ce = &parsec_ce;
    if( ce->enable != mpi_no_thread_enable || -1 == MAX_MPI_TAG ) {
        fprintf(tr, "#infra the library did not bind to the harness copy of parsec_mpi_funnelled.c\n"); fclose(tr); MPI_Abort(MPI_COMM_WORLD, 3);
    }
    for(int i = 0; i < ncmds; i++) if( !strcmp(cmds[i].op, "xfer") ) {
        long id = cmds[i].a[0];
        if( id < 0 || id >= MAXX ) continue;
        xd[id].used = 1; xd[id].id = id; xd[id].isput = !strcmp(cmds[i].s, "put");
        xd[id].owner = cmds[i].a[1]; xd[id].peer = cmds[i].a[2]; xd[id].size = cmds[i].a[3]; xd[id].inside = cmds[i].a[4];
    }
    ce->tag_register(TAG_S0, stream_cb, (void*)(long)(TAG_S0 + 1000), stream_len[0]);
    ce->tag_register(TAG_S1, stream_cb, (void*)(long)(TAG_S1 + 1000), stream_len[1]);
    ce->tag_register(TAG_S2, stream_cb, (void*)(long)(TAG_S2 + 1000), stream_len[2]);
    ce->tag_register(TAG_CTL, ctl_cb, NULL, 256);
    ce->enable(ce);
    MPI_Barrier(MPI_COMM_WORLD);

    /* the configuration the engine really uses */
    {
        int nt = 0;
        for(int t = 0; t < PARSEC_MAX_REGISTERED_TAGS; t++) if( parsec_mpi_funnelled_array_of_registered_tags[t].status == PARSEC_CE_TAG_STATUS_ACTIVE ) nt++;
        fprintf(tr, "init %d %d %d", parsec_param_comm_mpi_dynamic_requests, parsec_param_comm_mpi_dynamic_recv_requests, nt);
        for(int t = 0; t < PARSEC_MAX_REGISTERED_TAGS; t++) {
            mpi_funnelled_tag_t *ts = &parsec_mpi_funnelled_array_of_registered_tags[t];
            if( ts->status == PARSEC_CE_TAG_STATUS_ACTIVE ) fprintf(tr, " %d %d %d", t, ts->req_count, ts->tested_count);
        }
        fprintf(tr, " => %s\n", digest());
        fprintf(tr, "#cfg size=%d static=%d\n", current_size_of_total_reqs, mpi_funnelled_static_req_idx);
    }

    long exp_am = 0, exp_ctl = 0, exp_xl = 0, exp_xr = 0;
    int phase_start = 0;
    for(int i = 0; i < ncmds; i++) {
        cmd_t *c = &cmds[i];
        if( !strcmp(c->op, "am") ) {
            if( c->a[0] == me ) send_stream(c->a[1], c->a[2], c->a[3], c->a[4]);
        } else if( !strcmp(c->op, "xfer") ) {
            xdesc_t *d = &xd[c->a[0]];
            if( (d->isput ? d->peer : d->owner) == me ) start_xfer(d->id);
        } else if( !strcmp(c->op, "poll") ) {
            if( c->a[0] == me ) for(long k = 0; k < c->a[1]; k++) { do_progress(); run_deferred(); if( (k & 7) == 7 ) usleep(100); }
        } else if( !strcmp(c->op, "pollhold") ) {
            if( c->a[0] == me ) for(long k = 0; k < c->a[1]; k++) { do_progress(); if( (k & 7) == 7 ) usleep(100); }
        } else if( !strcmp(c->op, "issue") ) {
            if( c->a[0] == me ) run_deferred();
        } else if( !strcmp(c->op, "barrier") ) {
            MPI_Barrier(MPI_COMM_WORLD);
        } else if( !strcmp(c->op, "drain") ) {
            for(int j = phase_start; j < i; j++) {
                cmd_t *q = &cmds[j];
                if( !strcmp(q->op, "am") && q->a[1] == me ) exp_am++;
                if( !strcmp(q->op, "xfer") ) {
                    xdesc_t *d = &xd[q->a[0]];
                    int offerer = d->isput ? d->peer : d->owner, caller = d->isput ? d->owner : d->peer;
                    if( caller == me ) { exp_ctl++; exp_xl++; }
                    if( offerer == me ) exp_xr++;
                }
            }
            long spins = 0;
            double stuck_after = getenv("C14_STUCK_S") ? atof(getenv("C14_STUCK_S")) : 60.0;
            last_event = now();
            while( got_am < exp_am || got_ctl < exp_ctl || got_xl < exp_xl || got_xr < exp_xr || deferred_head ||
                   mpi_funnelled_last_active_req != mpi_funnelled_static_req_idx ||
                   !parsec_list_nolock_is_empty(&mpi_funnelled_dynamic_sendreq_fifo) || !parsec_list_nolock_is_empty(&mpi_funnelled_dynamic_recvreq_fifo) ) {
                do_progress(); run_deferred();
                ++spins;
                if( (spins & 63) == 0 ) {
                    usleep(50);
                    if( now() - last_event > stuck_after ) {
                        /* nothing completed for a long time although work addressed to this rank is outstanding */
                        fprintf(tr, "E stuck %d am %ld/%ld ctl %ld/%ld xl %ld/%ld xr %ld/%ld | %s\n", me, got_am, exp_am, got_ctl, exp_ctl, got_xl, exp_xl, got_xr, exp_xr, digest());
                        fflush(tr);
                        MPI_Abort(MPI_COMM_WORLD, 7);
                    }
                }
            }
            fprintf(tr, "#phase am %ld/%ld ctl %ld/%ld xl %ld/%ld xr %ld/%ld spins %ld\n", got_am, exp_am, got_ctl, exp_ctl, got_xl, exp_xl, got_xr, exp_xr, spins);
            fflush(tr);
            MPI_Barrier(MPI_COMM_WORLD);
            phase_start = i + 1;
        } else if( !strcmp(c->op, "late") ) {
            int tag = c->a[0];
            int rc = ce->tag_register(tag, late_cb, NULL, 64);
            ce->enable(ce);                      /* what the comm thread does every time a context is started */
            MPI_Barrier(MPI_COMM_WORLD);
            if( me == 0 && world > 1 ) { char b[16] = "late"; ce->send_am(ce, tag, 1, b, 16); }
            MPI_Barrier(MPI_COMM_WORLD);
            if( me == 1 ) {
                for(int k = 0; k < 3000 && !late_got; k++) { do_progress(); if( k % 100 == 99 ) usleep(1000); }
                fprintf(tr, "E late %d %d %d %d\n", tag, rc, late_got,
                        (int)parsec_mpi_funnelled_array_of_registered_tags[tag].status);
            }
            MPI_Barrier(MPI_COMM_WORLD);
        } else if( !strcmp(c->op, "nexttag") ) {
            if( me == 0 ) {
                int sm = MAX_MPI_TAG, sv = __VAL_NEXT_TAG;
                MAX_MPI_TAG = c->a[0]; __VAL_NEXT_TAG = c->a[1];
                fprintf(tr, "tagcfg %ld %ld => ok\n", c->a[0], c->a[1]);
                for(int k = 2; k < c->na; k++) fprintf(tr, "nexttag %ld => %d\n", c->a[k], next_tag((int)c->a[k]));
                MAX_MPI_TAG = sm; __VAL_NEXT_TAG = sv;
            }
        }
    }
    fprintf(tr, "#stat am_sent %ld\n#stat xfers_started %ld\n#stat test_nonempty %ld\n#stat test_multi %ld\n#stat max_sendq %ld\n#stat max_recvq %ld\n#stat xfer_bytes %ld\n",
            st_am, st_xfer, st_test_nonempty, st_multi, st_maxsq, st_maxrq, st_bytes);
    fprintf(tr, "#end\n");
    fclose(tr);
    MPI_Barrier(MPI_COMM_WORLD);
    parsec_fini(&ctx);
    MPI_Finalize();
    return 0;
}
