/* C19 harness: builds the REAL matrix datatypes (parsec/data_dist/matrix/matrixtypes.c through
 * parsec/datatype/datatype_mpi.c and the MPI library) and observes which elements they select by
 * MPI_Pack-ing a marker buffer (element k carries the number k) with the built type.
 * Single process, MPI initialised as a singleton.  Ops on stdin, one per line (element units):
 *   def  t uplo diag m n ld rsz      parsec_matrix_define_datatype       => rc lb extent size [runs]
 *   rep  c t uplo diag m n ld rsz    c consecutive instances packed      => [runs]
 *   tri  t uplo diag m n ld          parsec_matrix_define_triangle       => rc lb extent size [runs] | rc
 *   rect t m n ld rsz                parsec_matrix_define_rectangle
 *   cont t nb rsz                    parsec_matrix_define_contiguous
 *   tm <postfix program>             parsec_type_create_{contiguous,vector,indexed,resized} on MPI_INT
 *                                    tokens: e | c N | v C B S | i K b1 d1 .. bK dK | r LB EXT
 *                                    (c/v/i applied to a type of size 0 is outside the validated fragment: rejected)
 *                                                                        => lb extent size [runs]
 * t selects the basic type: 0 MPI_INT 1 MPI_DOUBLE 2 MPI_C_DOUBLE_COMPLEX 3 MPI_FLOAT 4 MPI_C_FLOAT_COMPLEX.
 * runs = maximal runs start+len of consecutive element offsets in typemap (pack) order.
 */
#include "parsec/parsec_config.h"
#include "parsec/runtime.h"
#include "parsec/constants.h"
#include "parsec/datatype.h"
#include "parsec/data_dist/matrix/matrix.h"
#include <mpi.h>
#include <ctype.h>
#include "pv.h"

/* non-static in matrixtypes.c, not declared in matrix.h */
extern int parsec_matrix_define_contiguous(parsec_datatype_t oldtype, unsigned int nb_elem, int resized, parsec_datatype_t *newtype);
extern int parsec_matrix_define_rectangle(parsec_datatype_t oldtype, unsigned int mb, unsigned int nb, unsigned int ld, int resized, parsec_datatype_t *newtype);
extern int parsec_matrix_define_triangle(parsec_datatype_t oldtype, int uplo, int diag, unsigned int m, unsigned int n, unsigned int ld, parsec_datatype_t *newtype);

#define LIM 2097152L
#define NTYPES 5
static MPI_Datatype base_type(int t)
{
    switch( t ) {
    case 0: return MPI_INT;
    case 1: return MPI_DOUBLE;
    case 2: return MPI_C_DOUBLE_COMPLEX;
    case 3: return MPI_FLOAT;
    default: return MPI_C_FLOAT_COMPLEX;
    }
}

#include <stdarg.h>
static char line[1 << 16];
/* property-level failures seen by the harness are emitted after the op's own result line */
static char viols[1 << 14]; static size_t nviols;
static void viol(const char *fmt, ...)
{
    va_list ap; va_start(ap, fmt);
    if( nviols < sizeof(viols) - 1024 ) {
        nviols += snprintf(viols + nviols, 16, "!viol ");
        int k = vsnprintf(viols + nviols, 1000, fmt, ap);
        nviols += (k > 999 ? 999 : k);
        viols[nviols++] = '\n'; viols[nviols] = 0;
    }
    va_end(ap);
}
static char *W[512]; static int nw;

static int parse_long(const char *s, long *v)
{
    char *e; if( !*s ) return 0;
    const char *p = s; if( *p == '-' ) p++;
    if( !*p ) return 0;
    for(const char *q = p; *q; q++) if( !isdigit((unsigned char)*q) ) return 0;
    if( strlen(p) > 12 ) return 0;
    *v = strtol(s, &e, 10); return *e == 0;
}
static int parse_nat(const char *s, long *v) { return parse_long(s, v) && s[0] != '-'; }

/* Pack `count` instances of `type` from a marker buffer and return the selected element offsets
 * (in units of esz bytes) in pack order.  Returns the number of offsets, -1 on a failure that was reported. */
static long observe(MPI_Datatype type, int count, int esz, uint32_t **out, const char *what)
{
    MPI_Aint lb, ext, tlb, text; int size;
    MPI_Type_get_extent(type, &lb, &ext);
    MPI_Type_get_true_extent(type, &tlb, &text);
    MPI_Type_size(type, &size);
    if( lb < 0 || tlb < 0 || ext < 0 ) { viol("C19 %s: negative lb/extent (lb=%ld true_lb=%ld extent=%ld)", what, (long)lb, (long)tlb, (long)ext); return -1; }
    size_t span = (size_t)(count > 0 ? (count - 1) : 0) * (size_t)ext + (size_t)tlb + (size_t)text;
    if( span > (size_t)64 * LIM * 16 ) { viol("C19 %s: unreasonable span %zu bytes (extent=%ld true_lb=%ld true_extent=%ld)", what, span, (long)ext, (long)tlb, (long)text); return -1; }
    size_t nel = span / esz + 2;
    unsigned char *buf = malloc(nel * esz);
    memset(buf, 0xEE, nel * esz);
    for(size_t k = 0; k < nel; k++) { uint32_t v = (uint32_t)k; memcpy(buf + k * esz, &v, 4); }
    size_t psz = (size_t)size * (size_t)count;
    unsigned char *pk = malloc(psz + 64);
    int pos = 0;
    int rc = MPI_Pack(buf, count, type, pk, (int)(psz + 64), &pos, MPI_COMM_SELF);
    if( rc != MPI_SUCCESS || (size_t)pos != psz ) {
        viol("C19 %s: MPI_Pack rc=%d packed %d bytes, type size*count = %zu", what, rc, pos, psz);
        free(buf); free(pk); return -1;
    }
    long no = (long)(psz / esz);
    uint32_t *o = malloc((no + 1) * sizeof(uint32_t));
    for(long i = 0; i < no; i++) {
        memcpy(&o[i], pk + (size_t)i * esz, 4);
        if( o[i] >= nel ) { viol("C19 %s: packed element %ld is not a marker (0x%x)", what, i, o[i]); free(buf); free(pk); free(o); return -1; }
        for(int b = 4; b < esz; b++) if( pk[(size_t)i * esz + b] != 0xEE ) { viol("C19 %s: packed element %ld is not aligned on an element boundary", what, i); free(buf); free(pk); free(o); return -1; }
    }
    if( count == 1 && no > 0 ) {   /* self-check of the marker method against MPI's own true bounds */
        uint32_t mn = o[0], mx = o[0];
        for(long i = 1; i < no; i++) { if( o[i] < mn ) mn = o[i]; if( o[i] > mx ) mx = o[i]; }
        if( (MPI_Aint)mn * esz != tlb || ((MPI_Aint)mx + 1) * esz != tlb + text )
            viol("C19 %s: packed offsets span [%u,%u] elements but MPI true_lb=%ld true_extent=%ld bytes", what, mn, mx, (long)tlb, (long)text);
    }
    free(buf); free(pk);
    *out = o;
    return no;
}

static void print_runs(const uint32_t *o, long no)
{
    printf("[");
    long i = 0; int first = 1;
    while( i < no ) {
        long j = i + 1;
        while( j < no && o[j] == o[j-1] + 1 ) j++;
        printf("%s%u+%ld", first ? "" : " ", o[i], j - i);
        first = 0; i = j;
    }
    printf("]");
}

/* print "lb extent size [runs]" of a committed type, in units of esz */
static void print_type(MPI_Datatype type, int esz, const char *what)
{
    MPI_Aint lb, ext; int size;
    MPI_Type_get_extent(type, &lb, &ext);
    MPI_Type_size(type, &size);
    if( lb % esz || ext % esz || size % esz ) { printf("unaligned lb=%ld extent=%ld size=%d\n", (long)lb, (long)ext, size); return; }
    uint32_t *o = NULL;
    long no = observe(type, 1, esz, &o, what);
    if( no < 0 ) { printf("unobservable\n"); return; }
    printf("%ld %ld %d ", (long)(lb / esz), (long)(ext / esz), size / esz);
    print_runs(o, no);
    printf("\n");
    free(o);
}

static int ok_sizes(long m, long n, long ld, long rsz)
{
    return 1 <= m && 1 <= n && m <= ld && ld * n <= LIM && rsz <= LIM && -LIM <= rsz;
}

static void finish_defined(int rc, MPI_Datatype nt, int esz, const char *what)
{
    if( rc != PARSEC_SUCCESS ) { printf("%d\n", rc); return; }
    printf("0 ");
    print_type(nt, esz, what);
    parsec_type_free(&nt);
}

static void op_def(int rep)
{
    long c = 1, t, uplo, diag, m, n, ld, rsz; int k = 1;
    if( rep ) { if( nw != 9 || !parse_nat(W[k++], &c) ) { printf("bad-op\n"); return; } }
    else if( nw != 8 ) { printf("bad-op\n"); return; }
    if( !parse_nat(W[k], &t) || !parse_nat(W[k+1], &uplo) || !parse_long(W[k+2], &diag) || !parse_nat(W[k+3], &m) ||
        !parse_nat(W[k+4], &n) || !parse_nat(W[k+5], &ld) || !parse_long(W[k+6], &rsz) || t >= NTYPES || c > 8 ) { printf("bad-op\n"); return; }
    if( !ok_sizes(m, n, ld, rsz) ) { printf("rejected\n"); return; }
    MPI_Datatype old = base_type((int)t), nt = MPI_DATATYPE_NULL;
    int esz; MPI_Type_size(old, &esz);
    ptrdiff_t extent = -1;
    int rc = parsec_matrix_define_datatype(&nt, old, (parsec_matrix_uplo_t)uplo, (int)diag, (unsigned)m, (unsigned)n, (unsigned)ld, (int)rsz, &extent);
    if( rc != PARSEC_SUCCESS ) { printf("%d\n", rc); return; }
    MPI_Aint lb, ext; MPI_Type_get_extent(nt, &lb, &ext);
    if( (MPI_Aint)extent != ext ) viol("C19 %s: extent reported by parsec_matrix_define_datatype is %ld bytes but the type's extent is %ld bytes", line, (long)extent, (long)ext);
    if( !rep ) { printf("0 "); print_type(nt, esz, line); }
    else {
        uint32_t *o = NULL;
        long no = observe(nt, (int)c, esz, &o, line);
        if( no < 0 ) printf("unobservable\n");
        else { print_runs(o, no); printf("\n"); free(o); }
    }
    parsec_type_free(&nt);
}

static void op_tri(void)
{
    long t, uplo, diag, m, n, ld;
    if( nw != 7 || !parse_nat(W[1], &t) || !parse_nat(W[2], &uplo) || !parse_long(W[3], &diag) || !parse_nat(W[4], &m) ||
        !parse_nat(W[5], &n) || !parse_nat(W[6], &ld) || t >= NTYPES ) { printf("bad-op\n"); return; }
    if( !ok_sizes(m, n, ld, 0) ) { printf("rejected\n"); return; }
    MPI_Datatype old = base_type((int)t), nt = MPI_DATATYPE_NULL; int esz; MPI_Type_size(old, &esz);
    int rc = parsec_matrix_define_triangle(old, (int)uplo, (int)diag, (unsigned)m, (unsigned)n, (unsigned)ld, &nt);
    finish_defined(rc, nt, esz, line);
}

static void op_rect(void)
{
    long t, m, n, ld, rsz;
    if( nw != 6 || !parse_nat(W[1], &t) || !parse_nat(W[2], &m) || !parse_nat(W[3], &n) || !parse_nat(W[4], &ld) ||
        !parse_long(W[5], &rsz) || t >= NTYPES ) { printf("bad-op\n"); return; }
    if( !ok_sizes(m, n, ld, rsz) ) { printf("rejected\n"); return; }
    MPI_Datatype old = base_type((int)t), nt = MPI_DATATYPE_NULL; int esz; MPI_Type_size(old, &esz);
    int rc = parsec_matrix_define_rectangle(old, (unsigned)m, (unsigned)n, (unsigned)ld, (int)rsz, &nt);
    finish_defined(rc, nt, esz, line);
}

static void op_cont(void)
{
    long t, nb, rsz;
    if( nw != 4 || !parse_nat(W[1], &t) || !parse_nat(W[2], &nb) || !parse_long(W[3], &rsz) || t >= NTYPES ) { printf("bad-op\n"); return; }
    if( !ok_sizes(1, nb, 1, rsz) ) { printf("rejected\n"); return; }
    MPI_Datatype old = base_type((int)t), nt = MPI_DATATYPE_NULL; int esz; MPI_Type_size(old, &esz);
    int rc = parsec_matrix_define_contiguous(old, (unsigned)nb, (int)rsz, &nt);
    finish_defined(rc, nt, esz, line);
}

/* ---- tm: raw constructors ---- */
typedef struct { MPI_Datatype ty; long size; int owned; } ent_t;
static void tm_free(ent_t *st, int sp) { for(int i = 0; i < sp; i++) if( st[i].owned ) parsec_type_free(&st[i].ty); }

/* after a constructor: bounds check identical to the model's (`fin`) */
static int tm_too_big(MPI_Datatype ty)
{
    MPI_Aint lb, ext, tlb, text; int size;
    MPI_Type_get_extent(ty, &lb, &ext); MPI_Type_get_true_extent(ty, &tlb, &text); MPI_Type_size(ty, &size);
    long ub = (long)(lb + ext) / 4, tub = size ? (long)(tlb + text) / 4 : 0;
    return ub > 2 * LIM || tub > 2 * LIM;
}

static void op_tm(void)
{
    ent_t st[64]; int sp = 0, k = 0, i = 1;
    const int esz = 4;
#define TM_BAD do { tm_free(st, sp); printf("bad-op\n"); return; } while(0)
#define TM_REJ do { tm_free(st, sp); printf("rejected\n"); return; } while(0)
    while( i < nw ) {
        const char *w = W[i];
        MPI_Datatype nt = MPI_DATATYPE_NULL; int rc; long nsize;
        if( !strcmp(w, "e") ) { if( sp >= 60 ) TM_BAD; st[sp].ty = MPI_INT; st[sp].size = 1; st[sp].owned = 0; sp++; i++; continue; }
        if( !strcmp(w, "c") ) {
            long n; if( i + 1 >= nw || sp < 1 || !parse_nat(W[i+1], &n) || n > 4096 || k >= 6 ) TM_BAD;
            if( st[sp-1].size == 0 ) TM_REJ;
            nsize = n * st[sp-1].size; if( nsize > LIM ) TM_REJ;
            rc = parsec_type_create_contiguous((int)n, st[sp-1].ty, &nt); i += 2;
        } else if( !strcmp(w, "v") ) {
            long c, b, s; if( i + 3 >= nw || sp < 1 || !parse_nat(W[i+1], &c) || !parse_nat(W[i+2], &b) || !parse_nat(W[i+3], &s) || c > 4096 || b > 4096 || s > 4096 || k >= 6 ) TM_BAD;
            if( st[sp-1].size == 0 ) TM_REJ;
            nsize = c * b * st[sp-1].size; if( nsize > LIM ) TM_REJ;
            rc = parsec_type_create_vector((int)c, (int)b, (int)s, st[sp-1].ty, &nt); i += 4;
        } else if( !strcmp(w, "i") ) {
            long kk; int bl[16], dp[16]; long sum = 0;
            if( i + 1 >= nw || sp < 1 || !parse_nat(W[i+1], &kk) || kk > 16 || k >= 6 || nw - (i + 2) < 2 * kk ) TM_BAD;
            for(long j = 0; j < kk; j++) {
                long b, d; if( !parse_nat(W[i+2+2*j], &b) || !parse_nat(W[i+3+2*j], &d) || b > 4096 || d > 4096 ) TM_BAD;
                bl[j] = (int)b; dp[j] = (int)d; sum += b;
            }
            if( st[sp-1].size == 0 ) TM_REJ;
            nsize = sum * st[sp-1].size; if( nsize > LIM ) TM_REJ;
            rc = parsec_type_create_indexed((int)kk, bl, dp, st[sp-1].ty, &nt); i += 2 + 2 * (int)kk;
        } else if( !strcmp(w, "r") ) {
            long lb, ext; if( i + 2 >= nw || sp < 1 || !parse_nat(W[i+1], &lb) || !parse_nat(W[i+2], &ext) || lb > 4096 || ext > LIM || k >= 6 ) TM_BAD;
            nsize = st[sp-1].size;
            rc = parsec_type_create_resized(st[sp-1].ty, (ptrdiff_t)lb * esz, (ptrdiff_t)ext * esz, &nt); i += 3;
        } else TM_BAD;
        if( rc != PARSEC_SUCCESS ) { tm_free(st, sp); printf("err %d\n", rc); return; }
        if( st[sp-1].owned ) parsec_type_free(&st[sp-1].ty);
        st[sp-1].ty = nt; st[sp-1].size = nsize; st[sp-1].owned = 1; k++;
        if( tm_too_big(nt) ) TM_REJ;
    }
    if( sp != 1 ) TM_BAD;
    if( !st[0].owned ) { MPI_Datatype d; MPI_Type_dup(MPI_INT, &d); st[0].ty = d; st[0].owned = 1; }
    print_type(st[0].ty, esz, line);
    tm_free(st, sp);
}

int main(int argc, char **argv)
{
    MPI_Init(&argc, &argv);
    MPI_Comm_set_errhandler(MPI_COMM_WORLD, MPI_ERRORS_RETURN);
    MPI_Comm_set_errhandler(MPI_COMM_SELF, MPI_ERRORS_RETURN);
    static char copy[1 << 16];
    while( fgets(line, sizeof(line), stdin) ) {
        size_t l = strlen(line);
        while( l && (line[l-1] == '\n' || line[l-1] == '\r' || line[l-1] == ' ') ) line[--l] = 0;
        if( !l ) continue;
        strcpy(copy, line);
        nw = 0;
        for(char *p = strtok(copy, " "); p && nw < 511; p = strtok(NULL, " ")) W[nw++] = p;
        printf("%s => ", line);
        if( nw == 0 ) printf("bad-op\n");
        else if( !strcmp(W[0], "def") ) op_def(0);
        else if( !strcmp(W[0], "rep") ) op_def(1);
        else if( !strcmp(W[0], "tri") ) op_tri();
        else if( !strcmp(W[0], "rect") ) op_rect();
        else if( !strcmp(W[0], "cont") ) op_cont();
        else if( !strcmp(W[0], "tm") ) op_tm();
        else printf("bad-op\n");
        if( nviols ) { fputs(viols, stdout); nviols = 0; viols[0] = 0; }
        fflush(stdout);
    }
    MPI_Finalize();
    return 0;
}
