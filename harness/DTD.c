/* DTD harness (properties C03, C04, C17): a REAL dynamic-task-discovery program driven by an insertion
 * script.  Nothing of PaRSEC is re-implemented: tiles come from a block-cyclic data collection, tasks are
 * inserted with parsec_dtd_insert_task (INPUT/OUTPUT/INOUT | AFFINITY), the program waits, flushes.
 *
 *   DTD [-i script] [-o outprefix] [-c cores] [-w watchdog seconds: report where a case is stuck]
 *       [-b 1|2: diagnostic MPI barriers after taskpool registration (1) and also before the final wait (2)]
 *     script on stdin if no -i (single rank only: under mpiexec every rank must read the same file);
 *     transcript on stdout, or on <outprefix>.<rank> when -o is given (one file per MPI rank).
 *   environment: PARSEC_MCA_mca_sched=<lfq|ap|rnd|ll|...>   scheduler,  VERIF_DTD_SPIN=<unit ns> (default 1500)
 *
 * Script lines (see docs/notes/DTD.md):
 *   case <k> D=<ndata> W=<window|def> T=<threshold|def> R=<ranks>   start a case (def = leave the runtime default;
 *                                                          R must be the number of MPI ranks of this run)
 *   t <tid> <rN|aJ> b<body> [d:M ...]                      task inserted by the main thread; M in R W RW; a body id >= 100 means
 *                                                          "insert through the task-class API" (parsec_dtd_create_task_class +
 *                                                          parsec_dtd_task_class_add_chore + parsec_dtd_insert_task_with_task_class:
 *                                                          the parsec_dtd_cpu_task_submit path, the one that bumps data-copy versions)
 *                                                          rN = value affinity rank N, aJ = AFFINITY flag on argument J
 *   c <parent> <tid> <rN|aJ> b<body> [d:M ...]             task inserted by the body of task <parent>
 *   wait                                                   parsec_taskpool_wait
 *   flush <d>                                              parsec_dtd_data_flush of the tile of datum d
 *   flushall                                               parsec_dtd_data_flush_all
 *   run                                                    execute the program (a final flush_all + wait is always added)
 *   obs <tid>                                              values task tid read (R and RW arguments, in order)
 *   val <d>                                                final value of datum d in the owner's copy
 *   trace                                                  (single rank) the begin/end events of all bodies in global stamp order,
 *                                                          printed as `trace s<tid> f<tid> ... => accepted`: the model must accept them
 * tids must be 0,1,2,... in file order; the file order is the DFS order (children directly after their parent).
 */
#include "parsec/runtime.h"
#include "parsec/parsec_internal.h"
#include "parsec/execution_stream.h"
#include "parsec/interfaces/dtd/insert_function_internal.h"
#include "parsec/data_dist/matrix/two_dim_rectangle_cyclic.h"
#include "parsec/utils/debug.h"
#include <mpi.h>
#include <unistd.h>
#include <time.h>
#include "pv.h"

#define MAXT 2048
#define MAXA 6
#define MAXD 16
#define MAXOPS 4096
enum { M_R = 1, M_W = 2, M_RW = 3 };

typedef struct {
    int parent, aff_arg, aff_rank, body, na;
    int d[MAXA], m[MAXA];
    int first_child, next_sibling, last_child;
    /* records */
    volatile int32_t execd;
    uint64_t obs[MAXA];
    uint64_t t_begin, t_end;
    int th;
} tk_t;
typedef struct { int kind, arg; } op_t;          /* 0 insert tid, 1 wait, 2 flush d, 3 flushall */

static tk_t T[MAXT];
static op_t OPS[MAXOPS];
static int NT, NOPS, ND, WIN, THR, CASE_ID;
static FILE *out;
static int my_rank, world;
static parsec_context_t *parsec;
static parsec_taskpool_t *tp;
static parsec_data_collection_t *A;
static parsec_dtd_tile_t *tiles[MAXD];
static int TILE_FULL;
static volatile uint64_t stamp;
static volatile uint64_t inflight[MAXD];          /* low 32 bits: readers in flight, high 32: writers in flight */
static volatile int32_t n_viol, n_again_seen, n_rr_overlap, n_nullptr;
static long spin_unit_ns = 1500;
static char violbuf[64][200];

static inline uint64_t mix64(uint64_t x) {
    x ^= x >> 30; x *= 0xBF58476D1CE4E5B9ULL;
    x ^= x >> 27; x *= 0x94D049BB133111EBULL;
    x ^= x >> 31; return x;
}
static inline uint64_t init_val(int d) { return mix64(0x1234567ULL + (uint64_t)d); }
static inline uint64_t h_start(int tid, int body) { return mix64((uint64_t)tid * 0x9E3779B97F4A7C15ULL + (uint64_t)body + 1); }
static inline uint64_t h_in(uint64_t h, uint64_t v) { return mix64(h ^ v) + 0x632BE59BD9B4E019ULL; }
static inline uint64_t h_out(uint64_t h, int j) { return mix64(h + (uint64_t)j + 1); }

static void viol(const char *fmt, ...) {
    int32_t k = parsec_atomic_fetch_inc_int32(&n_viol);
    if (k < 64) { va_list ap; va_start(ap, fmt); vsnprintf(violbuf[k], sizeof violbuf[k], fmt, ap); va_end(ap); }
}
static void spin_ns(long ns) {
    struct timespec a, b; clock_gettime(CLOCK_MONOTONIC, &a);
    do { clock_gettime(CLOCK_MONOTONIC, &b); } while ((b.tv_sec - a.tv_sec) * 1000000000L + (b.tv_nsec - a.tv_nsec) < ns);
}

static void insert_task(int tid);
static volatile int32_t n_again;
/* statistics only: count the AGAIN answers of the real prepare_input (the writer's retry while readers are outstanding) */
static int lookup_wrap(parsec_execution_stream_t *es, parsec_task_t *task) {
    int rc = data_lookup_of_dtd_task(es, task);
    if (PARSEC_HOOK_RETURN_AGAIN == rc) parsec_atomic_fetch_inc_int32(&n_again);
    return rc;
}
static void patch_classes(void) {
    for (int i = 0; i < PARSEC_DTD_NB_TASK_CLASSES; i++) {
        parsec_task_class_t *tc = (parsec_task_class_t *)tp->task_classes_array[i];
        if (tc && tc->prepare_input == data_lookup_of_dtd_task) *(parsec_hook_t **)&tc->prepare_input = lookup_wrap;
    }
}

static int body(parsec_execution_stream_t *es, parsec_task_t *this_task) {
    int tid = -1, rk = -1, j, k;
    uint64_t *p[MAXA] = {0};
    parsec_dtd_unpack_args(this_task, &tid, &rk, &p[0], &p[1], &p[2], &p[3], &p[4], &p[5]);
    tk_t *t = &T[tid];
    if (parsec_atomic_fetch_inc_int32(&t->execd) != 0) viol("task %d executed more than once", tid);
    t->th = es->th_id;
    /* per-datum aggregated access of this task */
    int dd[MAXA], dw[MAXA], nd = 0;
    for (j = 0; j < t->na; j++) {
        for (k = 0; k < nd; k++) if (dd[k] == t->d[j]) break;
        if (k == nd) { dd[nd] = t->d[j]; dw[nd] = 0; nd++; }
        if (t->m[j] & M_W) dw[k] = 1;
    }
    t->t_begin = __atomic_add_fetch(&stamp, 1, __ATOMIC_SEQ_CST);
    for (k = 0; k < nd; k++) {
        uint64_t prev = __atomic_fetch_add(&inflight[dd[k]], dw[k] ? (1ULL << 32) : 1ULL, __ATOMIC_SEQ_CST);
        uint32_t pr = (uint32_t)prev, pw = (uint32_t)(prev >> 32);
        if (dw[k] && (pr || pw)) viol("task %d starts writing datum %d while %u reader(s) and %u writer(s) of it are running", tid, dd[k], pr, pw);
        if (!dw[k] && pw) viol("task %d starts reading datum %d while %u writer(s) of it are running", tid, dd[k], pw);
        if (!dw[k] && pr) parsec_atomic_fetch_inc_int32(&n_rr_overlap);
    }
    uint64_t h = h_start(tid, t->body);
    int bad = 0;
    for (j = 0; j < t->na; j++) {
        if (NULL == p[j]) { bad = 1; continue; }
        if (t->m[j] & M_R) { t->obs[j] = *(volatile uint64_t *)p[j]; h = h_in(h, t->obs[j]); }
    }
    if (bad) { parsec_atomic_fetch_inc_int32(&n_nullptr); viol("task %d received a NULL data pointer for one of its arguments", tid); }
    spin_ns(spin_unit_ns * (1 + (t->body & 3)));
    /* a task that inserts tasks does so in the middle of its body, between its reads and its writes */
    for (k = t->first_child; k >= 0; k = T[k].next_sibling) insert_task(k);
    for (j = 0; j < t->na; j++)
        if ((t->m[j] & M_W) && p[j]) *(volatile uint64_t *)p[j] = h_out(h, j);
    for (k = 0; k < nd; k++) __atomic_fetch_sub(&inflight[dd[k]], dw[k] ? (1ULL << 32) : 1ULL, __ATOMIC_SEQ_CST);
    t->t_end = __atomic_add_fetch(&stamp, 1, __ATOMIC_SEQ_CST);
    return PARSEC_HOOK_RETURN_DONE;
}
/* one function pointer per flow count: DTD caches the task class by (function, number of flows) */
#define BODYK(k) static int body##k(parsec_execution_stream_t *es, parsec_task_t *t) { return body(es, t); }
BODYK(0) BODYK(1) BODYK(2) BODYK(3) BODYK(4) BODYK(5) BODYK(6)
static parsec_dtd_funcptr_t *bodies[MAXA + 1] = { body0, body1, body2, body3, body4, body5, body6 };

static int opflag(int m) { return m == M_R ? PARSEC_INPUT : m == M_W ? PARSEC_OUTPUT : PARSEC_INOUT; }

/* task classes (one per mode signature), created by the main thread before the insertions start (the DTD contract wants task-class
 * creation serialized); at most MAXTC per taskpool, further signatures fall back to parsec_dtd_insert_task */
#define MAXTC 14
static struct { int sig; parsec_task_class_t *tc; } TC[MAXTC];
static int NTC;
static int sig_of(const tk_t *t) { int s = 1; for (int j = 0; j < t->na; j++) s = s * 4 + t->m[j]; return s; }
static parsec_task_class_t *find_tc(const tk_t *t) { int s = sig_of(t); for (int i = 0; i < NTC; i++) if (TC[i].sig == s) return TC[i].tc; return NULL; }
#define CARG(j) PASSED_BY_REF, (opflag(t->m[j]) | TILE_FULL)
static void make_tc(const tk_t *t) {
    if (find_tc(t) || NTC >= MAXTC) return;
    parsec_task_class_t *tc = NULL;
#define CHEAD tp, "TC", sizeof(int), PARSEC_VALUE, sizeof(int), PARSEC_VALUE
    switch (t->na) {
    case 0: tc = parsec_dtd_create_task_class(CHEAD, PARSEC_DTD_ARG_END); break;
    case 1: tc = parsec_dtd_create_task_class(CHEAD, CARG(0), PARSEC_DTD_ARG_END); break;
    case 2: tc = parsec_dtd_create_task_class(CHEAD, CARG(0), CARG(1), PARSEC_DTD_ARG_END); break;
    case 3: tc = parsec_dtd_create_task_class(CHEAD, CARG(0), CARG(1), CARG(2), PARSEC_DTD_ARG_END); break;
    case 4: tc = parsec_dtd_create_task_class(CHEAD, CARG(0), CARG(1), CARG(2), CARG(3), PARSEC_DTD_ARG_END); break;
    case 5: tc = parsec_dtd_create_task_class(CHEAD, CARG(0), CARG(1), CARG(2), CARG(3), CARG(4), PARSEC_DTD_ARG_END); break;
    case 6: tc = parsec_dtd_create_task_class(CHEAD, CARG(0), CARG(1), CARG(2), CARG(3), CARG(4), CARG(5), PARSEC_DTD_ARG_END); break;
    }
    if (!tc) return;
    parsec_dtd_task_class_add_chore(tp, tc, PARSEC_DEV_CPU, body);
    TC[NTC].sig = sig_of(t); TC[NTC].tc = tc; NTC++;
}
#define ARG(j) PASSED_BY_REF, tiles[t->d[j]], (opflag(t->m[j]) | TILE_FULL | (t->aff_arg == (j) ? PARSEC_AFFINITY : 0))
static void insert_task(int tid) {
    tk_t *t = &T[tid];
    int rk = t->aff_rank;
    int rflag = PARSEC_VALUE | (t->aff_arg < 0 ? PARSEC_AFFINITY : 0);
    parsec_task_class_t *tc = t->body >= 100 ? find_tc(t) : NULL;
    if (tc) {
        int aflag = t->aff_arg < 0 ? PARSEC_AFFINITY : PARSEC_DTD_EMPTY_FLAG;
#define TARG(j) (t->aff_arg == (j) ? PARSEC_AFFINITY : PARSEC_DTD_EMPTY_FLAG), tiles[t->d[j]]
#define THEAD tp, tc, 0, PARSEC_DEV_CPU, PARSEC_DTD_EMPTY_FLAG, &tid, aflag, &rk
        switch (t->na) {
        case 0: parsec_dtd_insert_task_with_task_class(THEAD, PARSEC_DTD_ARG_END); break;
        case 1: parsec_dtd_insert_task_with_task_class(THEAD, TARG(0), PARSEC_DTD_ARG_END); break;
        case 2: parsec_dtd_insert_task_with_task_class(THEAD, TARG(0), TARG(1), PARSEC_DTD_ARG_END); break;
        case 3: parsec_dtd_insert_task_with_task_class(THEAD, TARG(0), TARG(1), TARG(2), PARSEC_DTD_ARG_END); break;
        case 4: parsec_dtd_insert_task_with_task_class(THEAD, TARG(0), TARG(1), TARG(2), TARG(3), PARSEC_DTD_ARG_END); break;
        case 5: parsec_dtd_insert_task_with_task_class(THEAD, TARG(0), TARG(1), TARG(2), TARG(3), TARG(4), PARSEC_DTD_ARG_END); break;
        case 6: parsec_dtd_insert_task_with_task_class(THEAD, TARG(0), TARG(1), TARG(2), TARG(3), TARG(4), TARG(5), PARSEC_DTD_ARG_END); break;
        }
        patch_classes();
        return;
    }
#define HEAD tp, bodies[t->na], 0, PARSEC_DEV_CPU, "T", sizeof(int), &tid, PARSEC_VALUE, sizeof(int), &rk, rflag
    switch (t->na) {
    case 0: parsec_dtd_insert_task(HEAD, PARSEC_DTD_ARG_END); break;
    case 1: parsec_dtd_insert_task(HEAD, ARG(0), PARSEC_DTD_ARG_END); break;
    case 2: parsec_dtd_insert_task(HEAD, ARG(0), ARG(1), PARSEC_DTD_ARG_END); break;
    case 3: parsec_dtd_insert_task(HEAD, ARG(0), ARG(1), ARG(2), PARSEC_DTD_ARG_END); break;
    case 4: parsec_dtd_insert_task(HEAD, ARG(0), ARG(1), ARG(2), ARG(3), PARSEC_DTD_ARG_END); break;
    case 5: parsec_dtd_insert_task(HEAD, ARG(0), ARG(1), ARG(2), ARG(3), ARG(4), PARSEC_DTD_ARG_END); break;
    case 6: parsec_dtd_insert_task(HEAD, ARG(0), ARG(1), ARG(2), ARG(3), ARG(4), ARG(5), PARSEC_DTD_ARG_END); break;
    }
    patch_classes();
}

static uint64_t *owner_ptr(int d) {
    parsec_data_t *data = A->data_of_key(A, (parsec_data_key_t)d);
    return (uint64_t *)PARSEC_DATA_COPY_GET_PTR(data->device_copies[0]);
}

/* watchdog: when a case does not finish within VERIF_DTD_WATCHDOG seconds, say what this rank has executed and what the
 * termination detector of the taskpool still counts (a hang is a result: the transcript then shows where it is stuck) */
#include <pthread.h>
static volatile int wd_done, wd_secs;
static void *watchdog(void *arg) {
    (void)arg;
    for (int ms = 0; !wd_done; ms += 100) {
        usleep(100000);
        if (ms >= wd_secs * 1000) {
            char buf[8192]; int n = 0, i;
            for (i = 0; i < NT && n < 8000; i++) if (T[i].execd) n += snprintf(buf + n, sizeof buf - n, " %d", i);
            buf[n] = 0;
            fprintf(out, "#hang case %d rank %d after %ds: executed here:%s ; taskpool nb_tasks=%d nb_pending_actions=%d\n", CASE_ID, my_rank, wd_secs, buf,
                    tp ? (int)tp->nb_tasks : -1, tp ? (int)tp->nb_pending_actions : -1);
            fflush(out);
            return NULL;
        }
    }
    return NULL;
}
static uint64_t finalv[MAXD];
static int barrier_mode;
static int def_win = -1, def_thr = -1;
static void run_case(void) {
    int d, i, rc;
    pthread_t wd; int have_wd = 0;
    wd_done = 0; tp = NULL;
    if (wd_secs > 0) have_wd = (0 == pthread_create(&wd, NULL, watchdog, NULL));
    parsec_matrix_block_cyclic_t *m = (parsec_matrix_block_cyclic_t *)malloc(sizeof(parsec_matrix_block_cyclic_t));
    parsec_matrix_block_cyclic_init(m, PARSEC_MATRIX_DOUBLE, PARSEC_MATRIX_TILE, my_rank,
                                    1, 1, ND, 1, 0, 0, ND, 1, world, 1, 1, 1, 0, 0);
    m->mat = parsec_data_allocate((size_t)m->super.nb_local_tiles * (size_t)m->super.bsiz *
                                  (size_t)parsec_datadist_getsizeoftype(m->super.mtype));
    A = (parsec_data_collection_t *)m;
    parsec_data_collection_set_key(A, "A");
    for (d = 0; d < ND; d++) if ((int)A->rank_of_key(A, d) == my_rank) *owner_ptr(d) = init_val(d);
    parsec_dtd_data_collection_init(A);
    tp = parsec_dtd_taskpool_new();
    if (def_win < 0) { def_win = parsec_dtd_window_size; def_thr = parsec_dtd_threshold_size; }   /* after the lazy init of the first taskpool */
    parsec_dtd_window_size = WIN > 0 ? WIN : def_win;
    parsec_dtd_threshold_size = THR >= 0 ? THR : def_thr;
    ((parsec_dtd_taskpool_t *)tp)->task_threshold_size = parsec_dtd_threshold_size;
    rc = parsec_context_add_taskpool(parsec, tp); PARSEC_CHECK_ERROR(rc, "add_taskpool");
    rc = parsec_context_start(parsec); PARSEC_CHECK_ERROR(rc, "context_start");
    if (barrier_mode >= 1) MPI_Barrier(MPI_COMM_WORLD);   /* diagnostic option -b: every rank has registered the taskpool before any task is inserted */
    int stale[MAXD];
    for (d = 0; d < ND; d++) { tiles[d] = PARSEC_DTD_TILE_OF_KEY(A, d); stale[d] = 0; inflight[d] = 0; }
    NTC = 0;
    for (i = 0; i < NT; i++) if (T[i].body >= 100) make_tc(&T[i]);
    patch_classes();
    stamp = 0;
    for (i = 0; i < NOPS; i++) {
        switch (OPS[i].kind) {
        case 0: insert_task(OPS[i].arg); break;
        case 1:
            rc = parsec_taskpool_wait(tp); PARSEC_CHECK_ERROR(rc, "taskpool_wait");
            for (d = 0; d < ND; d++) if (stale[d]) { tiles[d] = PARSEC_DTD_TILE_OF_KEY(A, d); stale[d] = 0; }
            break;
        case 2: parsec_dtd_data_flush(tp, tiles[OPS[i].arg]); stale[OPS[i].arg] = 1; break;
        case 3: parsec_dtd_data_flush_all(tp, A); for (d = 0; d < ND; d++) stale[d] = 1; break;
        }
    }
    parsec_dtd_data_flush_all(tp, A);
    if (barrier_mode >= 2) MPI_Barrier(MPI_COMM_WORLD);   /* -b 2: every rank has discovered every task before the main threads join the execution */
    rc = parsec_taskpool_wait(tp); PARSEC_CHECK_ERROR(rc, "taskpool_wait");
    wd_done = 1;
    if (have_wd) pthread_join(wd, NULL);
    for (i = 0; i < NTC; i++) parsec_dtd_task_class_release(tp, TC[i].tc);
    NTC = 0;
    { parsec_taskpool_t *t2 = tp; tp = NULL; parsec_taskpool_free(t2); }
    rc = parsec_context_wait(parsec); PARSEC_CHECK_ERROR(rc, "context_wait");
    for (d = 0; d < ND; d++) finalv[d] = ((int)A->rank_of_key(A, d) == my_rank) ? *owner_ptr(d) : 0;
    parsec_dtd_data_collection_fini(A);
    parsec_data_free(m->mat);
    parsec_tiled_matrix_destroy((parsec_tiled_matrix_t *)m);
    free(m);
}

static int parse_mode(const char *s) { return !strcmp(s, "R") ? M_R : !strcmp(s, "W") ? M_W : !strcmp(s, "RW") ? M_RW : 0; }

/* parse "<rN|aJ> b<body> d:M ..." into T[tid]; returns 0 if malformed */
static int parse_task(int tid, int parent, char **w, int nw) {
    if (tid != NT || tid >= MAXT || nw < 2) return 0;
    tk_t *t = &T[tid];
    memset(t, 0, sizeof *t);
    t->parent = parent; t->first_child = t->last_child = t->next_sibling = -1;
    t->aff_arg = -1; t->aff_rank = 0;
    char *e;
    if (w[0][0] == 'r') { t->aff_rank = (int)strtol(w[0] + 1, &e, 10); if (*e || e == w[0] + 1 || t->aff_rank < 0) return 0; }
    else if (w[0][0] == 'a') { t->aff_arg = (int)strtol(w[0] + 1, &e, 10); if (*e || e == w[0] + 1 || t->aff_arg < 0) return 0; }
    else return 0;
    if (w[1][0] != 'b') return 0;
    t->body = (int)strtol(w[1] + 1, &e, 10); if (*e || e == w[1] + 1 || t->body < 0) return 0;
    t->na = nw - 2;
    if (t->na > MAXA) return 0;
    for (int j = 0; j < t->na; j++) {
        char *c = strchr(w[2 + j], ':'); if (!c) return 0;
        *c = 0;
        t->d[j] = (int)strtol(w[2 + j], &e, 10); if (*e || e == w[2 + j] || t->d[j] < 0 || t->d[j] >= ND) return 0;
        t->m[j] = parse_mode(c + 1); if (!t->m[j]) return 0;
    }
    if (t->aff_arg >= t->na) return 0;
    if (parent >= 0) {
        if (parent >= tid) return 0;
        if (T[parent].last_child < 0) T[parent].first_child = tid; else T[T[parent].last_child].next_sibling = tid;
        T[parent].last_child = tid;
    }
    NT++;
    return 1;
}

int main(int argc, char **argv) {
    int cores = 2, provided, i, in_case = 0, ran = 0;
    const char *in = NULL, *outp = NULL;
    for (i = 1; i < argc; i++) {
        if (!strcmp(argv[i], "-i") && i + 1 < argc) in = argv[++i];
        else if (!strcmp(argv[i], "-o") && i + 1 < argc) outp = argv[++i];
        else if (!strcmp(argv[i], "-c") && i + 1 < argc) cores = atoi(argv[++i]);
        else if (!strcmp(argv[i], "-w") && i + 1 < argc) wd_secs = atoi(argv[++i]);
        else if (!strcmp(argv[i], "-b") && i + 1 < argc) barrier_mode = atoi(argv[++i]);
    }
    if (getenv("VERIF_DTD_SPIN")) spin_unit_ns = atol(getenv("VERIF_DTD_SPIN"));
    MPI_Init_thread(&argc, &argv, MPI_THREAD_SERIALIZED, &provided);
    MPI_Comm_size(MPI_COMM_WORLD, &world);
    MPI_Comm_rank(MPI_COMM_WORLD, &my_rank);
    FILE *fin = in ? fopen(in, "r") : stdin;
    if (!fin) { fprintf(stderr, "cannot open %s\n", in); return 2; }
    if (outp) { char fn[1024]; snprintf(fn, sizeof fn, "%s.%d", outp, my_rank); out = fopen(fn, "w"); } else out = stdout;
    if (!out) return 2;
    int pargc = 1; char *pargv0[2] = { argv[0], NULL }; char **pargv = pargv0;
    parsec = parsec_init(cores, &pargc, &pargv);
    if (!parsec) return 3;
    parsec_arena_datatype_t *adt = parsec_matrix_adt_new_rect(parsec_datatype_int64_t, 1, 1, 1);
    parsec_dtd_attach_arena_datatype(parsec, adt, &TILE_FULL);

    char line[4096];
    long tot_again = 0;
    while (fgets(line, sizeof line, fin)) {
        char *w[64]; int nw = 0;
        char copy[4096]; strcpy(copy, line);
        size_t L = strlen(copy); while (L && (copy[L - 1] == '\n' || copy[L - 1] == '\r' || copy[L - 1] == ' ')) copy[--L] = 0;
        for (char *tok = strtok(line, " \t\r\n"); tok && nw < 64; tok = strtok(NULL, " \t\r\n")) w[nw++] = tok;
        if (!nw || w[0][0] == '#') continue;
        const char *res = "bad-op";
        char buf[512];
        if (!strcmp(w[0], "case") && nw == 6 && !strncmp(w[2], "D=", 2) && !strncmp(w[3], "W=", 2) && !strncmp(w[4], "T=", 2) && !strncmp(w[5], "R=", 2)) {
            if (atoi(w[5] + 2) != world) { fprintf(stderr, "DTD: case %s is for %s ranks, this run has %d\n", w[1], w[5] + 2, world); return 4; }
            CASE_ID = atoi(w[1]); ND = atoi(w[2] + 2);
            WIN = !strcmp(w[3] + 2, "def") ? -1 : atoi(w[3] + 2); THR = !strcmp(w[4] + 2, "def") ? -1 : atoi(w[4] + 2);
            if (ND >= 1 && ND <= MAXD && WIN != 0 && WIN >= -1 && THR >= -1) { NT = 0; NOPS = 0; in_case = 1; ran = 0; res = "ok"; } else in_case = 0;
        } else if (in_case && !ran && !strcmp(w[0], "t") && nw >= 4 && NOPS < MAXOPS) {
            if (parse_task(atoi(w[1]), -1, w + 2, nw - 2)) { OPS[NOPS].kind = 0; OPS[NOPS++].arg = NT - 1; res = "ok"; }
        } else if (in_case && !ran && !strcmp(w[0], "c") && nw >= 5) {
            int par = atoi(w[1]);
            if (par >= 0 && par < NT && parse_task(atoi(w[2]), par, w + 3, nw - 3)) res = "ok";
        } else if (in_case && !ran && !strcmp(w[0], "wait") && nw == 1 && NOPS < MAXOPS) { OPS[NOPS].kind = 1; OPS[NOPS++].arg = 0; res = "ok"; }
        else if (in_case && !ran && !strcmp(w[0], "flush") && nw == 2 && NOPS < MAXOPS && atoi(w[1]) >= 0 && atoi(w[1]) < ND) {
            OPS[NOPS].kind = 2; OPS[NOPS++].arg = atoi(w[1]); res = "ok";
        } else if (in_case && !ran && !strcmp(w[0], "flushall") && nw == 1 && NOPS < MAXOPS) { OPS[NOPS].kind = 3; OPS[NOPS++].arg = 0; res = "ok"; }
        else if (in_case && !ran && !strcmp(w[0], "run") && nw == 1) {
            fprintf(out, "#running case %d\n", CASE_ID); fflush(out);
            n_viol = 0; n_rr_overlap = 0; n_nullptr = 0; n_again = 0;
            run_case();
            ran = 1;
            int nex = 0; for (i = 0; i < NT; i++) nex += T[i].execd;
            snprintf(buf, sizeof buf, "done tasks=%d", NT); res = buf;
            for (i = 0; i < n_viol && i < 64; i++) fprintf(out, "!viol case %d rank %d: %s\n", CASE_ID, my_rank, violbuf[i]);
            fprintf(out, "#stat executed_here %d\n#stat rr_overlap_seen %d\n#stat again_returns %d\n", nex, (int)n_rr_overlap, (int)n_again);
            /* begin/end stamps and thread of every task run by this rank (for the interval oracle) */
            for (i = 0; i < NT; i++) if (T[i].execd) fprintf(out, "#iv %d %d %lu %lu %d\n", CASE_ID, i, (unsigned long)T[i].t_begin, (unsigned long)T[i].t_end, T[i].th);
        } else if (in_case && ran && !strcmp(w[0], "obs") && nw == 2 && atoi(w[1]) >= 0 && atoi(w[1]) < NT) {
            tk_t *t = &T[atoi(w[1])];
            if (!t->execd) res = "-";
            else {
                int n = snprintf(buf, sizeof buf, "["), first = 1;
                for (int j = 0; j < t->na; j++) if (t->m[j] & M_R) { n += snprintf(buf + n, sizeof buf - n, "%s%lu", first ? "" : " ", (unsigned long)t->obs[j]); first = 0; }
                snprintf(buf + n, sizeof buf - n, "]"); res = buf;
            }
        } else if (in_case && ran && !strcmp(w[0], "val") && nw == 2 && atoi(w[1]) >= 0 && atoi(w[1]) < ND) {
            int d = atoi(w[1]);
            if (d % world != my_rank) res = "-"; else { snprintf(buf, sizeof buf, "%lu", (unsigned long)finalv[d]); res = buf; }
        }
        if (in_case && ran && !strcmp(w[0], "trace") && nw == 1) {
            if (world > 1) res = "skipped";
            else {
                /* all begin/end events in stamp order (stamps are 1..2*NT, all distinct) */
                int *ev = (int *)calloc(2 * NT + 2, sizeof(int));
                for (i = 0; i < NT; i++) if (T[i].execd) { ev[T[i].t_begin] = i + 1; ev[T[i].t_end] = -(i + 1); }
                fprintf(out, "trace");
                for (i = 1; i <= 2 * NT; i++) if (ev[i]) fprintf(out, " %c%d", ev[i] > 0 ? 's' : 'f', abs(ev[i]) - 1);
                fprintf(out, " => accepted\n");
                free(ev); fflush(out);
                continue;
            }
        }
        fprintf(out, "%s => %s\n", copy, res);
        fflush(out);
    }
    (void)tot_again;
    parsec_dtd_free_arena_datatype(parsec, TILE_FULL);
    parsec_fini(&parsec);
    MPI_Finalize();
    return 0;
}
