/*
 * C24 harness: the REAL parsec-ptgpp sources of the current tree (jdf.c, jdf2c.c, jdf_unparse.c and the
 * generated parser/lexer, which includes main.c), compiled here under ASan/UBSan with `main` renamed
 * (-Dmain=ptgpp_main on the command line of the check), so that every generated program also runs
 * through an instrumented copy of the compiler.  Nothing is re-implemented: this file only adds
 *   - a watchdog on CPU time (an endless loop of the compiler is a result, not a timeout of the check; CPU
 *     time, not wall time: the machine may be heavily loaded),
 *   - a canonical last line `#ptgpp-exit <status>` on stderr for normal exits.
 *
 *   usage: C24 <parsec-ptgpp arguments>
 */
#undef main
#include <stdio.h>
#include <stdlib.h>
#include <unistd.h>
#include <signal.h>
#include <sys/time.h>

extern int ptgpp_main(int argc, char *argv[]);

static void on_alarm(int s)
{
    static const char msg[] = "\n#ptgpp-hang\n";
    (void)s;
    if( write(2, msg, sizeof(msg) - 1) < 0 ) { /* nothing */ }
    _exit(97);
}

int main(int argc, char *argv[])
{
    int rc;
    struct itimerval it = { {0, 0}, {60, 0} };
    signal(SIGPROF, on_alarm);
    setitimer(ITIMER_PROF, &it, NULL);
    rc = ptgpp_main(argc, argv);
    fflush(stdout);
    fprintf(stderr, "#ptgpp-exit %d\n", rc);
    return rc;
}
