/* C37 harness: the REAL taskpool registry of parsec/parsec.c (parsec_taskpool_reserve_id, _register,
 * _unregister, _lookup, _sync_ids, and the reset done by parsec_fini), driven by operation scripts.
 *
 * The registry is a set of file-static variables with no exported reset, so every case runs in a
 * forked child that starts from the pristine state; a child killed by a signal / sanitizer abort is
 * reported as `crash` for the operation it was executing and `dead` for the remaining ones.
 *
 * Modes (argv[1]):
 *   seq  (default)  script on stdin:
 *        case k | reserve h | setid h v | register h | unregister h | lookup id | lookupown h | sync | fini
 *        h = taskpool handle 0..15 (harness-owned parsec_taskpool_t objects, taskpool_id = -1 as after
 *        the class constructor).  unregister is only issued when its asserted precondition holds
 *        (the handle is the last taskpool registered at its id), otherwise `rejected`.
 *   seq, line `case k coop pre=P <prog> / <prog> ... | rng S N | dfs MAX | replay t0 t1 .. | stress ROUNDS`
 *        threads under the cooperative scheduler, thread t runs its program on handle t:
 *        R reserve, G register, U unregister, L<id> lookup, S lookup of its own id.  P sequential
 *        reservations (handle 15) come first.
 *   mpi <script> <outprefix>   (under mpiexec) lines: case k K | @r <op> | finiall | sync | sync K (collective among
 *        ranks 0..K-1 only, through parsec_taskpool_sync_ids_context on a sub-communicator); each rank
 *        writes its transcript to <outprefix>.<rank>.
 */
#include "parsec/parsec_config.h"
#include "parsec/runtime.h"
#include "parsec/parsec_internal.h"
#include "pv.h"
#include "ctl_sched.h"
#include <sys/mman.h>
#include <sys/wait.h>
#include <unistd.h>
#include <mpi.h>

/* ---- guard allocator -------------------------------------------------------------------------
 * libparsec is not sanitizer-instrumented, so an out-of-bounds access to taskpool_array made inside
 * the library would go unnoticed.  While `guard_on` is set, realloc(NULL, n) — the registry's only
 * allocation — returns storage whose END abuts 40 GiB of PROT_NONE address space: any access at an
 * index >= the allocated size (every uint32 index) faults at once.  New storage is filled with 0xBE
 * so that reads of never-initialised cells are recognisable (`junk`). */
extern void *__libc_realloc(void *, size_t);
extern void __libc_free(void *);
static volatile int guard_on;
#define GUARD_SPAN (40ULL << 30)
static struct { char *user, *map; size_t n, body; } gblk[256];
static int gfind(void *p) { if( p ) for(int i = 0; i < 256; i++) if( gblk[i].user == (char*)p ) return i; return -1; }
static void *galloc(size_t n)
{
    size_t body = (n + 4095) / 4096 * 4096; int k;
    for(k = 0; k < 256 && gblk[k].user; k++);
    if( k == 256 ) abort();
    char *m = mmap(NULL, body + GUARD_SPAN, PROT_NONE, MAP_PRIVATE | MAP_ANONYMOUS | MAP_NORESERVE, -1, 0);
    if( m == MAP_FAILED || mprotect(m, body, PROT_READ | PROT_WRITE) ) abort();
    memset(m, 0xBE, body);
    gblk[k].map = m; gblk[k].body = body; gblk[k].n = n; gblk[k].user = m + body - n;
    return gblk[k].user;
}
static void gfree(int k) { munmap(gblk[k].map, gblk[k].body + GUARD_SPAN); gblk[k].user = NULL; }
void *realloc(void *p, size_t n)
{
    int k = gfind(p);
    if( k < 0 && !(guard_on && NULL == p && n > 0 && n % 8 == 0) ) return __libc_realloc(p, n);
    char *q = galloc(n);
    if( k >= 0 ) { memcpy(q, p, n < gblk[k].n ? n : gblk[k].n); gfree(k); }
    return q;
}
void free(void *p) { int k = gfind(p); if( k >= 0 ) gfree(k); else __libc_free(p); }

#define NH 16
#define OWNMAX (1 << 20)   /* shadow of "who is registered at id" for the unregister precondition; ids in the tests stay far below */
static parsec_taskpool_t tps[NH];
static int own[OWNMAX];
static FILE *out;

static void fresh(void)
{
    memset(tps, 0, sizeof tps);
    for(int i = 0; i < NH; i++) tps[i].taskpool_id = (uint32_t)-1;
    for(int i = 0; i < OWNMAX; i++) own[i] = -1;
}

static int parse_u32(const char *s, uint32_t *v)
{
    char *e; if( *s < '0' || *s > '9' ) return 0;
    unsigned long long x = strtoull(s, &e, 10);
    if( *e || x > 0xFFFFFFFFULL ) return 0;
    *v = (uint32_t)x; return 1;
}
static int parse_h(const char *s, int *h)
{
    uint32_t v; if( !parse_u32(s, &v) ) return 0;
    *h = v < NH ? (int)v : -1; return 1;
}

static void do_reserve(int h, char *res)
{
    guard_on = 1;
    unsigned r = (unsigned)parsec_taskpool_reserve_id(&tps[h]);
    guard_on = 0;
    sprintf(res, "%u", r);
}
static void do_register(int h, char *res)
{
    uint32_t id = tps[h].taskpool_id;
    guard_on = 1;
    unsigned r = (unsigned)parsec_taskpool_register(&tps[h]);
    guard_on = 0;
    if( id < OWNMAX ) own[id] = h;
    sprintf(res, "%u", r);
}
static void do_unregister(int h, char *res)
{
    uint32_t id = tps[h].taskpool_id;
    if( id >= OWNMAX || own[id] != h ) { strcpy(res, "rejected"); return; }
    parsec_taskpool_unregister(&tps[h]);
    own[id] = -1;
    strcpy(res, "ok");
}
static void do_lookup(uint32_t id, char *res)
{
    parsec_taskpool_t *p = parsec_taskpool_lookup(id);
    if( NULL == p ) strcpy(res, "null");
    else if( p >= tps && p < tps + NH && ((char*)p - (char*)tps) % sizeof(parsec_taskpool_t) == 0 ) sprintf(res, "tp %d", (int)(p - tps));
    else strcpy(res, "junk");
}

/* one sequential op; returns the result text */
static void exec_op(char *line, char *res)
{
    char *w[4]; int nw = 0, h; uint32_t v;
    static char buf[256];
    strncpy(buf, line, sizeof buf - 1); buf[sizeof buf - 1] = 0;
    for(char *p = strtok(buf, " "); p && nw < 4; p = strtok(NULL, " ")) w[nw++] = p;
    strcpy(res, "bad-op");
    if( nw == 2 && !strcmp(w[0], "reserve") && parse_h(w[1], &h) ) { if( h < 0 ) strcpy(res, "rejected"); else do_reserve(h, res); }
    else if( nw == 3 && !strcmp(w[0], "setid") && parse_h(w[1], &h) && parse_u32(w[2], &v) ) {
        if( h < 0 ) strcpy(res, "rejected"); else { tps[h].taskpool_id = v; strcpy(res, "ok"); }
    }
    else if( nw == 2 && !strcmp(w[0], "register") && parse_h(w[1], &h) ) { if( h < 0 ) strcpy(res, "rejected"); else do_register(h, res); }
    else if( nw == 2 && !strcmp(w[0], "unregister") && parse_h(w[1], &h) ) { if( h < 0 ) strcpy(res, "rejected"); else do_unregister(h, res); }
    else if( nw == 2 && !strcmp(w[0], "lookup") && parse_u32(w[1], &v) ) do_lookup(v, res);
    else if( nw == 2 && !strcmp(w[0], "lookupown") && parse_h(w[1], &h) ) { if( h < 0 ) strcpy(res, "rejected"); else do_lookup(tps[h].taskpool_id, res); }
    else if( nw == 1 && !strcmp(w[0], "sync") ) { parsec_taskpool_sync_ids(); strcpy(res, "ok"); }
    else if( nw == 1 && !strcmp(w[0], "fini") ) {
        /* parsec_init cannot be called a second time in one process (it crashes in this build,
         * independently of the registry): one reset per case */
        static int fini_used = 0;
        if( fini_used ) { strcpy(res, "rejected"); return; }
        fini_used = 1;
        int on; MPI_Initialized(&on);
        int prov; if( !on ) MPI_Init_thread(NULL, NULL, MPI_THREAD_SERIALIZED, &prov);   /* this build of PaRSEC refuses to start without MPI */
        parsec_context_t *ctx = parsec_init(1, NULL, NULL);
        if( NULL == ctx ) { strcpy(res, "init-failed"); return; }
        parsec_fini(&ctx);
        for(int i = 0; i < OWNMAX; i++) own[i] = -1;
        strcpy(res, "ok");
    }
}

/* ------------------------------------------------------------------ cooperative mode */
#define MAXP 8
typedef struct { char kind; uint32_t id; } cop_t;
static cop_t prog[CTL_MAXT][MAXP]; static int plen[CTL_MAXT];
static char cres[CTL_MAXT][MAXP][24];
static volatile int cdone[CTL_MAXT];

static void cbody(int t, void *arg)
{
    (void)arg;
    for(int k = 0; k < plen[t]; k++) {
        switch( prog[t][k].kind ) {
        case 'R': do_reserve(t, cres[t][k]); break;
        case 'G': do_register(t, cres[t][k]); break;
        case 'U': do_unregister(t, cres[t][k]); break;
        case 'L': do_lookup(prog[t][k].id, cres[t][k]); break;
        case 'S': do_lookup(tps[t].taskpool_id, cres[t][k]); break;
        }
        cdone[t] = k + 1;
    }
}
static void cobserve(void *o, int step, int t)
{
    (void)o; (void)step;
    int k = ctl_kind_of(t);
    fprintf(out, "step %d => %s\n", t, k == CTL_K_DONE ? "done" : k == PARSEC_VERIF_K_CAS ? "cas" : k == PARSEC_VERIF_K_FENCE ? "fence" : "other");
}
static int parse_coop(char *spec, int *pre)
{
    /* spec: "pre=P tok tok / tok ..." */
    int n = 0; *pre = 0;
    memset(plen, 0, sizeof plen);
    char *p = strtok(spec, " ");
    if( !p || strncmp(p, "pre=", 4) ) return -1;
    *pre = atoi(p + 4); if( *pre < 0 || *pre > 64 ) return -1;
    n = 1;
    for(p = strtok(NULL, " "); p; p = strtok(NULL, " ")) {
        if( !strcmp(p, "/") ) { if( ++n > NH - 1 || n > CTL_MAXT ) return -1; continue; }
        if( plen[n - 1] >= MAXP ) return -1;
        cop_t *c = &prog[n - 1][plen[n - 1]];
        if( (!strcmp(p, "R") || !strcmp(p, "G") || !strcmp(p, "U") || !strcmp(p, "S")) ) c->kind = p[0];
        else if( p[0] == 'L' && parse_u32(p + 1, &c->id) ) c->kind = 'L';
        else return -1;
        plen[n - 1]++;
    }
    return n;
}
/* one schedule of the n threads, from the registry state left by the previous run of this child */
static int coop_run(const char *caseline, int n, int pre, ctl_choose_t ch, void *cctx)
{
    int sched[512], complete; char r[32];
    for(int i = 0; i < pre; i++) do_reserve(NH - 1, r);
    memset((void*)cdone, 0, sizeof cdone);
    fprintf(out, "%s => ok n=%d\n", caseline, n);
    ctl_run(n, cbody, NULL, ch, cctx, cobserve, NULL, 400, sched, &complete);
    fprintf(out, "rets => [");
    for(int t = 0; t < n; t++) {
        fprintf(out, "%s", t ? " ; " : "");
        for(int k = 0; k < cdone[t]; k++) fprintf(out, "%s%s", k ? " " : "", cres[t][k]);
    }
    fprintf(out, "]\n");
    if( !complete ) pv_stat("incomplete_runs", 1);
    fflush(out);
    return complete;
}
/* DFS chooser that never schedules a thread whose CAS must fail (some other thread is parked at its
 * fence, i.e. owns the lock): such a step is a no-op spin, and allowing it makes the schedule tree
 * infinite.  Spins are exercised by the rng policy. */
static int choose_dfs_nospin(void *cctx, int step, int ne, const int *enabled)
{
    int f[CTL_MAXT], nf = 0, held = 0;
    for(int i = 0; i < ne; i++) if( ctl_kind_of(enabled[i]) == PARSEC_VERIF_K_FENCE ) held = 1;
    for(int i = 0; i < ne; i++) if( !(held && ctl_kind_of(enabled[i]) == PARSEC_VERIF_K_CAS) ) f[nf++] = enabled[i];
    if( 0 == nf ) return -1;
    int j = ctl_choose_dfs(cctx, step, nf, f);
    if( j < 0 ) return -1;
    for(int i = 0; i < ne; i++) if( enabled[i] == f[j] ) return i;
    return -1;
}
/* free-running search (no cooperative scheduling, not replayed on the model): n threads reserve ids
 * concurrently, round after round; every id must be handed out once.  Used to look for a concrete
 * failing execution when the correspondence broke. */
static pthread_barrier_t s_bar; static int s_rounds, s_n; static uint32_t *s_ids;
static void *stress_worker(void *p)
{
    int t = (int)(intptr_t)p;
    for(int r = 0; r < s_rounds; r++) {
        pthread_barrier_wait(&s_bar);
        s_ids[(size_t)r * s_n + t] = (uint32_t)parsec_taskpool_reserve_id(&tps[t]);
    }
    return NULL;
}
static int cmp_u32(const void *a, const void *b) { uint32_t x = *(const uint32_t*)a, y = *(const uint32_t*)b; return x < y ? -1 : x > y; }
static void coop_stress(const char *caseline, int n, int rounds)
{
    pthread_t th[CTL_MAXT];
    s_rounds = rounds; s_n = n; s_ids = calloc((size_t)rounds * n, sizeof(uint32_t));
    pthread_barrier_init(&s_bar, NULL, n);
    for(int i = 0; i < n; i++) pthread_create(&th[i], NULL, stress_worker, (void*)(intptr_t)i);
    for(int i = 0; i < n; i++) pthread_join(th[i], NULL);
    size_t cnt = (size_t)rounds * n, dup = 0; uint32_t first = 0;
    qsort(s_ids, cnt, sizeof(uint32_t), cmp_u32);
    for(size_t i = 1; i < cnt; i++) if( s_ids[i] == s_ids[i - 1] ) { if( !dup ) first = s_ids[i]; dup++; }
    if( dup ) fprintf(out, "!viol C37 free-running %d threads x %d concurrent reserve_id calls: %zu ids were handed out more than once (first: %u) [%s]\n", n, rounds, dup, first, caseline);
    else if( s_ids[cnt - 1] - s_ids[0] + 1 != cnt ) fprintf(out, "!viol C37 free-running %d threads x %d reserve_id calls: ids %u..%u are not the %zu consecutive ones [%s]\n", n, rounds, s_ids[0], s_ids[cnt - 1], cnt, caseline);
    pv_stat("stress_reservations", cnt);
    fflush(out);
}

/* All runs of one input line execute in ONE forked child, one after the other, on the same registry
 * (it cannot be reset): the child announces itself with a `fresh` line, and the model keeps the
 * registry state from run to run as well.  A run that exceeds the step budget ends the batch. */
static void coop_case(char *line)
{
    static char caseline[2048], spec[2048];
    char *bar = strstr(line, " | ");
    if( !bar ) { fprintf(out, "%s => bad-op\n", line); return; }
    *bar = 0; strcpy(caseline, line);
    char *pol = bar + 3;
    char *c = strstr(line, " coop ");
    strcpy(spec, c + 6);
    int pre, n = parse_coop(spec, &pre);
    int is_rng = !strncmp(pol, "rng ", 4), is_dfs = !strncmp(pol, "dfs ", 4), is_rep = !strncmp(pol, "replay", 6), is_stress = !strncmp(pol, "stress ", 7);
    if( n < 1 || !(is_rng || is_dfs || is_rep || is_stress) ) { fprintf(out, "%s => bad-op\n", caseline); return; }
    fflush(out);
    pid_t pid = fork();
    if( 0 == pid ) {
        fprintf(out, "fresh => ok\n");
        if( is_stress ) { coop_stress(caseline, n, atoi(pol + 7)); _exit(0); }
        if( is_rng ) {
            char *e; uint64_t seed = strtoull(pol + 4, &e, 10); long cnt = strtol(e, NULL, 10);
            if( cnt < 1 ) cnt = 1;
            pv_rng_t base = { seed };
            for(long i = 0; i < cnt; i++) { pv_rng_t r = pv_fork(&base, (uint64_t)i); if( !coop_run(caseline, n, pre, ctl_choose_rng, &r) ) break; }
            pv_stat("rng_schedules", cnt);
        } else if( is_dfs ) {
            long max = atol(pol + 4), cnt = 0; static ctl_dfs_t d;
            ctl_dfs_init(&d);
            do { cnt++; if( !coop_run(caseline, n, pre, choose_dfs_nospin, &d) ) break; } while( cnt < max && ctl_dfs_next(&d) );
            pv_stat("dfs_schedules", cnt);
            if( cnt < max ) pv_stat("dfs_exhausted_spaces", 1);
        } else {
            static int sc[512]; int len = 0; char *p = pol + 6;
            while( *p && len < 512 ) { while( *p == ' ' ) p++; if( !*p ) break; sc[len++] = atoi(p); while( *p && *p != ' ' ) p++; }
            ctl_replay_t rp = { sc, len };
            coop_run(caseline, n, pre, ctl_choose_replay, &rp);
        }
        fflush(out);
        _exit(0);
    }
    int st; waitpid(pid, &st, 0);
    if( !(WIFEXITED(st) && WEXITSTATUS(st) == 0) ) fprintf(out, "!viol C37 cooperative run died (wait status %d): %s | %s\n", st, caseline, pol);
}

/* ------------------------------------------------------------------ sequential mode */
static char *inbuf; static char **lines; static int nlines;
static void read_all(FILE *f)
{
    size_t cap = 1 << 20, len = 0, r;
    inbuf = malloc(cap);
    while( (r = fread(inbuf + len, 1, cap - len - 1, f)) > 0 ) { len += r; if( cap - len < 4096 ) { cap *= 2; inbuf = realloc(inbuf, cap); } }
    inbuf[len] = 0;
    int cnt = 1; for(size_t i = 0; i < len; i++) if( inbuf[i] == '\n' ) cnt++;
    lines = malloc(sizeof(char*) * cnt);
    for(char *p = inbuf; *p; ) {
        char *e = strchr(p, '\n'); if( e ) *e = 0;
        if( *p ) lines[nlines++] = p;
        if( !e ) break;
        p = e + 1;
    }
}
static int seq_main(void)
{
    static char res[64];
    volatile int *progress = mmap(NULL, sizeof(int), PROT_READ | PROT_WRITE, MAP_SHARED | MAP_ANONYMOUS, -1, 0);
    read_all(stdin);
    fresh();      /* the parent never touches the registry or the handles: every child inherits them pristine */
    int i = 0;
    while( i < nlines ) {
        if( !strncmp(lines[i], "case ", 5) && strstr(lines[i], " coop ") ) { coop_case(lines[i]); i++; continue; }
        if( !strncmp(lines[i], "case", 4) ) { fprintf(out, "%s => ok\n", lines[i]); i++; }
        int j = i; while( j < nlines && strncmp(lines[j], "case", 4) ) j++;
        if( j == i ) continue;
        fflush(out);
        *progress = i;
        pid_t pid = fork();
        if( 0 == pid ) {
            for(int k = i; k < j; k++) {
                *progress = k;
                exec_op(lines[k], res);
                fprintf(out, "%s => %s\n", lines[k], res);
                fflush(out);
            }
            *progress = j;
            _exit(0);
        }
        int st; waitpid(pid, &st, 0);
        int k = *progress;
        if( k < j ) {
            fprintf(out, "%s => crash\n", lines[k]);
            for(k++; k < j; k++) fprintf(out, "%s => dead\n", lines[k]);
            pv_stat("crashed_cases", 1);
        }
        i = j;
    }
    fflush(out);
    return 0;
}

/* ------------------------------------------------------------------ MPI mode */
static int mpi_main(const char *script, const char *prefix)
{
    int rank, size; char name[1024]; static char res[64];
    int prov; MPI_Init_thread(NULL, NULL, MPI_THREAD_SERIALIZED, &prov);
    MPI_Comm_rank(MPI_COMM_WORLD, &rank); MPI_Comm_size(MPI_COMM_WORLD, &size);
    snprintf(name, sizeof name, "%s.%d", prefix, rank);
    out = fopen(name, "w");
    FILE *f = fopen(script, "r");
    if( !out || !f ) { MPI_Abort(MPI_COMM_WORLD, 2); }
    read_all(f);
    fresh();
    /* sub[K] = communicator of ranks 0..K-1: `sync K` runs the collective among the first K processes only */
    MPI_Comm sub[64];
    for(int K = 1; K <= size && K < 64; K++) MPI_Comm_split(MPI_COMM_WORLD, rank < K ? 0 : MPI_UNDEFINED, rank, &sub[K]);
    for(int i = 0; i < nlines; i++) {
        char *l = lines[i];
        if( !strncmp(l, "case", 4) ) { fprintf(out, "%s => ok ranks=%d\n", l, size); continue; }
        if( !strcmp(l, "sync") ) { parsec_taskpool_sync_ids(); fprintf(out, "%s => ok\n", l); continue; }
        if( !strncmp(l, "sync ", 5) ) {
            uint32_t K;
            if( !parse_u32(l + 5, &K) || K < 1 || K > (uint32_t)size || K >= 64 ) { if( 0 == rank ) fprintf(out, "%s => bad-op\n", l); continue; }
            if( rank < (int)K ) { parsec_taskpool_sync_ids_context((intptr_t)sub[K]); fprintf(out, "%s => ok\n", l); }
            continue;
        }
        if( !strcmp(l, "finiall") ) {
            /* every process starts and stops the runtime (parsec_init is collective under MPI, and can
             * only be called once per process): parsec_fini resets the registry */
            static int used = 0;
            if( used ) { fprintf(out, "%s => rejected\n", l); continue; }
            used = 1;
            parsec_context_t *pc = parsec_init(1, NULL, NULL);
            if( NULL == pc ) { fprintf(out, "%s => init-failed\n", l); continue; }
            parsec_fini(&pc);
            for(int k = 0; k < OWNMAX; k++) own[k] = -1;
            fprintf(out, "%s => ok\n", l);
            continue;
        }
        if( l[0] == '@' ) {
            char *sp = strchr(l, ' ');
            if( !sp ) { fprintf(out, "%s => bad-op\n", l); continue; }
            int r = atoi(l + 1);
            if( r < 0 || r >= size ) { if( 0 == rank ) fprintf(out, "%s => rejected\n", l); continue; }
            if( r != rank ) continue;
            exec_op(sp + 1, res);
            fprintf(out, "%s => %s\n", l, res);
            continue;
        }
        if( 0 == rank ) fprintf(out, "%s => bad-op\n", l);
    }
    fprintf(out, "#end\n");      /* the script was executed completely by this rank */
    fclose(out);
    MPI_Finalize();
    return 0;
}

int main(int argc, char **argv)
{
    out = stdout;
    if( argc >= 4 && !strcmp(argv[1], "mpi") ) return mpi_main(argv[2], argv[3]);
    return seq_main();
}
