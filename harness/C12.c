/* C12 harness: drives the real user-trigger termination detector
 * (parsec_termdet_user_trigger_module) with parsec_ce.send_am replaced by a recording stub.
 *   sends n root me   : destinations emitted by rank `me` when it signals termination
 *   wave n root       : in-process run of n monitors, PRNG delivery order, some taskpools
 *                       becoming ready only after their notification arrived (delayed path)
 * usage: C12 <maxn_exhaustive> <nsampled> <maxn_sampled> <nwaves> <maxn_wave>
 */
#include "parsec/parsec_config.h"
#include "parsec/parsec_internal.h"
#include "parsec/runtime.h"
#include "parsec/include/parsec/execution_stream.h"
#include "parsec/mca/termdet/termdet.h"
#include "parsec/mca/termdet/user_trigger/termdet_user_trigger.h"
#include "parsec/parsec_comm_engine.h"
#include "parsec/class/list.h"
#include "pv.h"

static int  sent[8]; static int nsent;
static int *q_dst = NULL; static int q_len = 0, q_cap = 0;   /* in-flight notifications (wave mode) */
static int  wave_mode = 0;
static uint32_t shared_id;
static int32_t  cur_root;

static int stub_send_am(parsec_comm_engine_t *ce, parsec_ce_tag_t tag, int remote, void *addr, size_t size)
{
    (void)ce; (void)tag; (void)size;
    parsec_termdet_user_trigger_msg_t *m = (parsec_termdet_user_trigger_msg_t*)addr;
    if( m->tp_id != shared_id || m->root != cur_root ) { printf("!viol C12 message carries tp_id=%u root=%d expected %u %d\n", m->tp_id, m->root, shared_id, cur_root); }
    if( wave_mode ) {
        if( q_len == q_cap ) { q_cap = q_cap ? 2*q_cap : 64; q_dst = realloc(q_dst, q_cap*sizeof(int)); }
        q_dst[q_len++] = remote;
    } else {
        if( nsent < 8 ) sent[nsent] = remote;
        nsent++;
    }
    return 0;
}

/* Each simulated process owns its own delayed-message list (the library has one global list per
 * process): swap the rank's items into the global list around every call made on its behalf. */
typedef struct { parsec_taskpool_t tp; parsec_context_t ctx; int cbs; parsec_list_item_t *delayed[16]; int ndelayed; } rank_t;
static void enter_rank(rank_t *r)
{
    for(int i = 0; i < r->ndelayed; i++)
        parsec_list_nolock_push_back(&parsec_termdet_user_trigger_delayed_messages, r->delayed[i]);
    r->ndelayed = 0;
}
static void leave_rank(rank_t *r)
{
    parsec_list_item_t *it;
    while( NULL != (it = parsec_list_nolock_pop_front(&parsec_termdet_user_trigger_delayed_messages)) ) {
        if( r->ndelayed < 16 ) r->delayed[r->ndelayed++] = it;
        else printf("!viol C12 more than 16 delayed notifications on one process\n");
    }
}
static void term_cb(parsec_taskpool_t *tp) { ((rank_t*)tp)->cbs++; }

static const parsec_termdet_module_t *M = &parsec_termdet_user_trigger_module;

static void rank_init(rank_t *r, int n, int me)
{
    memset(r, 0, sizeof(*r));
    r->ctx.my_rank = me; r->ctx.nb_nodes = n;
    r->tp.context = &r->ctx;
    r->tp.taskpool_id = shared_id;
    r->tp.tdm.module = &M->module;
    M->module.monitor_taskpool(&r->tp, term_cb);
}
static void rank_fini(rank_t *r) { free(r->tp.tdm.monitor); r->tp.tdm.monitor = NULL; }

static void deliver(rank_t *r, int src)
{
    parsec_termdet_user_trigger_msg_t msg; msg.tp_id = shared_id; msg.root = cur_root;
    parsec_taskpool_register(&r->tp);   /* the destination process resolves the id to ITS taskpool */
    enter_rank(r);
    parsec_termdet_user_trigger_msg_dispatch(&parsec_ce, 0, &msg, sizeof(msg), src, NULL);
    leave_rank(r);
}

static void do_sends(int n, int root, int me)
{
    rank_t r; rank_init(&r, n, me);
    cur_root = root; nsent = 0; wave_mode = 0;
    parsec_taskpool_register(&r.tp);
    M->module.taskpool_ready(&r.tp);
    if( me == root ) M->module.taskpool_set_nb_tasks(&r.tp, 0);
    else deliver(&r, -1);
    printf("sends %d %d %d => [", n, root, me);
    for(int i = 0; i < nsent && i < 8; i++) printf("%s%d", i ? " " : "", sent[i]);
    printf("]\n");
    if( r.cbs != 1 ) printf("!viol C12 sends n=%d root=%d me=%d: termination callback ran %d times\n", n, root, me, r.cbs);
    if( M->module.taskpool_state(&r.tp) != PARSEC_TERM_TP_TERMINATED ) printf("!viol C12 sends n=%d root=%d me=%d: not terminated after notification\n", n, root, me);
    rank_fini(&r);
}

static int cmp_int(const void *a, const void *b) { return *(const int*)a - *(const int*)b; }

static void do_wave(int n, int root, pv_rng_t *rng)
{
    rank_t *R = calloc(n, sizeof(rank_t));
    int *late = calloc(n, sizeof(int)), nlate = 0;   /* ranks whose taskpool becomes ready later */
    int *recv = calloc(n, sizeof(int));
    int *log = malloc(sizeof(int) * (4*n + 8)); int nlog = 0;
    cur_root = root; wave_mode = 1; q_len = 0;
    for(int i = 0; i < n; i++) {
        rank_init(&R[i], n, i);
        if( i != root && pv_below(rng, 3) == 0 ) { late[i] = 1; nlate++; }
        else { parsec_taskpool_register(&R[i].tp); M->module.taskpool_ready(&R[i].tp); }
    }
    pv_stat("wave_late_ranks", nlate);
    M->module.taskpool_set_nb_tasks(&R[root].tp, 0);       /* the user triggers termination on root */
    int guard = 0;
    while( (q_len > 0 || nlate > 0) && guard++ < 16*n + 64 ) {
        uint64_t k = pv_below(rng, q_len + nlate);
        if( (int)k < q_len ) {                              /* deliver one in-flight notification */
            int d = q_dst[k]; q_dst[k] = q_dst[--q_len];
            if( d < 0 || d >= n ) { printf("!viol C12 wave n=%d root=%d: notification sent to rank %d outside the communicator\n", n, root, d); continue; }
            recv[d]++; if( nlog < 4*n ) log[nlog++] = d;
            deliver(&R[d], -1);
        } else {                                            /* a late taskpool becomes ready */
            int j = (int)k - q_len, i;
            for(i = 0; i < n; i++) if( late[i] && j-- == 0 ) break;
            late[i] = 0; nlate--;
            parsec_taskpool_register(&R[i].tp);
            enter_rank(&R[i]);
            M->module.taskpool_ready(&R[i].tp);
            leave_rank(&R[i]);
        }
    }
    qsort(log, nlog, sizeof(int), cmp_int);
    printf("wave %d %d => [", n, root);
    for(int i = 0; i < nlog; i++) printf("%s%d", i ? " " : "", log[i]);
    printf("]\n");
    for(int i = 0; i < n; i++) {
        int want = (i == root) ? 0 : 1;
        if( recv[i] != want ) printf("!viol C12 wave n=%d root=%d: rank %d received %d notifications (expected %d)\n", n, root, i, recv[i], want);
        if( R[i].cbs != 1 ) printf("!viol C12 wave n=%d root=%d: rank %d ran its termination callback %d times\n", n, root, i, R[i].cbs);
        rank_fini(&R[i]);
    }
    free(R); free(late); free(recv); free(log);
}

int main(int argc, char **argv)
{
    int maxn = argc > 1 ? atoi(argv[1]) : 24, nsamp = argc > 2 ? atoi(argv[2]) : 200, maxs = argc > 3 ? atoi(argv[3]) : 4096;
    int nwaves = argc > 4 ? atoi(argv[4]) : 100, maxw = argc > 5 ? atoi(argv[5]) : 64;
    pv_rng_t rng = { pv_seed_from_env() };
    rank_t dummy; memset(&dummy, 0, sizeof(dummy));
    PARSEC_OBJ_CONSTRUCT(&parsec_termdet_user_trigger_delayed_messages, parsec_list_t);
    parsec_ce.send_am = stub_send_am;
    shared_id = (uint32_t)parsec_taskpool_reserve_id(&dummy.tp);
    for(int n = 1; n <= maxn; n++)
        for(int root = 0; root < n; root++)
            for(int me = 0; me < n; me++) do_sends(n, root, me);
    for(int i = 0; i < nsamp; i++) {
        int n = (int)pv_range(&rng, maxn + 1, maxs), root = (int)pv_below(&rng, n), me;
        switch( pv_below(&rng, 4) ) {   /* bias towards the tree's edges */
        case 0: me = root; break;
        case 1: me = (root + n - 1) % n; break;
        case 2: me = (root + (n-1)/2 + (int)pv_below(&rng, 3)) % n; break;
        default: me = (int)pv_below(&rng, n);
        }
        do_sends(n, root, me);
    }
    for(int i = 0; i < nwaves; i++) {
        int n = (i < maxw && i < nwaves/2) ? i + 1 : (int)pv_range(&rng, 1, maxw);
        do_wave(n, (int)pv_below(&rng, n), &rng);
    }
    return 0;
}
