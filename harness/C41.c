/* C41 harness: executes an operation script (stdin) on the real parsec_info_* API and prints a
 * transcript `op => result`.  Values are small integers carried as pointers (0 = NULL).
 *   case k | reg name c d dflt | unreg iid | lookup name | oanew | set a iid v | get a iid
 *   tas a iid new old | maxid
 * Calls outside the API's precondition (iid beyond max_id; get of an unregistered id) are not
 * issued: the harness prints `rejected`, and so does the model. */
#include "parsec/parsec_config.h"
#include "parsec/class/info.h"
#include "pv.h"
#include <stdint.h>
#include <pthread.h>

#define MAXOA 64
static parsec_info_t *nfo = NULL;
static parsec_info_object_array_t *oas[MAXOA]; static int noa = 0;
static long destroyed[256]; static int ndestroyed;

static void dtor(void *elt, void *cb) { (void)cb; if( ndestroyed < 256 ) destroyed[ndestroyed++] = (long)(uintptr_t)elt; }
static void *ctor(void *obj, void *cb) { (void)obj; return cb; }

/* synchronisation footprint: the kinds of the atomic primitives executed by one API call (hook H1) */
extern void (*parsec_verif_yield_cb)(int kind, volatile void *addr);
static char fp[64]; static int nfp;
static void fp_cb(int kind, volatile void *addr) { (void)addr; if( nfp < 62 ) fp[nfp++] = "FCRS"[kind & 3]; }
static void fp_begin(void) { nfp = 0; parsec_verif_yield_cb = fp_cb; }
static const char *fp_end(void) { parsec_verif_yield_cb = NULL; fp[nfp] = 0; return fp; }

static int registered(int iid)
{
    parsec_list_item_t *it;
    for(it = PARSEC_LIST_ITERATOR_FIRST(&nfo->info_list); it != PARSEC_LIST_ITERATOR_END(&nfo->info_list); it = PARSEC_LIST_ITERATOR_NEXT(it))
        if( ((parsec_info_entry_t*)it)->iid == iid ) return 1;
    return 0;
}

static void reset(void)
{
    for(int i = 0; i < noa; i++) { PARSEC_OBJ_RELEASE(oas[i]); }
    noa = 0;
    if( nfo ) { PARSEC_OBJ_RELEASE(nfo); }
    nfo = PARSEC_OBJ_NEW(parsec_info_t);
}

/* ---- free-running concurrent search (C41 "under concurrent use and registry growth") ----
 * Worker k owns info id k of a shared object array: it sets a value and must read it back, while a
 * grower thread keeps registering new infos and touching their ids, forcing the array to grow. */
static parsec_info_t *s_nfo; static parsec_info_object_array_t *s_oa;
static volatile int s_stop; static volatile long s_bad; static int s_workers;
static void *stress_worker(void *p)
{
    int k = (int)(intptr_t)p; long v = 1;
    while( !s_stop ) {
        v = (v % 200) + 1;
        parsec_info_set(s_oa, k, (void*)(uintptr_t)(v * 256 + k + 1));
        for(int j = 0; j < 16; j++) {
            long g = (long)(uintptr_t)parsec_info_get(s_oa, k);
            if( g != v * 256 + k + 1 ) {
                if( __sync_fetch_and_add(&s_bad, 1) == 0 )
                    printf("!viol C41 concurrent: get of slot %d returned %ld, the last value set by its only writer is %ld (another thread was growing the array)\n", k, g, v * 256 + k + 1);
            }
        }
        void *r = parsec_info_test_and_set(s_oa, k, (void*)(uintptr_t)(v * 256 + k + 1), (void*)(uintptr_t)7);
        if( (long)(uintptr_t)r != v * 256 + k + 1 && __sync_fetch_and_add(&s_bad, 1) == 0 )
            printf("!viol C41 concurrent: test_and_set with a non-matching old value changed/returned %ld on slot %d\n", (long)(uintptr_t)r, k);
    }
    return NULL;
}
static int stress(int workers, int rounds, int grow)
{
    pthread_t th[16]; char nm[32];
    if( workers > 15 ) workers = 15;
    for(int r = 0; r < rounds; r++) {
        s_nfo = PARSEC_OBJ_NEW(parsec_info_t); s_stop = 0; s_workers = workers;
        for(int k = 0; k < workers; k++) { snprintf(nm, sizeof nm, "w%d", k); parsec_info_register(s_nfo, nm, NULL, NULL, NULL, NULL, NULL); }
        s_oa = PARSEC_OBJ_NEW(parsec_info_object_array_t);
        parsec_info_object_array_init(s_oa, s_nfo, NULL);
        for(int k = 0; k < workers; k++) pthread_create(&th[k], NULL, stress_worker, (void*)(intptr_t)k);
        for(int g = 0; g < grow; g++) {
            snprintf(nm, sizeof nm, "g%d", g);
            int id = parsec_info_register(s_nfo, nm, NULL, NULL, NULL, NULL, NULL);
            parsec_info_set(s_oa, id, (void*)(uintptr_t)(id + 1));
            if( (long)(uintptr_t)parsec_info_get(s_oa, id) != id + 1 && __sync_fetch_and_add(&s_bad, 1) == 0 )
                printf("!viol C41 concurrent: freshly set slot %d of a grown array does not hold its value\n", id);
        }
        s_stop = 1;
        for(int k = 0; k < workers; k++) pthread_join(th[k], NULL);
        /* deliberately not released: destruction is not under test */
    }
    pv_stat("stress_rounds", rounds); pv_stat("stress_growths", (long)rounds * grow);
    return s_bad ? 1 : 0;
}

int main(int argc, char **argv)
{
    char line[512], name[256];
    { parsec_list_item_t warm; PARSEC_OBJ_CONSTRUCT(&warm, parsec_list_item_t); PARSEC_OBJ_DESTRUCT(&warm); }  /* class init takes a lock once */
    if( argc >= 5 && 0 == strcmp(argv[1], "stress") ) { stress(atoi(argv[2]), atoi(argv[3]), atoi(argv[4])); return 0; }
    reset();
    while( fgets(line, sizeof line, stdin) ) {
        int a, iid, c, d; long v, w;
        line[strcspn(line, "\n")] = 0;
        if( line[0] == 0 ) continue;
        printf("%s => ", line);
        if( sscanf(line, "case %d", &a) == 1 ) { reset(); printf("ok\n"); }
        else if( sscanf(line, "reg %255s %d %d %ld", name, &c, &d, &v) == 4 ) {
            fp_begin(); int r = parsec_info_register(nfo, name, d ? dtor : NULL, NULL, c ? ctor : NULL, (void*)(uintptr_t)v, NULL);
            printf("%d @%s\n", r, fp_end());
        } else if( sscanf(line, "unreg %d", &iid) == 1 ) {
            ndestroyed = 0;
            fp_begin(); int r = parsec_info_unregister(nfo, iid, NULL); const char *f = fp_end();
            printf("%d [", r);
            for(int i = 0; i < ndestroyed; i++) printf("%s%ld", i ? " " : "", destroyed[i]);
            printf("] @%s\n", f);
        } else if( sscanf(line, "lookup %255s", name) == 1 ) {
            fp_begin(); int r = parsec_info_lookup(nfo, name, NULL);
            printf("%d @%s\n", r, fp_end());
        } else if( 0 == strcmp(line, "oanew") ) {
            if( noa >= MAXOA ) { printf("rejected\n"); continue; }
            oas[noa] = PARSEC_OBJ_NEW(parsec_info_object_array_t);
            fp_begin(); parsec_info_object_array_init(oas[noa], nfo, NULL);
            printf("%d @%s\n", noa++, fp_end());
        } else if( sscanf(line, "set %d %d %ld", &a, &iid, &v) == 3 ) {
            if( a < 0 || a >= noa || iid < 0 || iid > nfo->max_id ) { printf("rejected\n"); continue; }
            fp_begin(); long r = (long)(uintptr_t)parsec_info_set(oas[a], iid, (void*)(uintptr_t)v);
            printf("%ld @%s\n", r, fp_end());
        } else if( sscanf(line, "get %d %d", &a, &iid) == 2 ) {
            if( a < 0 || a >= noa || iid < 0 || iid > nfo->max_id || !registered(iid) ) { printf("rejected\n"); continue; }
            ndestroyed = 0;
            fp_begin(); long r = (long)(uintptr_t)parsec_info_get(oas[a], iid);
            printf("%ld @%s\n", r, fp_end());
        } else if( sscanf(line, "tas %d %d %ld %ld", &a, &iid, &v, &w) == 4 ) {
            if( a < 0 || a >= noa || iid < 0 || iid > nfo->max_id ) { printf("rejected\n"); continue; }
            fp_begin(); long r = (long)(uintptr_t)parsec_info_test_and_set(oas[a], iid, (void*)(uintptr_t)v, (void*)(uintptr_t)w);
            printf("%ld @%s\n", r, fp_end());
        } else if( 0 == strcmp(line, "maxid") ) {
            printf("%d\n", nfo->max_id);
        } else printf("bad-op\n");
    }
    return 0;
}
