/* C34 harness: the real PaRSEC object system (parsec/class/parsec_object.h, parsec_object.c) on a
 * generated family of 340 classes: hierarchies of depth 1..4 below parsec_object_t, each level
 * with/without constructor and destructor.  Class `k<digits>`: one digit per level, base-most
 * first; 1 = neither, 2 = constructor only, 3 = destructor only, 4 = both.  The function id of
 * a level is the number formed by the digits up to that level.
 *
 * stdin script (transcript `op => result` on stdout):
 *  sequential (ASan):  case K | classinit C | new S C | construct S C | retain S | release S |
 *                      destruct S | drop S                      (S = slot 0..3, C = class digits)
 *  concurrent:         case K dyn|sta C h:PROG ... | rng SEED | dfs MAX | replay t0 t1 .. | stress ROUNDS
 *                      thread spec h:PROG: the thread starts holding h references and runs PROG,
 *                      R = PARSEC_OBJ_RETAIN, L = PARSEC_OBJ_RELEASE, G<d> = hand one reference
 *                      to thread d (no action on the object).
 *   Under rng/dfs/replay the threads run under the cooperative scheduler: one step = from one
 *   park point (thread start, before parsec_atomic_fetch_add_int32, at the entry of a destructor,
 *   before a hand-off) to the next.  A dynamic object is only run with programs that are safe for
 *   every schedule (thread-local check, same rule as the model): otherwise `rejected`.
 */
#define _GNU_SOURCE
#include "parsec/parsec_config.h"
#include "parsec/class/parsec_object.h"
#include "pv.h"
#include "ctl_sched.h"
#include <pthread.h>
#include <sched.h>
#include <time.h>

#define K_DTOR 100
#define K_GIVE 101

/* ------------------------------------------------------------------ call log */
typedef struct { char kind; int id; int rc; } call_t;
#define MAXLOG 4096
static call_t glog[MAXLOG]; static int nlog = 0;
static int log_mode = 0;            /* 0 = plain append, 1 = stress (atomic append), 2 = off, 3 = race (per-group counter) */
static volatile int s_dn = 0; static int s_dlog[64], s_drc[64];

static void race_count(parsec_object_t *o);
static void log_call(char kind, const char *name, parsec_object_t *o)
{
    if( 3 == log_mode ) { if( 'd' == kind ) race_count(o); return; }
    int id = atoi(name + 1);
    if( 2 == log_mode ) return;
    if( 1 == log_mode ) {
        if( 'd' == kind ) { int i = __sync_fetch_and_add(&s_dn, 1); if( i < 64 ) { s_dlog[i] = id; s_drc[i] = o->obj_reference_count; } }
        return;
    }
    if( nlog < MAXLOG ) { glog[nlog].kind = kind; glog[nlog].id = id; glog[nlog].rc = o->obj_reference_count; nlog++; }
}
static void dtor_entry(parsec_object_t *o) { PARSEC_VERIF_YIELD(K_DTOR, o); }

/* ------------------------------------------------------------------ the class family */
typedef struct { parsec_object_t super; int tag; } pvobj_t;

#define SEL_0(f) NULL
#define SEL_1(f) f
#define DEF(N, PS, PC, HC, HD) \
    typedef struct N##_s { PS super; int fld; } N; \
    static __attribute__((unused)) void N##_ctor(parsec_object_t *o) { ((N*)o)->fld = 1; log_call('c', #N, o); } \
    static __attribute__((unused)) void N##_dtor(parsec_object_t *o) { dtor_entry(o); ((N*)o)->fld = 2; log_call('d', #N, o); } \
    PARSEC_OBJ_CLASS_INSTANCE(N, PC, SEL_##HC(N##_ctor), SEL_##HD(N##_dtor));
#define ENT(N, PS, PC, HC, HD) { #N, &N##_class, N##_ctor, N##_dtor },

#define FOUR4(M,P) M(P##1,P,P,0,0) M(P##2,P,P,1,0) M(P##3,P,P,0,1) M(P##4,P,P,1,1)
#define L3(M,N,PS,PC,HC,HD) M(N,PS,PC,HC,HD) FOUR4(M,N)
#define FOUR3(M,P) L3(M,P##1,P,P,0,0) L3(M,P##2,P,P,1,0) L3(M,P##3,P,P,0,1) L3(M,P##4,P,P,1,1)
#define L2(M,N,PS,PC,HC,HD) M(N,PS,PC,HC,HD) FOUR3(M,N)
#define FOUR2(M,P) L2(M,P##1,P,P,0,0) L2(M,P##2,P,P,1,0) L2(M,P##3,P,P,0,1) L2(M,P##4,P,P,1,1)
#define L1(M,N,PS,PC,HC,HD) M(N,PS,PC,HC,HD) FOUR2(M,N)
#define ALL(M) L1(M,k1,pvobj_t,parsec_object_t,0,0) L1(M,k2,pvobj_t,parsec_object_t,1,0) \
               L1(M,k3,pvobj_t,parsec_object_t,0,1) L1(M,k4,pvobj_t,parsec_object_t,1,1)

ALL(DEF)

typedef struct { const char *name; parsec_class_t *cls; void (*ctor)(parsec_object_t*); void (*dtor)(parsec_object_t*); } ent_t;
static ent_t table[] = { ALL(ENT) };
#define NCLS ((int)(sizeof table / sizeof table[0]))

static ent_t *find_class(const char *digits)
{
    size_t n = strlen(digits);
    if( n < 1 || n > 4 ) return NULL;
    for(size_t i = 0; i < n; i++) if( digits[i] < '1' || digits[i] > '4' ) return NULL;
    for(int i = 0; i < NCLS; i++) if( 0 == strcmp(table[i].name + 1, digits) ) return &table[i];
    return NULL;
}
static int fn_id(void *f)
{
    for(int i = 0; i < NCLS; i++) if( (void*)table[i].ctor == f || (void*)table[i].dtor == f ) return atoi(table[i].name + 1);
    return -1;
}
static void reset_class(parsec_class_t *c)
{   /* back to the static initialiser of PARSEC_OBJ_CLASS_INSTANCE: 0, 0, NULL, NULL */
    c->cls_initialized = 0; c->cls_depth = 0; c->cls_construct_array = NULL; c->cls_destruct_array = NULL;
}
static void print_log(const char *key, char kind, int from)
{
    int first = 1;
    printf("%s=[", key);
    for(int i = from; i < nlog; i++) if( glog[i].kind == kind ) { printf("%s%d", first ? "" : " ", glog[i].id); first = 0; }
    printf("]");
}
static void print_array(const char *key, void **a)
{
    printf("%s=[", key);
    for(int i = 0; NULL != a[i]; i++) printf("%s%d", i ? " " : "", fn_id(a[i]));
    printf("]");
}

/* ------------------------------------------------------------------ sequential part */
#define NSLOT 4
static parsec_object_t *slot[NSLOT]; static int slot_dyn[NSLOT];

static void force_destroy(parsec_object_t *o)
{   /* harness cleanup of a dynamic object that still has references (not part of any transcript) */
    int m = log_mode; log_mode = 2;
    o->obj_reference_count = 1;
    PARSEC_OBJ_RELEASE(o);
    log_mode = m;
}
static void seq_reset(void)
{
    for(int i = 0; i < NSLOT; i++) {
        if( slot[i] ) { if( slot_dyn[i] ) force_destroy(slot[i]); else free(slot[i]); }
        slot[i] = NULL;
    }
    parsec_class_finalize();
    for(int i = 0; i < NCLS; i++) reset_class(table[i].cls);
    nlog = 0;
}

static void seq_op(char *line)
{
    char verb[32], cname[32]; int s;
    if( 1 == sscanf(line, "classinit %31s", cname) && !strncmp(line, "classinit ", 10) ) {
        ent_t *e = find_class(cname);
        if( !e ) { printf("bad-op\n"); return; }
        int was = e->cls->cls_initialized;
        parsec_class_initialize(e->cls);
        printf("init=%d depth=%d ", was, e->cls->cls_depth);
        print_array("ctors", (void**)e->cls->cls_construct_array); printf(" ");
        print_array("dtors", (void**)e->cls->cls_destruct_array);
        printf(" off=%d\n", (int)(e->cls->cls_destruct_array - (parsec_destruct_t*)e->cls->cls_construct_array));
        return;
    }
    if( 3 == sscanf(line, "%31s %d %31s", verb, &s, cname) && (!strcmp(verb, "new") || !strcmp(verb, "construct")) ) {
        ent_t *e = find_class(cname);
        if( !e || s < 0 || s >= NSLOT ) { printf("bad-op\n"); return; }
        if( slot[s] ) { printf("rejected\n"); return; }
        int was = e->cls->cls_initialized, from = nlog;
        if( !strcmp(verb, "new") ) {
            slot[s] = parsec_obj_new(e->cls);                 /* = PARSEC_OBJ_NEW(type) */
            slot_dyn[s] = 1;
        } else {
            slot[s] = (parsec_object_t*)malloc(e->cls->cls_sizeof);
            PARSEC_OBJ_CONSTRUCT_INTERNAL(slot[s], e->cls);  /* = PARSEC_OBJ_CONSTRUCT(obj, type) */
            slot_dyn[s] = 0;
        }
        printf("init=%d cnt=%d ", was, (int)slot[s]->obj_reference_count);
        print_log("ctors", 'c', from); printf("\n");
        return;
    }
    if( 2 == sscanf(line, "%31s %d", verb, &s) ) {
        int known = !strcmp(verb, "retain") || !strcmp(verb, "release") || !strcmp(verb, "destruct") || !strcmp(verb, "drop");
        if( !known || s < 0 || s >= NSLOT ) { printf("bad-op\n"); return; }
        if( !slot[s] ) { printf("rejected\n"); return; }
        int from = nlog;
        if( !strcmp(verb, "retain") ) {
            PARSEC_OBJ_RETAIN(slot[s]);
            printf("cnt=%d\n", (int)slot[s]->obj_reference_count);
        } else if( !strcmp(verb, "release") ) {
            parsec_object_t *p = slot[s];
            PARSEC_OBJ_RELEASE(p);
            if( NULL == p && slot_dyn[s] ) { printf("cnt=freed "); slot[s] = NULL; }
            else printf("cnt=%d ", (int)slot[s]->obj_reference_count);
            print_log("dtors", 'd', from);
            printf(" null=%d\n", NULL == p);
            for(int i = from; i < nlog; i++) if( glog[i].kind == 'd' && glog[i].rc != 0 )
                printf("!viol C34 sequential: destructor %d called by PARSEC_OBJ_RELEASE while the reference count is %d\n", glog[i].id, glog[i].rc);
        } else if( !strcmp(verb, "destruct") ) {
            if( slot_dyn[s] ) { printf("rejected\n"); return; }
            PARSEC_OBJ_DESTRUCT(slot[s]);
            print_log("dtors", 'd', from); printf("\n");
        } else {
            if( slot_dyn[s] ) { printf("rejected\n"); return; }
            free(slot[s]); slot[s] = NULL;
            printf("ok\n");
        }
        return;
    }
    printf("bad-op\n");
}

/* ------------------------------------------------------------------ concurrent part */
#define MAXT 8
#define MAXP 64
typedef struct { char op; int to; } pop_t;
static int nthr, h0[MAXT], plen[MAXT]; static pop_t prog[MAXT][MAXP];
static ent_t *c_ent; static int c_dyn, c_c0;
static parsec_object_t *c_obj; static volatile int c_freed; static volatile int c_zeros[MAXT];

static int parse_thread(const char *w, int t)
{
    const char *p = w;
    if( *p < '0' || *p > '9' || p[1] != ':' ) return -1;
    h0[t] = *p - '0'; p += 2; plen[t] = 0;
    while( *p ) {
        if( plen[t] >= MAXP ) return -1;
        if( *p == 'R' || *p == 'L' ) { prog[t][plen[t]].op = *p; prog[t][plen[t]].to = 0; plen[t]++; p++; }
        else if( *p == 'G' && p[1] >= '0' && p[1] <= '9' ) { prog[t][plen[t]].op = 'G'; prog[t][plen[t]].to = p[1] - '0'; plen[t]++; p += 2; }
        else return -1;
    }
    return 0;
}
/* API-precondition guard for dynamic objects: every thread, counted alone, always holds >= 1
 * reference when it operates (then no schedule can touch the object after it was freed) */
static int locally_safe(void)
{
    for(int t = 0; t < nthr; t++) {
        int h = h0[t];
        for(int i = 0; i < plen[t]; i++) { if( h < 1 ) return 0; h += (prog[t][i].op == 'R') ? 1 : -1; }
    }
    return 1;
}
static void create_object(void)
{
    nlog = 0; c_freed = 0;
    for(int t = 0; t < MAXT; t++) c_zeros[t] = 0;
    parsec_class_finalize();
    reset_class(c_ent->cls);
    if( c_dyn ) c_obj = parsec_obj_new(c_ent->cls);
    else { c_obj = (parsec_object_t*)malloc(c_ent->cls->cls_sizeof); PARSEC_OBJ_CONSTRUCT_INTERNAL(c_obj, c_ent->cls); }
    for(int i = 1; i < c_c0; i++) PARSEC_OBJ_RETAIN(c_obj);   /* the references the threads start with */
}
static void destroy_object(void)
{
    if( c_dyn ) { if( !c_freed ) force_destroy(c_obj); }
    else free(c_obj);
    c_obj = NULL;
}
static void print_header(const char *caseline)
{
    printf("%s => ok n=%d cnt=%d ", caseline, nthr, (int)c_obj->obj_reference_count);
    print_log("ctors", 'c', 0); printf(" ");
    print_array("dtors", (void**)c_ent->cls->cls_destruct_array); printf("\n");
}
static void body(int tid, void *arg)
{
    (void)arg;
    for(int i = 0; i < plen[tid]; i++) {
        if( prog[tid][i].op == 'R' ) { PARSEC_OBJ_RETAIN(c_obj); }
        else if( prog[tid][i].op == 'L' ) {
            parsec_object_t *p = c_obj;
            PARSEC_OBJ_RELEASE(p);
            if( NULL == p ) { c_zeros[tid]++; if( c_dyn ) c_freed = 1; }
        } else PARSEC_VERIF_YIELD(K_GIVE, NULL);
    }
}
static const char *kname(int tid)
{
    int k = ctl_kind_of(tid);
    if( k == CTL_K_DONE ) return "done";
    if( k == CTL_K_START ) return "start";
    if( k == PARSEC_VERIF_K_RMW || k == K_GIVE ) return "ready";
    if( k == K_DTOR ) return "dtor";
    return "other";
}
static void observe(void *o, int step, int t)
{
    (void)o; (void)step;
    printf("step %d => %s ", t, kname(t));
    if( c_freed ) printf("cnt=freed "); else printf("cnt=%d ", (int)c_obj->obj_reference_count);
    print_log("d", 'd', 0); printf("\n");
}
/* replay: the given prefix, then the lowest enabled thread until everybody is done */
static int choose_replay_then_lowest(void *cctx, int step, int ne, const int *enabled)
{
    ctl_replay_t *r = (ctl_replay_t*)cctx;
    if( step < r->len ) { for(int i = 0; i < ne; i++) if( enabled[i] == r->sched[step] ) return i; }
    return 0;
}
static void one_run(const char *caseline, ctl_choose_t ch, void *cctx)
{
    int sched[1024], complete;
    create_object();
    print_header(caseline);
    ctl_run(nthr, body, NULL, ch, cctx, observe, NULL, 1000, sched, &complete);
    if( !complete ) { printf("end => unfinished\n"); pv_stat("incomplete_runs", 1); }
    else {
        printf("end => zeros=[");
        for(int i = 0; i < nthr; i++) printf("%s%d", i ? " " : "", c_zeros[i]);
        if( c_freed ) printf("] cnt=freed\n"); else printf("] cnt=%d\n", (int)c_obj->obj_reference_count);
    }
    destroy_object();
}

/* free-running search: all threads run their programs concurrently on a fresh object, many rounds;
 * the property itself is evaluated after every round (no model involved) */
static pthread_barrier_t bar_a, bar_b; static int s_rounds;
static void *stress_worker(void *p)
{
    int tid = (int)(intptr_t)p;
    for(int r = 0; r < s_rounds; r++) {
        pthread_barrier_wait(&bar_a);
        body(tid, NULL);
        pthread_barrier_wait(&bar_b);
    }
    return NULL;
}
static void stress(const char *caseline, int rounds)
{
    pthread_t th[MAXT];
    int expect = c_c0, ndt = 0, want[8];
    long bad = 0; char first[512] = "";
    for(int t = 0; t < nthr; t++) for(int i = 0; i < plen[t]; i++) expect += (prog[t][i].op == 'R') - (prog[t][i].op == 'L');
    create_object(); print_header(caseline);
    for(void **a = (void**)c_ent->cls->cls_destruct_array; *a; a++) want[ndt++] = fn_id(*a);
    destroy_object();
    s_rounds = rounds;
    pthread_barrier_init(&bar_a, NULL, nthr + 1); pthread_barrier_init(&bar_b, NULL, nthr + 1);
    for(int i = 0; i < nthr; i++) pthread_create(&th[i], NULL, stress_worker, (void*)(intptr_t)i);
    for(int r = 0; r < rounds; r++) {
        create_object();
        log_mode = 1; s_dn = 0;
        pthread_barrier_wait(&bar_a);
        pthread_barrier_wait(&bar_b);
        log_mode = 0;
        int z = 0, ok = 1; char why[256] = "";
        for(int i = 0; i < nthr; i++) z += c_zeros[i];
        if( z != (expect == 0) ) { ok = 0; snprintf(why, sizeof why, "%d release(s) observed zero, expected %d (final count should be %d)", z, expect == 0, expect); }
        else if( s_dn != (expect == 0 ? ndt : 0) ) { ok = 0; snprintf(why, sizeof why, "%d destructor calls, expected %d", (int)s_dn, expect == 0 ? ndt : 0); }
        else {
            for(int i = 0; i < s_dn && i < 64; i++) {
                if( s_dlog[i] != want[i] ) { ok = 0; snprintf(why, sizeof why, "destructor call %d is %d, expected %d (derived to base)", i, s_dlog[i], want[i]); break; }
                if( s_drc[i] != 0 ) { ok = 0; snprintf(why, sizeof why, "destructor %d ran while the reference count was %d", s_dlog[i], s_drc[i]); break; }
            }
            if( ok && expect != 0 && (int)c_obj->obj_reference_count != expect ) { ok = 0; snprintf(why, sizeof why, "final count %d, expected %d", (int)c_obj->obj_reference_count, expect); }
        }
        if( !ok ) { bad++; if( !first[0] ) snprintf(first, sizeof first, "round %d: %s", r, why); }
        destroy_object();
    }
    for(int i = 0; i < nthr; i++) pthread_join(th[i], NULL);
    pthread_barrier_destroy(&bar_a); pthread_barrier_destroy(&bar_b);
    if( bad ) printf("!viol C34 free-running %s with %d threads: %ld of %d rounds wrong; first: %s\n", caseline, nthr, bad, rounds, first);
    pv_stat("stress_rounds", rounds);
}

/* targeted free-running search: G groups of n threads; in every group the leader constructs an object
 * (static storage, so a second destruction is counted instead of corrupting the heap) holding as
 * many references as the programs need, all n threads meet at a spin barrier (no sleeping) and run
 * their programs at once — typically "n threads release the last n references" — and the leader
 * then checks that exactly one release observed zero and every destructor ran exactly once. */
#define RACE_MAXG 8
typedef struct {
    volatile long arrive; char pad0[56];
    volatile long done;   char pad1[56];
    volatile int dcalls;  char pad2[60];
    volatile int zeros;   char pad3[60];
    volatile int stop;    char pad4[60];
    parsec_object_t *obj; long objects, bad, first_idx; int first_dcalls, first_zeros; char pad5[24];
} race_group_t;
static race_group_t rg[RACE_MAXG] __attribute__((aligned(64)));
static int race_ndt; static double race_deadline;
static void race_count(parsec_object_t *o) { __sync_fetch_and_add(&rg[((pvobj_t*)o)->tag].dcalls, 1); }
static double now_s(void) { struct timespec ts; clock_gettime(CLOCK_MONOTONIC, &ts); return ts.tv_sec + 1e-9 * ts.tv_nsec; }
static void *race_worker(void *p)
{
    int g = (int)((intptr_t)p / MAXT), j = (int)((intptr_t)p % MAXT);
    race_group_t *G = &rg[g];
    uint64_t x = 0x9E3779B97F4A7C15ULL * (uint64_t)((intptr_t)p + 1);
    for(long it = 0; ; it++) {
        if( 0 == j ) {                                  /* leader: verdict on the previous object, next object */
            if( it > 0 ) {
                while( G->done < (long)nthr * it ) ;
                if( G->zeros != 1 || G->dcalls != race_ndt ) {
                    if( 0 == G->bad ) { G->first_idx = it - 1; G->first_dcalls = G->dcalls; G->first_zeros = G->zeros; }
                    G->bad++;
                }
                G->objects++;
                if( 0 == (it & 1023) && now_s() > race_deadline ) G->stop = 1;
            }
            if( !G->stop ) {
                G->dcalls = 0; G->zeros = 0;
                PARSEC_OBJ_CONSTRUCT_INTERNAL(G->obj, c_ent->cls);
                ((pvobj_t*)G->obj)->tag = g;
                for(int i = 1; i < c_c0; i++) PARSEC_OBJ_RETAIN(G->obj);
            }
        }
        __sync_fetch_and_add(&G->arrive, 1);
        while( G->arrive < (long)nthr * (it + 1) ) ;
        if( G->stop ) break;
        x ^= x << 13; x ^= x >> 7; x ^= x << 17;         /* a few cycles of jitter so that the alignment varies */
        for(int d = (int)(x & 7); d > 0; d--) __asm__ __volatile__("" ::: "memory");
        for(int i = 0; i < plen[j]; i++) {
            if( prog[j][i].op == 'R' ) { PARSEC_OBJ_RETAIN(G->obj); }
            else if( prog[j][i].op == 'L' ) {
                parsec_object_t *q = G->obj;
                PARSEC_OBJ_RELEASE(q);
                if( NULL == q ) __sync_fetch_and_add(&G->zeros, 1);
            }
        }
        __sync_fetch_and_add(&G->done, 1);
    }
    return NULL;
}
static void race(const char *caseline, int groups, double seconds)
{
    pthread_t th[RACE_MAXG * MAXT];
    int expect = c_c0;
    for(int t = 0; t < nthr; t++) for(int i = 0; i < plen[t]; i++) expect += (prog[t][i].op == 'R') - (prog[t][i].op == 'L');
    if( groups < 1 || groups > RACE_MAXG || c_dyn || 0 != expect || !locally_safe() ) { printf("%s => rejected\n", caseline); return; }
    create_object(); print_header(caseline);
    race_ndt = 0; for(void **a = (void**)c_ent->cls->cls_destruct_array; *a; a++) race_ndt++;
    destroy_object();
    parsec_class_initialize(c_ent->cls);
    memset(rg, 0, sizeof rg);
    for(int g = 0; g < groups; g++) if( posix_memalign((void**)&rg[g].obj, 64, c_ent->cls->cls_sizeof + 64) ) exit(3);
    log_mode = 3; race_deadline = now_s() + seconds;
    for(int g = 0; g < groups; g++) for(int j = 0; j < nthr; j++) pthread_create(&th[g * nthr + j], NULL, race_worker, (void*)(intptr_t)(g * MAXT + j));
    for(int i = 0; i < groups * nthr; i++) pthread_join(th[i], NULL);
    log_mode = 0;
    long objects = 0;
    for(int g = 0; g < groups; g++) {
        objects += rg[g].objects;
        if( rg[g].bad )
            printf("!viol C34 race %s: %d threads ran their programs at once on a fresh object: object #%ld of group %d saw %d release(s) observe zero and %d destructor call(s), expected 1 and %d; %ld of %ld objects of this group wrong\n",
                   caseline, nthr, rg[g].first_idx, g, rg[g].first_zeros, rg[g].first_dcalls, race_ndt, rg[g].bad, rg[g].objects);
        free(rg[g].obj);
    }
    pv_stat("race_objects", objects);
}

/* the cooperative scheduler runs one thread at a time: keeping all of them on the CPU the
 * controller is on makes the semaphore hand-offs cheap on a loaded machine; the free-running
 * stress gets the original CPU set back */
static cpu_set_t cpus0; static int have_cpus0 = 0;
static void pin(int on)
{
    cpu_set_t m;
    if( !have_cpus0 ) { if( 0 != sched_getaffinity(0, sizeof cpus0, &cpus0) ) return; have_cpus0 = 1; }
    if( on ) { int c = sched_getcpu(); if( c < 0 ) return; CPU_ZERO(&m); CPU_SET(c, &m); sched_setaffinity(0, sizeof m, &m); }
    else sched_setaffinity(0, sizeof cpus0, &cpus0);
}

static void conc_case(char *line)
{
    static char caseline[4096];
    char *tok[16 + MAXT]; int nt = 0;
    char *bar = strstr(line, " | ");
    if( !bar ) { printf("%s => bad-op\n", line); return; }
    *bar = 0; strcpy(caseline, line);
    char *pol = bar + 3;
    for(char *p = strtok(line, " "); p && nt < 16 + MAXT; p = strtok(NULL, " ")) tok[nt++] = p;
    if( nt < 5 || nt > 4 + MAXT ) { printf("%s => bad-op\n", caseline); return; }
    if( !strcmp(tok[2], "dyn") ) c_dyn = 1; else if( !strcmp(tok[2], "sta") ) c_dyn = 0; else { printf("%s => bad-op\n", caseline); return; }
    c_ent = find_class(tok[3]);
    if( !c_ent ) { printf("%s => bad-op\n", caseline); return; }
    nthr = nt - 4; c_c0 = 0;
    for(int t = 0; t < nthr; t++) { if( parse_thread(tok[4 + t], t) ) { printf("%s => bad-op\n", caseline); return; } c_c0 += h0[t]; }
    if( c_c0 < 1 ) c_c0 = 1;
    if( c_dyn && !locally_safe() ) { printf("%s => rejected\n", caseline); return; }
    pin(0 != strncmp(pol, "stress ", 7) && 0 != strncmp(pol, "race ", 5));
    if( !strncmp(pol, "rng ", 4) ) {
        pv_rng_t r = { strtoull(pol + 4, NULL, 10) };
        one_run(caseline, ctl_choose_rng, &r);
    } else if( !strncmp(pol, "dfs ", 4) ) {
        long max = atol(pol + 4), cnt = 0; ctl_dfs_t d; ctl_dfs_init(&d);
        do { one_run(caseline, ctl_choose_dfs, &d); cnt++; } while( cnt < max && ctl_dfs_next(&d) );
        pv_stat("dfs_schedules", cnt);
        if( cnt < max ) pv_stat("dfs_exhausted_spaces", 1);
    } else if( !strncmp(pol, "replay", 6) ) {
        int sc[1024], len = 0; char *p = pol + 6;
        while( *p && len < 1024 ) { while( *p == ' ' ) p++; if( !*p ) break; sc[len++] = atoi(p); while( *p && *p != ' ' ) p++; }
        ctl_replay_t rp = { sc, len };
        one_run(caseline, choose_replay_then_lowest, &rp);
    } else if( !strncmp(pol, "race ", 5) ) {
        int groups = 0; double secs = 0; sscanf(pol + 5, "%d %lf", &groups, &secs);
        race(caseline, groups, secs);
    } else if( !strncmp(pol, "stress ", 7) ) {
        if( !locally_safe() ) { printf("%s => rejected\n", caseline); return; }
        stress(caseline, atoi(pol + 7));
    } else printf("%s => bad-op\n", caseline);
}

/* probe (separate process, see checks/C34.py): instantiate the root class itself */
static int probe_root(void)
{
    parsec_object_t o;
    PARSEC_OBJ_CONSTRUCT(&o, parsec_object_t);
    printf("root-construct survived cnt=%d\n", (int)o.obj_reference_count);
    return 0;
}

int main(int argc, char **argv)
{
    static char line[8192];
    if( argc > 1 && !strcmp(argv[1], "--probe-root") ) return probe_root();
    setvbuf(stdout, NULL, _IOLBF, 1 << 16);
    {   /* small default stacks: thousands of short-lived scheduler threads (cheap under ASan) */
        pthread_attr_t a; pthread_attr_init(&a); pthread_attr_setstacksize(&a, 256 * 1024);
        pthread_setattr_default_np(&a); pthread_attr_destroy(&a);
    }
    while( fgets(line, sizeof line, stdin) ) {
        int k;
        line[strcspn(line, "\n")] = 0;
        if( 0 == line[0] ) continue;
        if( strstr(line, " | ") ) { conc_case(line); fflush(stdout); continue; }
        printf("%s => ", line);
        char tail;
        if( 1 == sscanf(line, "case %d%c", &k, &tail) ) { seq_reset(); printf("ok\n"); }
        else seq_op(line);
        fflush(stdout);
    }
    seq_reset();            /* nothing of ours stays allocated: a leak reported at exit is the library's */
    return 0;
}
