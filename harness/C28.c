/* C28 harness: executes an operation script (stdin) on the REAL zone allocator
 * (parsec/utils/zone_malloc.c) managing a plain host buffer and prints a transcript `op => result`.
 *
 *   case k            reset (release the zone)                                  => ok
 *   init N U          zone_malloc_init(buffer, N segments, U bytes per unit)    => ok
 *   malloc SIZE       zone_malloc(zone, SIZE bytes)       => <byte offset> use <zone_in_use> | null use <zone_in_use>
 *   free OFF          zone_free(zone, base+OFF)           => ok use <..> | noop use <..>
 *   freei K           free of the (K mod #live)-th newest live allocation   => ok <byte offset> use <..>
 *   dump              walked segment table + free lists (rb-tree in key order, each list front first)
 *                     => segs tid:status:units:prev ... | fl size:[tid tid ..] ...
 *
 * A call outside the API precondition is not issued and prints `rejected` (same rule in the model):
 *   init   : N < 1, U < 1, N*U above the buffer cap, or a zone already exists
 *   malloc : no zone
 *   free   : no zone; OFF not a multiple of U (assert in the code); OFF inside the table, not the
 *            base of a live allocation (the harness keeps its own ledger of returned pointers) and the
 *            table entry there is not marked EMPTY (the code would then free garbage).
 * `free` of an offset beyond the table, or of a non-live offset whose entry is marked EMPTY, IS
 * issued: the code detects it ("not allocated" / "double free") and must leave the zone unchanged.
 * The byte content of every live allocation is filled with a tag and verified at free time
 * (the allocator must never touch the managed memory).
 */
#include "parsec/parsec_config.h"
#include "parsec/utils/zone_malloc.h"
#include "parsec/class/list.h"
#include "parsec/class/parsec_rbtree.h"
#include "pv.h"
#include <stdint.h>
#include <inttypes.h>

#define BUF_CAP (1u << 22)
/* mirrors the (file-local) node type of zone_malloc.c: rb-tree node + list + key */
typedef struct { parsec_rbtree_node_t super; parsec_list_t list; int nb_units; } chunk_list_t;

static zone_malloc_t *zone = NULL;
static char *buffer = NULL;
static long N = 0; static uint64_t U = 0;
static uint64_t *live_size = NULL;   /* per tid: 0 = not live, else requested size */
static unsigned char *live_tag = NULL;
static unsigned tagctr = 0;
static long *order = NULL; static long norder = 0;   /* live segment ids, oldest first */

static void reset(void)
{
    if( zone ) { zone_malloc_fini(&zone); zone = NULL; }
    free(buffer); buffer = NULL; free(live_size); live_size = NULL; free(live_tag); live_tag = NULL;
    free(order); order = NULL; norder = 0;
    N = 0; U = 0;
}

static void dump_node(parsec_rbtree_node_t *node, void *data)
{
    chunk_list_t *fl = (chunk_list_t*)node; int first = 1; (void)data;
    printf(" %d:[", fl->nb_units);
    PARSEC_LIST_NOLOCK_ITERATOR(&fl->list, it, {
        printf("%s%ld", first ? "" : " ", (long)((segment_t*)it - zone->segments)); first = 0; });
    printf("]");
}

/* zone_in_use loops forever on a table entry with nb_units == 0: walk with a guard first */
static long long in_use(void)
{
    long tid, steps = 0;
    for(tid = 0; tid >= 0 && tid < zone->max_segment; tid += zone->segments[tid].nb_units)
        if( zone->segments[tid].nb_units <= 0 || ++steps > zone->max_segment ) return -1;
    return (long long)zone_in_use(zone);
}

static void dump(void)
{
    long tid, steps = 0;
    printf("segs");
    for(tid = 0; tid >= 0 && tid < zone->max_segment; tid += zone->segments[tid].nb_units) {
        segment_t *s = &zone->segments[tid];
        printf(" %ld:%d:%d:%d", tid, s->status, s->nb_units, s->nb_prev);
        if( s->nb_units <= 0 || ++steps > zone->max_segment ) { printf(" stuck"); break; }
    }
    printf(" | fl");
    parsec_rbtree_foreach(&zone->rbtree, dump_node, NULL);
    printf("\n");
}

int main(void)
{
    char line[512];
    while( fgets(line, sizeof line, stdin) ) {
        long a; long long n; unsigned long long u, sz;
        line[strcspn(line, "\n")] = 0;
        if( line[0] == 0 ) continue;
        printf("%s => ", line);
        fflush(stdout);     /* a crash of the real code must leave the operation reached in the transcript */
        if( sscanf(line, "case %ld", &a) == 1 ) { reset(); printf("ok\n"); }
        else if( sscanf(line, "init %lld %llu", &n, &u) == 2 ) {
            if( zone || n < 1 || u < 1 || n > (long long)BUF_CAP || u > BUF_CAP || (uint64_t)n * u > BUF_CAP ) { printf("rejected\n"); continue; }
            N = n; U = u;
            buffer = malloc((size_t)N * U);
            live_size = calloc(N, sizeof *live_size); live_tag = calloc(N, 1); order = calloc(N + 1, sizeof *order); norder = 0;
            zone = zone_malloc_init(buffer, (int)N, (size_t)U);
            printf("%s\n", zone ? "ok" : "failed");
        } else if( sscanf(line, "malloc %llu", &sz) == 1 ) {
            if( !zone ) { printf("rejected\n"); continue; }
            char *p = zone_malloc(zone, (size_t)sz);
            if( NULL == p ) printf("null");
            else {
                uint64_t off = (uint64_t)(p - buffer);
                printf("%" PRIu64, off);
                if( off % U == 0 && off / U < (uint64_t)N ) {
                    long tid = off / U;
                    if( live_size[tid] == 0 && norder < N ) order[norder++] = tid;
                    live_size[tid] = sz; live_tag[tid] = (unsigned char)(1 + tagctr++ % 250);
                    if( off + sz <= (uint64_t)N * U ) memset(p, live_tag[tid], sz);
                }
            }
            printf(" use %lld\n", in_use());
        } else if( sscanf(line, "free %llu", &sz) == 1 || sscanf(line, "freei %llu", &sz) == 1 ) {
            int byidx = (line[4] == 'i');
            if( byidx ) {   /* free the (sz mod nlive)-th newest live allocation */
                if( !zone || norder == 0 ) { printf("rejected\n"); continue; }
                sz = (unsigned long long)order[norder - 1 - (long)(sz % (unsigned long long)norder)] * U;
            }
            if( !zone || sz % U != 0 ) { printf("rejected\n"); continue; }
            uint64_t tid = sz / U;
            int is_live = tid < (uint64_t)N && live_size[tid] != 0;
            uint64_t nbad = 0;
            if( tid < (uint64_t)N && !is_live && zone->segments[tid].status != SEGMENT_EMPTY ) { printf("rejected\n"); continue; }
            if( is_live ) {
                uint64_t k, bad = 0;
                if( sz + live_size[tid] <= (uint64_t)N * U )
                    for(k = 0; k < live_size[tid]; k++) bad += ((unsigned char)buffer[sz + k] != live_tag[tid]);
                nbad = bad;
                live_size[tid] = 0;
                long w = 0;
                for(k = 0; k < (uint64_t)norder; k++) if( order[k] != (long)tid ) order[w++] = order[k];
                norder = w;
            }
            zone_free(zone, buffer + sz);
            if( byidx ) printf("%s %llu use %lld\n", is_live ? "ok" : "noop", sz, in_use());
            else printf("%s use %lld\n", is_live ? "ok" : "noop", in_use());
            if( nbad ) printf("!viol content of live allocation at offset %llu was modified (%" PRIu64 " bytes)\n", sz, nbad);
        } else if( 0 == strcmp(line, "dump") ) {
            if( !zone ) { printf("rejected\n"); continue; }
            dump();
        } else printf("bad-op\n");
    }
    reset();
    return 0;
}
