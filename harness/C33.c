/* C33 harness: the REAL parsec_atomic_rwlock_{rdlock,rdunlock,wrlock,wrunlock} of /repo
 * (parsec/class/parsec_rwlock.c, configured implementation) driven
 *   (a) by the cooperative scheduler: n threads, thread i runs the lock cycles of its program
 *       (letters R = rdlock..rdunlock, W = wrlock..wrunlock); one "step t" = thread t runs from its
 *       park point (an atomic primitive, a barrier, a spin re-read, or the inside of its critical
 *       section) to the next one; after every step the park point, the four fields of the lock and
 *       the occupancy counters maintained by the harness are printed;
 *   (b) free-running (stress): many threads, random cycles, occupancy counters + a data invariant.
 *
 * stdin lines:
 *   case <k> <A> <B> <prog>... | rng <seed>            random schedule
 *   case <k> <A> <B> <prog>... | dfs <max> [por]       all schedules (odometer), at most <max>; "por": barrier and
 *                                                       thread-start steps (no shared access) are taken eagerly
 *   case <k> <A> <B> <prog>... | replay <t0> <t1> ...  the given schedule
 *   stress <k> <A> <B> <threads> <iters> <write-percent> <seed>
 * The lock starts unlocked with rin = rout = A<<8 and win = wout = B (A = B = 0 is parsec_atomic_rwlock_init).
 */
#include "parsec/parsec_config.h"
#include "parsec/sys/atomic.h"
#include "parsec/class/parsec_rwlock.h"
#include <signal.h>
#include <sys/wait.h>
#include <sys/types.h>
#include <unistd.h>
#include <time.h>
#include "pv.h"
#include "ctl_sched.h"

#if PARSEC_RWLOCK_IMPL != PARSEC_RWLOCK_IMPL_TICKET
#error "C33 models PARSEC_RWLOCK_IMPL_TICKET; the configured implementation changed"
#endif

#define K_CS 4            /* harness-level park point: inside the critical section */
#define MAXN 8
#define MAXSTEPS 600

static parsec_atomic_rwlock_t L;
static int nthreads;
static char progs[MAXN][8];
static const char *volatile ph[CTL_MAXT];
static volatile int rd_in, wr_in;          /* occupancy, maintained inside the critical sections */
static volatile int excl_bad;              /* set when the occupancy breaks the exclusion rule */
static char caseline[512];
static char last_name[CTL_MAXT][32];
static int executed[MAXSTEPS + 8], nexec;

static void check_excl(void) { if( wr_in > 1 || (wr_in >= 1 && rd_in >= 1) ) excl_bad = 1; }

static void body(int tid, void *arg)
{
    (void)arg;
    for(const char *p = progs[tid]; *p; p++) {
        if( *p == 'R' ) {
            ph[tid] = "rl"; parsec_atomic_rwlock_rdlock(&L);
            ph[tid] = "r"; rd_in++; check_excl();
            ctl_yield_cb(K_CS, NULL);
            check_excl(); rd_in--;
            ph[tid] = "ru"; parsec_atomic_rwlock_rdunlock(&L);
        } else {
            ph[tid] = "wl"; parsec_atomic_rwlock_wrlock(&L);
            ph[tid] = "w"; wr_in++; check_excl();
            ctl_yield_cb(K_CS, NULL);
            check_excl(); wr_in--;
            ph[tid] = "wu"; parsec_atomic_rwlock_wrunlock(&L);
        }
    }
}

static const char *field(volatile void *a)
{
    if( a == (volatile void*)&L.rin ) return "rin";
    if( a == (volatile void*)&L.rout ) return "rout";
    if( a == (volatile void*)&L.win ) return "win";
    if( a == (volatile void*)&L.wout ) return "wout";
    return "?";
}
static void kname(int tid, char *out)
{
    int k = ctl_kind_of(tid);
    volatile void *a = ctl_cur ? ctl_cur->addr[tid] : NULL;
    if( k == CTL_K_DONE ) strcpy(out, "done");
    else if( k == CTL_K_START ) strcpy(out, "start");
    else if( k == K_CS ) sprintf(out, "%s.cs", ph[tid]);
    else if( k == PARSEC_VERIF_K_FENCE ) sprintf(out, "%s.fence", ph[tid]);
    else if( k == PARSEC_VERIF_K_RMW ) sprintf(out, "%s.rmw:%s", ph[tid], field(a));
    else if( k == PARSEC_VERIF_K_SPIN ) sprintf(out, "%s.spin:%s", ph[tid], field(a));
    else if( k == PARSEC_VERIF_K_CAS ) sprintf(out, "%s.cas:%s", ph[tid], field(a));
    else sprintf(out, "%s.kind%d", ph[tid], k);
}

/* A thread parked in a spin loop evaluated its condition (false) during its last step.  While the
 * four fields still have the values they had then, stepping it again can only re-read the same values:
 * such a thread is "asleep".  This uses no knowledge of the lock algorithm. */
static uint32_t sig[CTL_MAXT][4];
static void cur_sig(uint32_t *s) { s[0] = (uint32_t)L.rin; s[1] = (uint32_t)L.rout; s[2] = (uint32_t)L.win; s[3] = (uint32_t)L.wout; }
static int asleep(int t)
{
    uint32_t s[4];
    if( ctl_kind_of(t) != PARSEC_VERIF_K_SPIN ) return 0;
    cur_sig(s);
    return 0 == memcmp(s, sig[t], sizeof s);
}
static int deadlock;
static void report_deadlock(void);

static void observe(void *o, int step, int t)
{
    (void)o; (void)step;
    if( ctl_kind_of(t) == PARSEC_VERIF_K_SPIN ) cur_sig(sig[t]);
    kname(t, last_name[t]);
    check_excl();
    if( nexec < MAXSTEPS ) executed[nexec++] = t;
    printf("step %d => %s rin=%u rout=%u win=%u wout=%u in=%d/%d\n", t, last_name[t],
           (unsigned)L.rin, (unsigned)L.rout, (unsigned)L.win, (unsigned)L.wout, rd_in, wr_in);
}

/* ---- choosers ---- */
static int awake(int ne, const int *enabled, int *cand)   /* indices (into enabled) of the threads that are not asleep */
{
    int nc = 0;
    for(int i = 0; i < ne; i++) if( !asleep(enabled[i]) ) cand[nc++] = i;
    return nc;
}
static int choose_rng(void *cctx, int step, int ne, const int *enabled)
{
    pv_rng_t *r = (pv_rng_t*)cctx; int cand[CTL_MAXT]; (void)step;
    int nc = awake(ne, enabled, cand);
    if( 0 == nc ) report_deadlock();
    if( 0 == pv_below(r, 6) ) return (int)pv_below(r, (uint64_t)ne);      /* sometimes re-read a spin whose condition cannot have changed */
    return cand[pv_below(r, (uint64_t)nc)];
}
typedef struct { int choice[MAXSTEPS]; int width[MAXSTEPS]; int depth; int len; int por; } dfs_t;
static int choose_dfs(void *cctx, int step, int ne, const int *enabled)
{
    dfs_t *d = (dfs_t*)cctx; int cand[CTL_MAXT];
    if( step >= MAXSTEPS ) return -1;
    int nc = awake(ne, enabled, cand);
    if( 0 == nc ) report_deadlock();
    if( d->por ) {        /* steps without any access to shared memory commute with everything: take them first */
        for(int i = 0; i < nc; i++) {
            int k = ctl_kind_of(enabled[cand[i]]);
            if( k == PARSEC_VERIF_K_FENCE || k == CTL_K_START ) { cand[0] = cand[i]; nc = 1; break; }
        }
    }
    if( step >= d->len ) { d->choice[step] = 0; d->len = step + 1; }
    d->width[step] = nc; d->depth = step + 1;
    return cand[d->choice[step] < nc ? d->choice[step] : nc - 1];
}
static int dfs_next(dfs_t *d)
{
    int i = d->depth - 1;
    while( i >= 0 && d->choice[i] + 1 >= d->width[i] ) i--;
    if( i < 0 ) return 0;
    d->choice[i]++; d->len = i + 1;
    return 1;
}

/* replay: follow the given schedule (entries naming a finished thread are skipped); when it is exhausted, finish the run
 * with a fair deterministic policy (round robin over the threads that are not asleep) */
typedef struct { const int *sched; int len; int pos; int rr; } replay_t;
static int choose_replay(void *cctx, int step, int ne, const int *enabled)
{
    replay_t *r = (replay_t*)cctx; int cand[CTL_MAXT]; (void)step;
    while( r->pos < r->len ) {
        int t = r->sched[r->pos++];
        for(int i = 0; i < ne; i++) if( enabled[i] == t ) return i;
    }
    int nc = awake(ne, enabled, cand);
    if( 0 == nc ) report_deadlock();
    for(int k = 0; k < nc; k++) if( enabled[cand[k]] >= r->rr ) { r->rr = enabled[cand[k]] + 1; return cand[k]; }
    r->rr = enabled[cand[0]] + 1;
    return cand[0];
}

static void on_alarm(int s)
{
    (void)s;
    fflush(stdout);      /* the controller thread is blocked in pthread_join at this point: no printf in progress */
    static const char m1[] = "!viol C33 hang, the threads did not finish within the watchdog time :: ";
    if( write(1, m1, sizeof m1 - 1) < 0 ) _exit(4);
    if( write(1, caseline, strlen(caseline)) < 0 ) _exit(4);
    if( write(1, "\n", 1) < 0 ) _exit(4);
    _exit(3);
}

static long n_runs, n_incomplete;
static void one_run(ctl_choose_t ch, void *cctx, uint32_t A, uint32_t B)
{
    int sched[MAXSTEPS + 8], complete;
    parsec_atomic_rwlock_init(&L);
    L.rin = (int32_t)(A << 8); L.rout = (int32_t)(A << 8); L.win = (int32_t)B; L.wout = (int32_t)B;
    rd_in = wr_in = 0; excl_bad = 0; deadlock = 0; nexec = 0;
    for(int i = 0; i < nthreads; i++) { strcpy(last_name[i], "start"); ph[i] = "?"; memset(sig[i], 0xff, sizeof sig[i]); }
    printf("%s => ok n=%d\n", caseline, nthreads);
    fflush(stdout);
    alarm(30);
    ctl_run(nthreads, body, NULL, ch, cctx, observe, NULL, MAXSTEPS, sched, &complete);
    alarm(0);
    printf("end => [");
    for(int i = 0; i < nthreads; i++) printf("%s%s", i ? " " : "", last_name[i]);
    printf("]\n");
    n_runs++;
    if( excl_bad ) {
        printf("!viol C33 exclusion broken (occupancy counters of the harness) :: %s | replay", caseline);
        for(int i = 0; i < nexec; i++) printf(" %d", executed[i]);
        printf("\n");
    } else if( !complete ) n_incomplete++;
}
static void end_stats(void);
static void report_deadlock(void)
{
    /* called by a chooser while every worker is parked: report and leave this (forked) process, the parked workers with it */
    deadlock = 1;
    printf("!viol C33 deadlock, every unfinished thread waits in a spin loop whose inputs did not change :: %s | replay", caseline);
    for(int i = 0; i < nexec; i++) printf(" %d", executed[i]);
    printf("\n");
    n_runs++;
    end_stats();
    fflush(stdout);
    _exit(0);
}

/* ---- free-running stress ---- */
static volatile int s_r, s_w, s_bad, s_maxr;
static volatile long s_a, s_b;
static int s_iters, s_wp; static uint64_t s_seed; static pthread_barrier_t s_bar;
static void *stress_worker(void *p)
{
    int tid = (int)(intptr_t)p; pv_rng_t r = { s_seed ^ ((uint64_t)(tid + 1) * 0x9E3779B97F4A7C15ULL) };
    long wrote = 0;
    pthread_barrier_wait(&s_bar);
    for(int it = 0; it < s_iters; it++) {
        if( (int)pv_below(&r, 100) < s_wp ) {
            parsec_atomic_rwlock_wrlock(&L);
            if( __sync_add_and_fetch(&s_w, 1) != 1 || s_r != 0 ) s_bad = 1;
            s_a++; if( 0 == (it & 7) ) sched_yield(); s_b++;
            wrote++;
            if( s_r != 0 ) s_bad = 1;
            __sync_sub_and_fetch(&s_w, 1);
            parsec_atomic_rwlock_wrunlock(&L);
        } else {
            parsec_atomic_rwlock_rdlock(&L);
            int nr = __sync_add_and_fetch(&s_r, 1);
            if( s_w != 0 ) s_bad = 1;
            if( s_a != s_b ) s_bad = 1;
            if( nr > s_maxr ) s_maxr = nr;
            if( 0 == (it & 15) ) sched_yield();
            if( s_w != 0 ) s_bad = 1;
            __sync_sub_and_fetch(&s_r, 1);
            parsec_atomic_rwlock_rdunlock(&L);
        }
    }
    return (void*)(intptr_t)wrote;
}
static void stress(uint32_t A, uint32_t B, int n, int iters, int wp, uint64_t seed)
{
    pthread_t th[64]; long total = 0;
    if( n > 64 ) n = 64;
    parsec_atomic_rwlock_init(&L);
    L.rin = (int32_t)(A << 8); L.rout = (int32_t)(A << 8); L.win = (int32_t)B; L.wout = (int32_t)B;
    s_r = s_w = s_bad = s_maxr = 0; s_a = s_b = 0; s_iters = iters; s_wp = wp; s_seed = seed;
    pthread_barrier_init(&s_bar, NULL, n);
    alarm(180 + (unsigned)((long)n * iters / 500));
    for(int i = 0; i < n; i++) pthread_create(&th[i], NULL, stress_worker, (void*)(intptr_t)i);
    for(int i = 0; i < n; i++) { void *r; pthread_join(th[i], &r); total += (long)(intptr_t)r; }
    alarm(0);
    pthread_barrier_destroy(&s_bar);
    if( s_bad || s_a != total || s_b != total || s_r != 0 || s_w != 0 )
        printf("!viol C33 free-running exclusion broken (occupancy/data check failed=%d, writes counted %ld/%ld expected %ld) :: %s\n",
               s_bad, s_a, s_b, total, caseline);
    if( (uint32_t)L.rin != (uint32_t)L.rout || (uint32_t)L.win != (uint32_t)L.wout || (L.rin & 0xFF) )
        printf("!viol C33 free-running, lock not back to the unlocked state (rin=%u rout=%u win=%u wout=%u) :: %s\n",
               (unsigned)L.rin, (unsigned)L.rout, (unsigned)L.win, (unsigned)L.wout, caseline);
    pv_stat("stress_cycles", (long)n * iters);
    pv_stat("stress_write_cycles", total);
    pv_stat("stress_max_readers_inside", s_maxr);
    if( s_maxr >= 2 ) pv_stat("stress_runs_with_shared_read", 1);
}

static int parse_case(char *line, uint32_t *A, uint32_t *B)
{
    char *tok[32]; int nt = 0;
    for(char *p = strtok(line, " "); p && nt < 32; p = strtok(NULL, " ")) tok[nt++] = p;
    if( nt < 5 || strcmp(tok[0], "case") ) return -1;
    char *e; unsigned long long a = strtoull(tok[2], &e, 10); if( *e || e == tok[2] || a >= (1ULL << 24) ) return -1;
    unsigned long long b = strtoull(tok[3], &e, 10); if( *e || e == tok[3] || b >= (1ULL << 32) ) return -1;
    for(const char *q = tok[2]; *q; q++) if( *q < '0' || *q > '9' ) return -1;
    for(const char *q = tok[3]; *q; q++) if( *q < '0' || *q > '9' ) return -1;
    int n = nt - 4;
    if( n < 1 || n > MAXN ) return -1;
    for(int i = 0; i < n; i++) {
        const char *w = tok[4 + i];
        if( !strcmp(w, "-") ) { progs[i][0] = 0; continue; }
        size_t l = strlen(w);
        if( l < 1 || l > 4 ) return -1;
        for(size_t j = 0; j < l; j++) if( w[j] != 'R' && w[j] != 'W' ) return -1;
        strcpy(progs[i], w);
    }
    *A = (uint32_t)a; *B = (uint32_t)b;
    return n;
}

static void end_stats(void)
{
    pv_stat("runs", n_runs);
    pv_stat("incomplete_runs", n_incomplete);
}

static void do_line(char *line)
{
    static char work[8192];
    uint32_t A, B;
    if( !strncmp(line, "stress ", 7) ) {
        unsigned long long a, b, seed; int k, n, iters, wp;
        snprintf(caseline, sizeof caseline, "%.500s", line);
        if( sscanf(line, "stress %d %llu %llu %d %d %d %llu", &k, &a, &b, &n, &iters, &wp, &seed) != 7 ) { printf("%s => bad-op\n", line); return; }
        stress((uint32_t)a, (uint32_t)b, n, iters, wp, seed);
        return;
    }
    char *bar = strstr(line, " | ");
    if( !bar ) { printf("%s => bad-op\n", line); return; }
    *bar = 0;
    snprintf(caseline, sizeof caseline, "%.500s", line);
    char *pol = bar + 3;
    strcpy(work, line);
    int n = parse_case(work, &A, &B);
    if( n < 0 ) { printf("%s => bad-op\n", caseline); return; }
    nthreads = n;
    if( !strncmp(pol, "rng ", 4) ) {
        pv_rng_t r = { strtoull(pol + 4, NULL, 10) };
        one_run(choose_rng, &r, A, B);
    } else if( !strncmp(pol, "dfs ", 4) ) {
        long max = atol(pol + 4), cnt = 0; static dfs_t d; memset(&d, 0, sizeof d);
        d.por = NULL != strstr(pol, "por");
        do { one_run(choose_dfs, &d, A, B); cnt++; } while( cnt < max && dfs_next(&d) );
        pv_stat("dfs_schedules", cnt);
        if( cnt < max ) pv_stat("dfs_exhausted_spaces", 1); else pv_stat("dfs_truncated_spaces", 1);
    } else if( !strncmp(pol, "replay", 6) ) {
        static int sc[MAXSTEPS]; int len = 0; char *p = pol + 6;
        while( *p && len < MAXSTEPS ) { while( *p == ' ' ) p++; if( !*p ) break; sc[len++] = atoi(p); while( *p && *p != ' ' ) p++; }
        replay_t rp = { sc, len, 0, 0 };
        one_run(choose_replay, &rp, A, B);
    } else printf("%s => bad-op\n", caseline);
}

/* every input line runs in its own forked process: a deadlock or a crash of the code under test ends that
 * process only (reported as a !viol line), the remaining lines still run */
int main(void)
{
    static char line[8192];
    signal(SIGALRM, on_alarm);
    setvbuf(stdout, NULL, _IOFBF, 1 << 20);
    while( fgets(line, sizeof line, stdin) ) {
        line[strcspn(line, "\n")] = 0;
        fflush(stdout);
        pid_t pid = fork();
        if( pid < 0 ) { perror("fork"); return 5; }
        if( 0 == pid ) {
            do_line(line);
            end_stats();
            fflush(stdout);
            _exit(0);
        }
        int st = 0;
        waitpid(pid, &st, 0);
        if( WIFSIGNALED(st) ) printf("!viol C33 crash of the code under test (signal %d) :: %.500s\n", WTERMSIG(st), line);
        else if( WIFEXITED(st) && WEXITSTATUS(st) != 0 && WEXITSTATUS(st) != 3 ) printf("!viol C33 harness process exit %d :: %.500s\n", WEXITSTATUS(st), line);
    }
    fflush(stdout);
    return 0;
}
