/* C25 harness: the REAL data repository (parsec/datarepo.c) on fabricated execution streams.
 *
 * stdin:  case <k> <seq|coop|fine> [hmask=<m>] [bits=<b>] [coll=<c>] [maxbits=<x>] <spec>... [| <policy>]
 *           spec   c<key>:<n>  creator thread: lookup_entry_and_create(key) then addto_usage_limit(key,n)
 *                  u<key>      user thread: used_once(key)
 *           hmask  key_hash(k) = k & hmask (forces bucket collisions), bits = log2 of the initial table,
 *                  coll = max_collisions_hint of the table (resizes), maxbits = max_table_nb_bits
 *         seq : the following lines are API calls issued one after the other by the main thread:
 *                  create t | announce t | use t | fuse t | lookup key | live | end
 *               a call outside the API precondition / the usage protocol is not issued: `rejected`.
 *         coop: policy = rng SEED | dfs MAX | replay t0 t1 ...   cooperative scheduler, one step =
 *               one critical section (thread runs from before a bucket lock to before the next one)
 *         fine: policy = rng SEED   cooperative scheduler switching at EVERY atomic operation; a
 *               line `fcs t` is written when thread t leaves a critical section (bucket unlock)
 *         stress <rounds> <threads> <keys> <hmask> <bits> <coll> <seed> : free-running threads + oracle
 *
 * Observations use no hook: the entry is read directly in the hash table (all workers parked),
 * reclaim is seen through the thread mempools (allocated - free-listed = live entries).
 */
#include "parsec/parsec_config.h"
#include "parsec/parsec_internal.h"
#include "parsec/execution_stream.h"
#include "parsec/datarepo.h"
#include "parsec/mempool.h"
#include "parsec/class/parsec_hash_table.h"
#include "pv.h"
#include "ctl_sched.h"
#include <signal.h>
#include <unistd.h>

#define MAXTH 256
#define NBDATA 1
typedef struct { int user; long key; int n; volatile int phase; int started; data_repo_entry_t *e; } thr_t;
static thr_t T[MAXTH]; static int NT;
static long KEYS[MAXTH]; static int NK;
static data_repo_t *repo; static parsec_mempool_t mp; static int mp_n;
static parsec_execution_stream_t es[CTL_MAXT];
static uint64_t hmask = ~0ULL;

static int kf_equal(parsec_key_t a, parsec_key_t b, void *d) { (void)d; return a == b; }
static char *kf_print(char *buf, size_t sz, parsec_key_t k, void *d) { (void)d; snprintf(buf, sz, "%lu", (unsigned long)k); return buf; }
static uint64_t kf_hash(parsec_key_t k, void *d) { (void)d; return (uint64_t)k & hmask; }
static parsec_key_fn_t kfn = { kf_equal, kf_print, kf_hash };

static int maxbits = 24;
static void repo_new(int nthreads, int bits, int coll)
{
    repo = data_repo_create_nothreadsafe(1u << bits, kfn, NULL, NBDATA);
    /* what parsec_hash_tables_init() gives every table of a running context */
    repo->table.max_collisions_hint = coll;
    repo->table.max_table_nb_bits = maxbits;
    mp_n = nthreads;
    parsec_mempool_construct(&mp, NULL, sizeof(data_repo_entry_t) + (NBDATA - 1) * sizeof(void*),
                             offsetof(data_repo_entry_t, data_repo_mempool_owner), nthreads);
    memset(es, 0, sizeof es);
    for(int i = 0; i < nthreads && i < CTL_MAXT; i++) { es[i].th_id = i; es[i].datarepo_mempools[NBDATA] = &mp.thread_mempools[i]; }
}

/* the bucket structure is private to parsec_hash_table.c: mirror of its layout, used ONLY to read the
 * bucket locks (which section is open); checked against the public API by selfcheck() at start-up */
typedef struct { parsec_atomic_lock_t lock; int32_t cur_len; parsec_hash_table_item_t *first_item; } pv_bucket_t;
#define BUCKETS(h) ((pv_bucket_t*)(h)->buckets)

/* every item of every table generation, through the lock-free public iterator (workers parked or quiescent) */
typedef struct { long key; data_repo_entry_t *found; int count; void **all; } peek_t;
static void peek_cb(void *item, void *cb)
{
    peek_t *p = (peek_t*)cb; data_repo_entry_t *e = (data_repo_entry_t*)item;
    if( p->all ) p->all[p->count] = item;
    p->count++;
    if( (long)e->ht_item.key == p->key ) p->found = e;
}
static data_repo_entry_t *peek(long key, int *count)
{
    peek_t p = { key, NULL, 0, NULL };
    parsec_hash_table_for_all(&repo->table, peek_cb, &p);
    if( count ) *count = p.count;
    return p.found;
}
static int tsize(void) { int c; peek(-1, &c); return c; }
static int locksum(void)
{
    int s = 0;
    for(parsec_hash_table_head_t *h = repo->table.rw_hash; h; h = h->next_to_free)
        for(size_t i = 0; i < (1ULL << h->nb_bits); i++) s += (int)BUCKETS(h)[i].lock;
    return s;
}
static int is_bucket_lock(volatile void *addr)
{
    for(parsec_hash_table_head_t *h = repo->table.rw_hash; h; h = h->next_to_free)
        if( (char*)addr >= (char*)BUCKETS(h) && (char*)addr < (char*)(BUCKETS(h) + (1ULL << h->nb_bits)) ) return 1;
    return 0;
}
/* entries out of the mempools' free lists = allocated - free-listed; -999 if a free list is corrupt */
static long live(void)
{
    long total = 0, fr = 0;
    for(int i = 0; i < mp_n; i++) total += mp.thread_mempools[i].nb_elt;
    for(int i = 0; i < mp_n; i++) {
        long c = 0;
        for(parsec_list_item_t *it = mp.thread_mempools[i].mempool.lifo_head.data.item; it && c <= total; it = (parsec_list_item_t*)it->list_next) c++;
        if( c > total ) return -999;
        fr += c;
    }
    return total - fr;
}
static void repo_free(void)
{
    if( !repo ) return;
    { int nh = 0; for(parsec_hash_table_head_t *h = repo->table.rw_hash; h; h = h->next_to_free) nh++; if( nh > 1 ) pv_stat("table_resizes", nh - 1); }
    int n = tsize();
    if( n > 0 ) {            /* entries left by an unbalanced case: take them out so that the table can be destroyed */
        peek_t p = { -1, NULL, 0, malloc((size_t)n * sizeof(void*)) };
        parsec_hash_table_for_all(&repo->table, peek_cb, &p);
        for(int i = 0; i < p.count; i++) {
            data_repo_entry_t *e = (data_repo_entry_t*)p.all[i];
            parsec_hash_table_nolock_remove(&repo->table, e->ht_item.key);
            free(e);
        }
        free(p.all);
    }
    data_repo_destroy_nothreadsafe(repo); repo = NULL;
    parsec_mempool_destruct(&mp);
}
static int selfcheck(void)
{
    int ok = 1;
    repo_new(1, 2, 16);
    ok &= locksum() == 0;
    parsec_hash_table_lock_bucket(&repo->table, (parsec_key_t)5);
    ok &= locksum() == 1;
    parsec_hash_table_unlock_bucket(&repo->table, (parsec_key_t)5);
    ok &= locksum() == 0;
    data_repo_entry_t *e = data_repo_lookup_entry_and_create(&es[0], repo, (parsec_key_t)5);
    ok &= peek(5, NULL) == e && tsize() == 1 && live() == 1;
    int nb = 0; for(size_t i = 0; i < (1ULL << repo->table.rw_hash->nb_bits); i++) nb += BUCKETS(repo->table.rw_hash)[i].cur_len;
    ok &= nb == 1;
    /* take it out by hand (not through the functions under test): the devices must see it leave */
    parsec_hash_table_nolock_remove(&repo->table, (parsec_key_t)5);
    ok &= peek(5, NULL) == NULL && tsize() == 0 && live() == 1;
    parsec_thread_mempool_free(e->data_repo_mempool_owner, e);
    ok &= live() == 0;
    repo_free();
    return ok;
}

static void cellstate(char *buf, long key)
{
    data_repo_entry_t *e = peek(key, NULL);
    if( e ) sprintf(buf, "k=%ld p=1 cnt=%d lmt=%d ret=%d", key, (int)e->usagecnt, (int)e->usagelmt, (int)e->retained);
    else    sprintf(buf, "k=%ld p=0 cnt=0 lmt=0 ret=0", key);
}
static void print_end(void)
{
    printf("end => [");
    for(int i = 0; i < NK; i++) {
        data_repo_entry_t *e = peek(KEYS[i], NULL);
        if( e ) printf("%s%ld:1/%d/%d/%d", i ? " " : "", KEYS[i], (int)e->usagecnt, (int)e->usagelmt, (int)e->retained);
        else    printf("%s%ld:0/0/0/0", i ? " " : "", KEYS[i]);
    }
    printf("] live=%ld tsize=%d\n", live(), tsize());
}
/* the budget clause of the usage protocol, from the API calls issued so far (not from the entry) */
static long budget_left(long key, int started_uses)
{
    long b = 0;
    for(int i = 0; i < NT; i++) if( !T[i].user && T[i].key == key && T[i].phase >= 1 ) b += T[i].n;
    return b - started_uses;
}
static int uses_started(long key)
{
    int u = 0;
    for(int i = 0; i < NT; i++) if( T[i].user && T[i].key == key && T[i].started ) u++;
    return u;
}

/* ------------------------------------------------------------------ cooperative modes */
typedef struct {
    int fine, cur, committed, mstep, stopped, lsum;
    int kind;                       /* 0 rng, 1 dfs, 2 replay */
    pv_rng_t rng; ctl_dfs_t *dfs; int *rp; int rplen;
} pol_t;

static pol_t *P;
/* coop mode: a worker parks only at a section boundary (about to take a bucket lock after having left a
 * section); every other yield point is passed through, so that one scheduler step = one critical section */
static void macro_cb(int kind, volatile void *addr)
{
    if( ctl_me < 0 || NULL == ctl_cur || ctl_cur->aborting ) return;
    if( P->fine ) { ctl_yield_cb(kind, addr); return; }
    int ls = locksum();
    if( ls < P->lsum ) P->committed++;
    P->lsum = ls;
    if( P->committed > 0 && kind == PARSEC_VERIF_K_CAS && is_bucket_lock(addr) ) ctl_yield_cb(kind, addr);
}
static void body(int tid, void *arg)
{
    thr_t *t = &T[tid]; (void)arg;
    if( ctl_cur && ctl_cur->aborting ) return;          /* never scheduled: do not issue the call */
    if( t->user ) { data_repo_entry_used_once(repo, (parsec_key_t)t->key); t->phase = 1; }
    else {
        t->e = data_repo_lookup_entry_and_create(&es[tid], repo, (parsec_key_t)t->key); t->phase = 1;
        data_repo_entry_addto_usage_limit(repo, (parsec_key_t)t->key, (uint32_t)t->n); t->phase = 2;
    }
}
static int choose(void *cctx, int step, int ne, const int *enabled)
{
    pol_t *p = (pol_t*)cctx; int cand[CTL_MAXT], nc = 0, j; (void)step;
    parsec_verif_yield_cb = macro_cb;
    if( !p->fine && p->cur >= 0 ) {
        for(int i = 0; i < ne; i++) if( enabled[i] == p->cur ) return i;
        p->cur = -1;
    }
    for(int i = 0; i < ne; i++) {
        thr_t *t = &T[enabled[i]];
        if( t->started || !t->user || budget_left(t->key, uses_started(t->key)) > 0 ) cand[nc++] = i;
    }
    if( 0 == nc ) { p->stopped = 1; return -1; }
    if( p->kind == 0 ) j = (int)pv_below(&p->rng, (uint64_t)nc);
    else if( p->kind == 1 ) j = ctl_choose_dfs(p->dfs, p->fine ? step : p->mstep, nc, NULL);
    else {
        j = -1;
        if( p->mstep < p->rplen ) for(int i = 0; i < nc; i++) if( enabled[cand[i]] == p->rp[p->mstep] ) j = i;
        if( j < 0 ) { p->stopped = 2; return -1; }
    }
    thr_t *t = &T[enabled[cand[j]]];
    t->started = 1;
    if( !p->fine ) { p->cur = enabled[cand[j]]; p->committed = 0; }
    return cand[j];
}
static void observe(void *octx, int step, int t)
{
    pol_t *p = (pol_t*)octx; char buf[128]; (void)step;
    int ls = locksum(), commit = ls < p->lsum;
    p->lsum = ls;
    if( p->fine ) {
        if( commit ) { cellstate(buf, T[t].key); printf("fcs %d => %s\n", t, buf); }
        return;
    }
    int k = ctl_kind_of(t);
    if( k == CTL_K_DONE || (p->committed > 0 && k == PARSEC_VERIF_K_CAS && is_bucket_lock(ctl_cur->addr[t])) ) {
        cellstate(buf, T[t].key);
        printf("cs %d => %s ph=%d\n", t, buf, T[t].phase);
        printf("live => %ld\n", live());
        /* the real lookup, issued by the controller while every worker is outside the sections */
        printf("lookup %ld => %d\n", T[t].key, NULL != data_repo_lookup_entry(repo, (parsec_key_t)T[t].key));
        p->cur = -1; p->mstep++;
    }
}
static void coop_run(const char *caseline, pol_t *p, int bits, int coll)
{
    static int sched[20000]; int complete;
    repo_new(NT, bits, coll);
    for(int i = 0; i < NT; i++) { T[i].phase = 0; T[i].started = 0; T[i].e = NULL; }
    p->cur = -1; p->committed = 0; p->mstep = 0; p->stopped = 0; p->lsum = 0; P = p;
    printf("%s => ok n=%d\n", caseline, NT);
    ctl_run(NT, body, NULL, choose, p, observe, p, 20000, sched, &complete);
    int midop = 0;
    for(int i = 0; i < NT; i++) if( T[i].started && T[i].phase != (T[i].user ? 1 : 2) ) midop = 1;
    if( (complete || p->stopped == 1) && !midop ) print_end();     /* quiescent: every started call returned */
    else pv_stat("incomplete_runs", 1);
    if( p->stopped == 1 ) pv_stat("runs_ending_with_users_outside_budget", 1);
    repo_free();
}

/* ------------------------------------------------------------------ free-running stress */
static int s_threads, s_keys, s_rounds; static uint64_t s_seed;
static pthread_barrier_t s_bar;
static volatile int s_tokens[64], s_remaining, s_next_task, s_ntasks, s_viol;
static struct { long key; int n; } s_task[512];
static long s_creates, s_uses, s_holdchecks;
#define SVIOL(...) do { if( __sync_fetch_and_add(&s_viol, 1) < 5 ) { flockfile(stdout); printf("!viol C25 stress: " __VA_ARGS__); printf("\n"); funlockfile(stdout); } } while(0)

static void *stress_worker(void *arg)
{
    int me = (int)(intptr_t)arg; pv_rng_t r = { s_seed * 7919 + (uint64_t)me };
    for(int round = 0; round < s_rounds; round++) {
        pthread_barrier_wait(&s_bar);
        for(;;) {
            int did = 0;
            if( s_next_task < s_ntasks && pv_below(&r, 3) ) {
                int ti = __sync_fetch_and_add(&s_next_task, 1);
                if( ti < s_ntasks ) {
                    long key = s_task[ti].key; int n = s_task[ti].n;
                    data_repo_entry_t *e = data_repo_lookup_entry_and_create(&es[me], repo, (parsec_key_t)key);
                    if( NULL == e || (long)e->ht_item.key != key ) SVIOL("create(%ld) returned an entry of another key", key);
                    if( data_repo_lookup_entry(repo, (parsec_key_t)key) != e ) SVIOL("entry of key %ld not findable (or replaced) while its creator holds it", key);
                    __sync_fetch_and_add(&s_tokens[key], n);         /* promised uses may start now */
                    for(int sp = (int)pv_below(&r, 200); sp > 0; sp--) __asm__ volatile("" ::: "memory");
                    if( data_repo_lookup_entry(repo, (parsec_key_t)key) != e || e->retained < 1 )
                        SVIOL("entry of key %ld reclaimed or replaced while its creator holds it (retained=%d)", key, (int)e->retained);
                    data_repo_entry_addto_usage_limit(repo, (parsec_key_t)key, (uint32_t)n);
                    __sync_fetch_and_add(&s_creates, 1); __sync_fetch_and_add(&s_holdchecks, 2);
                    did = 1;
                }
            }
            if( !did ) {
                int k0 = (int)pv_below(&r, (uint64_t)s_keys);
                for(int d = 0; d < s_keys && !did; d++) {
                    int key = (k0 + d) % s_keys, v = s_tokens[key];
                    if( v > 0 && __sync_bool_compare_and_swap(&s_tokens[key], v, v - 1) ) {
                        if( NULL == data_repo_lookup_entry(repo, (parsec_key_t)key) ) {
                            SVIOL("entry of key %d not findable although an announced/promised use is outstanding", key);
                        } else data_repo_entry_used_once(repo, (parsec_key_t)key);
                        __sync_fetch_and_add(&s_uses, 1);
                        __sync_fetch_and_sub(&s_remaining, 1);
                        did = 1;
                    }
                }
            }
            if( !did && s_next_task >= s_ntasks && s_remaining <= 0 ) break;
        }
        pthread_barrier_wait(&s_bar);
        if( 0 == me ) {
            /* everything announced was used and every creator released: nothing may remain */
            for(int k = 0; k < s_keys; k++) if( data_repo_lookup_entry(repo, (parsec_key_t)k) ) SVIOL("round %d: entry of key %d still findable after all creators released it and all announced uses happened", round, k);
            long lv = live(); int ts = tsize();
            if( ts != 0 ) SVIOL("round %d: %d entries left in the table", round, ts);
            if( lv != 0 ) SVIOL("round %d: %ld entries neither in the table nor in a mempool free list (%s)", round, lv, lv == -999 ? "free list corrupt: an entry was freed twice" : "leak or double reclaim");
            /* next round's plan */
            pv_rng_t pr = { s_seed + 1000003ULL * (uint64_t)(round + 1) };
            s_ntasks = 0; s_remaining = 0; s_next_task = 0;
            for(int k = 0; k < s_keys; k++) {
                int nc = 1 + (int)pv_below(&pr, 4);
                for(int c = 0; c < nc && s_ntasks < 512; c++) { s_task[s_ntasks].key = k; s_task[s_ntasks].n = (int)pv_below(&pr, 5); s_remaining += s_task[s_ntasks].n; s_ntasks++; }
            }
            for(int i = s_ntasks - 1; i > 0; i--) { int j = (int)pv_below(&pr, (uint64_t)i + 1); long tk = s_task[i].key; int tn = s_task[i].n; s_task[i].key = s_task[j].key; s_task[i].n = s_task[j].n; s_task[j].key = tk; s_task[j].n = tn; }
        }
    }
    pthread_barrier_wait(&s_bar);
    return NULL;
}
static void stress(int rounds, int threads, int keys, int bits, int coll, uint64_t seed)
{
    pthread_t th[CTL_MAXT];
    if( threads > CTL_MAXT ) threads = CTL_MAXT;
    if( keys > 64 ) keys = 64;
    repo_new(threads, bits, coll);
    s_threads = threads; s_keys = keys; s_rounds = rounds + 1; s_seed = seed; s_viol = 0;
    s_ntasks = 0; s_remaining = 0; s_next_task = 0;       /* round 0 is empty: it only plans round 1 */
    for(int k = 0; k < 64; k++) s_tokens[k] = 0;
    pthread_barrier_init(&s_bar, NULL, threads);
    for(int i = 0; i < threads; i++) pthread_create(&th[i], NULL, stress_worker, (void*)(intptr_t)i);
    for(int i = 0; i < threads; i++) pthread_join(th[i], NULL);
    pthread_barrier_destroy(&s_bar);
    pv_stat("stress_rounds", rounds); pv_stat("stress_creates", s_creates); pv_stat("stress_uses", s_uses);
    pv_stat("stress_holder_lookups", s_holdchecks);
    repo_free();
}

/* ------------------------------------------------------------------ main */
static void on_crash(int sig)
{
    fflush(stdout);
    signal(sig, SIG_DFL); raise(sig);
}
static int parse_case(char *line, int *bits, int *coll, char *mode)
{
    char *tok[MAXTH + 8]; int nt = 0;
    for(char *q = strtok(line, " "); q && nt < MAXTH + 8; q = strtok(NULL, " ")) tok[nt++] = q;
    if( nt < 3 || strcmp(tok[0], "case") ) return -1;
    strncpy(mode, tok[2], 7); mode[7] = 0;
    NT = 0; NK = 0; hmask = ~0ULL; *bits = 2; *coll = 16; maxbits = 24;
    for(int i = 3; i < nt; i++) {
        long k; int n; unsigned long long m;
        if( sscanf(tok[i], "hmask=%llu", &m) == 1 ) hmask = m;
        else if( sscanf(tok[i], "bits=%d", &n) == 1 ) *bits = n;
        else if( sscanf(tok[i], "coll=%d", &n) == 1 ) *coll = n;
        else if( sscanf(tok[i], "maxbits=%d", &n) == 1 ) maxbits = n;
        else if( tok[i][0] == 'c' && sscanf(tok[i] + 1, "%ld:%d", &k, &n) == 2 && k >= 0 && n >= 0 && NT < MAXTH ) { T[NT].user = 0; T[NT].key = k; T[NT].n = n; NT++; }
        else if( tok[i][0] == 'u' && sscanf(tok[i] + 1, "%ld", &k) == 1 && k >= 0 && NT < MAXTH ) { T[NT].user = 1; T[NT].key = k; T[NT].n = 0; NT++; }
        else return -1;
    }
    if( *bits < 1 || *bits > 12 || *coll < 0 ) return -1;
    for(int i = 0; i < NT; i++) {             /* sorted distinct keys */
        int j = 0; while( j < NK && KEYS[j] < T[i].key ) j++;
        if( j < NK && KEYS[j] == T[i].key ) continue;
        memmove(&KEYS[j + 1], &KEYS[j], (size_t)(NK - j) * sizeof(long)); KEYS[j] = T[i].key; NK++;
    }
    for(int i = 0; i < NT; i++) { T[i].phase = 0; T[i].started = 0; T[i].e = NULL; }
    return 0;
}

int main(void)
{
    static char line[8192], caseline[8192], work[8192]; char mode[8] = "";
    int seq_open = 0, bits = 2, coll = 16;
    signal(SIGSEGV, on_crash); signal(SIGABRT, on_crash); signal(SIGBUS, on_crash);
    if( !selfcheck() ) { fprintf(stderr, "C25 harness self-check failed: the observation devices (bucket layout mirror, mempool walk) do not match the library\n"); return 2; }
    while( fgets(line, sizeof line, stdin) ) {
        line[strcspn(line, "\n")] = 0;
        if( !line[0] ) continue;
        if( !strncmp(line, "stress ", 7) ) {
            int r, t, k, b, c; unsigned long long m, sd;
            if( seq_open ) { repo_free(); seq_open = 0; }
            if( sscanf(line, "stress %d %d %d %llu %d %d %llu", &r, &t, &k, &m, &b, &c, &sd) == 7 ) { hmask = m; stress(r, t, k, b, c, sd); }
            continue;
        }
        if( !strncmp(line, "case ", 5) ) {
            if( seq_open ) { repo_free(); seq_open = 0; }
            char *bar = strstr(line, " | "), *pol = NULL;
            if( bar ) { *bar = 0; pol = bar + 3; }
            strcpy(caseline, line); strcpy(work, line);
            if( parse_case(work, &bits, &coll, mode) ) { printf("%s => bad-op\n", caseline); mode[0] = 0; continue; }
            if( !strcmp(mode, "seq") ) {
                repo_new(4, bits, coll); seq_open = 1;
                printf("%s => ok n=%d\n", caseline, NT);
            } else if( (!strcmp(mode, "coop") || !strcmp(mode, "fine")) && pol && NT >= 1 && NT <= CTL_MAXT ) {
                pol_t p; memset(&p, 0, sizeof p); p.fine = !strcmp(mode, "fine");
                if( !strncmp(pol, "rng ", 4) ) { p.kind = 0; p.rng.s = strtoull(pol + 4, NULL, 10); coop_run(caseline, &p, bits, coll); }
                else if( !strncmp(pol, "dfs ", 4) && !p.fine ) {
                    long max = atol(pol + 4), cnt = 0; ctl_dfs_t d; ctl_dfs_init(&d); p.kind = 1; p.dfs = &d;
                    do { coop_run(caseline, &p, bits, coll); cnt++; } while( cnt < max && ctl_dfs_next(&d) );
                    pv_stat("dfs_schedules", cnt);
                    if( cnt < max ) pv_stat("dfs_exhausted_spaces", 1);
                } else if( !strncmp(pol, "replay", 6) && !p.fine ) {
                    static int sc[4096]; int len = 0; char *q = pol + 6;
                    while( *q && len < 4096 ) { while( *q == ' ' ) q++; if( !*q ) break; sc[len++] = atoi(q); while( *q && *q != ' ' ) q++; }
                    p.kind = 2; p.rp = sc; p.rplen = len; coop_run(caseline, &p, bits, coll);
                } else printf("%s => bad-op\n", caseline);
                mode[0] = 0;
            } else { printf("%s => bad-op\n", caseline); mode[0] = 0; }
            continue;
        }
        /* sequential API calls */
        int t; long key; char buf[128];
        if( !seq_open ) { printf("%s => bad-op\n", line); continue; }
        if( sscanf(line, "create %d", &t) == 1 ) {
            if( t < 0 || t >= NT || T[t].user || T[t].phase != 0 ) { printf("%s => rejected\n", line); continue; }
            T[t].e = data_repo_lookup_entry_and_create(&es[t % 4], repo, (parsec_key_t)T[t].key); T[t].phase = 1; T[t].started = 1;
            cellstate(buf, T[t].key); printf("%s => %s ph=%d\n", line, buf, T[t].phase);
        } else if( sscanf(line, "announce %d", &t) == 1 ) {
            if( t < 0 || t >= NT || T[t].user || T[t].phase != 1 ) { printf("%s => rejected\n", line); continue; }
            data_repo_entry_addto_usage_limit(repo, (parsec_key_t)T[t].key, (uint32_t)T[t].n); T[t].phase = 2;
            cellstate(buf, T[t].key); printf("%s => %s ph=%d\n", line, buf, T[t].phase);
        } else if( sscanf(line, "use %d", &t) == 1 || sscanf(line, "fuse %d", &t) == 1 ) {
            int forced = line[0] == 'f';
            if( t < 0 || t >= NT || !T[t].user || T[t].phase != 0 || NULL == peek(T[t].key, NULL) ||
                (!forced && budget_left(T[t].key, uses_started(T[t].key)) <= 0) ) { printf("%s => rejected\n", line); continue; }
            T[t].started = 1;
            data_repo_entry_used_once(repo, (parsec_key_t)T[t].key); T[t].phase = 1;
            cellstate(buf, T[t].key); printf("%s => %s ph=%d\n", line, buf, T[t].phase);
        } else if( sscanf(line, "lookup %ld", &key) == 1 ) {
            printf("%s => %d\n", line, NULL != data_repo_lookup_entry(repo, (parsec_key_t)key));
        } else if( !strcmp(line, "live") ) printf("%s => %ld\n", line, live());
        else if( !strcmp(line, "end") ) print_end();
        else printf("%s => bad-op\n", line);
    }
    if( seq_open ) repo_free();
    return 0;
}
