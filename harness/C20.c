/*
 * C20 harness: evaluates the REAL data-collection accessors of parsec/data_dist/matrix for every
 * rank's view in one process (myrank / nodes are parameters of the init functions).
 *
 *   usage: C20 <nbvp>        ops on stdin, transcript "op => result" on the original stdout
 *
 * ops / result format: see lean/Driver/C20.lean.  Nothing of the distribution arithmetic is
 * re-implemented here: every printed number is returned by rank_of / vpid_of / data_key /
 * key2coords / data_of (slot = index of the returned parsec_data_t in data_map, data->key,
 * byte offset of the copy's pointer in `mat`) or read from the descriptor after the init.
 */
#include "parsec/parsec_config.h"
#include "parsec/parsec_internal.h"
#include "parsec/data_internal.h"
#include "parsec/data_dist/matrix/matrix.h"
#include "parsec/data_dist/matrix/matrix_internal.h"
#include "parsec/data_dist/matrix/two_dim_rectangle_cyclic.h"
#include "parsec/data_dist/matrix/two_dim_rectangle_cyclic_band.h"
#include "parsec/data_dist/matrix/sym_two_dim_rectangle_cyclic.h"
#include "parsec/data_dist/matrix/two_dim_tabular.h"
#include "parsec/data_dist/matrix/vector_two_dim_cyclic.h"
#include "parsec/vpmap.h"
#include "parsec/parsec_hwloc.h"
#include <mpi.h>
#include <unistd.h>
#include <signal.h>
#include <setjmp.h>
#include <sys/time.h>
#include "pv.h"

#define MAXR 64
#define MAXW 9000
static FILE *T;          /* transcript */
static int NBVP;
static char basebuf[16]; /* fake non-NULL `mat`: the accessors only do pointer arithmetic on it */
#define BASE ((void *)basebuf)

static long W[MAXW];
static int nW;

/* data_map is enlarged (zero-filled) after the init so that an accessor that computes a position
 * outside [0, nb_local_tiles) is observed (slot >= nb_local_tiles) instead of corrupting the heap */
static int MAPCAP;
static void grow_map(parsec_tiled_matrix_t *tm)
{
    int have = tm->nb_local_tiles > 0 ? tm->nb_local_tiles : 0;
    if (have > MAPCAP) have = MAPCAP;
    parsec_data_t **nm = calloc(MAPCAP, sizeof(parsec_data_t *));
    if (have > 0 && NULL != tm->data_map) memcpy(nm, tm->data_map, have * sizeof(parsec_data_t *));
    free(tm->data_map);
    tm->data_map = nm;
}
/* Without parsec_init there is no device: parsec_data_t's destructor does not release the copy that
 * parsec_data_create attached in slot 0.  Do it here, then destroy the data. */
static void drop_extra(parsec_tiled_matrix_t *tm)
{
    for (int k = 0; k < MAPCAP; k++) {
        parsec_data_t *d = tm->data_map[k];
        if (NULL == d) continue;
        parsec_data_copy_t *c = d->device_copies[0];
        if (PARSEC_SUCCESS == parsec_data_copy_detach(d, c, 0)) PARSEC_OBJ_RELEASE(c);
        parsec_data_destroy(d);
        tm->data_map[k] = NULL;
    }
}
static int find_slot(parsec_tiled_matrix_t *tm, parsec_data_t *d)
{
    for (int k = 0; k < MAPCAP; k++)
        if (tm->data_map[k] == d) return k;
    return -1;
}
static void set_cap(parsec_tiled_matrix_t *tm) { MAPCAP = tm->lmt * tm->lnt + tm->lmt + tm->lnt + 8; }

/* all views must agree on rank_of and data_key (every process computes the same owner) */
static void check_views(FILE *o, const char *op, parsec_data_collection_t **dc, int nr, int m, int n, uint32_t own, parsec_data_key_t key)
{
    for (int r = 1; r < nr; r++) {
        if (NULL == dc[r]) continue;
        uint32_t o2 = dc[r]->rank_of(dc[r], m, n);
        parsec_data_key_t k2 = dc[r]->data_key(dc[r], m, n);
        if (o2 != own || k2 != key)
            fprintf(T, "!viol views-disagree %s tile (%d,%d): rank 0 says owner %u key %lu, rank %d says owner %u key %lu\n",
                    op, m, n, own, (unsigned long)key, r, o2, (unsigned long)k2);
    }
    if (NULL != dc[0]->rank_of_key) {
        uint32_t o3 = dc[0]->rank_of_key(dc[0], key);
        if (o3 != own)
            fprintf(T, "!viol rank_of_key %s tile (%d,%d): rank_of %u but rank_of_key(%lu) %u\n", op, m, n, own, (unsigned long)key, o3);
    }
    (void)o;
}

/* entry of one tile in the owner's view */
static void owner_part(FILE *o, const char *op, parsec_data_collection_t *dc, parsec_tiled_matrix_t *tm0, parsec_tiled_matrix_t *tm1,
                       void *base0, void *base1, int m, int n, parsec_data_key_t key, int with_off)
{
    parsec_data_t *d = dc->data_of(dc, m, n);
    int which = 0, slot = find_slot(tm0, d);
    void *base = base0;
    if (slot < 0 && NULL != tm1) { which = 1; slot = find_slot(tm1, d); base = base1; }
    if (NULL != tm1) fprintf(o, "%d.%d", which, slot); else fprintf(o, "%d", slot);
    fprintf(o, ":%lu", (unsigned long)d->key);
    if (with_off) fprintf(o, ":%ld", (long)((char *)d->device_copies[0]->device_private - (char *)base));
    else fprintf(o, ":-");
    int32_t vp = dc->vpid_of(dc, m, n);
    fprintf(o, ":%d", vp);
    if (NULL != dc->data_of_key) {
        parsec_data_t *d2 = dc->data_of_key(dc, key);
        if (d2 != d) fprintf(T, "!viol data_of_key %s tile (%d,%d): data_of_key(%lu) is a different data\n", op, m, n, (unsigned long)key);
    }
    if (NULL != dc->vpid_of_key) {
        int32_t v2 = dc->vpid_of_key(dc, key);
        if (v2 != vp) fprintf(T, "!viol vpid_of_key %s tile (%d,%d): vpid_of %d vpid_of_key %d\n", op, m, n, vp, v2);
    }
}

static void head_part(FILE *o, parsec_tiled_matrix_t *tm, uint32_t own, parsec_data_key_t key)
{
    int km, kn;
    parsec_matrix_block_cyclic_key2coords(&tm->super, key, &km, &kn);
    fprintf(o, "%u:%lu:%d:%d:", own, (unsigned long)key, km, kn);
}

static int small(int from, int cnt) { for (int k = from; k < from + cnt; k++) if (W[k] < 0 || W[k] > 1000000) return 0; return 1; }

struct tmp { long mb, nb, lm, ln, i, j, m, n; };
static long tm_mt(struct tmp *t) { return (t->i + t->m - 1) / t->mb - t->i / t->mb + 1; }
static long tm_nt(struct tmp *t) { return (t->j + t->n - 1) / t->nb - t->j / t->nb + 1; }
/* API preconditions (not issued otherwise; the model applies the same rule) */
static int tm_pre(struct tmp *t)
{
    return t->mb >= 1 && t->nb >= 1 && t->m >= 1 && t->n >= 1 && t->i + t->m <= t->lm && t->j + t->n <= t->ln && tm_mt(t) * tm_nt(t) <= 4096;
}
static int grid_pre(long P, long Q, long kp, long kq, long ip, long jq)
{
    return P >= 1 && Q >= 1 && kp >= 1 && kq >= 1 && ip < P && jq < Q && P * Q <= MAXR;
}
static int v_pre(long V) { return V >= 1 && V <= 64; }

static void need_v(long V)
{
    if (V != NBVP) { fprintf(stderr, "C20 harness: op asks for %ld VPs, process has %d\n", V, NBVP); exit(3); }
}

/* ------------------------------------------------------------------ bc / kv */
static void op_bc(FILE *o, const char *op, int lapack, int view)
{
    struct tmp t = { W[0], W[1], W[2], W[3], W[4], W[5], W[6], W[7] };
    long P = W[8], Q = W[9], kp = W[10], kq = W[11], ip = W[12], jq = W[13], V = W[14];
    if (!(tm_pre(&t) && grid_pre(P, Q, kp, kq, ip, jq) && v_pre(V))) { fprintf(o, "rejected"); return; }
    need_v(V);
    int nr = P * Q;
    static parsec_matrix_block_cyclic_t org[MAXR], vw[MAXR];
    parsec_data_collection_t *dc[MAXR];
    parsec_matrix_block_cyclic_t *bc[MAXR];
    for (int r = 0; r < nr; r++) {
        parsec_matrix_block_cyclic_init(&org[r], PARSEC_MATRIX_BYTE, lapack ? PARSEC_MATRIX_LAPACK : PARSEC_MATRIX_TILE, r,
                                        t.mb, t.nb, t.lm, t.ln, t.i, t.j, t.m, t.n, P, Q, view ? 1 : kp, view ? 1 : kq, ip, jq);
        org[r].mat = BASE;
        set_cap(&org[r].super);
        grow_map(&org[r].super);
        bc[r] = &org[r];
        if (view) { parsec_matrix_block_cyclic_kview(&vw[r], &org[r], kp, kq); bc[r] = &vw[r]; }
        dc[r] = &bc[r]->super.super;
    }
    parsec_tiled_matrix_t *tm = &bc[0]->super;
    fprintf(o, "H %d %d %d %d | R", tm->lmt, tm->lnt, tm->mt, tm->nt);
    for (int r = 0; r < nr; r++)
        fprintf(o, " %d:%d:%d:%d:%d", bc[r]->super.nb_local_tiles, bc[r]->nb_elem_r, bc[r]->nb_elem_c, bc[r]->super.llm, bc[r]->super.lln);
    fprintf(o, " | T");
    for (int m = 0; m < tm->mt; m++) for (int n = 0; n < tm->nt; n++) {
        uint32_t own = dc[0]->rank_of(dc[0], m, n);
        parsec_data_key_t key = dc[0]->data_key(dc[0], m, n);
        check_views(o, op, dc, nr, m, n, own, key);
        fprintf(o, " ");
        head_part(o, tm, own, key);
        if (own < (uint32_t)nr) owner_part(o, op, dc[own], &bc[own]->super, NULL, BASE, NULL, m, n, key, 1);
        else fprintf(o, "-:-:-:-");
    }
    for (int r = 0; r < nr; r++) { drop_extra(&org[r].super); parsec_tiled_matrix_destroy(&org[r].super); }
}

/* ------------------------------------------------------------------ sym */
static void op_sym(FILE *o, const char *op, int upper)
{
    struct tmp t = { W[0], W[1], W[2], W[3], W[4], W[5], W[6], W[7] };
    long P = W[8], Q = W[9], V = W[10];
    long lmt = t.mb >= 1 ? (t.lm % t.mb == 0 ? t.lm / t.mb : t.lm / t.mb + 1) : 0;
    long lnt = t.nb >= 1 ? (t.ln % t.nb == 0 ? t.ln / t.nb : t.ln / t.nb + 1) : 0;
    if (!(tm_pre(&t) && P >= 1 && Q >= 1 && P * Q <= MAXR && v_pre(V) && lmt == lnt)) { fprintf(o, "rejected"); return; }
    need_v(V);
    int nr = P * Q;
    static parsec_matrix_sym_block_cyclic_t s[MAXR];
    parsec_data_collection_t *dc[MAXR];
    for (int r = 0; r < nr; r++) {
        parsec_matrix_sym_block_cyclic_init(&s[r], PARSEC_MATRIX_BYTE, r, t.mb, t.nb, t.lm, t.ln, t.i, t.j, t.m, t.n, P, Q,
                                            upper ? PARSEC_MATRIX_UPPER : PARSEC_MATRIX_LOWER);
        s[r].mat = BASE;
        set_cap(&s[r].super);
        grow_map(&s[r].super);
        dc[r] = &s[r].super.super;
    }
    parsec_tiled_matrix_t *tm = &s[0].super;
    fprintf(o, "H %d %d %d %d | R", tm->lmt, tm->lnt, tm->mt, tm->nt);
    for (int r = 0; r < nr; r++) fprintf(o, " %d", s[r].super.nb_local_tiles);
    fprintf(o, " | T");
    for (int m = 0; m < tm->mt; m++) for (int n = 0; n < tm->nt; n++) {
        uint32_t own = dc[0]->rank_of(dc[0], m, n);
        fprintf(o, " ");
        if (own == UINT32_MAX) { /* not in the stored triangle */
            for (int r = 1; r < nr; r++) if (dc[r]->rank_of(dc[r], m, n) != own)
                fprintf(T, "!viol views-disagree %s tile (%d,%d) stored-ness\n", op, m, n);
            fprintf(o, "x");
            continue;
        }
        parsec_data_key_t key = dc[0]->data_key(dc[0], m, n);
        check_views(o, op, dc, nr, m, n, own, key);
        head_part(o, tm, own, key);
        if (own < (uint32_t)nr) {
            /* a position outside the (enlarged) data_map would make create_data write outside the array: ask the real coord2pos first */
            size_t pos = parsec_matrix_sym_block_cyclic_coord2pos(&s[own], m + t.i / t.mb, n + t.j / t.nb);
            if (pos < (size_t)MAPCAP)
                owner_part(o, op, dc[own], &s[own].super, NULL, BASE, NULL, m, n, key, 1);
            else
                fprintf(o, "%ld:-:-:-", (long)pos);
        } else fprintf(o, "-:-:-:-");
    }
    for (int r = 0; r < nr; r++) { drop_extra(&s[r].super); parsec_tiled_matrix_destroy(&s[r].super); }
}

/* ------------------------------------------------------------------ band */
static void op_band(FILE *o, const char *op)
{
    long mb = W[0], nb = W[1], lm = W[2], ln = W[3];
    long P = W[4], Q = W[5], kp = W[6], kq = W[7], ip = W[8], jq = W[9];
    long bP = W[10], bQ = W[11], bkp = W[12], bkq = W[13], bip = W[14], bjq = W[15], bs = W[16], V = W[17];
    struct tmp t = { mb, nb, lm, ln, 0, 0, lm, ln };
    if (!(tm_pre(&t) && grid_pre(P, Q, kp, kq, ip, jq) && grid_pre(bP, bQ, bkp, bkq, bip, bjq) && v_pre(V) && bs >= 1 && bs <= 1000 && P * Q == bP * bQ)) {
        fprintf(o, "rejected"); return;
    }
    need_v(V);
    int nr = P * Q;
    static parsec_matrix_block_cyclic_band_t b[MAXR];
    parsec_data_collection_t *dc[MAXR];
    static char base1[16];
    for (int r = 0; r < nr; r++) {
        parsec_matrix_block_cyclic_init(&b[r].off_band, PARSEC_MATRIX_BYTE, PARSEC_MATRIX_TILE, r, mb, nb, lm, ln, 0, 0, lm, ln, P, Q, kp, kq, ip, jq);
        parsec_matrix_block_cyclic_init(&b[r].band, PARSEC_MATRIX_BYTE, PARSEC_MATRIX_TILE, r, mb, nb, mb * (2 * bs - 1), ln, 0, 0, mb * (2 * bs - 1), ln,
                                        bP, bQ, bkp, bkq, bip, bjq);
        parsec_matrix_block_cyclic_band_init(&b[r], nr, r, bs);
        b[r].off_band.mat = BASE;
        b[r].band.mat = (void *)base1;
        set_cap(&b[r].off_band.super);
        if (b[r].band.super.lmt * b[r].band.super.lnt + b[r].band.super.lmt + b[r].band.super.lnt + 8 > MAPCAP) set_cap(&b[r].band.super);
        grow_map(&b[r].off_band.super);
        grow_map(&b[r].band.super);
        dc[r] = &b[r].super.super;
    }
    parsec_tiled_matrix_t *tm = &b[0].super;
    fprintf(o, "H %d %d %d %d | R", tm->lmt, tm->lnt, tm->mt, tm->nt);
    for (int r = 0; r < nr; r++) fprintf(o, " %d:%d", b[r].off_band.super.nb_local_tiles, b[r].band.super.nb_local_tiles);
    fprintf(o, " | T");
    for (int m = 0; m < tm->mt; m++) for (int n = 0; n < tm->nt; n++) {
        uint32_t own = dc[0]->rank_of(dc[0], m, n);
        parsec_data_key_t key = dc[0]->data_key(dc[0], m, n);
        check_views(o, op, dc, nr, m, n, own, key);
        fprintf(o, " ");
        head_part(o, tm, own, key);
        if (own < (uint32_t)nr) owner_part(o, op, dc[own], &b[own].off_band.super, &b[own].band.super, BASE, base1, m, n, key, 1);
        else fprintf(o, "-:-:-:-");
    }
    for (int r = 0; r < nr; r++) {
        drop_extra(&b[r].off_band.super);
        drop_extra(&b[r].band.super);
        parsec_tiled_matrix_destroy(&b[r].off_band.super);
        parsec_tiled_matrix_destroy(&b[r].band.super);
        parsec_tiled_matrix_destroy(&b[r].super);
    }
}

/* ------------------------------------------------------------------ tab */
static void op_tab(FILE *o, const char *op)
{
    long nodes = W[0], V = W[9];
    struct tmp t = { W[1], W[2], W[3], W[4], W[5], W[6], W[7], W[8] };
    if (!(tm_pre(&t) && nodes >= 1 && nodes <= MAXR && v_pre(V))) { fprintf(o, "rejected"); return; }
    long lmt = t.lm % t.mb == 0 ? t.lm / t.mb : t.lm / t.mb + 1;
    long lnt = t.ln % t.nb == 0 ? t.ln / t.nb : t.ln / t.nb + 1;
    long k = lmt * lnt;
    if (k > 4096 || nW - 10 != 2 * k) { fprintf(o, "rejected"); return; }
    for (long e = 0; e < k; e++) if (W[10 + e] >= nodes || W[10 + k + e] >= V) { fprintf(o, "rejected"); return; }
    need_v(V);
    static parsec_matrix_tabular_t tb[MAXR];
    parsec_data_collection_t *dc[MAXR];
    for (int r = 0; r < nodes; r++) {
        parsec_two_dim_td_table_t *table = malloc(sizeof(parsec_two_dim_td_table_t) + k * sizeof(parsec_two_dim_td_table_elem_t));
        table->nbelem = k;
        for (long e = 0; e < k; e++) { table->elems[e].rank = W[10 + e]; table->elems[e].vpid = W[10 + k + e]; table->elems[e].pos = -7; table->elems[e].data = NULL; }
        parsec_matrix_tabular_init(&tb[r], PARSEC_MATRIX_BYTE, nodes, r, t.mb, t.nb, t.lm, t.ln, t.i, t.j, t.m, t.n, table);
        set_cap(&tb[r].super);
        grow_map(&tb[r].super);
        dc[r] = &tb[r].super.super;
    }
    parsec_tiled_matrix_t *tm = &tb[0].super;
    fprintf(o, "H %d %d %d %d | R", tm->lmt, tm->lnt, tm->mt, tm->nt);
    for (int r = 0; r < nodes; r++) fprintf(o, " %d", tb[r].super.nb_local_tiles);
    fprintf(o, " | T");
    for (int m = 0; m < tm->mt; m++) for (int n = 0; n < tm->nt; n++) {
        uint32_t own = dc[0]->rank_of(dc[0], m, n);
        parsec_data_key_t key = dc[0]->data_key(dc[0], m, n);
        check_views(o, op, dc, nodes, m, n, own, key);
        fprintf(o, " ");
        head_part(o, tm, own, key);
        if (own < (uint32_t)nodes) owner_part(o, op, dc[own], &tb[own].super, NULL, NULL, NULL, m, n, key, 0);
        else fprintf(o, "-:-:-:-");
    }
    /* distinct tiles of a rank must have distinct buffers */
    for (int r = 0; r < nodes; r++) {
        parsec_two_dim_td_table_t *tt = tb[r].tiles_table;
        for (long a = 0; a < k; a++) for (long c = a + 1; c < k; c++)
            if (tt->elems[a].data != NULL && tt->elems[a].data == tt->elems[c].data)
                fprintf(T, "!viol tab-shared-buffer %s rank %d entries %ld %ld\n", op, r, a, c);
    }
    for (int r = 0; r < nodes; r++) { drop_extra(&tb[r].super); parsec_matrix_tabular_destroy(&tb[r]); }
}

/* ------------------------------------------------------------------ vec */
static sigjmp_buf hang_jmp, op_jmp;
static volatile int in_vec_init;
/* SIGVTALRM: CPU-time budget exhausted.  Inside the vector init -> that init does not terminate;
 * anywhere else -> the whole op is abandoned and reported as `timeout` (a hang of the real code is a result). */
static void on_timer(int sig) { (void)sig; if (in_vec_init) siglongjmp(hang_jmp, 1); siglongjmp(op_jmp, 1); }
static void op_budget(long ms)
{
    struct itimerval it = { {0, 0}, {ms / 1000, (ms % 1000) * 1000} };
    setitimer(ITIMER_VIRTUAL, &it, NULL);
}

static void op_vec(FILE *o, const char *op, int d)
{
    long mb = W[0], lm = W[1], i = W[2], m_ = W[3], P = W[4], Q = W[5], V = W[6];
    struct tmp t = { mb, 1, lm, 1, i, 0, m_, 1 };
    if (!(tm_pre(&t) && P >= 1 && Q >= 1 && P * Q <= MAXR && v_pre(V))) { fprintf(o, "rejected"); return; }
    need_v(V);
    int nr = P * Q;
    static parsec_vector_two_dim_cyclic_t v[MAXR];
    static volatile int hung[MAXR];
    parsec_data_collection_t *dc[MAXR];
    int first = -1;
    for (volatile int r = 0; r < nr; r++) {
        hung[r] = 0;
        dc[r] = NULL;
        /* the init is pure integer code: 300 ms of CPU time means it does not terminate */
        if (0 == sigsetjmp(hang_jmp, 1)) {
            in_vec_init = 1;
            op_budget(300);
            parsec_vector_two_dim_cyclic_init(&v[r], PARSEC_MATRIX_BYTE,
                                              d == 0 ? PARSEC_VECTOR_DISTRIB_DIAG : d == 1 ? PARSEC_VECTOR_DISTRIB_ROW : PARSEC_VECTOR_DISTRIB_COL,
                                              r, mb, lm, i, m_, P, Q);
            in_vec_init = 0;
            op_budget(4000);
            v[r].mat = BASE;
            set_cap(&v[r].super);
            grow_map(&v[r].super);
            dc[r] = &v[r].super.super;
            if (first < 0) first = r;
        } else {
            in_vec_init = 0;
            op_budget(4000);
            hung[r] = 1;
        }
    }
    if (first < 0) { fprintf(o, "all-hang"); return; }
    /* put a usable view in slot 0 for check_views */
    parsec_data_collection_t *dcv[MAXR];
    dcv[0] = dc[first];
    for (int r = 1; r < nr; r++) dcv[r] = (r == first) ? NULL : dc[r];
    parsec_tiled_matrix_t *tm = &v[first].super;
    fprintf(o, "H %d %d | R", tm->lmt, tm->mt);
    for (int r = 0; r < nr; r++) { if (hung[r]) fprintf(o, " hang"); else fprintf(o, " %d", v[r].super.nb_local_tiles); }
    fprintf(o, " | T");
    for (int m = 0; m < tm->mt; m++) {
        uint32_t own = dcv[0]->rank_of(dcv[0], m, 0);
        parsec_data_key_t key = dcv[0]->data_key(dcv[0], m, 0);
        check_views(o, op, dcv, nr, m, 0, own, key);
        fprintf(o, " ");
        head_part(o, tm, own, key);
        if (own < (uint32_t)nr && !hung[own]) owner_part(o, op, dc[own], &v[own].super, NULL, BASE, NULL, m, 0, key, 1);
        else fprintf(o, "-:-:-:-");
    }
    for (int r = 0; r < nr; r++) if (!hung[r]) { drop_extra(&v[r].super); parsec_tiled_matrix_destroy(&v[r].super); }
}

int main(int argc, char **argv)
{
    int out = dup(1);
    T = fdopen(out, "w");
    dup2(2, 1);                 /* anything the library prints goes to stderr */
    if (argc < 2) { fprintf(stderr, "usage: C20 nbvp\n"); return 2; }
    int want = atoi(argv[1]);
    MPI_Init(&argc, &argv);
    /* what parsec_data_init does once the devices are known: room for device_copies[0] (the CPU copy) */
    parsec_data_t_class.cls_sizeof += sizeof(parsec_data_copy_t *);
    parsec_hwloc_init();
    parsec_vpmap_init(want == 1 ? NULL : "hwloc", want == 1 ? 1 : -1);
    NBVP = parsec_vpmap_get_nb_vp();
    if (NBVP != want) { fprintf(stderr, "C20 harness: wanted %d virtual processes, vpmap has %d (HWLOC_SYNTHETIC not honoured?)\n", want, NBVP); return 3; }
    struct sigaction sa;
    memset(&sa, 0, sizeof sa);
    sa.sa_handler = on_timer;
    sigaction(SIGVTALRM, &sa, NULL);

    char *line = NULL;
    size_t cap = 0;
    ssize_t len;
    long nops = 0;
    while ((len = getline(&line, &cap, stdin)) > 0) {
        while (len > 0 && (line[len - 1] == '\n' || line[len - 1] == '\r' || line[len - 1] == ' ')) line[--len] = 0;
        if (len == 0) continue;
        char *opline = strdup(line);
        char *save = NULL, *w = strtok_r(line, " ", &save);
        char op[16] = "", letter[8] = "";
        snprintf(op, sizeof op, "%s", w ? w : "");
        int has_letter = !strcmp(op, "bc") || !strcmp(op, "kv") || !strcmp(op, "sym") || !strcmp(op, "vec");
        int bad = 0;
        if (has_letter) { w = strtok_r(NULL, " ", &save); if (!w) bad = 1; else snprintf(letter, sizeof letter, "%s", w); }
        nW = 0;
        while (!bad && (w = strtok_r(NULL, " ", &save))) {
            char *end;
            if (nW >= MAXW || *w < '0' || *w > '9') { bad = 1; break; }
            W[nW++] = strtol(w, &end, 10);
            if (*end) bad = 1;
        }
        char *res = NULL;
        size_t rlen = 0;
        FILE *o = open_memstream(&res, &rlen);
        if (0 != sigsetjmp(op_jmp, 1)) {
            /* the op exhausted its CPU budget inside the real code */
            fclose(o);
            fprintf(T, "!viol op-timeout %s\n", opline);
            fprintf(T, "%s => timeout\n", opline);
            fflush(T);
            free(res);
            free(opline);
            nops++;
            continue;
        }
        op_budget(4000);
        if (bad) fprintf(o, "bad-op");
        else if (!strcmp(op, "bc") && nW == 15 && (!strcmp(letter, "T") || !strcmp(letter, "L"))) { if (small(0, 15)) op_bc(o, opline, letter[0] == 'L', 0); else fprintf(o, "bad-op"); }
        else if (!strcmp(op, "kv") && nW == 15 && (!strcmp(letter, "T") || !strcmp(letter, "L"))) { if (small(0, 15)) op_bc(o, opline, letter[0] == 'L', 1); else fprintf(o, "bad-op"); }
        else if (!strcmp(op, "sym") && nW == 11 && (!strcmp(letter, "U") || !strcmp(letter, "L"))) { if (small(0, 11)) op_sym(o, opline, letter[0] == 'U'); else fprintf(o, "bad-op"); }
        else if (!strcmp(op, "band") && nW == 18) { if (small(0, 18)) op_band(o, opline); else fprintf(o, "bad-op"); }
        else if (!strcmp(op, "tab") && nW >= 10) { if (small(0, nW)) op_tab(o, opline); else fprintf(o, "bad-op"); }
        else if (!strcmp(op, "vec") && nW == 7 && (!strcmp(letter, "D") || !strcmp(letter, "R") || !strcmp(letter, "C"))) {
            if (small(0, 7)) op_vec(o, opline, letter[0] == 'D' ? 0 : letter[0] == 'R' ? 1 : 2); else fprintf(o, "bad-op");
        }
        else fprintf(o, "bad-op");
        op_budget(0);
        fclose(o);
        fprintf(T, "%s => %s\n", opline, res);
        fflush(T);
        free(res);
        free(opline);
        nops++;
    }
    fprintf(T, "#stat ops %ld\n", nops);
    fflush(T);
    fflush(NULL);
    _exit(0);   /* skip MPI_Finalize: nothing was communicated, and it can take seconds on a loaded machine */
}
