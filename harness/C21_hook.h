/* force-included (-include) when the generated redistribute.c / redistribute_reshuffle.c are compiled into
 * the C21 harness: every memcpy of the task bodies (MOVE_SUBMATRIX*, CORE_redistribute_reshuffle_copy, the
 * plain memcpy calls of the reshuffle Send/Receive) goes through pv_memcpy, which records the write and then
 * calls the real memcpy.  In redistribute_wrapper.c the call parsec_context_add_taskpool(parsec, tp) made by
 * parsec_redistribute() goes through pv_context_add_taskpool, which notes the taskpool's name, _g_num_col and _g_NT
 * and forwards to the real function.  Nothing else is changed. */
#include <string.h>
#undef memcpy
void *pv_memcpy(void *dst, const void *src, size_t n);
#define memcpy pv_memcpy
#define parsec_context_add_taskpool pv_context_add_taskpool
