/* Runtime support for generated PTG (JDF) test programs (gen/ptg_gen.py).  See docs/notes/PTG.md.
 *
 * A generated JDF program is test-owned: its BODYs call ptg_task_begin / ptg_flow / ptg_task_end, its
 * epilogue defines three small callbacks and `main` = ptg_rt_main.  Everything else (the data collection,
 * the event log, running the real runtime, key probing, the transcript) lives in ptg_rt.c. */
#ifndef PTG_RT_H
#define PTG_RT_H
#include <stdint.h>
#include "parsec.h"
#include "parsec/data_distribution.h"
#include "parsec/arena.h"
#include "parsec/data.h"

#define PTG_TILE      4        /* int32 elements per tile */
#define PTG_MAXP      8        /* max locals logged per instance */
#define PTG_MAXF      6        /* max data flows per class */

/* access modes passed to ptg_flow */
#define PTG_READ  1
#define PTG_WRITE 2
#define PTG_RW    3
#define PTG_NEW   4        /* or-ed in when the flow's active input is NEW: the body zeroes the fresh copy before use */

/* --- called from generated BODYs ------------------------------------------------------------------- */
/* begin of body: class id, number of locals, then ALL locals of the class in declaration order */
void ptg_task_begin(int th_id, int cls, int nloc, ...);
/* one call per data flow, in flow order: flow index, access mode, pointer to the tile (may be NULL) */
void ptg_flow(int th_id, int flow, int mode, void *ptr);
/* end of body; returns the hook return value the body must return (PARSEC_HOOK_RETURN_DONE unless a body
 * behaviour asks for something else, e.g. PARSEC_HOOK_RETURN_AGAIN for C16) */
int  ptg_task_end(int th_id, int cls, int nloc, ...);

/* --- called from the generated epilogue ------------------------------------------------------------ */
typedef parsec_taskpool_t *(*ptg_make_fn)(parsec_data_collection_t *dc, const int *globals);
typedef int  (*ptg_initial_fn)(parsec_taskpool_t *tp);      /* initial_number_tasks of the internal taskpool */
typedef void (*ptg_unmake_fn)(parsec_taskpool_t *tp);
void ptg_rt_set_adt(parsec_arena_datatype_t *adt);
void ptg_rt_unset_adt(parsec_arena_datatype_t *adt);
/* ini: initial_number_tasks; inited: non-zero once every <class>_internal_init has run (sync_point == 0) */
int  ptg_rt_main(int argc, char **argv, int nglobals, ptg_make_fn mk, ptg_initial_fn ini, ptg_initial_fn inited, ptg_unmake_fn unmk);

#endif
