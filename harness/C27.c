/* C27 harness: the REAL parsec_arena_construct_ex / parsec_arena_allocate_device_private /
 * parsec_arena_release (parsec/arena.c) and parsec_mempool_* (parsec/mempool.c, mempool.h).
 *
 * stdin, one case after the other:
 *   case K elem align maxmem maxcache nthreads fail=<i,j|-> offs=<o1,o2,..>
 *   seq T a<n>|r<k>          operation of thread T run to completion by the main thread (sequential prologue)
 *   prog T op op ...         program of worker T for the concurrent phase
 *   run none | rng SEED | dfs MAX | replay t0 t1 .. | fine rng SEED | fine replay t0 .. | stress ROUNDS SEED | race ITERS SEED
 *   pool K n asked ; pa T ; pf ID ; pend ; pstress n iters seed
 * The case is executed when its `run` line arrives (once per schedule for dfs); each execution prints the
 * complete transcript `op => result` (the `case` op gets ` hdr=<sizeof(parsec_arena_chunk_t)>` appended).
 *
 * The arena's allocator is replaced (arena->data_malloc/data_free are public fields) by one that
 *  - numbers the calls (chunk id = call number), fails the calls listed in fail=,
 *  - returns addresses with a chosen misalignment (offs=, multiples of 8) inside a page-aligned block,
 *  - puts canaries before and after the chunk and checks them when the chunk is freed.
 * Every allocated block is filled with an owner tag, checked before the release.
 * Cooperative scheduler: park points = the atomic operations on arena->used / arena->released and the
 * boundaries between operations; the LIFO's own atomics are NOT switch points in the default mode
 * (the model assumes an atomic stack, property C30); `fine` mode parks at every atomic operation.
 */
#include "parsec/parsec_config.h"
#include "parsec/parsec_internal.h"
#include "parsec/arena.h"
#include "parsec/data_internal.h"
#include "parsec/mempool.h"
#include <pthread.h>
#include "pv.h"
#include "ctl_sched.h"

#define MAXT 16
#define MAXOPS 64
#define MAXHELD 256
#define K_BOUNDARY 77

/* ------------------------------------------------------------------ instrumented allocator */
#define HMAGIC 0xC27A11C0C27A11C0ULL
typedef struct { uint64_t magic; long id; size_t size; size_t off; } blk_hdr_t;
static long g_fail[64]; static int g_nfail;
static long g_offs[64]; static int g_noffs;
static volatile long g_mallocs, g_live, g_live_max, g_frees;
static __thread long t_last_freed = -1;
static __thread long t_last_malloc_size = -1;
static volatile int g_viol;

/* oracle failures are buffered and printed at line boundaries of the transcript */
static char vbuf[64][512]; static int nvbuf; static pthread_mutex_t vmu = PTHREAD_MUTEX_INITIALIZER;
static void viol(const char *fmt, long a, long b, long c)
{
    pthread_mutex_lock(&vmu);
    if( nvbuf < 64 ) snprintf(vbuf[nvbuf++], 512, fmt, a, b, c);
    pthread_mutex_unlock(&vmu);
    __sync_fetch_and_add(&g_viol, 1);
}
static void flush_viol(void)
{
    pthread_mutex_lock(&vmu);
    for(int i = 0; i < nvbuf; i++) printf("!viol C27 %s\n", vbuf[i]);
    nvbuf = 0;
    pthread_mutex_unlock(&vmu);
}

static void *my_malloc(size_t size)
{
    long id = __sync_fetch_and_add(&g_mallocs, 1);
    t_last_malloc_size = (long)size;
    for(int i = 0; i < g_nfail; i++) if( g_fail[i] == id ) return NULL;
    size_t off = (size_t)g_offs[id % g_noffs];
    unsigned char *base = NULL;
    if( posix_memalign((void**)&base, 4096, 4096 + off + size + 64) ) return NULL;
    memset(base, 0x5A, 4096 + off);
    blk_hdr_t *h = (blk_hdr_t*)base; h->magic = HMAGIC; h->id = id; h->size = size; h->off = off;
    memset(base + 4096 + off + size, 0xA5, 64);
    long l = __sync_add_and_fetch(&g_live, 1);
    long m = g_live_max; while( l > m && !__sync_bool_compare_and_swap(&g_live_max, m, l) ) m = g_live_max;
    return base + 4096 + off;
}
static blk_hdr_t *hdr_of(void *chunk) { return (blk_hdr_t*)((((uintptr_t)chunk) - 4096) & ~(uintptr_t)4095); }
static void my_free(void *p)
{
    blk_hdr_t *h = hdr_of(p);
    if( h->magic != HMAGIC || (unsigned char*)h + 4096 + h->off != (unsigned char*)p ) { viol("data_free of a pointer that data_malloc did not return", 0, 0, 0); return; }
    unsigned char *b = (unsigned char*)h;
    for(size_t i = sizeof(blk_hdr_t); i < 4096 + h->off; i++) if( b[i] != 0x5A ) { viol("chunk %ld: byte %ld BEFORE the chunk overwritten", h->id, (long)i - 4096 - (long)h->off, 0); break; }
    for(size_t i = 0; i < 64; i++) if( b[4096 + h->off + h->size + i] != 0xA5 ) { viol("chunk %ld: byte %ld past the %ld bytes requested overwritten", h->id, (long)i, (long)h->size); break; }
    t_last_freed = h->id;
    h->magic = 0;
    __sync_fetch_and_sub(&g_live, 1);
    __sync_fetch_and_add(&g_frees, 1);
    free(h);
}

/* ------------------------------------------------------------------ the arena under test */
static parsec_arena_t arena; static int arena_ok;
static size_t c_elem, c_align; static int c_n;
static union { parsec_data_t d; char space[1024]; } dummy_data[MAXT + 1];

typedef struct { parsec_data_copy_t *copy; long id; long n; unsigned char tag; } held_t;
static held_t held[MAXT][MAXHELD]; static int nheld[MAXT];
static volatile long g_tagserial;
static volatile long g_outstanding;   /* elements held by callers (harness accounting) */

/* returns result text in out */
static void do_alloc(int t, long n, char *out, size_t outsz)
{
    if( n < 1 || nheld[t] >= MAXHELD ) { snprintf(out, outsz, "rejected"); return; }
    parsec_data_copy_t *copy = calloc(1, sizeof *copy);
    copy->original = &dummy_data[t].d; copy->device_index = 0;
    long m0 = g_mallocs; t_last_malloc_size = -1;
    int rc = parsec_arena_allocate_device_private(copy, &arena, (size_t)n, 0, PARSEC_DATATYPE_NULL);
    if( PARSEC_SUCCESS != rc ) {
        if( rc != PARSEC_ERR_OUT_OF_RESOURCE ) viol("allocate_device_private returned %ld", rc, 0, 0);
        free(copy); snprintf(out, outsz, "fail"); return;
    }
    parsec_arena_chunk_t *ch = copy->arena_chunk;
    blk_hdr_t *h = hdr_of(ch);
    if( h->magic != HMAGIC ) { viol("allocation returned a chunk that is not a live data_malloc block", 0, 0, 0); snprintf(out, outsz, "fail"); return; }
    int fresh = (t_last_malloc_size >= 0); (void)m0;
    if( ch->data != copy->device_private || ch->count != (uint32_t)n || ch->origin != &arena )
        viol("chunk %ld: header fields inconsistent after allocation (count %ld)", h->id, (long)ch->count, 0);
    if( dummy_data[t].d.span != (size_t)n * c_elem ) viol("data->span = %ld, expected %ld", (long)dummy_data[t].d.span, (long)(n * c_elem), 0);
    long doff = (long)((char*)copy->device_private - (char*)ch);
    unsigned char tag = (unsigned char)(1 + (__sync_fetch_and_add(&g_tagserial, 1) % 250));
    memset(copy->device_private, tag, (size_t)n * c_elem);
    held_t *hd = &held[t][nheld[t]++]; hd->copy = copy; hd->id = h->id; hd->n = n; hd->tag = tag;
    long cur = __sync_add_and_fetch(&g_outstanding, n);
    if( arena.max_used != INT32_MAX && cur > arena.max_used )
        viol("allocation limit exceeded: %ld elements outstanding, max_used = %ld", cur, (long)arena.max_used, 0);
    snprintf(out, outsz, "ok id=%ld n=%ld %s doff=%ld sz=%ld", h->id, n, fresh ? "fresh" : "reused", doff, (long)h->size);
}
/* k counts from the most recently allocated chunk of the thread (k = 0) */
static void do_release(int t, long k, char *out, size_t outsz)
{
    if( k < 0 || k >= nheld[t] ) { snprintf(out, outsz, "rejected"); return; }
    int idx = nheld[t] - 1 - (int)k;
    held_t hd = held[t][idx];
    for(int i = idx; i + 1 < nheld[t]; i++) held[t][i] = held[t][i + 1];
    nheld[t]--;
    unsigned char *p = hd.copy->device_private;
    for(size_t i = 0; i < (size_t)hd.n * c_elem; i++) if( p[i] != hd.tag ) {
        viol("chunk %ld: owner tag overwritten at byte %ld while allocated (second owner or overlap)", hd.id, (long)i, 0); break; }
    parsec_arena_chunk_t *ch = hd.copy->arena_chunk;
    if( ch->count != (uint32_t)hd.n || ch->data != (void*)p || ch->origin != &arena ) viol("chunk %ld: header overwritten while allocated", hd.id, 0, 0);
    __sync_fetch_and_sub(&g_outstanding, hd.n);
    hd.copy->original = NULL;            /* as parsec_data_copy_destruct does: detach first */
    t_last_freed = -1;
    parsec_arena_release(hd.copy);
    free(hd.copy);
    snprintf(out, outsz, "%s id=%ld", t_last_freed == hd.id ? "freed" : "cached", hd.id);
    if( t_last_freed >= 0 && t_last_freed != hd.id ) viol("release of chunk %ld freed chunk %ld", hd.id, t_last_freed, 0);
}

static void print_shared(void)
{
    printf("u=%d r=%d c=[", (int)arena.used, (int)arena.released);
    int k = 0;
    for(parsec_list_item_t *it = (parsec_list_item_t*)arena.area_lifo.lifo_head.data.item; it && k < 100000; it = (parsec_list_item_t*)it->list_next, k++) {
        blk_hdr_t *h = hdr_of(it);
        printf("%s%ld", k ? " " : "", h->magic == HMAGIC ? h->id : -1L);
    }
    printf("]");
}
static int cache_len(void)
{
    int k = 0;
    for(parsec_list_item_t *it = (parsec_list_item_t*)arena.area_lifo.lifo_head.data.item; it && k < 10000000; it = (parsec_list_item_t*)it->list_next) k++;
    return k;
}

/* ------------------------------------------------------------------ case script */
#define MAXLINES 256
static char script[MAXLINES][1024]; static int nscript;
typedef struct { int isrel; long arg; } op_t;
static op_t prog[MAXT][MAXOPS]; static int nprog[MAXT], has_prog[MAXT];
static char results[MAXT][MAXOPS + 2][160]; static volatile int nres[MAXT]; static int seen[MAXT];
static int fine_mode;

static int parse_list(const char *s, long *out, int max)
{
    if( !strcmp(s, "-") ) return 0;
    int n = 0; const char *p = s;
    while( *p ) {
        char *e; if( *p < '0' || *p > '9' ) return -1;
        long v = strtol(p, &e, 10); if( n >= max ) return -1;
        out[n++] = v; p = e;
        if( *p == ',' ) { p++; if( !*p ) return -1; } else if( *p ) return -1;
    }
    return n ? n : -1;
}
static int parse_nat(const char *s, long *v)
{
    if( !*s ) return 0;
    for(const char *p = s; *p; p++) if( *p < '0' || *p > '9' ) return 0;
    if( strlen(s) > 18 ) return 0;
    *v = strtol(s, NULL, 10); return 1;
}
static int parse_op(const char *w, op_t *o)
{
    long v; if( (w[0] != 'a' && w[0] != 'r') || !parse_nat(w + 1, &v) ) return 0;
    o->isrel = (w[0] == 'r'); o->arg = v; return 1;
}

static void my_cb(int kind, volatile void *addr)
{
    if( fine_mode || addr == (volatile void*)&arena.used || addr == (volatile void*)&arena.released ) ctl_yield_cb(kind, addr);
}
static void body(int tid, void *arg)
{
    (void)arg;
    parsec_verif_yield_cb = my_cb;
    for(int i = 0; i < nprog[tid]; i++) {
        if( i > 0 ) ctl_yield_cb(K_BOUNDARY, NULL);
        char *out = results[tid][nres[tid]];
        if( prog[tid][i].isrel ) do_release(tid, prog[tid][i].arg, out, 160); else do_alloc(tid, prog[tid][i].arg, out, 160);
        nres[tid]++;
    }
}
static void observe(void *o, int step, int t)
{
    (void)o; (void)step;
    int k = ctl_kind_of(t); const char *name;
    volatile void *a = ctl_cur->addr[t];
    if( k == CTL_K_DONE ) name = "done";
    else if( k == K_BOUNDARY || k == CTL_K_START ) name = "idle";
    else if( a == (volatile void*)&arena.used ) name = "used";
    else if( a == (volatile void*)&arena.released ) name = "rel";
    else name = "lifo";
    printf("%s %d => %s ", fine_mode ? "fstep" : "step", t, name);
    print_shared();
    if( nres[t] > seen[t] ) { printf(" res=%s\n", results[t][seen[t]]); seen[t]++; } else printf(" res=-\n");
    flush_viol();
}

static void arena_teardown(void)
{
    char tmp[160];
    for(int t = 0; t < MAXT; t++) while( nheld[t] > 0 ) do_release(t, 0, tmp, sizeof tmp);
    if( arena_ok ) { PARSEC_OBJ_DESTRUCT(&arena); arena_ok = 0; }
    if( g_live != 0 ) viol("%ld chunks never given back to data_free after releasing everything and destroying the arena", g_live, 0, 0);
    g_live = 0;
}

/* executes the buffered script once; ch == NULL: no concurrent phase */
static void execute(ctl_choose_t ch, void *cctx)
{
    int ok = 0;
    g_mallocs = g_live = g_live_max = g_frees = 0; g_outstanding = 0; g_nfail = 0; g_noffs = 0;
    memset(nheld, 0, sizeof nheld); memset(nprog, 0, sizeof nprog); memset(has_prog, 0, sizeof has_prog);
    for(int t = 0; t < MAXT; t++) { nres[t] = 0; seen[t] = 0; }
    for(int li = 0; li < nscript; li++) {
        char line[1024]; strcpy(line, script[li]);
        char *tok[80]; int nt = 0;
        for(char *p = strtok(line, " "); p && nt < 80; p = strtok(NULL, " ")) tok[nt++] = p;
        if( nt >= 1 && !strcmp(tok[0], "case") ) {
            long e, a, mm, mc, n;
            printf("%s hdr=%d => ", script[li], (int)sizeof(parsec_arena_chunk_t));
            if( nt != 9 || !parse_nat(tok[2], &e) || !parse_nat(tok[3], &a) || !parse_nat(tok[4], &mm) || !parse_nat(tok[5], &mc) || !parse_nat(tok[6], &n)
                || strncmp(tok[7], "fail=", 5) || strncmp(tok[8], "offs=", 5) ) { printf("bad-op\n"); continue; }
            g_nfail = parse_list(tok[7] + 5, g_fail, 64); g_noffs = parse_list(tok[8] + 5, g_offs, 64);
            int bad = (g_nfail < 0 || g_noffs <= 0 || n > 16 || a > 4096);
            for(int i = 0; i < g_noffs; i++) if( g_offs[i] % 8 || g_offs[i] >= 4096 ) bad = 1;
            if( bad ) { g_nfail = 0; printf("bad-op\n"); continue; }
            PARSEC_OBJ_CONSTRUCT(&arena, parsec_arena_t);
            int rc = parsec_arena_construct_ex(&arena, (size_t)e, (size_t)a, (size_t)mm, (size_t)mc);
            if( PARSEC_SUCCESS != rc ) { PARSEC_OBJ_DESTRUCT(&arena); printf("err bad-param\n"); continue; }
            arena.data_malloc = my_malloc; arena.data_free = my_free;
            arena_ok = 1; ok = 1; c_elem = (size_t)e; c_align = (size_t)a; c_n = (int)n;
            printf("ok maxused=%d maxrel=%d\n", (int)arena.max_used, (int)arena.max_released);
        } else if( nt == 3 && !strcmp(tok[0], "seq") ) {
            long t; op_t o;
            if( !ok || !parse_nat(tok[1], &t) || t >= c_n || !parse_op(tok[2], &o) || has_prog[t] ) { printf("%s => bad-op\n", script[li]); continue; }
            char out[160];
            if( o.isrel ) do_release((int)t, o.arg, out, sizeof out); else do_alloc((int)t, o.arg, out, sizeof out);
            printf("%s => %s ", script[li], out); print_shared(); printf("\n"); flush_viol();
        } else if( nt >= 2 && !strcmp(tok[0], "prog") ) {
            long t; int good = ok && parse_nat(tok[1], &t) && t < c_n && nt - 2 <= MAXOPS;
            printf("%s => ", script[li]);
            for(int i = 2; good && i < nt; i++) good = parse_op(tok[i], &prog[t][i - 2]);
            if( !good ) { printf("bad-op\n"); continue; }
            nprog[t] = nt - 2; has_prog[t] = 1;
            printf("ok\n");
        } else printf("%s => bad-op\n", script[li]);
    }
    if( ok && ch ) {
        int sched[4096], complete;
        ctl_run(c_n, body, NULL, ch, cctx, observe, NULL, 4000, sched, &complete);
        if( !complete ) pv_stat("incomplete_runs", 1);
        pv_stat("coop_runs", 1);
    }
    printf("end => ");
    if( !ok ) printf("bad-op\n");
    else {
        print_shared(); printf(" held=[");
        for(int t = 0; t < c_n; t++) { printf("%s[", t ? " " : ""); for(int i = nheld[t] - 1; i >= 0; i--) printf("%ld%s", held[t][i].id, i ? " " : ""); printf("]"); }
        printf("] mallocs=%ld\n", (long)g_mallocs);
    }
    flush_viol();
    arena_teardown();
    flush_viol();
}

/* ------------------------------------------------------------------ free-running stress (search, not the tie) */
static pthread_barrier_t bar; static int s_rounds, s_n; static uint64_t s_seed;
static volatile long s_maxcache, s_fail_allocs, s_ok_allocs, s_cached, s_freed;
static int s_race;
static void quiescent_check(void)
{
    int len = cache_len();
    if( len > s_maxcache ) s_maxcache = len;
    if( arena.max_released != INT32_MAX && arena.released != len ) viol("quiescent state: released = %ld but %ld chunks cached", (long)arena.released, len, 0);
    if( arena.max_used != INT32_MAX && arena.max_used != 0 ) {
        long el = g_outstanding + len;
        if( arena.used != el ) viol("quiescent state: used = %ld but %ld elements exist (held + cached)", (long)arena.used, el, 0);
    }
}
static void *stress_worker(void *p)
{
    int t = (int)(intptr_t)p; pv_rng_t r = { s_seed * 7919 + (uint64_t)t * 104729 + 1 }; char out[160];
    if( s_race ) {      /* no barriers: maximal overlap of allocations and releases */
        pthread_barrier_wait(&bar);
        for(int i = 0; i < s_rounds; i++) {
            if( nheld[t] < 6 && pv_below(&r, 2) ) {
                do_alloc(t, pv_below(&r, 6) ? 1 : pv_range(&r, 2, 3), out, sizeof out);
                if( out[0] == 'o' ) __sync_fetch_and_add(&s_ok_allocs, 1); else __sync_fetch_and_add(&s_fail_allocs, 1);
            } else if( nheld[t] > 0 ) {
                do_release(t, (long)pv_below(&r, (uint64_t)nheld[t]), out, sizeof out);
                if( out[0] == 'c' ) __sync_fetch_and_add(&s_cached, 1); else __sync_fetch_and_add(&s_freed, 1);
            }
        }
        return NULL;
    }
    for(int round = 0; round < s_rounds; round++) {
        int na = (int)pv_range(&r, 1, 6);
        for(int i = 0; i < na; i++) {
            long n = pv_below(&r, 5) ? 1 : pv_range(&r, 2, 4);
            do_alloc(t, n, out, sizeof out);
            if( out[0] == 'o' ) __sync_fetch_and_add(&s_ok_allocs, 1); else __sync_fetch_and_add(&s_fail_allocs, 1);
            if( pv_below(&r, 4) == 0 && nheld[t] > 0 ) do_release(t, (long)pv_below(&r, (uint64_t)nheld[t]), out, sizeof out);
        }
        pthread_barrier_wait(&bar);
        /* everybody releases at the same time: the check-then-increment window of release_chunk */
        while( nheld[t] > (int)pv_below(&r, 2) ) {
            do_release(t, (long)pv_below(&r, (uint64_t)nheld[t]), out, sizeof out);
            if( out[0] == 'c' ) __sync_fetch_and_add(&s_cached, 1); else __sync_fetch_and_add(&s_freed, 1);
        }
        int w = pthread_barrier_wait(&bar);
        if( w == PTHREAD_BARRIER_SERIAL_THREAD ) quiescent_check();     /* quiescent: nobody inside the arena */
        pthread_barrier_wait(&bar);
    }
    return NULL;
}
static void stress(const char *runline, int rounds, uint64_t seed, int race)
{
    s_race = race;
    /* the buffered script holds only the case line */
    execute(NULL, NULL);     /* prints the case transcript (sequential part), tears down */
    /* rebuild the arena for the free-running part */
    char line[1024]; strcpy(line, script[0]); char *tok[16]; int nt = 0;
    for(char *p = strtok(line, " "); p && nt < 16; p = strtok(NULL, " ")) tok[nt++] = p;
    if( nt != 9 ) return;
    long e = atol(tok[2]), a = atol(tok[3]), mm = atol(tok[4]), mc = atol(tok[5]), n = atol(tok[6]);
    g_nfail = 0; g_noffs = parse_list(tok[8] + 5, g_offs, 64); if( g_noffs <= 0 ) return;
    PARSEC_OBJ_CONSTRUCT(&arena, parsec_arena_t);
    if( PARSEC_SUCCESS != parsec_arena_construct_ex(&arena, (size_t)e, (size_t)a, (size_t)mm, (size_t)mc) ) { PARSEC_OBJ_DESTRUCT(&arena); return; }
    arena.data_malloc = my_malloc; arena.data_free = my_free; arena_ok = 1; c_elem = (size_t)e; c_align = (size_t)a; c_n = (int)n;
    g_mallocs = g_live = g_live_max = 0; g_outstanding = 0; memset(nheld, 0, sizeof nheld);
    s_rounds = rounds; s_n = (int)n; s_seed = seed; s_maxcache = 0; s_fail_allocs = s_ok_allocs = s_cached = s_freed = 0;
    pthread_t th[MAXT]; pthread_barrier_init(&bar, NULL, (unsigned)n);
    for(int i = 0; i < n; i++) pthread_create(&th[i], NULL, stress_worker, (void*)(intptr_t)i);
    for(int i = 0; i < n; i++) pthread_join(th[i], NULL);
    pthread_barrier_destroy(&bar);
    if( race ) quiescent_check();
    printf("#stress %s maxrel=%d threads=%ld maxcache=%ld live_max=%ld ok=%ld refused=%ld cached=%ld freed=%ld\n", runline, (int)arena.max_released, n,
           (long)s_maxcache, (long)g_live_max, (long)s_ok_allocs, (long)s_fail_allocs, (long)s_cached, (long)s_freed);
    if( arena.max_released != INT32_MAX ) {
        if( s_maxcache > arena.max_released + n - 1 ) viol("cache holds %ld chunks: more than max_released + threads - 1 = %ld", s_maxcache, arena.max_released + n - 1, 0);
        else if( s_maxcache > arena.max_released ) printf("#overshoot stress maxcache=%ld maxrel=%d threads=%ld\n", (long)s_maxcache, (int)arena.max_released, n);
    }
    pv_stat("stress_rounds", rounds); pv_stat("stress_allocs", s_ok_allocs); pv_stat("stress_refused", s_fail_allocs);
    pv_stat("stress_overshoot_runs", (arena.max_released != INT32_MAX && s_maxcache > arena.max_released) ? 1 : 0);
    arena_teardown();
    flush_viol();
}

/* ------------------------------------------------------------------ thread memory pools */
typedef struct { parsec_list_item_t item; parsec_thread_mempool_t *owner; unsigned char body[]; } pelt_t;
static parsec_mempool_t mp; static int mp_ok, mp_n; static size_t mp_asked;
#define MAXELT 65536
static void *pe_ptr[MAXELT]; static int pe_out[MAXELT]; static unsigned char pe_tag[MAXELT]; static int pe_n;
static int pe_find(void *p) { for(int i = 0; i < pe_n; i++) if( pe_ptr[i] == p ) return i; return -1; }
static void pool_teardown(void)
{
    if( !mp_ok ) return;
    for(int i = 0; i < pe_n; i++) if( pe_out[i] ) parsec_mempool_free(&mp, pe_ptr[i]);
    parsec_mempool_destruct(&mp); mp_ok = 0; pe_n = 0;
}
static void pool_fill(void *e, unsigned char tag) { if( mp.elt_size > sizeof(pelt_t) ) memset(((pelt_t*)e)->body, tag, mp.elt_size - sizeof(pelt_t)); }
static int pool_check(void *e, unsigned char tag)
{ for(size_t i = 0; i + sizeof(pelt_t) < mp.elt_size; i++) if( ((pelt_t*)e)->body[i] != tag ) return 0; return 1; }

static void pool_line(char *line, char **tok, int nt)
{
    long a, b, c;
    if( !strcmp(tok[0], "pool") ) {
        pool_teardown();
        if( nt != 4 || !parse_nat(tok[2], &a) || !parse_nat(tok[3], &b) || a < 1 || a > 16 ) { printf("%s item=%d => bad-op\n", line, (int)sizeof(parsec_list_item_t)); return; }
        parsec_mempool_construct(&mp, NULL, (size_t)b, offsetof(pelt_t, owner), (unsigned)a);
        mp_ok = 1; mp_n = (int)a; mp_asked = (size_t)b; pe_n = 0;
        printf("%s item=%d => ok eltsize=%ld\n", line, (int)sizeof(parsec_list_item_t), (long)mp.elt_size);
    } else if( !strcmp(tok[0], "pa") ) {
        if( nt != 2 || !parse_nat(tok[1], &a) ) { printf("%s => bad-op\n", line); return; }
        if( !mp_ok || a >= mp_n || mp_asked < sizeof(pelt_t) || pe_n >= MAXELT ) { printf("%s => rejected\n", line); return; }
        uint32_t nb0 = mp.thread_mempools[a].nb_elt;
        void *e = parsec_thread_mempool_allocate(&mp.thread_mempools[a]);
        int fresh = mp.thread_mempools[a].nb_elt != nb0;
        int id = pe_find(e);
        if( id >= 0 && pe_out[id] ) viol("mempool: element %ld returned while allocated", id, 0, 0);
        if( id < 0 ) { id = pe_n++; pe_ptr[id] = e; }
        if( ((uintptr_t)e) % PARSEC_LIFO_ALIGNMENT(&mp.thread_mempools[a].mempool) ) viol("mempool: element %ld not aligned", id, 0, 0);
        pe_out[id] = 1; pe_tag[id] = (unsigned char)(id % 251 + 1); pool_fill(e, pe_tag[id]);
        printf("%s => ok id=%d owner=%ld %s\n", line, id, (long)(((pelt_t*)e)->owner - mp.thread_mempools), fresh ? "fresh" : "reused");
    } else if( !strcmp(tok[0], "pf") ) {
        if( nt != 2 || !parse_nat(tok[1], &a) ) { printf("%s => bad-op\n", line); return; }
        if( !mp_ok || a >= pe_n || !pe_out[a] ) { printf("%s => rejected\n", line); return; }
        if( !pool_check(pe_ptr[a], pe_tag[a]) ) viol("mempool: element %ld overwritten while allocated", a, 0, 0);
        long o = ((pelt_t*)pe_ptr[a])->owner - mp.thread_mempools;
        parsec_mempool_free(&mp, pe_ptr[a]); pe_out[a] = 0;
        printf("%s => ok owner=%ld\n", line, o);
    } else if( !strcmp(tok[0], "pend") ) {
        printf("%s => [", line);
        for(int t = 0; mp_ok && t < mp_n; t++) {
            printf("%s[", t ? " " : ""); int k = 0;
            for(parsec_list_item_t *it = (parsec_list_item_t*)mp.thread_mempools[t].mempool.lifo_head.data.item; it && k < MAXELT; it = (parsec_list_item_t*)it->list_next, k++)
                printf("%s%d", k ? " " : "", pe_find(it));
            printf("]");
        }
        printf("] nb=[");
        for(int t = 0; mp_ok && t < mp_n; t++) printf("%s%u", t ? " " : "", mp.thread_mempools[t].nb_elt);
        printf("]\n");
    } else { (void)c; printf("%s => bad-op\n", line); }
}

/* pool stress: thread t allocates from its pool, tags, hands the element to thread t+1 through a locked
 * mailbox; the receiver checks the tag and frees it (push to the OWNER's lifo, concurrently with the owner's pops) */
#define MBOX 64
static struct { pthread_mutex_t mu; void *e[MBOX]; int n; } mbox[MAXT];
static int ps_n, ps_iters; static volatile long ps_allocs, ps_bad;
static void *pstress_worker(void *p)
{
    int t = (int)(intptr_t)p, nx = (t + 1) % ps_n; pv_rng_t r = { (uint64_t)t * 7 + 99 };
    for(int i = 0; i < ps_iters; i++) {
        uint32_t nb0 = mp.thread_mempools[t].nb_elt;
        pelt_t *e = parsec_thread_mempool_allocate(&mp.thread_mempools[t]);
        if( e->owner != &mp.thread_mempools[t] ) __sync_fetch_and_add(&ps_bad, 1);
        /* a reused element was filled with 0xEE by whoever freed it: anything else = somebody still writes to it */
        if( mp.thread_mempools[t].nb_elt == nb0 && !pool_check(e, 0xEE) ) __sync_fetch_and_add(&ps_bad, 1);
        pool_fill(e, (unsigned char)(t + 1));
        __sync_fetch_and_add(&ps_allocs, 1);
        if( pv_below(&r, 3) == 0 ) { if( !pool_check(e, (unsigned char)(t + 1)) ) __sync_fetch_and_add(&ps_bad, 1); pool_fill(e, 0xEE); parsec_mempool_free(&mp, e); continue; }
        pthread_mutex_lock(&mbox[nx].mu);
        if( mbox[nx].n < MBOX ) { mbox[nx].e[mbox[nx].n++] = e; e = NULL; }
        pthread_mutex_unlock(&mbox[nx].mu);
        if( e ) { pool_fill(e, 0xEE); parsec_mempool_free(&mp, e); }
        void *got[MBOX]; int ng = 0;
        pthread_mutex_lock(&mbox[t].mu); ng = mbox[t].n; memcpy(got, mbox[t].e, sizeof(void*) * (size_t)ng); mbox[t].n = 0; pthread_mutex_unlock(&mbox[t].mu);
        int prev = (t + ps_n - 1) % ps_n;
        for(int k = 0; k < ng; k++) {
            if( !pool_check(got[k], (unsigned char)(prev + 1)) || ((pelt_t*)got[k])->owner != &mp.thread_mempools[prev] ) __sync_fetch_and_add(&ps_bad, 1);
            pool_fill(got[k], 0xEE); parsec_mempool_free(&mp, got[k]);
        }
    }
    return NULL;
}
static void pstress(char *line, char **tok, int nt)
{
    long n, it, sd;
    if( nt != 4 || !parse_nat(tok[1], &n) || !parse_nat(tok[2], &it) || !parse_nat(tok[3], &sd) || n < 1 || n > MAXT ) { printf("%s => bad-op\n", line); return; }
    pool_teardown();
    parsec_mempool_construct(&mp, NULL, sizeof(pelt_t) + 40, offsetof(pelt_t, owner), (unsigned)n);
    ps_n = (int)n; ps_iters = (int)it; ps_allocs = ps_bad = 0;
    pthread_t th[MAXT];
    for(int i = 0; i < n; i++) { pthread_mutex_init(&mbox[i].mu, NULL); mbox[i].n = 0; }
    for(int i = 0; i < n; i++) pthread_create(&th[i], NULL, pstress_worker, (void*)(intptr_t)i);
    for(int i = 0; i < n; i++) pthread_join(th[i], NULL);
    for(int i = 0; i < n; i++) for(int k = 0; k < mbox[i].n; k++) parsec_mempool_free(&mp, mbox[i].e[k]);
    /* final: every element in its owner's pool, once */
    long total = 0, nb = 0;
    for(int t = 0; t < n; t++) {
        nb += mp.thread_mempools[t].nb_elt;
        for(parsec_list_item_t *i2 = (parsec_list_item_t*)mp.thread_mempools[t].mempool.lifo_head.data.item; i2 && total < 10000000; i2 = (parsec_list_item_t*)i2->list_next) {
            if( ((pelt_t*)i2)->owner != &mp.thread_mempools[t] ) ps_bad++;
            total++;
        }
    }
    if( ps_bad ) viol("mempool stress: %ld ownership / tag failures", ps_bad, 0, 0);
    if( total != nb ) viol("mempool stress: %ld elements in the pools but %ld were created", total, nb, 0);
    printf("#pstress threads=%ld allocs=%ld elements=%ld\n", n, (long)ps_allocs, nb);
    pv_stat("pstress_allocs", ps_allocs);
    parsec_mempool_destruct(&mp);
}

int main(void)
{
    static char line[1024], copy[1024];
    setvbuf(stdout, NULL, _IOFBF, 1 << 16);
    while( fgets(line, sizeof line, stdin) ) {
        line[strcspn(line, "\n")] = 0;
        if( !line[0] ) continue;
        strcpy(copy, line);
        char *tok[80]; int nt = 0;
        for(char *p = strtok(copy, " "); p && nt < 80; p = strtok(NULL, " ")) tok[nt++] = p;
        if( !nt ) continue;
        if( !strcmp(tok[0], "case") ) { nscript = 0; strcpy(script[nscript++], line); continue; }
        if( !strcmp(tok[0], "seq") || !strcmp(tok[0], "prog") ) { if( nscript > 0 && nscript < MAXLINES ) strcpy(script[nscript++], line); else printf("%s => bad-op\n", line); continue; }
        if( !strcmp(tok[0], "run") ) {
            int i = 1; fine_mode = 0;
            if( nscript == 0 || nt < 2 ) { printf("#bad run line\n"); continue; }
            if( !strcmp(tok[i], "fine") ) { fine_mode = 1; i++; }
            if( i >= nt ) { printf("#bad run line\n"); continue; }
            if( !strcmp(tok[i], "none") ) execute(NULL, NULL);
            else if( !strcmp(tok[i], "rng") && i + 1 < nt ) { pv_rng_t r = { strtoull(tok[i + 1], NULL, 10) }; execute(ctl_choose_rng, &r); }
            else if( !strcmp(tok[i], "dfs") && i + 1 < nt ) {
                long max = atol(tok[i + 1]), cnt = 0; ctl_dfs_t d; ctl_dfs_init(&d);
                do { execute(ctl_choose_dfs, &d); cnt++; } while( cnt < max && ctl_dfs_next(&d) );
                pv_stat("dfs_schedules", cnt); if( cnt < max ) pv_stat("dfs_exhausted_spaces", 1);
            }
            else if( !strcmp(tok[i], "replay") ) {
                int sc[4096], len = 0; for(int k = i + 1; k < nt && len < 4096; k++) sc[len++] = atoi(tok[k]);
                ctl_replay_t rp = { sc, len }; execute(ctl_choose_replay, &rp);
            }
            else if( !strcmp(tok[i], "stress") && i + 2 < nt ) stress(line, atoi(tok[i + 1]), strtoull(tok[i + 2], NULL, 10), 0);
            else if( !strcmp(tok[i], "race") && i + 2 < nt ) stress(line, atoi(tok[i + 1]), strtoull(tok[i + 2], NULL, 10), 1);
            else printf("#bad run line\n");
            fflush(stdout);
            continue;
        }
        if( !strcmp(tok[0], "pstress") ) { pstress(line, tok, nt); flush_viol(); continue; }
        pool_line(line, tok, nt); flush_viol();
    }
    pool_teardown();
    flush_viol();
    return 0;
}
