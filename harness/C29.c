/* C29 harness: the REAL parsec futures (base, countable, data-copy) driven by N threads, either under the
 * cooperative scheduler (one step = up to the next atomic operation) or free-running (stress).
 *
 * stdin lines:   <case> | <policy>
 *   case <k> base  <prog> / <prog> / ...          ops: S<v> (set value v>=1)  G (blocking get)  R (is_ready)
 *   case <k> count <c> <prog> / <prog> / ...      ops: S  G  R
 *   case <k> dc <b> <M> <amask> <pre> <prog> / .. ops: T<r> (get_or_trigger with spec r; r=0: NULL spec)  F (do one deferred set)
 *        b = shape of the base future, match(a,b) = (a%M == b%M), shape s fulfils asynchronously iff bit s of amask,
 *        pre=1: the base future is completed by its creator before the threads start
 *   policy: rng SEED | dfs MAX | replay t0 t1 ... | stress ROUNDS
 * A case with a blocking get that could wait for ever (G not after all the S of its thread, or fewer S than needed)
 * is not issued: `rejected`.
 */
#include "parsec/parsec_config.h"
#include "parsec/class/parsec_future.h"
#include "parsec/utils/output.h"
#include "pv.h"
#include "ctl_sched.h"
#include <stdarg.h>
#include <signal.h>
#include <unistd.h>

#define K_IDLE 9
#define MAXOPS 8
#define MAXF 16
#define MAXSTEPS 1500

typedef struct { char k; int a; } op_t;
enum { M_BASE, M_COUNT, M_DC };
static int mode, nthr, nops[CTL_MAXT];
static op_t prog[CTL_MAXT][MAXOPS];
static long result[CTL_MAXT][MAXOPS];
static volatile int ndone[CTL_MAXT];
static int coop;                                 /* 1: cooperative run (insert the pause between operations) */

/* ---------- base / countable ---------- */
static int cells[64];                            /* set value v  <->  &cells[v] */
static parsec_base_future_t *bfut;
static volatile int cb_base;
static int count0;
static void cb_counting(parsec_base_future_t *f, ...) { (void)f; __sync_fetch_and_add(&cb_base, 1); }

/* ---------- data-copy ---------- */
typedef struct { int val; } cell_t;
static parsec_datacopy_future_t *fut[MAXF];
static int fshape[MAXF];                         /* cb_match_data_in of future i points to fshape[i] */
static volatile int fcb[MAXF], fclean[MAXF], fsets[MAXF];
static volatile int nfut;
static cell_t pool[4 * MAXF]; static volatile int npool;
static struct { int f; cell_t *c; } pend[4 * MAXF]; static volatile int pend_h, pend_t;
static volatile int hlock;                       /* harness lock for the deferred-set queue (not hooked) */
static int dc_b, dc_M, dc_amask, dc_pre;
static volatile int overflow;
static char cur_replay[8 * 1600] = "stress";   /* policy text that reproduces the current run */

static void hl(void) { while( __sync_lock_test_and_set(&hlock, 1) ) ; }
static void hu(void) { __sync_lock_release(&hlock); }
static int fid_of(parsec_base_future_t *f) { for(int i = 0; i < nfut; i++) if( (void*)fut[i] == (void*)f ) return i; return -1; }

static void cb_fulfill(parsec_base_future_t *f, ...)
{
    int i = fid_of(f);
    if( i < 0 ) { overflow = 1; return; }
    int n = __sync_add_and_fetch(&fcb[i], 1);
    int c = __sync_fetch_and_add(&npool, 1);
    if( c >= 4 * MAXF ) { overflow = 1; return; }
    pool[c].val = 100 * n + fshape[i];
    if( (dc_amask >> fshape[i]) & 1 ) {
        hl(); pend[pend_t].f = i; pend[pend_t].c = &pool[c]; pend_t++; hu();
    } else {
        __sync_fetch_and_add(&fsets[i], 1);
        parsec_future_set(f, &pool[c]);
    }
}
static int cb_match(parsec_base_future_t *f, ...)
{
    va_list ap; va_start(ap, f);
    int *t1 = va_arg(ap, int*), *t2 = va_arg(ap, int*);
    va_end(ap);
    return (*t1 % dc_M) == (*t2 % dc_M);
}
static void cb_cleanup(parsec_base_future_t *f, ...)
{
    int i = fid_of(f);
    if( i >= 0 ) __sync_fetch_and_add(&fclean[i], 1);
}
static void cb_nested(parsec_base_future_t **out, ...)
{
    va_list ap; va_start(ap, out);
    parsec_datacopy_future_t *root = va_arg(ap, parsec_datacopy_future_t*);
    int *req = va_arg(ap, int*);
    va_end(ap);
    (void)root;
    int i = nfut;                                  /* called under the parent's lock */
    if( i >= MAXF ) { overflow = 1; i = MAXF - 1; }
    fshape[i] = *req; fcb[i] = 0; fclean[i] = 0; fsets[i] = 0;
    fut[i] = PARSEC_OBJ_NEW(parsec_datacopy_future_t);
    parsec_future_init(fut[i], cb_fulfill, &fshape[i], cb_match, &fshape[i], cb_cleanup);
    if( i == nfut ) nfut = i + 1;
    *out = (parsec_base_future_t*)fut[i];
}
static long cellval(void *p)
{
    if( NULL == p ) return 0;
    if( (cell_t*)p < pool || (cell_t*)p >= pool + 4 * MAXF ) return -1;
    return ((cell_t*)p)->val;
}
/* one deferred set; returns future id + 1, or 0 when nothing is pending */
static long do_fulfil(void)
{
    int f = -1; cell_t *c = NULL;
    hl(); if( pend_h < pend_t ) { f = pend[pend_h].f; c = pend[pend_h].c; pend_h++; } hu();
    if( f < 0 ) return 0;
    __sync_fetch_and_add(&fsets[f], 1);
    parsec_future_set(fut[f], c);
    return f + 1;
}

static long do_op(op_t *o)
{
    switch( o->k ) {
    case 'S':
        parsec_future_set(bfut, mode == M_BASE ? (void*)&cells[o->a] : NULL);
        return -1;
    case 'G': { int *p = (int*)parsec_future_get(bfut); return p ? (long)(p - cells) : 0; }
    case 'R': return parsec_future_is_ready(bfut) ? 1 : 0;
    case 'T': { int spec = o->a;
        void *p = parsec_future_get_or_trigger(fut[0], cb_nested, o->a ? &spec : NULL, NULL, NULL);
        return cellval(p); }
    case 'F': return do_fulfil();
    }
    return -2;
}

static void body(int tid, void *arg)
{
    (void)arg;
    for(int i = 0; i < nops[tid]; i++) {
        if( i > 0 && coop ) ctl_yield_cb(K_IDLE, NULL);
        result[tid][i] = do_op(&prog[tid][i]);
        ndone[tid] = i + 1;
    }
}

/* ---------- set up / tear down of one run ---------- */
static void setup(void)
{
    for(int t = 0; t < nthr; t++) { ndone[t] = 0; for(int i = 0; i < MAXOPS; i++) result[t][i] = -3; }
    overflow = 0;
    if( mode == M_DC ) {
        nfut = 0; npool = 0; pend_h = pend_t = 0;
        fshape[0] = dc_b; fcb[0] = 0; fclean[0] = 0; fsets[0] = 0;
        fut[0] = PARSEC_OBJ_NEW(parsec_datacopy_future_t);
        parsec_future_init(fut[0], cb_fulfill, &fshape[0], cb_match, &fshape[0], cb_cleanup);
        nfut = 1;
        if( dc_pre ) { pool[0].val = 100 + dc_b; npool = 1; fsets[0] = 1; parsec_future_set(fut[0], &pool[0]); }
    } else {
        cb_base = 0;
        if( mode == M_BASE ) { bfut = PARSEC_OBJ_NEW(parsec_base_future_t); parsec_future_init(bfut, cb_counting); }
        else { bfut = (parsec_base_future_t*)PARSEC_OBJ_NEW(parsec_countable_future_t); parsec_future_init(bfut, cb_counting, count0); }
    }
}
static int st_compl(parsec_base_future_t *f) { return (f->status & PARSEC_DATA_FUTURE_STATUS_COMPLETED) ? 1 : 0; }
static int st_trig(parsec_base_future_t *f) { return (f->status & PARSEC_DATA_FUTURE_STATUS_TRIGGERED) ? 1 : 0; }

static void print_shared(void)
{
    if( mode == M_BASE ) printf("d=%ld st=%d cb=%d", bfut->tracked_data ? (long)((int*)bfut->tracked_data - cells) : 0L, st_compl(bfut), cb_base);
    else if( mode == M_COUNT ) printf("c=%d st=%d cb=%d", (int)((parsec_countable_future_t*)bfut)->count, st_compl(bfut), cb_base);
    else {
        for(int i = 0; i < nfut; i++)
            printf("%s%d:%d%d%d:%ld:%d", i ? " " : "", fshape[i], st_trig(&fut[i]->super), st_compl(&fut[i]->super), (int)fut[i]->super.future_lock,
                   cellval(fut[i]->super.tracked_data), fcb[i]);
        printf(" p=%d", pend_t - pend_h);
    }
}
static void pc_name(int t, char *buf)
{
    int k = ctl_kind_of(t);
    volatile void *a = ctl_cur ? ctl_cur->addr[t] : NULL;
    if( k == CTL_K_DONE ) strcpy(buf, "done");
    else if( k == CTL_K_START || k == K_IDLE ) strcpy(buf, "idle");
    else if( k == PARSEC_VERIF_K_FENCE ) strcpy(buf, "fence");
    else if( k == PARSEC_VERIF_K_SPIN ) strcpy(buf, "spin");
    else if( k == PARSEC_VERIF_K_RMW ) strcpy(buf, "rmw");
    else if( k == PARSEC_VERIF_K_CAS ) {
        strcpy(buf, "cas");
        if( mode == M_DC ) { strcpy(buf, "lock?"); for(int i = 0; i < nfut; i++) if( a == (volatile void*)&fut[i]->super.future_lock ) sprintf(buf, "lock%d", i); }
    } else strcpy(buf, "other");
}
static void observe(void *o, int step, int t)
{
    char b[16]; (void)o; (void)step;
    pc_name(t, b);
    printf("step %d => %s ", t, b); print_shared(); printf("\n");
}
/* a parked thread whose next step cannot change anything (its lock is taken / the future is not ready) */
static int blocked(int t)
{
    int k = ctl_kind_of(t);
    volatile void *a = ctl_cur ? ctl_cur->addr[t] : NULL;
    if( k == PARSEC_VERIF_K_SPIN ) return !st_compl(bfut);
    if( k == PARSEC_VERIF_K_CAS && mode == M_DC ) return a && *(volatile int32_t*)a != 0;
    return 0;
}
/* every unfinished thread waits for the future: cannot happen on an accepted case unless readiness is broken.
 * Report it, then force the status bit so that the spinning readers can leave when the run is abandoned. */
static volatile int deadlocked;
static const char *cur_case = "";
static int all_blocked(void)
{
    if( !deadlocked ) printf("!viol C29 deadlock [%s] every unfinished thread waits for a future that never becomes ready\n", cur_case);
    deadlocked = 1;
    if( mode != M_DC ) bfut->status |= PARSEC_DATA_FUTURE_STATUS_COMPLETED;
    return -1;
}
static int choose_dfs_nb(void *cctx, int step, int ne, const int *en)
{
    int un[CTL_MAXT], nu = 0;
    for(int i = 0; i < ne; i++) if( !blocked(en[i]) ) un[nu++] = i;
    if( 0 == nu ) return all_blocked();
    int k = ctl_choose_dfs(cctx, step, nu, NULL);
    return k < 0 ? -1 : un[k];
}
static int choose_rng_nb(void *cctx, int step, int ne, const int *en)
{
    pv_rng_t *r = (pv_rng_t*)cctx; (void)step;
    int un[CTL_MAXT], nu = 0;
    for(int i = 0; i < ne; i++) if( !blocked(en[i]) ) un[nu++] = i;
    if( 0 == nu ) return all_blocked();
    if( 0 == pv_below(r, 6) ) return (int)pv_below(r, (uint64_t)ne);     /* sometimes a blocked thread: a stutter step */
    return un[pv_below(r, (uint64_t)nu)];
}

static void print_rets(void)
{
    printf("rets => ");
    for(int t = 0; t < nthr; t++) {
        printf("%s[", t ? " " : "");
        for(int i = 0; i < nops[t]; i++) {
            char c = prog[t][i].k;
            if( i >= ndone[t] ) printf("%s%c?", i ? " " : "", c);
            else if( c == 'S' ) printf("%sS", i ? " " : "");
            else printf("%s%c%ld", i ? " " : "", c, result[t][i]);
        }
        printf("]");
    }
    printf("\n");
}

/* end of a run: drain deferred sets, release the futures; harness-side oracle on the final counters */
static void finish(const char *caseline, int print)
{
    if( mode == M_DC ) {
        while( do_fulfil() ) ;
        int nf = nfut;
        if( print ) {
            printf("final => nf=%d cb=[", nf);
            for(int i = 0; i < nf; i++) printf("%s%d", i ? " " : "", fcb[i]);
            printf("]\n");
        }
        for(int i = 0; i < nf; i++) {
            if( fcb[i] > 1 ) printf("!viol C29 dc-trigger-twice [%s | %s] fulfilment callback of future %d (shape %d) ran %d times\n", caseline, cur_replay, i, fshape[i], fcb[i]);
            if( fsets[i] > 1 ) printf("!viol C29 dc-set-twice [%s | %s] future %d (shape %d) was set %d times\n", caseline, cur_replay, i, fshape[i], fsets[i]);
            for(int j = 0; j < i; j++) if( fshape[i] % dc_M == fshape[j] % dc_M )
                printf("!viol C29 dc-duplicate-shape [%s | %s] futures %d and %d have matching shapes %d and %d\n", caseline, cur_replay, j, i, fshape[j], fshape[i]);
        }
        if( overflow ) printf("!viol C29 dc-overflow [%s | %s] more futures/fulfilments than the harness can hold\n", caseline, cur_replay);
        PARSEC_OBJ_RELEASE(fut[0]);
        for(int i = 0; i < nf; i++)
            if( fclean[i] != 1 ) printf("!viol C29 dc-cleanup [%s | %s] cleanup callback of future %d ran %d times at release\n", caseline, cur_replay, i, fclean[i]);
    } else {
        PARSEC_OBJ_RELEASE(bfut);
    }
}

static void on_alarm(int sig)
{
    static const char m[] = "\n!viol C29 hang: a run did not finish within its time limit (a reader waits for ever or a lock is never released)\n";
    (void)sig;
    fflush(stdout);
    if( write(1, m, sizeof m - 1) < 0 ) _exit(4);
    _exit(3);
}
static void one_run(const char *caseline, ctl_choose_t ch, void *cctx)
{
    static int sched[MAXSTEPS + 8]; int complete;
    coop = 1; deadlocked = 0; cur_case = caseline;
    alarm(120);
    setup();
    printf("%s => ok n=%d ", caseline, nthr); print_shared(); printf("\n");
    int steps = ctl_run(nthr, body, NULL, ch, cctx, observe, NULL, MAXSTEPS, sched, &complete);
    alarm(0);
    {   char *q = cur_replay; q += sprintf(q, "replay");
        for(int i = 0; i < steps && i < MAXSTEPS; i++) q += sprintf(q, " %d", sched[i]); }
    if( !complete ) { pv_stat("incomplete_runs", 1); finish(caseline, 0); return; }
    print_rets();
    finish(caseline, mode == M_DC);
}

/* ---------- free-running stress with the oracle ---------- */
static pthread_barrier_t bar; static int s_rounds; static const char *s_case;
static volatile long s_bad;
static volatile int s_progdone;
static void *stress_worker(void *p)
{
    int tid = (int)(intptr_t)p;
    for(int r = 0; r < s_rounds; r++) {
        if( 0 == tid ) { coop = 0; setup(); s_progdone = 0; }
        pthread_barrier_wait(&bar);
        body(tid, NULL);
        if( mode == M_DC ) {
            /* make every request of this thread's program succeed: help with the deferred sets, retry */
            for(int i = 0; i < nops[tid]; i++) {
                if( prog[tid][i].k != 'T' ) continue;
                long v; int spins = 0;
                while( 0 == (v = do_op(&prog[tid][i])) ) { do_fulfil(); if( ++spins > 100000000 ) { __sync_fetch_and_add(&s_bad, 1); break; } }
                int want = prog[tid][i].a ? prog[tid][i].a % dc_M : dc_b % dc_M;
                if( v < 100 || v >= 200 || (v - 100) % dc_M != want || (0 == prog[tid][i].a && v - 100 != dc_b) ) {
                    if( 0 == __sync_fetch_and_add(&s_bad, 1) )
                        printf("!viol C29 dc-value [%s | %s] free-running round %d thread %d request T%d returned value %ld\n", s_case, cur_replay, r, tid, prog[tid][i].a, v);
                }
                if( result[tid][i] != 0 && result[tid][i] != v ) {
                    if( 0 == __sync_fetch_and_add(&s_bad, 1) )
                        printf("!viol C29 dc-two-values [%s | %s] free-running round %d thread %d request T%d returned %ld then %ld\n", s_case, cur_replay, r, tid, prog[tid][i].a, result[tid][i], v);
                }
                result[tid][i] = v;
            }
        }
        pthread_barrier_wait(&bar);
        if( 0 == tid ) {
            /* oracle, from the property text */
            if( mode == M_BASE ) {
                int nset = 0, okval = 0; long d = bfut->tracked_data ? (long)((int*)bfut->tracked_data - cells) : 0;
                for(int t = 0; t < nthr; t++) for(int i = 0; i < nops[t]; i++) {
                    if( prog[t][i].k == 'S' ) { nset++; if( prog[t][i].a == d ) okval = 1; }
                    if( prog[t][i].k == 'G' && result[t][i] != d ) { s_bad++; printf("!viol C29 base-reader [%s | %s] free-running round %d: a reader got %ld, the future holds %ld\n", s_case, cur_replay, r, result[t][i], d); }
                }
                if( nset && (cb_base != 1 || !st_compl(bfut) || !okval) ) { s_bad++; printf("!viol C29 base-once [%s | %s] free-running round %d: %d sets, callback ran %d times, ready=%d, value %ld\n", s_case, cur_replay, r, nset, cb_base, st_compl(bfut), d); }
            } else if( mode == M_COUNT ) {
                int nset = 0;
                for(int t = 0; t < nthr; t++) for(int i = 0; i < nops[t]; i++) if( prog[t][i].k == 'S' ) nset++;
                int want = (count0 >= 1 && nset >= count0) ? 1 : 0;
                if( cb_base != want || st_compl(bfut) != want ) { s_bad++; printf("!viol C29 count-ready [%s | %s] free-running round %d: count %d, %d sets, callback ran %d times, ready=%d\n", s_case, cur_replay, r, count0, nset, cb_base, st_compl(bfut)); }
            } else {
                /* all requests of one class got one value */
                long byc[16]; memset(byc, 0, sizeof byc);
                for(int t = 0; t < nthr; t++) for(int i = 0; i < nops[t]; i++) if( prog[t][i].k == 'T' ) {
                    int c = (prog[t][i].a ? prog[t][i].a : dc_b) % dc_M;
                    if( byc[c] && byc[c] != result[t][i] ) { s_bad++; printf("!viol C29 dc-class-values [%s | %s] free-running round %d: class %d was served values %ld and %ld\n", s_case, cur_replay, r, c, byc[c], result[t][i]); }
                    byc[c] = result[t][i];
                }
            }
            finish(s_case, 0);
        }
        pthread_barrier_wait(&bar);
        if( s_bad > 20 ) break;
    }
    return NULL;
}
static void stress(const char *caseline, int rounds)
{
    pthread_t th[CTL_MAXT];
    s_rounds = rounds; s_case = caseline; s_bad = 0;
    sprintf(cur_replay, "stress %d", rounds);
    alarm(180 + rounds / 5);
    pthread_barrier_init(&bar, NULL, nthr);
    for(int i = 0; i < nthr; i++) pthread_create(&th[i], NULL, stress_worker, (void*)(intptr_t)i);
    for(int i = 0; i < nthr; i++) pthread_join(th[i], NULL);
    pthread_barrier_destroy(&bar);
    alarm(0);
    pv_stat("stress_rounds", rounds);
    pv_stat("stress_threads_x_rounds", (long)rounds * nthr);
}

/* ---------- parsing ---------- */
static int parse_progs(char **tok, int nt)
{
    nthr = 1; nops[0] = 0;
    for(int i = 0; i < nt; i++) {
        if( !strcmp(tok[i], "/") ) { if( nthr >= CTL_MAXT ) return -1; nops[nthr++] = 0; continue; }
        char k = tok[i][0]; char *e = tok[i] + 1; long a = 0;
        if( nops[nthr - 1] >= MAXOPS ) return -1;
        if( mode == M_BASE ) {
            if( k == 'S' ) { if( !*e ) return -1; a = strtol(e, &e, 10); if( *e || a < 0 || a > 60 ) return -1; }
            else if( (k == 'G' || k == 'R') && !*e ) ; else return -1;
        } else if( mode == M_COUNT ) {
            if( !((k == 'S' || k == 'G' || k == 'R') && !*e) ) return -1;
        } else {
            if( k == 'T' ) { if( !*e ) return -1; a = strtol(e, &e, 10); if( *e || a < 0 || a > 30 ) return -1; }
            else if( k == 'F' && !*e ) ; else return -1;
        }
        prog[nthr - 1][nops[nthr - 1]].k = k; prog[nthr - 1][nops[nthr - 1]].a = (int)a; nops[nthr - 1]++;
    }
    return 0;
}
/* precondition rule (the Lean driver applies the same): no S0; a G only after all S of its thread; enough S for the G */
static int acceptable(void)
{
    if( mode == M_DC ) return 1;
    int nset = 0, ng = 0;
    for(int t = 0; t < nthr; t++) {
        int seen_g = 0;
        for(int i = 0; i < nops[t]; i++) {
            if( prog[t][i].k == 'G' ) { seen_g = 1; ng++; }
            if( prog[t][i].k == 'S' ) { if( seen_g ) return 0; if( mode == M_BASE && prog[t][i].a == 0 ) return 0; nset++; }
        }
    }
    if( ng && mode == M_BASE && nset < 1 ) return 0;
    if( ng && mode == M_COUNT && (count0 < 1 || nset < count0) ) return 0;
    return 1;
}

int main(void)
{
    static char line[4096], caseline[4096];
    setvbuf(stdout, NULL, _IOFBF, 1 << 16);
    signal(SIGALRM, on_alarm);
    /* the "already set" warnings go through the output subsystem (its own lock): silence stream 0 so that the
     * losing branch of set has no further atomic operation; warm up the one-time class initialisations */
    parsec_output_init();
    parsec_output_set_verbosity(0, -1);
    {   int spec = 2;
        mode = M_DC; dc_b = 1; dc_M = 4; dc_amask = 0; dc_pre = 0; nthr = 0; coop = 0; setup();
        (void)parsec_future_get_or_trigger(fut[0], cb_nested, &spec, NULL, NULL);
        finish("warmup", 0);
        mode = M_BASE; setup(); parsec_future_set(bfut, &cells[1]); finish("warmup", 0);
        mode = M_COUNT; count0 = 1; setup(); parsec_future_set(bfut, NULL); finish("warmup", 0);
    }
    while( fgets(line, sizeof line, stdin) ) {
        char *tok[256]; int nt = 0;
        line[strcspn(line, "\n")] = 0;
        char *barp = strstr(line, " | ");
        if( !barp ) { printf("%s => bad-op\n", line); continue; }
        *barp = 0; strcpy(caseline, line);
        char *pol = barp + 3;
        for(char *p = strtok(line, " "); p && nt < 256; p = strtok(NULL, " ")) tok[nt++] = p;
        int first = 0, bad = 0;
        if( nt < 3 || strcmp(tok[0], "case") ) bad = 1;
        else if( !strcmp(tok[2], "base") ) { mode = M_BASE; first = 3; }
        else if( !strcmp(tok[2], "count") && nt >= 4 ) { mode = M_COUNT; count0 = atoi(tok[3]); first = 4; if( count0 < -5 || count0 > 40 ) bad = 1; }
        else if( !strcmp(tok[2], "dc") && nt >= 7 ) {
            mode = M_DC; dc_b = atoi(tok[3]); dc_M = atoi(tok[4]); dc_amask = atoi(tok[5]); dc_pre = atoi(tok[6]); first = 7;
            if( dc_b < 1 || dc_b > 30 || dc_M < 1 || dc_M > 8 || dc_amask < 0 || dc_pre < 0 || dc_pre > 1 ) bad = 1;
        } else bad = 1;
        if( bad || parse_progs(tok + first, nt - first) < 0 ) { printf("%s => bad-op\n", caseline); continue; }
        if( !acceptable() ) { printf("%s => rejected\n", caseline); continue; }
        if( !strncmp(pol, "rng ", 4) ) {
            pv_rng_t r = { strtoull(pol + 4, NULL, 10) };
            one_run(caseline, choose_rng_nb, &r);
        } else if( !strncmp(pol, "dfs ", 4) ) {
            long max = atol(pol + 4), cnt = 0; ctl_dfs_t d; ctl_dfs_init(&d);
            do { one_run(caseline, choose_dfs_nb, &d); cnt++; } while( cnt < max && ctl_dfs_next(&d) );
            pv_stat("dfs_schedules", cnt);
            if( cnt < max ) pv_stat("dfs_exhausted_spaces", 1);
        } else if( !strncmp(pol, "replay", 6) ) {
            static int sc[MAXSTEPS]; int len = 0; char *p = pol + 6;
            while( *p && len < MAXSTEPS ) { while( *p == ' ' ) p++; if( !*p ) break; sc[len++] = atoi(p); while( *p && *p != ' ' ) p++; }
            ctl_replay_t rp = { sc, len };
            one_run(caseline, ctl_choose_replay, &rp);
        } else if( !strncmp(pol, "stress ", 7) ) {
            stress(caseline, atoi(pol + 7));
        } else printf("%s => bad-op\n", caseline);
        fflush(stdout);
    }
    return 0;
}
