/* C08 harness: the shared scheduler driver (harness/common/sched_drv.h) with all ops, on any of the
 * 11 real modules.  Adds
 *   topo / cfg   the buffer topology of the hierarchical modules, read from the module's real objects
 *   vps / next   the real __parsec_schedule_vp and the body of __parsec_get_next_task
 *   stress       free-running threads + the multiset oracle
 */
#include "sched_drv.h"
#include <sched.h>

/* ---------------------------------------------------------------- topology of lfq / lhq / ltq / pbq */
static int is_hbb(void) { return !strcmp(modname, "lfq") || !strcmp(modname, "lhq") || !strcmp(modname, "ltq") || !strcmp(modname, "pbq"); }

#define MAXBUF 256
static int sched_drv_topo(char *out, size_t len)
{
    parsec_hbbuffer_t *bufs[MAXBUF]; int nb = 0;
    if( !is_hbb() ) { snprintf(out, len, "none"); return 0; }
    /* number the distinct buffers in order of first appearance (stream by stream, queue by queue) */
    for(int e = 0; e < ncores; e++) {
        parsec_mca_sched_local_queues_scheduler_object_t *so = PARSEC_MCA_SCHED_LOCAL_QUEUES_OBJECT(ES(e));
        for(int q = 0; q < so->nb_hierarch_queues; q++) {
            int k; for(k = 0; k < nb; k++) if( bufs[k] == so->hierarch_queues[q] ) break;
            if( k == nb ) { if( nb == MAXBUF ) return -1; bufs[nb++] = so->hierarch_queues[q]; }
        }
    }
    size_t o = 0;
    o += snprintf(out + o, len - o, "sizes=");
    for(int k = 0; k < nb; k++) o += snprintf(out + o, len - o, "%s%zu", k ? "," : "", bufs[k]->size);
    o += snprintf(out + o, len - o, " par=");
    for(int k = 0; k < nb; k++) {
        int p; for(p = 0; p < nb; p++) if( (void*)bufs[p] == bufs[k]->parent_store ) break;
        if( p == nb ) o += snprintf(out + o, len - o, "%s-", k ? "," : "");      /* the system queue */
        else o += snprintf(out + o, len - o, "%s%d", k ? "," : "", p);
    }
    o += snprintf(out + o, len - o, " hq=");
    for(int e = 0; e < ncores; e++) {
        parsec_mca_sched_local_queues_scheduler_object_t *so = PARSEC_MCA_SCHED_LOCAL_QUEUES_OBJECT(ES(e));
        if( e ) o += snprintf(out + o, len - o, "|");
        if( so->task_queue != so->hierarch_queues[0] ) return -2;              /* the model assumes task_queue = hierarch_queues[0] */
        for(int q = 0; q < so->nb_hierarch_queues; q++) {
            int k; for(k = 0; k < nb; k++) if( bufs[k] == so->hierarch_queues[q] ) break;
            o += snprintf(out + o, len - o, "%s%d", q ? "." : "", k);
        }
    }
    return 0;
}

/* ---------------------------------------------------------------- stress */
typedef struct { int tid, rounds, nthreads, comm; uint64_t seed; int base, cap, nsched; int *ret; int nret; } stress_arg_t;
static int stress_x;   /* exploration only (op `stressx`, env PV_STRESSX=1): foreign schedules target stream tid+1 like __parsec_reschedule */
static parsec_task_t **stress_tasks; static int stress_total;

static void *stress_thread(void *p)
{
    stress_arg_t *a = (stress_arg_t*)p;
    pv_rng_t r = { a->seed ^ (0x9E3779B97F4A7C15ULL * (uint64_t)(a->tid + 1)) };
    for(int it = 0; it < a->rounds; it++) {
        /* about as many tasks go in as selects are attempted, so the containers stay moderately filled */
        int do_sched = pv_below(&r, 100) < (a->comm ? 8 : 16);
        if( do_sched && a->nsched < a->cap ) {
            int n = 1 + (int)pv_below(&r, pv_below(&r, 8) == 0 ? 40 : 6);
            if( n > a->cap - a->nsched ) n = a->cap - a->nsched;
            parsec_task_t *first = NULL, *prev = NULL;
            for(int i = 0; i < n; i++) {
                int id = a->base + a->nsched++;
                parsec_task_t *t = stress_tasks[id] = mk_task_g(id, (int)pv_below(&r, 5), 0, (int)pv_below(&r, 3));
                if( NULL == first ) first = t; else { prev->super.list_next = &t->super; t->super.list_prev = &prev->super; }
                prev = t;
            }
            prev->super.list_next = &first->super; first->super.list_prev = &prev->super;
            /* a compute stream schedules on itself (any distance) or, as a foreign submitter, on stream 0;
             * the communication thread only ever targets stream 0 */
            int target = (a->comm || pv_below(&r, 5) == 0) ? 0 : a->tid;
            if( stress_x && !a->comm && pv_below(&r, 3) == 0 ) target = (a->tid + 1) % a->nthreads;
            int32_t d = pv_below(&r, 4) == 0 ? (int32_t)pv_below(&r, 4) : 0;
            parsec_current_scheduler->module.schedule(ES(target), first, d);
        } else if( a->comm ) {
            sched_yield();
        } else {
            int32_t d = 0;
            parsec_task_t *t = parsec_current_scheduler->module.select(ES(a->tid), &d);
            if( t ) a->ret[a->nret++] = task_id(t);
        }
    }
    return NULL;
}

static void do_stress(int nthreads, int rounds, uint64_t seed)
{
    int cap = rounds * 8 + 64, nt = nthreads + 1;
    stress_total = nt * cap;
    stress_tasks = (parsec_task_t**)calloc(stress_total, sizeof(parsec_task_t*));
    stress_arg_t *args = (stress_arg_t*)calloc(nt, sizeof(stress_arg_t));
    pthread_t *th = (pthread_t*)calloc(nt, sizeof(pthread_t));
    int *count = (int*)calloc(stress_total, sizeof(int));
    for(int i = 0; i < nt; i++) {
        args[i].tid = i; args[i].rounds = rounds; args[i].nthreads = nthreads; args[i].comm = (i == nthreads);
        args[i].seed = seed; args[i].base = i * cap; args[i].cap = cap; args[i].ret = (int*)calloc(stress_total, sizeof(int));
    }
    for(int i = 0; i < nt; i++) pthread_create(&th[i], NULL, stress_thread, &args[i]);
    for(int i = 0; i < nt; i++) pthread_join(th[i], NULL);
    long scheduled = 0, returned = 0, lost = 0, dup = 0, unknown = 0, drained = 0;
    for(int i = 0; i < nt; i++) {
        scheduled += args[i].nsched;
        for(int k = 0; k < args[i].nret; k++) { int id = args[i].ret[k]; if( id < 0 || id >= stress_total ) unknown++; else count[id]++; returned++; }
    }
    /* quiescent drain: k = |pending| selects over the streams must return everything */
    int got;
    do {
        got = 0;
        for(int e = 0; e < ncores; e++) {
            int32_t d = 0; parsec_task_t *t;
            while( NULL != (t = parsec_current_scheduler->module.select(ES(e), &d)) ) {
                int id = task_id(t); got = 1; drained++;
                if( id < 0 || id >= stress_total || stress_tasks[id] != t ) unknown++; else count[id]++;
            }
        }
    } while( got );
    for(int i = 0; i < nt; i++)
        for(int k = 0; k < args[i].nsched; k++) { int c = count[args[i].base + k]; if( c == 0 ) lost++; else if( c > 1 ) dup += c - 1; }
    if( lost || dup || unknown ) {
        printf("lost=%ld dup=%ld unknown=%ld\n", lost, dup, unknown);
        printf("!viol stress %s threads=%d rounds=%d seed=%llu: scheduled=%ld returned-concurrently=%ld drained=%ld lost=%ld duplicated=%ld unknown=%ld\n",
               modname, nthreads, rounds, (unsigned long long)seed, scheduled, returned, drained, lost, dup, unknown);
    } else printf("ok\n");
    pv_stat("stress_scheduled", scheduled); pv_stat("stress_returned_concurrently", returned); pv_stat("stress_drained", drained);
    for(int i = 0; i < stress_total; i++) if( stress_tasks[i] ) free(stress_tasks[i]);
    for(int i = 0; i < nt; i++) free(args[i].ret);
    free(stress_tasks); free(args); free(th); free(count); stress_tasks = NULL;
}

/* ---------------------------------------------------------------- extra ops */
static int any_pending(void) { for(int i = 0; i < MAXID; i++) if( pend[i] ) return 1; return 0; }

static int sched_drv_extra(char **w, int nw)
{
    if( 0 == strcmp(w[0], "vps") && nw >= 3 ) {
        char *e1, *e2; long es = strtol(w[1], &e1, 10), d = strtol(w[2], &e2, 10);
        if( *e1 || *e2 || es < 0 || nw == 3 ) { printf("bad-op\n"); return 1; }
        if( es >= ncores ) { printf("rejected\n"); return 1; }
        parsec_task_t *ring;
        int a = build_ring(w + 3, nw - 3, 0, &ring);
        if( a ) { printf(a == 1 ? "bad-op\n" : "rejected\n"); return 1; }
        parsec_task_t *rings[1] = { ring };
        int rc = __parsec_schedule_vp(ES(es), rings, (int32_t)d);
        printf(rc == 0 ? "ok\n" : "err %d\n", rc);
        return 1;
    }
    if( 0 == strcmp(w[0], "next") && nw == 2 ) {
        char *e1; long es = strtol(w[1], &e1, 10);
        if( *e1 || es < 0 ) { printf("bad-op\n"); return 1; }
        if( es >= ncores ) { printf("rejected\n"); return 1; }
        /* the body of the static inline __parsec_get_next_task (scheduling.c) */
        int32_t d = -12345; parsec_task_t *t;
        if( NULL == (t = ES(es)->next_task) ) t = parsec_current_scheduler->module.select(ES(es), &d);
        else { ES(es)->next_task = NULL; d = 1; }
        print_task(t, d);
        return 1;
    }
    if( (0 == strcmp(w[0], "stress") || (0 == strcmp(w[0], "stressx") && getenv("PV_STRESSX"))) && nw == 4 ) {
        stress_x = (w[0][6] == 'x');
        char *e1, *e2, *e3; long t = strtol(w[1], &e1, 10), r = strtol(w[2], &e2, 10); unsigned long long sd = strtoull(w[3], &e3, 10);
        if( *e1 || *e2 || *e3 || t < 0 || r < 0 || w[3][0] == '-' ) { printf("bad-op\n"); return 1; }
        if( t == 0 || t > ncores || any_pending() ) { printf("rejected\n"); return 1; }
        for(int i = 0; i < ncores; i++) if( ES(i)->next_task ) { printf("rejected\n"); return 1; }
        do_stress((int)t, (int)r, sd);
        return 1;
    }
    return 0;
}

int main(int argc, char **argv)
{
    drv_allow_high = 1;
    drv_cfg_hook = 1;
    return sched_drv_main(argc, argv);
}
