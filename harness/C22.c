/* C22 harness: the REAL tiled-matrix operators of parsec/data_dist/matrix, driven by a script.
 *
 *   C22 <script> <outprefix> <cores>        (alone, or under mpiexec: every rank reads the same script
 *                                            and writes its transcript to <outprefix>.<rank>)
 *
 * script lines (one case per line, executed collectively):
 *   apply mt nt uplo P Q      parsec_apply() on an mt x nt tile matrix, P x Q process grid (P*Q = ranks),
 *                             logging operator.  rank 0 prints
 *                               apply mt nt uplo => <grid> oob=<k>         (grid: one char per tile,
 *                             '.' never, F/U/L once with that uplo argument, digit = number of calls)
 *                             or `=> bad-param` when parsec_apply returns PARSEC_ERR_BAD_PARAM.
 *   map mt nt P Q             parsec_map_operator_New(src, dest, op) with a logging operator; every rank prints
 *                               map mt nt cores <loc> <order> => <count grid> next=<final tp->next_n>
 *                             loc = the locality bitmap computed with the real rank_of, order = the operator
 *                             invocations of this rank in execution order (m.n,m.n,... or -).
 *   reduce MT                 the generated reduce.jdf taskpool on an MT x 1 tile matrix (1 rank), with data
 *                             collections whose data_of is logged and made safe for out-of-range indices:
 *                               reduce MT <order> => tasks=<l.p:count,..> reads=<m:count,..> rwrites=<p:count,..>
 *                             order = the task bodies in execution order (from their own printf output).
 *   redcol d nt M N / redrow d nt N    the generated reduce_col.jdf / reduce_row.jdf taskpools, called with
 *                             explicit (IA, JA, M, N) on a 2^d x nt tile matrix (1 rank):
 *                               redcol d nt M N => tasks=<level.index:count,..> reads=<r.c:count,..> dest=<c:count,..> ops=<k>
 *                             (ops = invocations of the `operation` given to the taskpool)
 *   maphang mt nt P Q         like map, for shapes that leave a rank without any local tile: a watchdog thread
 *                             reports `maphang .. => stuck nb_tasks=<a> pending=<b> invocations=<c>` after W seconds
 *                             without completion and ends the process (exit 42); `=> completed` otherwise.
 *   mapwide mt nt             free-running search on the real map operator (1 rank, all threads): a very wide matrix,
 *                             the operator only bumps an atomic per-tile counter (no lock, no event log);
 *                               mapwide mt nt cores => ok tiles=<mt*nt> next=<final next_n>
 *                             or `=> bad never=<k> twice=<k> first-never=(m,n).. first-twice=(m,n):c.. next=..`;
 *                             a run that does not complete within the watchdog delay is a `!viol` (exit 42).
 *   wrapper col|row mt nt     parsec_reduce_col_New / parsec_reduce_row_New exactly as exported, on a plain
 *                             block-cyclic matrix (expected to crash: run in a process of its own);
 *                             prints `wrapper .. => completed` if it survives.
 *   clog2 lo hi               for n = lo..hi:  clog2 n => (int)ceil(log(n) / log(2.0))   (the `depth` expression
 *                             of the three JDF files, evaluated by the C compiler / libm of this build)
 */
#include "parsec/parsec_config.h"
#include "parsec/runtime.h"
#include "parsec/parsec_internal.h"
#include "parsec/execution_stream.h"
#include "parsec/arena.h"
#include "parsec/datatype.h"
#include "parsec/data_internal.h"
#include "parsec/data_dist/matrix/matrix.h"
#include "parsec/data_dist/matrix/two_dim_rectangle_cyclic.h"
#include "parsec/data_dist/matrix/reduce.h"
#include "parsec/data_dist/matrix/reduce_col.h"
#include "parsec/data_dist/matrix/reduce_row.h"
#include <mpi.h>
#include <math.h>
#include <stdio.h>
#include <stdlib.h>
#include <string.h>
#include <stdarg.h>
#include <unistd.h>
#include <fcntl.h>
#include <pthread.h>

#define NB 2                 /* tile is NB x NB ints */
#define MAXT 64              /* max tiles per dimension */
#define MAXEV 65536

static FILE *out;
static parsec_context_t *parsec;
static int world = 1, myrank = 0, cores = 1;
static const char *prefix;
static pthread_mutex_t mtx = PTHREAD_MUTEX_INITIALIZER;

static void die(const char *msg) { fprintf(stderr, "C22 harness: %s\n", msg); if( out ) { fprintf(out, "#fatal %s\n", msg); fflush(out); } MPI_Abort(MPI_COMM_WORLD, 3); }

/* ------------------------------------------------------------------ matrices */
static void mat_init(parsec_matrix_block_cyclic_t *dc, int mt, int nt, int P, int Q, const char *key)
{
    parsec_matrix_block_cyclic_init(dc, PARSEC_MATRIX_INTEGER, PARSEC_MATRIX_TILE, myrank, NB, NB, mt * NB, nt * NB,
                                    0, 0, mt * NB, nt * NB, P, Q, 1, 1, 0, 0);
    size_t sz = (size_t)dc->super.nb_local_tiles * (size_t)dc->super.bsiz * (size_t)parsec_datadist_getsizeoftype(dc->super.mtype);
    dc->mat = parsec_data_allocate(sz ? sz : 16);
    memset(dc->mat, 0, sz ? sz : 16);
    parsec_data_collection_set_key(&dc->super.super, key);
}
static void mat_fini(parsec_matrix_block_cyclic_t *dc)
{
    parsec_data_free(dc->mat);
    parsec_tiled_matrix_destroy((parsec_tiled_matrix_t*)dc);
}
static int is_local(parsec_matrix_block_cyclic_t *dc, int m, int n)
{
    return (int)dc->super.super.rank_of(&dc->super.super, m, n) == myrank;
}
static int *tile_ptr(parsec_matrix_block_cyclic_t *dc, int m, int n)
{
    parsec_data_t *d = dc->super.super.data_of(&dc->super.super, m, n);
    parsec_data_copy_t *c = parsec_data_get_copy(d, 0);
    return (int*)PARSEC_DATA_COPY_GET_PTR(c);
}

/* ------------------------------------------------------------------ apply */
static int a_mt, a_nt, a_cnt[3][MAXT * MAXT], a_other[MAXT * MAXT], a_oob;
static int apply_op(struct parsec_execution_stream_s *es, const parsec_tiled_matrix_t *desc, void *data, int uplo, int m, int n, void *args)
{
    (void)es; (void)desc; (void)args;
    pthread_mutex_lock(&mtx);
    if( m < 0 || n < 0 || m >= a_mt || n >= a_nt ) a_oob++;
    else {
        if( uplo == PARSEC_MATRIX_FULL ) a_cnt[0][m * a_nt + n]++;
        else if( uplo == PARSEC_MATRIX_UPPER ) a_cnt[1][m * a_nt + n]++;
        else if( uplo == PARSEC_MATRIX_LOWER ) a_cnt[2][m * a_nt + n]++;
        else a_other[m * a_nt + n]++;
        ((int*)data)[1] += 1;
    }
    pthread_mutex_unlock(&mtx);
    return 0;
}

static void do_apply(int mt, int nt, int uplo, int P, int Q)
{
    parsec_matrix_block_cyclic_t A;
    if( mt < 1 || nt < 1 || mt > MAXT || nt > MAXT || P * Q != world ) { if( 0 == myrank ) fprintf(out, "apply %d %d %d => bad-op\n", mt, nt, uplo); return; }
    mat_init(&A, mt, nt, P, Q, "A");
    for(int m = 0; m < mt; m++) for(int n = 0; n < nt; n++) if( is_local(&A, m, n) ) { int *t = tile_ptr(&A, m, n); t[0] = 1000 * m + n; t[1] = 0; }
    a_mt = mt; a_nt = nt; a_oob = 0;
    memset(a_cnt, 0, sizeof a_cnt); memset(a_other, 0, sizeof a_other);
    int rc = parsec_apply(parsec, (parsec_matrix_uplo_t)uplo, (parsec_tiled_matrix_t*)&A, apply_op, NULL);
    /* the operator ran on the owner: the tile's own counter must equal the number of logged invocations */
    for(int m = 0; m < mt; m++) for(int n = 0; n < nt; n++) {
        int k = m * nt + n, c = a_cnt[0][k] + a_cnt[1][k] + a_cnt[2][k] + a_other[k];
        if( is_local(&A, m, n) ) {
            int *t = tile_ptr(&A, m, n);
            if( t[0] != 1000 * m + n || t[1] != c ) fprintf(out, "!viol apply %d %d %d: tile (%d,%d) holds (%d,%d) after %d logged invocations\n", mt, nt, uplo, m, n, t[0], t[1], c);
        } else if( c ) fprintf(out, "!viol apply %d %d %d: operator ran on rank %d for tile (%d,%d) owned by another rank\n", mt, nt, uplo, myrank, m, n);
    }
    int tot[4][MAXT * MAXT], oob = 0;
    for(int k = 0; k < 3; k++) MPI_Reduce(a_cnt[k], tot[k], mt * nt, MPI_INT, MPI_SUM, 0, MPI_COMM_WORLD);
    MPI_Reduce(a_other, tot[3], mt * nt, MPI_INT, MPI_SUM, 0, MPI_COMM_WORLD);
    MPI_Reduce(&a_oob, &oob, 1, MPI_INT, MPI_SUM, 0, MPI_COMM_WORLD);
    if( 0 == myrank ) {
        fprintf(out, "apply %d %d %d => ", mt, nt, uplo);
        if( rc == PARSEC_ERR_BAD_PARAM ) fprintf(out, "bad-param\n");
        else if( rc != PARSEC_SUCCESS ) fprintf(out, "error %d\n", rc);
        else {
            for(int m = 0; m < mt; m++) {
                if( m ) fputc('/', out);
                for(int n = 0; n < nt; n++) {
                    int k = m * nt + n, c = tot[0][k] + tot[1][k] + tot[2][k] + tot[3][k];
                    if( 0 == c ) fputc('.', out);
                    else if( c > 1 ) fputc(c > 9 ? '9' : '0' + c, out);
                    else fputc(tot[0][k] ? 'F' : tot[1][k] ? 'U' : tot[2][k] ? 'L' : '?', out);
                }
            }
            fprintf(out, " oob=%d\n", oob);
        }
        fprintf(out, "#stat apply_cases 1\n#stat apply_tiles %d\n", mt * nt);
    }
    mat_fini(&A);
}

/* ------------------------------------------------------------------ map operator */
/* mirror of the file-private `parsec_map_operator_taskpool_t` of map_operator.c (only to read next_n);
 * validated against the fields we know (src, op, op_data) before use */
typedef struct {
    parsec_taskpool_t super;
    const parsec_tiled_matrix_t *src;
    parsec_tiled_matrix_t *dest;
    volatile int32_t next_n;
    parsec_operator_t op;
    void *op_data;
} map_tp_mirror_t;

static int m_mt, m_nt, m_cnt[MAXT * MAXT], m_oob, m_nev, m_ev[MAXEV][2];
static int map_op(struct parsec_execution_stream_s *es, const void *src, void *dst, void *op_data, ...)
{
    va_list ap; va_start(ap, op_data);
    int m = va_arg(ap, int), n = va_arg(ap, int);
    va_end(ap);
    (void)es; (void)op_data;
    pthread_mutex_lock(&mtx);
    if( m < 0 || n < 0 || m >= m_mt || n >= m_nt ) m_oob++;
    else {
        m_cnt[m * m_nt + n]++;
        if( m_nev < MAXEV ) { m_ev[m_nev][0] = m; m_ev[m_nev][1] = n; m_nev++; }
        if( dst && src ) { ((int*)dst)[0] = ((const int*)src)[0] + 1; ((int*)dst)[1] += 1; }
    }
    pthread_mutex_unlock(&mtx);
    return 0;
}

static int *w_cnt, w_mt, w_nt, w_oob;
static volatile int wd_armed, wd_secs = 120, wd_hang;
static parsec_taskpool_t *wd_tp; static char wd_desc[128];
static void *watchdog(void *arg)
{
    (void)arg;
    for(int i = 0; i < wd_secs * 10 && wd_armed; i++) usleep(100000);
    if( wd_armed ) {
        if( w_cnt ) { long t = 0; for(size_t k = 0; k < (size_t)w_mt * w_nt; k++) t += w_cnt[k]; m_nev = (int)t; }
        if( wd_hang ) fprintf(out, "maphang %s => stuck nb_tasks=%d pending=%d invocations=%d\n", wd_desc, (int)wd_tp->nb_tasks, (int)wd_tp->nb_pending_actions, m_nev);
        else fprintf(out, "!viol map %s: the taskpool did not complete within %d s: nb_tasks=%d pending=%d after %d operator invocations on rank %d\n",
                     wd_desc, wd_secs, (int)wd_tp->nb_tasks, (int)wd_tp->nb_pending_actions, m_nev, myrank);
        if( wd_hang ) fprintf(out, "#end\n");
        fflush(out);
        _exit(42);
    }
    return NULL;
}

static void do_map(int mt, int nt, int P, int Q, int hang)
{
    parsec_matrix_block_cyclic_t A, B;
    if( mt < 1 || nt < 1 || mt > MAXT || nt > MAXT || P * Q != world ) { fprintf(out, "map %d %d => bad-op\n", mt, nt); return; }
    mat_init(&A, mt, nt, P, Q, "A"); mat_init(&B, mt, nt, P, Q, "B");
    for(int m = 0; m < mt; m++) for(int n = 0; n < nt; n++) if( is_local(&A, m, n) ) { tile_ptr(&A, m, n)[0] = 1000 * m + n; tile_ptr(&B, m, n)[0] = -1; tile_ptr(&B, m, n)[1] = 0; }
    m_mt = mt; m_nt = nt; m_oob = 0; m_nev = 0; memset(m_cnt, 0, sizeof m_cnt);
    parsec_taskpool_t *tp = parsec_map_operator_New((parsec_tiled_matrix_t*)&A, (parsec_tiled_matrix_t*)&B, map_op, "C22");
    map_tp_mirror_t *mir = (map_tp_mirror_t*)tp;
    int mirror_ok = (mir->src == (parsec_tiled_matrix_t*)&A && mir->dest == (parsec_tiled_matrix_t*)&B && mir->op == map_op && mir->next_n == 0);
    pthread_t wd;
    snprintf(wd_desc, sizeof wd_desc, "%d %d %d %d", mt, nt, P, Q); wd_tp = tp; wd_hang = hang; wd_armed = 1; pthread_create(&wd, NULL, watchdog, NULL);
    int rc = parsec_context_add_taskpool(parsec, tp);
    if( rc == PARSEC_SUCCESS ) rc = parsec_context_start(parsec);
    if( rc == PARSEC_SUCCESS ) rc = parsec_context_wait(parsec);
    wd_armed = 0; pthread_join(wd, NULL);
    if( hang ) fprintf(out, "maphang %s => completed\n", wd_desc);
    int next = mirror_ok ? (int)mir->next_n : -1;
    /* the number of execution streams the start-up function really sees (parsec_init may give fewer than asked) */
    int real_cores = parsec->virtual_processes[0]->nb_cores;
    fprintf(out, "map %d %d %d ", mt, nt, real_cores);
    int nloc = 0;
    for(int m = 0; m < mt; m++) { if( m ) fputc('/', out); for(int n = 0; n < nt; n++) { int l = is_local(&A, m, n); nloc += l; fputc('0' + l, out); } }
    fputc(' ', out);
    if( 0 == m_nev ) fputc('-', out);
    for(int k = 0; k < m_nev; k++) fprintf(out, "%s%d.%d", k ? "," : "", m_ev[k][0], m_ev[k][1]);
    fprintf(out, " => ");
    if( rc != PARSEC_SUCCESS ) fprintf(out, "error %d\n", rc);
    else {
        for(int m = 0; m < mt; m++) { if( m ) fputc('/', out); for(int n = 0; n < nt; n++) { int c = m_cnt[m * nt + n]; fputc(c > 9 ? '9' : '0' + c, out); } }
        fprintf(out, " next=%d\n", next);
    }
    for(int m = 0; m < mt; m++) for(int n = 0; n < nt; n++) if( is_local(&A, m, n) ) {
        int *b = tile_ptr(&B, m, n), c = m_cnt[m * nt + n];
        if( b[1] != c || (c == 1 && b[0] != 1000 * m + n + 1) ) fprintf(out, "!viol map %d %d: dest tile (%d,%d) holds (%d,%d) after %d logged invocations\n", mt, nt, m, n, b[0], b[1], c);
    } else if( m_cnt[m * nt + n] ) fprintf(out, "!viol map %d %d: operator ran on rank %d for tile (%d,%d) owned by another rank\n", mt, nt, myrank, m, n);
    if( m_oob ) fprintf(out, "!viol map %d %d: %d operator invocations outside the matrix\n", mt, nt, m_oob);
    fprintf(out, "#stat map_cases 1\n#stat map_local_tiles %d\n#stat map_mirror_bad %d\n#stat map_cores_%d 1\n#stat map_nb_vp_%d 1\n", nloc, !mirror_ok, real_cores, parsec->nb_vp);
    parsec_taskpool_free(tp);
    mat_fini(&A); mat_fini(&B);
}

/* ------------------------------------------------------------------ logging data collections (1 rank) */
typedef struct {
    parsec_matrix_block_cyclic_t bc;          /* must be first */
    parsec_data_t* (*orig_data_of)(parsec_data_collection_t *, ...);
    int mt, nt, one_arg;
    int reads[MAXT * MAXT];
    int noob, oob[256][2];
} logdc_t;
static logdc_t *logs[4]; static int nlogs;
static logdc_t *find_log(parsec_data_collection_t *d) { for(int i = 0; i < nlogs; i++) if( (void*)logs[i] == (void*)d ) return logs[i]; return NULL; }

static parsec_data_t *log_data_of(parsec_data_collection_t *d, ...)
{
    logdc_t *l = find_log(d);
    va_list ap; va_start(ap, d);
    int m, n;
    if( l->one_arg ) { m = 0; n = va_arg(ap, int); } else { m = va_arg(ap, int); n = va_arg(ap, int); }
    va_end(ap);
    pthread_mutex_lock(&mtx);
    int inr = (m >= 0 && n >= 0 && m < l->mt && n < l->nt);
    if( inr ) l->reads[m * l->nt + n]++;
    else { if( l->noob < 256 ) { l->oob[l->noob][0] = m; l->oob[l->noob][1] = n; } l->noob++; }
    pthread_mutex_unlock(&mtx);
    return inr ? l->orig_data_of(d, m, n) : l->orig_data_of(d, 0, 0);    /* an out-of-range request is logged and served with tile (0,0) */
}
static uint32_t log_rank_of(parsec_data_collection_t *d, ...) { (void)d; return 0; }
static int32_t log_vpid_of(parsec_data_collection_t *d, ...) { (void)d; return 0; }
static parsec_data_key_t log_data_key1(parsec_data_collection_t *d, ...)
{
    va_list ap; va_start(ap, d); int n = va_arg(ap, int); va_end(ap);
    logdc_t *l = find_log(d);
    return (parsec_data_key_t)((n >= 0 && n < l->nt) ? n * l->bc.super.lmt : 0);
}

static void log_init(logdc_t *l, int mt, int nt, int one_arg, const char *key)
{
    memset(l, 0, sizeof *l);
    mat_init(&l->bc, mt, nt, 1, 1, key);
    l->mt = mt; l->nt = nt; l->one_arg = one_arg;
    l->orig_data_of = l->bc.super.super.data_of;
    l->bc.super.super.data_of = log_data_of;
    l->bc.super.super.rank_of = log_rank_of;
    l->bc.super.super.vpid_of = log_vpid_of;
    if( one_arg ) l->bc.super.super.data_key = log_data_key1;
    logs[nlogs++] = l;
}
static void log_fini(logdc_t *l)
{
    l->bc.super.super.data_of = l->orig_data_of;
    mat_fini(&l->bc);
    for(int i = 0; i < nlogs; i++) if( logs[i] == l ) { logs[i] = logs[--nlogs]; break; }
}

/* run a taskpool with fd 1 redirected to a file; returns the captured text (malloc'd) */
static char *run_captured(parsec_taskpool_t *tp, int *prc)
{
    char path[1024]; snprintf(path, sizeof path, "%s.cap.%d", prefix, myrank);
    fflush(stdout);
    int saved = dup(1), fd = open(path, O_CREAT | O_TRUNC | O_RDWR, 0600);
    if( saved < 0 || fd < 0 ) die("cannot redirect stdout");
    dup2(fd, 1);
    int rc = parsec_context_add_taskpool(parsec, tp);
    if( rc == PARSEC_SUCCESS ) rc = parsec_context_start(parsec);
    if( rc == PARSEC_SUCCESS ) rc = parsec_context_wait(parsec);
    fflush(stdout);
    dup2(saved, 1); close(saved);
    off_t sz = lseek(fd, 0, SEEK_END); lseek(fd, 0, SEEK_SET);
    char *buf = calloc((size_t)sz + 1, 1);
    if( sz > 0 && read(fd, buf, (size_t)sz) != sz ) die("short read of captured stdout");
    close(fd); unlink(path);
    *prc = rc;
    return buf;
}

static int cmp2(const void *a, const void *b) { const int *x = a, *y = b; return x[0] != y[0] ? x[0] - y[0] : x[1] - y[1]; }
/* print a sorted multiset of pairs as a.b:count,... */
static void print_pairs(FILE *f, int (*ev)[2], int n, int single)
{
    int (*s)[2] = malloc(sizeof(int[2]) * (size_t)(n ? n : 1));
    memcpy(s, ev, sizeof(int[2]) * (size_t)n);
    qsort(s, (size_t)n, sizeof(int[2]), cmp2);
    if( 0 == n ) fputc('-', f);
    for(int i = 0, first = 1; i < n; ) {
        int j = i; while( j < n && s[j][0] == s[i][0] && s[j][1] == s[i][1] ) j++;
        if( single ) fprintf(f, "%s%d:%d", first ? "" : ",", s[i][1], j - i);
        else fprintf(f, "%s%d.%d:%d", first ? "" : ",", s[i][0], s[i][1], j - i);
        first = 0; i = j;
    }
    free(s);
}
static void print_reads(FILE *f, logdc_t *l, int single)
{
    static int ev[MAXEV][2]; int n = 0;
    for(int m = 0; m < l->mt; m++) for(int c = 0; c < l->nt; c++) for(int k = 0; k < l->reads[m * l->nt + c] && n < MAXEV; k++) { ev[n][0] = single ? 0 : m; ev[n][1] = single ? (l->one_arg ? c : m) : c; n++; }
    for(int k = 0; k < l->noob && k < 256 && n < MAXEV; k++) { ev[n][0] = single ? 0 : l->oob[k][0]; ev[n][1] = single ? (l->one_arg ? l->oob[k][1] : l->oob[k][0]) : l->oob[k][1]; n++; }
    print_pairs(f, ev, n, single);
}

static void do_reduce(int MT)
{
    static int ev[MAXEV][2];
    if( MT < 1 || MT > MAXT || world != 1 ) { fprintf(out, "reduce %d => bad-op\n", MT); return; }
    logdc_t A, R;
    log_init(&A, MT, 1, 0, "A"); log_init(&R, MT, 1, 0, "R");
    parsec_reduce_taskpool_t *tp = parsec_reduce_new((parsec_tiled_matrix_t*)&A, (parsec_tiled_matrix_t*)&R, NULL);
    parsec_datatype_t newtype;
    parsec_type_create_contiguous(NB * NB, parsec_datatype_int_t, &newtype);
    parsec_arena_datatype_set_type(&tp->arenas_datatypes[PARSEC_reduce_DEFAULT_ADT_IDX], NB * NB * sizeof(int), PARSEC_ARENA_ALIGNMENT_SSE, newtype);
    int rc; char *cap = run_captured((parsec_taskpool_t*)tp, &rc);
    int n = 0, bad = 0;
    fprintf(out, "reduce %d ", MT);
    for(char *p = cap, *e; *p; p = e + 1) {
        e = strchr(p, '\n'); if( !e ) e = p + strlen(p) - 1;
        int l, q;
        if( 2 == sscanf(p, "reduce(level = %d, process = %d)", &l, &q) ) { if( n < MAXEV ) { ev[n][0] = l; ev[n][1] = q; n++; } }
        else if( e > p ) bad++;
        if( !*e ) break;
    }
    if( 0 == n ) fputc('-', out);
    for(int k = 0; k < n; k++) fprintf(out, "%s%d.%d", k ? "," : "", ev[k][0], ev[k][1]);
    fprintf(out, " => ");
    if( rc != PARSEC_SUCCESS ) fprintf(out, "error %d\n", rc);
    else {
        fprintf(out, "tasks="); print_pairs(out, ev, n, 0);
        fprintf(out, " reads="); print_reads(out, &A, 1);
        fprintf(out, " rwrites="); print_reads(out, &R, 1);
        fprintf(out, "\n");
    }
    fprintf(out, "#stat reduce_cases 1\n#stat reduce_tasks %d\n#stat reduce_unparsed_lines %d\n#stat reduce_oob_reads %d\n", n, bad, A.noob);
    free(cap);
    PARSEC_OBJ_DESTRUCT(&tp->arenas_datatypes[PARSEC_reduce_DEFAULT_ADT_IDX]);
    parsec_taskpool_free((parsec_taskpool_t*)tp);
    parsec_type_free(&newtype);
    log_fini(&A); log_fini(&R);
}

/* the `operation` handed to reduce_col / reduce_row: counts its invocations */
static int red_ops;
static int red_op(struct parsec_execution_stream_s *es, const void *src, void *dst, void *op_data, ...)
{
    (void)es; (void)src; (void)dst; (void)op_data;
    __atomic_fetch_add(&red_ops, 1, __ATOMIC_SEQ_CST);
    return 0;
}

/* reduce_col.jdf / reduce_row.jdf through the generated constructors (explicit IA JA M N) */
static void do_redcolrow(int row, int d, int nt, int M, int N)
{
    static int ev[MAXEV][2];
    int mt = 1 << d;
    const char *name = row ? "redrow" : "redcol";
    if( d < 0 || d > 5 || nt < 1 || nt > MAXT || world != 1 ) { fprintf(out, "%s %d %d => bad-op\n", name, d, nt); return; }
    logdc_t S, D;
    log_init(&S, mt, nt, 0, "S"); log_init(&D, 1, MAXT, 1, "D");
    parsec_taskpool_t *tp; parsec_arena_datatype_t *adt;
    parsec_datatype_t newtype;
    parsec_type_create_contiguous(NB * NB, parsec_datatype_int_t, &newtype);
    if( row ) {
        parsec_reduce_row_taskpool_t *t = parsec_reduce_row_new((parsec_tiled_matrix_t*)&S, (parsec_tiled_matrix_t*)&D, red_op, NULL, 0, 0, M, N);
        adt = &t->arenas_datatypes[PARSEC_reduce_row_DEFAULT_ADT_IDX]; tp = (parsec_taskpool_t*)t;
    } else {
        parsec_reduce_col_taskpool_t *t = parsec_reduce_col_new((parsec_tiled_matrix_t*)&S, (parsec_tiled_matrix_t*)&D, red_op, NULL, 0, 0, M, N);
        adt = &t->arenas_datatypes[PARSEC_reduce_col_DEFAULT_ADT_IDX]; tp = (parsec_taskpool_t*)t;
    }
    parsec_arena_datatype_set_type(adt, NB * NB * sizeof(int), PARSEC_ARENA_ALIGNMENT_SSE, newtype);
    red_ops = 0;
    int rc; char *cap = run_captured(tp, &rc);
    int n = 0, bad = 0;
    for(char *p = cap, *e; *p; p = e + 1) {
        e = strchr(p, '\n'); if( !e ) e = p + strlen(p) - 1;
        int l, q;
        if( 2 == sscanf(p, row ? "reduce_row level: %d index: %d" : "reduce_col level: %d index: %d", &l, &q) ) { if( n < MAXEV ) { ev[n][0] = l; ev[n][1] = q; n++; } }
        else if( e > p ) bad++;
        if( !*e ) break;
    }
    if( row ) fprintf(out, "redrow %d %d %d => ", d, nt, N); else fprintf(out, "redcol %d %d %d %d => ", d, nt, M, N);
    if( rc != PARSEC_SUCCESS ) fprintf(out, "error %d\n", rc);
    else {
        fprintf(out, "tasks="); print_pairs(out, ev, n, 0);
        fprintf(out, " reads="); print_reads(out, &S, 0);
        fprintf(out, " dest="); print_reads(out, &D, 1);
        fprintf(out, " ops=%d\n", red_ops);
    }
    fprintf(out, "#stat redcolrow_cases 1\n#stat redcolrow_tasks %d\n#stat redcolrow_unparsed_lines %d\n", n, bad);
    free(cap);
    PARSEC_OBJ_DESTRUCT(adt);
    parsec_taskpool_free(tp);
    parsec_type_free(&newtype);
    log_fini(&S); log_fini(&D);
}

/* ------------------------------------------------------------------ free-running wide-matrix search */
static int wide_op(struct parsec_execution_stream_s *es, const void *src, void *dst, void *op_data, ...)
{
    va_list ap; va_start(ap, op_data);
    int m = va_arg(ap, int), n = va_arg(ap, int);
    va_end(ap);
    (void)es; (void)src; (void)dst; (void)op_data;
    if( m < 0 || n < 0 || m >= w_mt || n >= w_nt ) __atomic_fetch_add(&w_oob, 1, __ATOMIC_RELAXED);
    else __atomic_fetch_add(&w_cnt[(size_t)m * w_nt + n], 1, __ATOMIC_RELAXED);
    return 0;
}

static void do_mapwide(int mt, int nt)
{
    parsec_matrix_block_cyclic_t A;
    if( mt < 1 || nt < 1 || (long)mt * nt > 4000000 || world != 1 ) { fprintf(out, "mapwide %d %d => bad-op\n", mt, nt); return; }
    parsec_matrix_block_cyclic_init(&A, PARSEC_MATRIX_INTEGER, PARSEC_MATRIX_TILE, myrank, 1, 1, mt, nt, 0, 0, mt, nt, 1, 1, 1, 1, 0, 0);
    A.mat = parsec_data_allocate((size_t)mt * nt * sizeof(int));
    memset(A.mat, 0, (size_t)mt * nt * sizeof(int));
    parsec_data_collection_set_key(&A.super.super, "W");
    w_cnt = calloc((size_t)mt * nt, sizeof(int)); w_mt = mt; w_nt = nt; w_oob = 0; m_nev = 0;
    parsec_taskpool_t *tp = parsec_map_operator_New((parsec_tiled_matrix_t*)&A, (parsec_tiled_matrix_t*)&A, wide_op, "C22w");
    map_tp_mirror_t *mir = (map_tp_mirror_t*)tp;
    int mirror_ok = (mir->src == (parsec_tiled_matrix_t*)&A && mir->op == wide_op && mir->next_n == 0);
    pthread_t wd;
    snprintf(wd_desc, sizeof wd_desc, "(wide) %d %d 1 1", mt, nt); wd_tp = tp; wd_hang = 0; wd_armed = 1; pthread_create(&wd, NULL, watchdog, NULL);
    int rc = parsec_context_add_taskpool(parsec, tp);
    if( rc == PARSEC_SUCCESS ) rc = parsec_context_start(parsec);
    if( rc == PARSEC_SUCCESS ) rc = parsec_context_wait(parsec);
    wd_armed = 0; pthread_join(wd, NULL);
    int next = mirror_ok ? (int)mir->next_n : -1;
    long never = 0, twice = 0;
    for(size_t k = 0; k < (size_t)mt * nt; k++) { never += (w_cnt[k] == 0); twice += (w_cnt[k] > 1); }
    fprintf(out, "mapwide %d %d %d => ", mt, nt, parsec->virtual_processes[0]->nb_cores);
    if( rc != PARSEC_SUCCESS ) fprintf(out, "error %d\n", rc);
    else if( 0 == never && 0 == twice && 0 == w_oob ) fprintf(out, "ok tiles=%ld next=%d\n", (long)mt * nt, next);
    else {
        fprintf(out, "bad never=%ld twice=%ld oob=%d", never, twice, w_oob);
        int shown = 0;
        fprintf(out, " first-never=");
        for(size_t k = 0; k < (size_t)mt * nt && shown < 4; k++) if( w_cnt[k] == 0 ) { fprintf(out, "(%d,%d)", (int)(k / nt), (int)(k % nt)); shown++; }
        shown = 0;
        fprintf(out, " first-twice=");
        for(size_t k = 0; k < (size_t)mt * nt && shown < 4; k++) if( w_cnt[k] > 1 ) { fprintf(out, "(%d,%d):%d", (int)(k / nt), (int)(k % nt), w_cnt[k]); shown++; }
        fprintf(out, " next=%d\n", next);
    }
    fprintf(out, "#stat mapwide_cases 1\n#stat mapwide_tiles %ld\n#stat mapwide_cores_%d 1\n", (long)mt * nt, parsec->virtual_processes[0]->nb_cores);
    parsec_taskpool_free(tp);
    free(w_cnt); w_cnt = NULL;
    parsec_data_free(A.mat);
    parsec_tiled_matrix_destroy((parsec_tiled_matrix_t*)&A);
}

static void do_wrapper(const char *which, int mt, int nt)
{
    parsec_matrix_block_cyclic_t S, D;
    fprintf(out, "#begin wrapper %s %d %d\n", which, mt, nt); fflush(out);
    mat_init(&S, mt, nt, 1, 1, "S"); mat_init(&D, mt, nt, 1, 1, "D");
    parsec_taskpool_t *tp = !strcmp(which, "col") ? parsec_reduce_col_New((parsec_tiled_matrix_t*)&S, (parsec_tiled_matrix_t*)&D, NULL, NULL)
                                                  : parsec_reduce_row_New((parsec_tiled_matrix_t*)&S, (parsec_tiled_matrix_t*)&D, NULL, NULL);
    int rc; char *cap = run_captured(tp, &rc);
    free(cap);
    fprintf(out, "wrapper %s %d %d => completed\n", which, mt, nt); fflush(out);
    parsec_taskpool_free(tp);
    mat_fini(&S); mat_fini(&D);
}

int main(int argc, char **argv)
{
    int prov;
    if( argc < 4 ) { fprintf(stderr, "usage: C22 <script> <outprefix> <cores>\n"); return 2; }
    MPI_Init_thread(&argc, &argv, MPI_THREAD_SERIALIZED, &prov);
    MPI_Comm_size(MPI_COMM_WORLD, &world); MPI_Comm_rank(MPI_COMM_WORLD, &myrank);
    prefix = argv[2]; cores = atoi(argv[3]);
    char path[1024]; snprintf(path, sizeof path, "%s.%d", prefix, myrank);
    out = fopen(path, "w");
    FILE *in = fopen(argv[1], "r");
    if( !out || !in ) { fprintf(stderr, "C22 harness: cannot open files\n"); MPI_Abort(MPI_COMM_WORLD, 2); }
    int pargc = 0; char **pargv = NULL;
    parsec = parsec_init(cores, &pargc, &pargv);
    if( !parsec ) die("parsec_init failed");
    char line[512], w[16], w2[16];
    while( fgets(line, sizeof line, in) ) {
        int a, b, c, d, e;
        if( 5 == sscanf(line, "apply %d %d %d %d %d", &a, &b, &c, &d, &e) ) do_apply(a, b, c, d, e);
        else if( 4 == sscanf(line, "map %d %d %d %d", &a, &b, &c, &d) ) do_map(a, b, c, d, 0);
        else if( 4 == sscanf(line, "maphang %d %d %d %d", &a, &b, &c, &d) ) do_map(a, b, c, d, 1);
        else if( 2 == sscanf(line, "mapwide %d %d", &a, &b) ) do_mapwide(a, b);
        else if( 1 == sscanf(line, "watchdog %d", &a) ) wd_secs = a;
        else if( 1 == sscanf(line, "reduce %d", &a) ) do_reduce(a);
        else if( 4 == sscanf(line, "redcol %d %d %d %d", &a, &b, &c, &d) ) do_redcolrow(0, a, b, c, d);
        else if( 3 == sscanf(line, "redrow %d %d %d", &a, &b, &c) ) do_redcolrow(1, a, b, (1 << a) - 1, c);
        else if( 3 == sscanf(line, "wrapper %15s %d %d", w2, &a, &b) ) do_wrapper(w2, a, b);
        else if( 2 == sscanf(line, "clog2 %d %d", &a, &b) ) {
            if( 0 == myrank ) { for(int n = a; n <= b; n++) { volatile int mt = n; fprintf(out, "clog2 %d => %d\n", n, (int)ceil(log(mt) / log(2.0))); } fprintf(out, "#stat clog2_values %d\n", b - a + 1); }
        }
        else if( 1 == sscanf(line, "%15s", w) ) fprintf(out, "%s => bad-op\n", w);
        fflush(out);
    }
    fprintf(out, "#end\n");
    fclose(out); fclose(in);
    parsec_fini(&parsec);
    MPI_Finalize();
    return 0;
}
