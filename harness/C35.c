/* C35 harness: the REAL parsec/maxheap.c and parsec/hbbuffer.c (the two source files of the tree under
 * test are compiled into this executable, with assertions on) driven by scripts on stdin.
 *
 * (1) heaps, sequential:      case <k> | hnew <h> | hins <h> <prio> <id> | hrem <h> | hsplit <h> <g>
 *       8 heap slots, task ids 0..255.  Results: `ok`, `ok <dump h>`, `<prio>:<id> <dump h>`,
 *       `<prio>:<id> <dump h> | <dump g>`, `null`, `rejected` (call outside the API precondition, not issued).
 *       dump = `-` (NULL heap) or `<size> <priority> <tree>`, tree = `.` | `(<prio>:<id> <left> <right>)`
 *       (left = list_prev, right = list_next).
 * (2) buffers, sequential:    bnew <size> P <prio of task 1> ... | ba <d> <ids> | by <d> <ids> | bo | bt
 *       ba = push_all, by = push_all_by_priority (ring = comma separated ids or `-`), bo = pop_best,
 *       bt = the caller takes everything back from the parent store.  Results `<res> s=[slots] up=[d:ids ...]`.
 * (3) buffers under the cooperative scheduler, one case per line:
 *       bcase <k> <size> P <prios> S <slot ids, 0 = empty> T <own ids|-> <ops> T ... | <policy>
 *       ops: a:<d>:<ids|->  y:<d>:<ids|->  o        policy: rng SEED | pct SEED D | dfs MAX | replay t0 t1 ...
 *       output: `<case line> => ok`, per step `step <t> => <kind> s=[..] pc=<#parent calls>`, `rets => [..|..]`,
 *       `final => s=[..] parent=[d:ids ..] hands=[..|..]`
 * (4) free-running stress:    bstress <k> <seed> <threads> <size> <tasks> <rounds> <ops per thread and round>
 *       real threads, no scheduler; after every round (quiescent) every task must be in exactly one place.
 */
#include "parsec/parsec_config.h"
#include "parsec/parsec_internal.h"
#include "parsec/class/list_item.h"
#include "parsec/hbbuffer.h"
#include "parsec/maxheap.h"
#include "pv.h"
#include "ctl_sched.h"
#include <pthread.h>
#include <limits.h>

/* ------------------------------------------------------------------ task pool */
#define MAXTASK 256
static parsec_task_t *pool;
static int idof(const volatile void *p)
{
    if( NULL == p ) return -1;
    const char *q = (const char*)p, *b = (const char*)pool;
    if( q < b || q >= b + MAXTASK * sizeof(parsec_task_t) || (q - b) % sizeof(parsec_task_t) ) return -2;
    return (int)((q - b) / sizeof(parsec_task_t));
}

/* ------------------------------------------------------------------ (1) heaps */
#define NH 8
static parsec_heap_t *heaps[NH];
static char in_heap[MAXTASK];
static int budget;

static void dump_tree(parsec_task_t *t)
{
    if( NULL == t ) { printf("."); return; }
    if( --budget < 0 ) { printf("cyclic"); return; }
    int id = idof(t);
    if( id < 0 ) { printf("?"); return; }
    printf("(%d:%d ", (int)t->priority, id);
    dump_tree((parsec_task_t*)t->super.list_prev);
    printf(" ");
    dump_tree((parsec_task_t*)t->super.list_next);
    printf(")");
}
static void dump_heap(parsec_heap_t *h)
{
    if( NULL == h ) { printf("-"); return; }
    budget = 2 * MAXTASK;
    printf("%u %d ", h->size, (int)h->priority);
    dump_tree(h->top);
}
static void heap_reset(void)
{
    for(int i = 0; i < NH; i++) { free(heaps[i]); heaps[i] = NULL; }
    memset(in_heap, 0, sizeof in_heap);
}
static int heap_line(char **w, int n)
{
    char *e;
    if( !strcmp(w[0], "hnew") && n == 2 ) {
        long h = strtol(w[1], &e, 10); if( *e || h < 0 ) return 0;
        if( h >= NH || NULL != heaps[h] ) { printf("rejected\n"); return 1; }
        heaps[h] = heap_create();
        printf("ok\n"); return 1;
    }
    if( !strcmp(w[0], "hins") && n == 4 ) {
        long h = strtol(w[1], &e, 10); if( *e || h < 0 ) return 0;
        long long p = strtoll(w[2], &e, 10); if( *e || p < INT_MIN || p > INT_MAX ) return 0;
        long id = strtol(w[3], &e, 10); if( *e || id < 0 || id >= MAXTASK ) return 0;
        if( h >= NH || NULL == heaps[h] || in_heap[id] ) { printf("rejected\n"); return 1; }
        pool[id].priority = (int32_t)p;
        in_heap[id] = 1;
        heap_insert(heaps[h], &pool[id]);
        printf("ok "); dump_heap(heaps[h]); printf("\n"); return 1;
    }
    if( !strcmp(w[0], "hrem") && n == 2 ) {
        long h = strtol(w[1], &e, 10); if( *e || h < 0 ) return 0;
        if( h >= NH || (NULL != heaps[h] && NULL == heaps[h]->top) ) { printf("rejected\n"); return 1; }
        parsec_task_t *t = heap_remove(&heaps[h]);
        if( NULL == t ) { printf("null\n"); return 1; }
        int id = idof(t);
        if( id >= 0 ) in_heap[id] = 0;
        printf("%d:%d ", (int)t->priority, id); dump_heap(heaps[h]); printf("\n"); return 1;
    }
    if( !strcmp(w[0], "hsplit") && n == 3 ) {
        long h = strtol(w[1], &e, 10); if( *e || h < 0 ) return 0;
        long g = strtol(w[2], &e, 10); if( *e || g < 0 ) return 0;
        if( h >= NH || g >= NH || h == g || NULL != heaps[g] || (NULL != heaps[h] && NULL == heaps[h]->top) ) { printf("rejected\n"); return 1; }
        parsec_task_t *t = heap_split_and_steal(&heaps[h], &heaps[g]);
        if( NULL == t ) { printf("null\n"); return 1; }
        int id = idof(t);
        if( id >= 0 ) in_heap[id] = 0;
        printf("%d:%d ", (int)t->priority, id); dump_heap(heaps[h]); printf(" | "); dump_heap(heaps[g]); printf("\n"); return 1;
    }
    return 0;
}

/* ------------------------------------------------------------------ buffers: common */
#define MAXB 16
#define MAXN 63          /* task ids 1..N */
#define MAXOPS 64
#define MAXRING 16
#define MAXCALLS 4096
static parsec_hbbuffer_t *buf;
static int seq_mode;
static int bsize, N, nthr;
static volatile int owner[MAXN + 1];                   /* 0 = buffer / parent store, t+1 = thread t */
typedef struct { int d, n, ids[MAXN + 2]; } pcall_t;
static pcall_t *pcalls; static volatile int npcalls;
static pthread_mutex_t plock = PTHREAD_MUTEX_INITIALIZER;
static volatile int in_parent[MAXN + 1];
static volatile long ring_errors;
static long dup_errors;

static int bid(const volatile void *p) { int x = idof(p); return x < 0 ? x : x; }   /* pool index = task id */

/* the parent store: records the ring handed over (ring order from the pointer received) */
static void parent_push(void *store, parsec_list_item_t *elt, int32_t distance)
{
    (void)store;
    pthread_mutex_lock(&plock);
    pcall_t *c = &pcalls[npcalls < MAXCALLS ? npcalls : MAXCALLS - 1];
    c->d = distance; c->n = 0;
    parsec_list_item_t *it = elt;
    if( NULL != it ) do {
        int x = bid(it);
        if( x < 1 || x > N || c->n > N ) { ring_errors++; break; }
        c->ids[c->n++] = x;
        in_parent[x]++;
        it = (parsec_list_item_t*)it->list_next;
    } while( it != elt );
    if( npcalls < MAXCALLS ) npcalls++;
    pthread_mutex_unlock(&plock);
}
static void buf_new(int size, int n, const int *prio)
{
    if( buf ) parsec_hbbuffer_destruct(buf);
    bsize = size; N = n;
    buf = parsec_hbbuffer_new((size_t)size, (size_t)size, parent_push, (void*)&plock);
    for(int x = 1; x <= N; x++) { pool[x].priority = prio[x - 1]; pool[x].super.list_next = pool[x].super.list_prev = &pool[x].super; owner[x] = 0; in_parent[x] = 0; }
    npcalls = 0; ring_errors = 0; dup_errors = 0;
}
static parsec_list_item_t *make_ring(const int *ids, int n)
{
    if( 0 == n ) return NULL;
    for(int i = 0; i < n; i++) {
        pool[ids[i]].super.list_next = &pool[ids[(i + 1) % n]].super;
        pool[ids[i]].super.list_prev = &pool[ids[(i + n - 1) % n]].super;
    }
    return &pool[ids[0]].super;
}
typedef struct { int kind; int d; int n; int ids[MAXRING]; } op_t;   /* kind: 'a' 'y' 'o' */
/* returns -1 ok, -2 rejected, >= 0 popped id (0 = NULL), 9999 foreign pointer */
static int do_op(int t, const op_t *o)
{
    if( 'o' == o->kind ) {
        parsec_list_item_t *it = parsec_hbbuffer_pop_best(buf, offsetof(parsec_task_t, priority));
        if( NULL == it ) return 0;
        int x = bid(it);
        if( x < 1 || x > N ) return 9999;
        int prev = __atomic_exchange_n(&owner[x], t + 1, __ATOMIC_SEQ_CST);
        if( 0 != prev ) __atomic_fetch_add(&dup_errors, 1, __ATOMIC_SEQ_CST);     /* the task was not in the buffer: somebody holds it */
        return x;
    }
    for(int i = 0; i < o->n; i++) {
        int x = o->ids[i];
        if( x < 1 || x > N || owner[x] != t + 1 ) return -2;
        for(int j = 0; j < i; j++) if( o->ids[j] == x ) return -2;
    }
    if( 0 == o->n && ('a' == o->kind ? 0 != o->d : 0 == o->d) ) return -2;
    for(int i = 0; i < o->n; i++) owner[o->ids[i]] = 0;
    parsec_list_item_t *ring = make_ring(o->ids, o->n);
    if( 'a' == o->kind ) parsec_hbbuffer_push_all(buf, ring, o->d);
    else parsec_hbbuffer_push_all_by_priority(buf, ring, o->d);
    return -1;
}
static void print_slots(void)
{
    printf("s=[");
    for(int i = 0; i < bsize; i++) { int x = bid((void*)buf->items[i]); printf("%s%d", i ? " " : "", x == -1 ? 0 : x); }
    printf("]");
}
static void print_calls(int from)
{
    for(int c = from; c < npcalls; c++) {
        printf("%s%d:", c > from ? " " : "", pcalls[c].d);
        for(int i = 0; i < pcalls[c].n; i++) printf("%s%d", i ? "," : "", pcalls[c].ids[i]);
    }
}
static int parse_ids(const char *s, int *a, int max)
{
    int n = 0;
    if( !strcmp(s, "-") ) return 0;
    if( !*s ) return -1;
    while( *s ) {
        char *e; long v = strtol(s, &e, 10);
        if( e == s || v < 0 || v > 100000 || n >= max || *s == '+' || *s == '-' ) return -1;
        a[n++] = (int)v; s = e;
        if( *s == ',' ) { s++; if( !*s ) return -1; } else if( *s ) return -1;
    }
    return n;
}
static int parse_int(const char *s, long long *v)
{
    char *e; if( !*s ) return 0;
    *v = strtoll(s, &e, 10);
    return 0 == *e && s[0] != '+' && *v >= INT_MIN && *v <= INT_MAX;
}
/* conservation on the real structures: every task in exactly one place */
static int audit(const char *what)
{
    int bad = 0, cnt[MAXN + 1]; memset(cnt, 0, sizeof cnt);
    for(int i = 0; i < bsize; i++) { int x = bid((void*)buf->items[i]); if( x >= 1 && x <= N ) cnt[x]++; else if( x != -1 ) { printf("!viol C35 buffer slot %d holds a foreign pointer after %s\n", i, what); bad = 1; } }
    for(int x = 1; x <= N; x++) {
        int c = cnt[x] + in_parent[x] + (owner[x] != 0);
        if( c != 1 ) { printf("!viol C35 conservation: task %d is %d time(s) in the slots, %d in the parent store, %s after %s\n", x, cnt[x], in_parent[x], owner[x] ? "held" : "not held", what); bad = 1; }
    }
    if( ring_errors ) { printf("!viol C35 the ring handed to the parent store is broken (%ld) after %s\n", ring_errors, what); bad = 1; }
    if( dup_errors ) { printf("!viol C35 pop_best returned a task that another thread already holds (%ld time(s)): the same task was popped twice, after %s\n", dup_errors, what); bad = 1; }
    return bad;
}

/* ------------------------------------------------------------------ (2) sequential buffer script */
static int bseq_line(char **w, int n)
{
    if( !strcmp(w[0], "bnew") && n >= 4 && !strcmp(w[2], "P") ) {
        long long sz, p; int prio[MAXN];
        if( !parse_int(w[1], &sz) || sz < 1 || sz > MAXB || n - 3 > MAXN ) return 0;
        for(int i = 3; i < n; i++) { if( !parse_int(w[i], &p) ) return 0; prio[i - 3] = (int)p; }
        buf_new((int)sz, n - 3, prio); nthr = 1; seq_mode = 1;
        for(int x = 1; x <= N; x++) owner[x] = 1;
        printf("ok\n"); return 1;
    }
    if( NULL == buf || !seq_mode ) return 0;
    if( (!strcmp(w[0], "ba") || !strcmp(w[0], "by")) && n == 3 ) {
        op_t o; long long d; memset(&o, 0, sizeof o);
        o.kind = w[0][1];
        if( !parse_int(w[1], &d) || d == INT_MIN ) return 0;
        o.d = (int)d; o.n = parse_ids(w[2], o.ids, MAXRING);
        if( o.n < 0 ) return 0;
        for(int i = 0; i < o.n; i++) if( o.ids[i] < 1 || o.ids[i] > N ) return 0;
        int c0 = npcalls, r = do_op(0, &o);
        if( -2 == r ) { printf("rejected\n"); return 1; }
        printf("ok "); print_slots(); printf(" up=["); print_calls(c0); printf("]\n");
        audit(w[0]);
        return 1;
    }
    if( !strcmp(w[0], "bo") && n == 1 ) {
        op_t o; memset(&o, 0, sizeof o); o.kind = 'o';
        int r = do_op(0, &o);
        printf("%d ", r); print_slots(); printf(" up=[]\n");
        audit("bo");
        return 1;
    }
    if( !strcmp(w[0], "bt") && n == 1 ) {
        for(int x = 1; x <= N; x++) if( in_parent[x] ) { in_parent[x] = 0; owner[x] = 1; }
        npcalls = 0;
        printf("ok\n"); return 1;
    }
    return 0;
}

/* ------------------------------------------------------------------ (3) cooperative scheduler */
static op_t prog[CTL_MAXT][MAXOPS]; static int nops[CTL_MAXT];
static int res[CTL_MAXT][MAXOPS]; static volatile int ndone[CTL_MAXT];
static int prio0[MAXN], slot0[MAXB], own0[CTL_MAXT][MAXN], nown0[CTL_MAXT];

static void body(int t, void *arg)
{
    (void)arg;
    for(int i = 0; i < nops[t]; i++) { res[t][i] = do_op(t, &prog[t][i]); ndone[t] = i + 1; }
}
static const char *kname(int tid)
{
    int k = ctl_kind_of(tid);
    if( k == CTL_K_DONE ) return "done";
    if( k == CTL_K_START ) return "start";
    if( k == PARSEC_VERIF_K_CAS ) return "cas";
    return "other";
}
static void observe(void *o, int step, int t)
{
    (void)o; (void)step;
    printf("step %d => %s ", t, kname(t)); print_slots(); printf(" pc=%d\n", npcalls);
}
static int parse_op(const char *w0, op_t *o)
{
    char w[256]; memset(o, 0, sizeof *o);
    if( strlen(w0) >= sizeof w ) return 0;
    strcpy(w, w0);
    if( !strcmp(w, "o") ) { o->kind = 'o'; return 1; }
    if( (w[0] != 'a' && w[0] != 'y') || w[1] != ':' ) return 0;
    char *c = strchr(w + 2, ':'); long long d;
    if( !c ) return 0;
    *c = 0;
    if( !parse_int(w + 2, &d) || d == INT_MIN ) return 0;
    o->kind = w[0]; o->d = (int)d; o->n = parse_ids(c + 1, o->ids, MAXRING);
    return o->n >= 0;
}
static int parse_bcase(char **tok, int nt)
{
    long long v; int i, seen[MAXN + 1];
    if( nt < 6 || strcmp(tok[0], "bcase") || !parse_int(tok[2], &v) || v < 1 || v > MAXB || strcmp(tok[3], "P") ) return 0;
    int size = (int)v, n = 0;
    for(i = 4; i < nt && strcmp(tok[i], "S"); i++) { if( n >= MAXN || !parse_int(tok[i], &v) ) return 0; prio0[n++] = (int)v; }
    if( n < 1 || i >= nt ) return 0;
    memset(seen, 0, sizeof seen);
    int ns = 0;
    for(i++; i < nt && strcmp(tok[i], "T"); i++) {
        if( ns >= size || !parse_int(tok[i], &v) || v < 0 || v > n || tok[i][0] == '-' ) return 0;
        if( v && seen[v] ) return 0;
        if( v ) seen[v] = 1;
        slot0[ns++] = (int)v;
    }
    if( ns != size ) return 0;
    nthr = 0;
    while( i < nt ) {
        if( strcmp(tok[i], "T") || nthr >= CTL_MAXT || i + 1 >= nt ) return 0;
        int t = nthr++; i++;
        nops[t] = 0;
        nown0[t] = parse_ids(tok[i], own0[t], MAXN);
        if( nown0[t] < 0 ) return 0;
        for(int j = 0; j < nown0[t]; j++) { int x = own0[t][j]; if( x < 1 || x > n || seen[x] ) return 0; seen[x] = 1; }
        for(i++; i < nt && strcmp(tok[i], "T"); i++) {
            if( nops[t] >= MAXOPS || !parse_op(tok[i], &prog[t][nops[t]]) ) return 0;
            op_t *o = &prog[t][nops[t]];
            for(int j = 0; j < o->n; j++) if( o->ids[j] < 1 || o->ids[j] > n ) return 0;
            nops[t]++;
        }
    }
    if( nthr < 1 ) return 0;
    bsize = size; N = n;
    return 1;
}
static void reset_bcase(void)
{
    buf_new(bsize, N, prio0); seq_mode = 0;
    for(int i = 0; i < bsize; i++) buf->items[i] = slot0[i] ? &pool[slot0[i]].super : NULL;
    for(int x = 1; x <= N; x++) owner[x] = 0;
    /* tasks that are nowhere at the start belong to a non-existing thread */
    for(int x = 1; x <= N; x++) { int used = 0; for(int i = 0; i < bsize; i++) if( slot0[i] == x ) used = 1; if( !used ) owner[x] = nthr + 1; }
    for(int t = 0; t < nthr; t++) { for(int j = 0; j < nown0[t]; j++) owner[own0[t][j]] = t + 1; ndone[t] = 0; }
}
typedef struct { int prio[CTL_MAXT]; int ncp, cp[8], low; } pct_t;
static void pct_init(pct_t *p, pv_rng_t *r, int n, int depth, int ksteps)
{
    int perm[CTL_MAXT];
    for(int i = 0; i < n; i++) perm[i] = i;
    for(int i = n - 1; i > 0; i--) { int j = (int)pv_below(r, (uint64_t)i + 1), x = perm[i]; perm[i] = perm[j]; perm[j] = x; }
    for(int i = 0; i < n; i++) p->prio[perm[i]] = depth + i;
    p->ncp = depth - 1 > 8 ? 8 : (depth - 1 < 0 ? 0 : depth - 1);
    for(int i = 0; i < p->ncp; i++) p->cp[i] = (int)pv_below(r, (uint64_t)(ksteps > 0 ? ksteps : 1));
    p->low = depth - 1;
}
static int ctl_choose_pct(void *cctx, int step, int ne, const int *enabled)
{
    pct_t *p = (pct_t*)cctx;
    int best = 0;
    for(int i = 1; i < ne; i++) if( p->prio[enabled[i]] > p->prio[enabled[best]] ) best = i;
    for(int i = 0; i < p->ncp; i++) if( p->cp[i] == step ) {
        p->prio[enabled[best]] = p->low--;
        best = 0;
        for(int j = 1; j < ne; j++) if( p->prio[enabled[j]] > p->prio[enabled[best]] ) best = j;
    }
    return best;
}
static void one_run(const char *caseline, ctl_choose_t ch, void *cctx)
{
    static int sched[8192]; int complete;
    reset_bcase();
    printf("%s => ok\n", caseline);
    ctl_run(nthr, body, NULL, ch, cctx, observe, NULL, 8000, sched, &complete);
    if( !complete ) { pv_stat("incomplete_runs", 1); printf("rets => incomplete\n"); return; }
    printf("rets => [");
    for(int t = 0; t < nthr; t++) {
        if( t ) printf(" | ");
        for(int i = 0; i < nops[t]; i++) { if( i ) printf(" "); if( res[t][i] == -1 ) printf("ok"); else if( res[t][i] == -2 ) printf("rej"); else printf("%d", res[t][i]); }
    }
    printf("]\nfinal => "); print_slots(); printf(" parent=["); print_calls(0); printf("] hands=[");
    for(int t = 0; t < nthr; t++) {
        if( t ) printf(" | ");
        int first = 1;
        for(int x = 1; x <= N; x++) if( owner[x] == t + 1 ) { printf("%s%d", first ? "" : " ", x); first = 0; }
    }
    printf("]\n");
    audit(caseline);
}

/* ------------------------------------------------------------------ (4) free-running stress */
static pthread_barrier_t sbar;
static int s_rounds, s_ops, s_stop;
static pv_rng_t srng[CTL_MAXT];
static void *stress_worker(void *p)
{
    int t = (int)(intptr_t)p;
    for(int r = 0; r < s_rounds; r++) {
        pthread_barrier_wait(&sbar);
        if( s_stop ) break;
        for(int i = 0; i < s_ops; i++) {
            int mine[MAXN], nm = 0;
            for(int x = 1; x <= N; x++) if( owner[x] == t + 1 ) mine[nm++] = x;
            op_t o; memset(&o, 0, sizeof o);
            int c = (int)pv_below(&srng[t], 100);
            if( nm > 0 && c < 55 ) {
                o.kind = (c & 1) ? 'a' : 'y';
                o.d = (c < 4) ? 1 : 0;
                o.n = 1 + (int)pv_below(&srng[t], (uint64_t)(nm < 3 ? nm : 3));
                int s = (int)pv_below(&srng[t], (uint64_t)nm);
                for(int j = 0; j < o.n; j++) o.ids[j] = mine[(s + j) % nm];
            } else o.kind = 'o';
            do_op(t, &o);
        }
        pthread_barrier_wait(&sbar);
        pthread_barrier_wait(&sbar);       /* audit done */
    }
    return NULL;
}
static void stress(const char *line, uint64_t seed, int threads, int size, int ntasks, int rounds, int ops)
{
    pthread_t th[CTL_MAXT]; int prio[MAXN];
    pv_rng_t base = { seed };
    for(int i = 0; i < ntasks; i++) prio[i] = (int)pv_range(&base, -3, 6);
    buf_new(size, ntasks, prio); nthr = threads; seq_mode = 0;
    for(int x = 1; x <= N; x++) owner[x] = (x % threads) + 1;
    for(int t = 0; t < threads; t++) srng[t] = pv_fork(&base, (uint64_t)t);
    s_rounds = rounds; s_ops = ops; s_stop = 0;
    pthread_barrier_init(&sbar, NULL, (unsigned)threads + 1);
    for(int t = 0; t < threads; t++) pthread_create(&th[t], NULL, stress_worker, (void*)(intptr_t)t);
    printf("%s => ok\n", line);
    long tot = 0; int done = 0;
    for(int r = 0; r < rounds; r++) {
        pthread_barrier_wait(&sbar);
        pthread_barrier_wait(&sbar);
        char what[128]; snprintf(what, sizeof what, "round %d of `%s`", r, line);
        if( audit(what) ) s_stop = 1;
        /* hand the overflow back to the threads so that the traffic goes on */
        for(int x = 1; x <= N; x++) if( in_parent[x] ) { in_parent[x] = 0; owner[x] = (x + r) % threads + 1; }
        npcalls = 0;
        tot += (long)threads * ops; done++;
        pthread_barrier_wait(&sbar);
        if( s_stop ) break;
    }
    if( s_stop && done < rounds ) pthread_barrier_wait(&sbar);
    for(int t = 0; t < threads; t++) pthread_join(th[t], NULL);
    pthread_barrier_destroy(&sbar);
    pv_stat("stress_ops", tot); pv_stat("stress_rounds", done);
}

int main(void)
{
    static char line[16384], caseline[16384];
    setvbuf(stdout, NULL, _IOFBF, 1 << 20);
    pool = calloc(MAXTASK, sizeof(parsec_task_t));
    pcalls = calloc(MAXCALLS, sizeof(pcall_t));
    while( fgets(line, sizeof line, stdin) ) {
        static char *tok[2048]; int nt = 0;
        line[strcspn(line, "\n")] = 0;
        strcpy(caseline, line);
        if( !strncmp(line, "bstress ", 8) ) {
            int k, th, sz, ntk, ro, op; unsigned long seed;
            if( 7 != sscanf(line, "bstress %d %lu %d %d %d %d %d", &k, &seed, &th, &sz, &ntk, &ro, &op) || th < 1 || th > CTL_MAXT || sz < 1 || sz > MAXB || ntk < 1 || ntk > MAXN || op < 1 ) { printf("%s => bad-op\n", caseline); continue; }
            stress(caseline, seed, th, sz, ntk, ro, op);
            fflush(stdout);
            continue;
        }
        if( !strncmp(line, "bcase ", 6) ) {
            char *bar = strstr(line, " | ");
            if( !bar ) { printf("%s => bad-op\n", caseline); continue; }
            *bar = 0;
            char *pol = bar + 3;
            for(char *p = strtok(line, " "); p && nt < 2048; p = strtok(NULL, " ")) tok[nt++] = p;
            if( !parse_bcase(tok, nt) ) { printf("%s => bad-op\n", caseline); continue; }
            if( !strncmp(pol, "rng ", 4) ) {
                pv_rng_t r = { strtoull(pol + 4, NULL, 10) };
                one_run(caseline, ctl_choose_rng, &r);
            } else if( !strncmp(pol, "pct ", 4) ) {
                unsigned long sd; int depth, k = 1;
                if( 2 != sscanf(pol + 4, "%lu %d", &sd, &depth) || depth < 1 ) { printf("%s => bad-op\n", caseline); continue; }
                pv_rng_t r = { sd }; pct_t pc;
                for(int t = 0; t < nthr; t++) k += 3 * nops[t] + 1;
                pct_init(&pc, &r, nthr, depth, k);
                one_run(caseline, ctl_choose_pct, &pc);
            } else if( !strncmp(pol, "dfs ", 4) ) {
                long max = atol(pol + 4), cnt = 0; ctl_dfs_t d; ctl_dfs_init(&d);
                do { one_run(caseline, ctl_choose_dfs, &d); cnt++; } while( cnt < max && ctl_dfs_next(&d) );
                pv_stat("dfs_schedules", cnt);
                if( cnt < max ) pv_stat("dfs_exhausted_spaces", 1);
            } else if( !strncmp(pol, "replay", 6) ) {
                static int sc[8192]; int len = 0; char *p = pol + 6;
                while( *p && len < 8192 ) { while( *p == ' ' ) p++; if( !*p ) break; sc[len++] = atoi(p); while( *p && *p != ' ' ) p++; }
                ctl_replay_t rp = { sc, len };
                one_run(caseline, ctl_choose_replay, &rp);
            } else printf("%s => bad-op\n", caseline);
            fflush(stdout);
            continue;
        }
        for(char *p = strtok(line, " "); p && nt < 2048; p = strtok(NULL, " ")) tok[nt++] = p;
        if( 0 == nt ) continue;
        printf("%s => ", caseline);
        if( !strcmp(tok[0], "case") && nt == 2 ) { heap_reset(); if( buf ) { parsec_hbbuffer_destruct(buf); buf = NULL; } seq_mode = 0; printf("ok\n"); }
        else if( tok[0][0] == 'h' ) { if( !heap_line(tok, nt) ) printf("bad-op\n"); }
        else if( tok[0][0] == 'b' ) { if( !bseq_line(tok, nt) ) printf("bad-op\n"); }
        else printf("bad-op\n");
        fflush(stdout);
    }
    heap_reset();
    return 0;
}
