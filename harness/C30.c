/* C30 harness: the REAL lock-free LIFO of parsec/class/lifo.h (header inlines compiled here from the
 * tree under test, 128-bit CAS branch) driven (a) under the cooperative scheduler, (b) free-running.
 *
 * stdin, one case per line:
 *   case <k> <N> S <stack items, top first> T <own> <ops...> T <own> <ops...> ... | <policy>
 *     N      number of items (ids 1..N, 0 = NULL)
 *     own    comma separated item ids owned by the thread at start, or '-'
 *     ops    p<x> push x | c<a>,<b>,.. chain the ring a,b,.. (must already be linked a->b->..) |
 *            o pop | t try_pop | s<x>,<v> write x->list_next = v
 *   policy   rng SEED | pct SEED D | dfs MAX | replay t0 t1 ...
 *            (pct = priority scheduling with D-1 random priority change points: finds orderings of depth D, e.g. the
 *             ABA window "T0 parked before its CAS while T1 runs three whole operations", far more often than rng)
 *   stress line:  stress <k> <seed> <threads> <items> <bursts> <ops per thread and burst> <print every>
 * A call outside the precondition (item not owned by the caller, ring not linked/distinct, v > N) is not
 * issued: result `rej`.
 * stdout:  `<case line> => ok`, then per scheduler step `step <t> => <park kind> c=<counter> h=<head item>`,
 *          `rets => [..|..]` per-thread results, `hist => ..` (op records with invocation / return step, for
 *          the oracle only), `final => c= stack=[..] next=[..]`.
 */
#include "parsec/parsec_config.h"
#include "parsec/class/parsec_object.h"
#include "parsec/class/list_item.h"
#include "parsec/class/lifo.h"
#include "pv.h"
#include "ctl_sched.h"
#include <pthread.h>

#define MAXI 64
#define MAXOPS 64
#define MAXRING 8
enum { OP_PUSH, OP_CHAIN, OP_POP, OP_TRY, OP_SET };
typedef struct { int kind; int n; int a[MAXRING]; } op_t;
typedef struct { int res; int inv, ret; } rec_t;      /* res: -1 ok, -2 rej, >=0 item id */

static parsec_lifo_t lifo;
static parsec_list_item_t items[MAXI + 1];
static int N, nthr;
static volatile int owner[MAXI + 1];
static op_t prog[CTL_MAXT][MAXOPS]; static int nops[CTL_MAXT];
static rec_t rec[CTL_MAXT][MAXOPS]; static volatile int ndone[CTL_MAXT];
static volatile int cur_step;

static int idof(const volatile void *p)
{
    if( NULL == p ) return 0;
    const parsec_list_item_t *q = (const parsec_list_item_t*)p;
    if( q >= &items[1] && q <= &items[MAXI] ) return (int)(q - items);
    return -1;
}
static parsec_list_item_t *ptr(int id) { return id ? &items[id] : NULL; }

/* one operation on the real LIFO by thread t; returns the result code */
static int do_op(int t, const op_t *o)
{
    switch( o->kind ) {
    case OP_PUSH: case OP_CHAIN: {
        for(int i = 0; i < o->n; i++) {
            int x = o->a[i];
            if( x < 1 || x > N || owner[x] != t + 1 ) return -2;
            for(int j = 0; j < i; j++) if( o->a[j] == x ) return -2;
        }
        for(int i = 0; i + 1 < o->n; i++)
            if( items[o->a[i]].list_next != &items[o->a[i + 1]] ) return -2;
        for(int i = 0; i < o->n; i++) owner[o->a[i]] = 0;
        if( OP_PUSH == o->kind ) parsec_lifo_push(&lifo, &items[o->a[0]]);
        else {
            items[o->a[0]].list_prev = &items[o->a[o->n - 1]];
            parsec_lifo_chain(&lifo, &items[o->a[0]]);
        }
        return -1;
    }
    case OP_POP: case OP_TRY: {
        parsec_list_item_t *it = (OP_POP == o->kind) ? parsec_lifo_pop(&lifo) : parsec_lifo_try_pop(&lifo);
        int x = idof(it);
        if( x > 0 ) owner[x] = t + 1;
        return x < 0 ? 9999 : x;
    }
    case OP_SET: {
        int x = o->a[0], v = o->a[1];
        if( x < 1 || x > N || owner[x] != t + 1 || v < 0 || v > N ) return -2;
        items[x].list_next = ptr(v);
        return -1;
    }
    }
    return -2;
}

static void body(int t, void *arg)
{
    (void)arg;
    for(int i = 0; i < nops[t]; i++) {
        rec[t][i].inv = cur_step;
        rec[t][i].res = do_op(t, &prog[t][i]);
        rec[t][i].ret = cur_step;
        ndone[t] = i + 1;
    }
}

static const char *kname(int tid)
{
    int k = ctl_kind_of(tid);
    if( k == CTL_K_DONE ) return "done";
    if( k == CTL_K_START ) return "start";
    if( k == PARSEC_VERIF_K_CAS ) return "cas";
    if( k == PARSEC_VERIF_K_FENCE ) return "fence";
    return "other";
}
static void observe(void *o, int step, int t)
{
    (void)o;
    printf("step %d => %s c=%ld h=%d\n", t, kname(t), (long)lifo.lifo_head.data.guard.counter, idof(lifo.lifo_head.data.item));
    cur_step = step + 1;
}

static void print_res(int r) { if( r == -1 ) printf("ok"); else if( r == -2 ) printf("rej"); else printf("%d", r); }
static void print_op(const op_t *o)
{
    static const char L[] = "pcots";
    printf("%c", L[o->kind]);
    for(int i = 0; i < o->n; i++) printf("%s%d", i ? "," : "", o->a[i]);
}
static int walk(int *out)   /* follows list_next from the head; -1 on a cycle / foreign pointer */
{
    int n = 0;
    for(volatile parsec_list_item_t *p = lifo.lifo_head.data.item; NULL != p; p = p->list_next) {
        int x = idof((void*)p);
        if( x <= 0 || n > N ) return -1;
        out[n++] = x;
    }
    return n;
}

/* parse "3,4,5" into a[]; returns count or -1 */
static int parse_ids(const char *s, int *a, int max)
{
    int n = 0;
    if( !*s ) return -1;
    while( *s ) {
        char *e; long v = strtol(s, &e, 10);
        if( e == s || v < 0 || v > 100000 || n >= max ) return -1;
        a[n++] = (int)v; s = e;
        if( *s == ',' ) { s++; if( !*s ) return -1; } else if( *s ) return -1;
    }
    return n;
}
static int parse_op(const char *w, op_t *o)
{
    memset(o, 0, sizeof *o);
    switch( w[0] ) {
    case 'p': o->kind = OP_PUSH; o->n = parse_ids(w + 1, o->a, 1); return o->n == 1;
    case 'c': o->kind = OP_CHAIN; o->n = parse_ids(w + 1, o->a, MAXRING); return o->n >= 1;
    case 'o': o->kind = OP_POP; return w[1] == 0;
    case 't': o->kind = OP_TRY; return w[1] == 0;
    case 's': o->kind = OP_SET; o->n = parse_ids(w + 1, o->a, 2); return o->n == 2;
    }
    return 0;
}

static int stack0[MAXI], nstack0, own0[CTL_MAXT][MAXI], nown0[CTL_MAXT];
static int parse_case(char **tok, int nt)
{
    int i = 3, seen[MAXI + 1];
    if( nt < 4 || strcmp(tok[0], "case") ) return 0;
    N = atoi(tok[2]);
    if( N < 1 || N > MAXI || strcmp(tok[3], "S") ) return 0;
    memset(seen, 0, sizeof seen); nstack0 = 0; nthr = 0;
    for(i = 4; i < nt && strcmp(tok[i], "T"); i++) {
        int x = atoi(tok[i]);
        if( tok[i][strspn(tok[i], "0123456789")] || x < 1 || x > N || seen[x] ) return 0;
        seen[x] = 1; stack0[nstack0++] = x;
    }
    while( i < nt ) {
        if( strcmp(tok[i], "T") || nthr >= CTL_MAXT || i + 1 >= nt ) return 0;
        int t = nthr++; i++;
        nown0[t] = 0; nops[t] = 0;
        if( strcmp(tok[i], "-") ) {
            nown0[t] = parse_ids(tok[i], own0[t], MAXI);
            if( nown0[t] < 0 ) return 0;
            for(int j = 0; j < nown0[t]; j++) { int x = own0[t][j]; if( x < 1 || x > N || seen[x] ) return 0; seen[x] = 1; }
        }
        for(i++; i < nt && strcmp(tok[i], "T"); i++) {
            if( nops[t] >= MAXOPS || !parse_op(tok[i], &prog[t][nops[t]]) ) return 0;
            nops[t]++;
        }
    }
    return nthr >= 1;
}
static void reset_state(void)
{
    PARSEC_OBJ_CONSTRUCT(&lifo, parsec_lifo_t);
    for(int x = 1; x <= N; x++) { PARSEC_OBJ_CONSTRUCT(&items[x], parsec_list_item_t); items[x].list_next = NULL; items[x].list_prev = NULL; owner[x] = nthr + 1; }
    for(int i = nstack0 - 1; i >= 0; i--) { parsec_lifo_nolock_push(&lifo, &items[stack0[i]]); owner[stack0[i]] = 0; }
    for(int t = 0; t < nthr; t++) { for(int j = 0; j < nown0[t]; j++) owner[own0[t][j]] = t + 1; ndone[t] = 0; }
    cur_step = 0;
}

/* PCT-style chooser: run the enabled thread of highest priority; at each change point the running thread drops to the lowest */
typedef struct { int prio[CTL_MAXT]; int ncp, cp[8], low; } pct_t;
static void pct_init(pct_t *p, pv_rng_t *r, int n, int depth, int ksteps)
{
    int perm[CTL_MAXT];
    for(int i = 0; i < n; i++) perm[i] = i;
    for(int i = n - 1; i > 0; i--) { int j = (int)pv_below(r, (uint64_t)i + 1), x = perm[i]; perm[i] = perm[j]; perm[j] = x; }
    for(int i = 0; i < n; i++) p->prio[perm[i]] = depth + i;
    p->ncp = depth - 1 > 8 ? 8 : (depth - 1 < 0 ? 0 : depth - 1);
    for(int i = 0; i < p->ncp; i++) p->cp[i] = (int)pv_below(r, (uint64_t)(ksteps > 0 ? ksteps : 1));
    p->low = depth - 1;
}
static int ctl_choose_pct(void *cctx, int step, int ne, const int *enabled)
{
    pct_t *p = (pct_t*)cctx;
    int best = 0;
    for(int i = 1; i < ne; i++) if( p->prio[enabled[i]] > p->prio[enabled[best]] ) best = i;
    for(int i = 0; i < p->ncp; i++) if( p->cp[i] == step ) {
        p->prio[enabled[best]] = p->low--;
        best = 0;
        for(int j = 1; j < ne; j++) if( p->prio[enabled[j]] > p->prio[enabled[best]] ) best = j;
    }
    return best;
}

static void one_run(const char *caseline, ctl_choose_t ch, void *cctx)
{
    static int sched[8192]; int complete;
    reset_state();
    printf("%s => ok\n", caseline);
    ctl_run(nthr, body, NULL, ch, cctx, observe, NULL, 8000, sched, &complete);
    if( !complete ) { pv_stat("incomplete_runs", 1); printf("rets => incomplete\n"); return; }
    printf("rets => [");
    for(int t = 0; t < nthr; t++) {
        if( t ) printf(" | ");
        for(int i = 0; i < nops[t]; i++) { if( i ) printf(" "); print_res(rec[t][i].res); }
    }
    printf("]\nhist =>");
    for(int t = 0; t < nthr; t++) for(int i = 0; i < nops[t]; i++) {
        printf(" %d:", t); print_op(&prog[t][i]); printf(":"); print_res(rec[t][i].res); printf(":%d:%d", rec[t][i].inv, rec[t][i].ret);
    }
    int st[MAXI + 2], n = walk(st);
    printf("\nfinal => c=%ld stack=", (long)lifo.lifo_head.data.guard.counter);
    if( n < 0 ) printf("broken"); else { printf("["); for(int i = 0; i < n; i++) printf("%s%d", i ? " " : "", st[i]); printf("]"); }
    printf(" next=[");
    for(int x = 1; x <= N; x++) { int v = idof((void*)items[x].list_next); if( x > 1 ) printf(" "); if( v < 0 ) printf("?"); else printf("%d", v); }
    printf("]\n");
    /* conservation, evaluated on the real structure */
    int cnt[MAXI + 1]; memset(cnt, 0, sizeof cnt);
    for(int i = 0; i < n; i++) cnt[st[i]]++;
    for(int x = 1; x <= N; x++) {
        int held = owner[x] != 0;
        if( n >= 0 && cnt[x] + held != 1 )
            printf("!viol C30 conservation: item %d is %d time(s) in the LIFO and %s by a thread after %s\n", x, cnt[x], held ? "held" : "not held", caseline);
    }
    if( n < 0 ) printf("!viol C30 structure: the LIFO chain is cyclic or leaves the item pool after %s\n", caseline);
}

/* ------------------------------------------------------------------ free-running stress */
typedef struct { int kind, n, a[3], res; long inv, ret; } srec_t;
static pthread_barrier_t sbar;
static volatile long sclock;
static int s_bursts, s_ops, s_every, s_stop;
static srec_t *srec[CTL_MAXT];
static pv_rng_t srng[CTL_MAXT];
static long s_viol = 0;

static void *stress_worker(void *p)
{
    int t = (int)(intptr_t)p;
    int mine[MAXI], nm;
    for(int b = 0; b < s_bursts; b++) {
        pthread_barrier_wait(&sbar);
        if( s_stop ) break;
        for(int i = 0; i < s_ops; i++) {
            srec_t *r = &srec[t][i];
            nm = 0; for(int x = 1; x <= N; x++) if( owner[x] == t + 1 ) mine[nm++] = x;
            int c = (int)pv_below(&srng[t], 100);
            op_t o; memset(&o, 0, sizeof o);
            if( nm > 0 && c < 45 ) {
                if( nm >= 2 && c < 15 ) {
                    o.kind = OP_CHAIN; o.n = (nm >= 3 && c < 5) ? 3 : 2;
                    int s = (int)pv_below(&srng[t], (uint64_t)nm);
                    for(int j = 0; j < o.n; j++) o.a[j] = mine[(s + j) % nm];
                    for(int j = 0; j + 1 < o.n; j++) items[o.a[j]].list_next = &items[o.a[j + 1]];
                } else { o.kind = (c & 1) ? OP_PUSH : OP_CHAIN; o.n = 1; o.a[0] = mine[pv_below(&srng[t], (uint64_t)nm)]; }
            } else o.kind = (c < 80) ? OP_POP : OP_TRY;
            r->kind = o.kind; r->n = o.n; for(int j = 0; j < 3; j++) r->a[j] = o.a[j];
            r->inv = __atomic_fetch_add(&sclock, 1, __ATOMIC_SEQ_CST);
            r->res = do_op(t, &o);
            r->ret = __atomic_fetch_add(&sclock, 1, __ATOMIC_SEQ_CST);
        }
        pthread_barrier_wait(&sbar);
        /* thread 0 audits while everybody waits */
        pthread_barrier_wait(&sbar);
    }
    return NULL;
}
static void stress(const char *line, uint64_t seed, int threads, int nitems, int bursts, int ops, int every)
{
    pthread_t th[CTL_MAXT];
    N = nitems; nthr = threads; nstack0 = 0;
    for(int t = 0; t < threads; t++) { nown0[t] = 0; nops[t] = 0; }
    for(int x = 1; x <= N; x++) { if( x % 2 ) stack0[nstack0++] = x; else { int t = (x / 2) % threads; own0[t][nown0[t]++] = x; } }
    reset_state();
    s_bursts = bursts; s_ops = ops; s_every = every; s_stop = 0; sclock = 0;
    pv_rng_t base = { seed };
    for(int t = 0; t < threads; t++) { srec[t] = calloc((size_t)ops, sizeof(srec_t)); srng[t] = pv_fork(&base, (uint64_t)t); }
    pthread_barrier_init(&sbar, NULL, (unsigned)threads + 1);
    for(int t = 0; t < threads; t++) pthread_create(&th[t], NULL, stress_worker, (void*)(intptr_t)t);
    printf("%s => ok\n", line);
    long totops = 0; int done_bursts = 0;
    for(int b = 0; b < bursts; b++) {
        int st0[MAXI + 2], n0 = walk(st0);
        pthread_barrier_wait(&sbar);       /* start of the burst */
        pthread_barrier_wait(&sbar);       /* end of the burst */
        int st[MAXI + 2], n = walk(st), cnt[MAXI + 1], bad = 0;
        memset(cnt, 0, sizeof cnt);
        for(int i = 0; i < n; i++) cnt[st[i]]++;
        if( n < 0 ) bad = 1;
        for(int x = 1; x <= N && !bad; x++) if( cnt[x] + (owner[x] != 0) != 1 ) bad = 1;
        totops += (long)threads * ops; done_bursts++;
        if( (long)threads * ops <= 64 && (bad || (every > 0 && 0 == b % every)) ) {
            /* print the burst for the linearizability oracle: initial stack, op records */
            printf("burst %d =>", b);
            printf(" S"); for(int i = 0; i < n0; i++) printf(" %d", st0[i]);
            printf(" H");
            for(int t = 0; t < threads; t++) for(int i = 0; i < ops; i++) {
                srec_t *r = &srec[t][i]; op_t o; o.kind = r->kind; o.n = r->n; for(int j = 0; j < 3; j++) o.a[j] = r->a[j];
                printf(" %d:", t); print_op(&o); printf(":"); print_res(r->res); printf(":%ld:%ld", r->inv, r->ret);
            }
            printf(" E"); if( n < 0 ) printf(" broken"); else for(int i = 0; i < n; i++) printf(" %d", st[i]);
            printf("\n");
        }
        if( bad ) {
            s_viol++;
            printf("!viol C30 conservation (free-running, %d threads, %d items, seed %lu): after burst %d ", threads, N, (unsigned long)seed, b);
            if( n < 0 ) printf("the LIFO chain is cyclic or leaves the item pool\n");
            else { printf("items in LIFO/held counts:"); for(int x = 1; x <= N; x++) printf(" %d:%d+%d", x, cnt[x], owner[x] != 0); printf("\n"); }
            s_stop = 1;
        }
        pthread_barrier_wait(&sbar);       /* audit done */
        if( s_stop ) break;
    }
    if( s_stop && done_bursts < bursts ) pthread_barrier_wait(&sbar);   /* release the workers into their stop test */
    for(int t = 0; t < threads; t++) pthread_join(th[t], NULL);
    pthread_barrier_destroy(&sbar);
    for(int t = 0; t < threads; t++) free(srec[t]);
    pv_stat("stress_ops", totops); pv_stat("stress_bursts", done_bursts);
}

int main(void)
{
    static char line[16384], caseline[16384];
    setvbuf(stdout, NULL, _IOFBF, 1 << 20);
    while( fgets(line, sizeof line, stdin) ) {
        static char *tok[2048]; int nt = 0;
        line[strcspn(line, "\n")] = 0;
        if( !strncmp(line, "stress ", 7) ) {
            int k, th, ni, bu, op, ev; unsigned long seed;
            strcpy(caseline, line);
            if( 7 != sscanf(line, "stress %d %lu %d %d %d %d %d", &k, &seed, &th, &ni, &bu, &op, &ev) || th < 1 || th > CTL_MAXT || ni < 1 || ni > MAXI || op < 1 ) { printf("%s => bad-op\n", caseline); continue; }
            stress(caseline, seed, th, ni, bu, op, ev);
            fflush(stdout);
            continue;
        }
        char *bar = strstr(line, " | ");
        if( !bar ) { printf("%s => bad-op\n", line); continue; }
        strcpy(caseline, line);            /* echoed in full, policy included */
        *bar = 0;
        char *pol = bar + 3;
        for(char *p = strtok(line, " "); p && nt < 2048; p = strtok(NULL, " ")) tok[nt++] = p;
        if( !parse_case(tok, nt) ) { printf("%s => bad-op\n", caseline); continue; }
        if( !strncmp(pol, "rng ", 4) ) {
            pv_rng_t r = { strtoull(pol + 4, NULL, 10) };
            one_run(caseline, ctl_choose_rng, &r);
        } else if( !strncmp(pol, "pct ", 4) ) {
            unsigned long sd; int depth, k = 1;
            if( 2 != sscanf(pol + 4, "%lu %d", &sd, &depth) || depth < 1 ) { printf("%s => bad-op\n", caseline); continue; }
            pv_rng_t r = { sd }; pct_t pc;
            for(int t = 0; t < nthr; t++) k += 3 * nops[t] + 1;
            pct_init(&pc, &r, nthr, depth, k);
            one_run(caseline, ctl_choose_pct, &pc);
        } else if( !strncmp(pol, "dfs ", 4) ) {
            long max = atol(pol + 4), cnt = 0; ctl_dfs_t d; ctl_dfs_init(&d);
            do { one_run(caseline, ctl_choose_dfs, &d); cnt++; } while( cnt < max && ctl_dfs_next(&d) );
            pv_stat("dfs_schedules", cnt);
            if( cnt < max ) pv_stat("dfs_exhausted_spaces", 1);
        } else if( !strncmp(pol, "replay", 6) ) {
            static int sc[8192]; int len = 0; char *p = pol + 6;
            while( *p && len < 8192 ) { while( *p == ' ' ) p++; if( !*p ) break; sc[len++] = atoi(p); while( *p && *p != ' ' ) p++; }
            ctl_replay_t rp = { sc, len };
            one_run(caseline, ctl_choose_replay, &rp);
        } else printf("%s => bad-op\n", caseline);
    }
    return 0;
}
