/* C31 harness: the REAL inline functions of parsec/class/list.h, list_item.h, dequeue.h, fifo.h.
 *
 *   C31 seq      operation script on stdin, transcript `op => ret | L0=[..] L1=[..] R0=[..] R1=[..]`
 *   C31 conc     concurrent locked calls under the cooperative scheduler (one line = one configuration)
 *   C31 stress   free-running threads (search for a failing execution; no model)
 *
 * Two lists L0, L1, two ring registers R0, R1, a pool of items (id, prio).  Items are printed as
 * prio:id in list_next order; after every operation the list_prev chain of every container is
 * checked to be the mirror image of the list_next chain, and no item may be reachable twice.
 *
 * seq ops (F = flavour: n list nolock, k list locked, d dequeue locked, e dequeue nolock,
 *          f fifo locked, g fifo nolock, t/u/v try variants of list/dequeue/fifo):
 *   case K | pf F L id p | pb F L id p | popf F L | popb F L | cf F L R | cb F L R
 *   ps F L id p | cs F L R | sort F L | unchain F L R | empty F L | has L id | rm L id
 *   ab L pos id p | aa F L pos id p      (pos = g for the ghost element, else the id of an item of L)
 *   rpush R id p | rps R id p | rmerge R R2 | rchop R
 * A call outside the API precondition is not issued and prints `rejected`.
 */
#include "parsec/parsec_config.h"
#include "parsec/class/list.h"
#include "parsec/class/dequeue.h"
#include "parsec/class/fifo.h"
#include "pv.h"
#include "ctl_sched.h"
#include <stddef.h>
#include <limits.h>
#include <sched.h>
#include <signal.h>
#include <unistd.h>

#define MAXID 512
#define PMAX (1 << 30)
typedef struct { parsec_list_item_t super; int prio; int id; int where; } elt_t;
#define OFF offsetof(elt_t, prio)

static elt_t items[MAXID];
static parsec_list_t lists[2];
static parsec_list_item_t *rings[2];
static int inuse;                 /* number of items the harness has handed to containers */
static int lists_ready = 0;

static void reset(void)
{
    if( lists_ready ) {
        for(int i = 0; i < 2; i++) { lists[i].ghost_element.list_next = lists[i].ghost_element.list_prev = &lists[i].ghost_element; PARSEC_OBJ_DESTRUCT(&lists[i]); }
    }
    for(int i = 0; i < 2; i++) { PARSEC_OBJ_CONSTRUCT(&lists[i], parsec_list_t); rings[i] = NULL; }
    for(int i = 0; i < MAXID; i++) { PARSEC_OBJ_CONSTRUCT(&items[i], parsec_list_item_t); items[i].id = i; items[i].prio = 0; items[i].where = 0; }
    lists_ready = 1; inuse = 0;
}

/* watchdog: a call of the real code that never returns (e.g. a cyclic list_next chain) must end the run with a result */
static int wd_secs = 20;
static void wd_fire(int sig)
{
    (void)sig;
    static const char m[] = "\n!viol C31 hang: the real code did not return / reach its next atomic operation within the watchdog delay\n";
    fflush(stdout);
    if( write(1, m, sizeof m - 1) < 0 ) _exit(4);
    _exit(3);
}
static void wd_init(void) { const char *e = getenv("C31_ALARM"); if( e && atoi(e) > 0 ) wd_secs = atoi(e); signal(SIGALRM, wd_fire); }

static int bad_structure = 0;
static void viol(const char *what) { printf("\n!viol C31 structure: %s\n", what); bad_structure = 1; }

/* print a list in list_next order and check the list_prev chain */
static int show_list(int li, char *buf, int n)
{
    parsec_list_t *l = &lists[li];
    parsec_list_item_t *g = &l->ghost_element, *it;
    elt_t *fw[MAXID + 1]; int nf = 0, nb = 0, o = 0;
    for(it = (parsec_list_item_t*)g->list_next; it != g && nf <= MAXID; it = (parsec_list_item_t*)it->list_next) {
        if( (elt_t*)it < items || (elt_t*)it >= items + MAXID ) { viol("list_next leads outside the item pool"); return 0; }
        fw[nf++] = (elt_t*)it;
    }
    if( nf > MAXID ) { viol("list_next chain does not come back to the ghost element"); return 0; }
    for(it = (parsec_list_item_t*)g->list_prev; it != g && nb <= MAXID; it = (parsec_list_item_t*)it->list_prev) {
        if( nb >= nf || fw[nf - 1 - nb] != (elt_t*)it ) { viol("list_prev chain is not the mirror image of the list_next chain"); return 0; }
        nb++;
    }
    if( nb != nf ) { viol("list_prev chain is shorter than the list_next chain"); return 0; }
    o += snprintf(buf + o, n - o, "L%d=[", li);
    for(int i = 0; i < nf; i++) {
        if( fw[i]->where ) { viol("an item is reachable twice"); return 0; }
        fw[i]->where = 1 + li;
        o += snprintf(buf + o, n - o, "%s%d:%d", i ? " " : "", fw[i]->prio, fw[i]->id);
    }
    o += snprintf(buf + o, n - o, "]");
    return nf;
}
static int show_ring(int ri, char *buf, int n)
{
    parsec_list_item_t *r = rings[ri], *it;
    elt_t *fw[MAXID + 1]; int nf = 0, o = 0;
    if( r ) {
        it = r;
        do {
            if( (elt_t*)it < items || (elt_t*)it >= items + MAXID ) { viol("ring list_next leads outside the item pool"); return 0; }
            fw[nf++] = (elt_t*)it; it = (parsec_list_item_t*)it->list_next;
        } while( it != r && nf <= MAXID );
        if( nf > MAXID ) { viol("ring list_next chain does not close"); return 0; }
        it = r;
        for(int i = 0; i < nf; i++) {
            it = (parsec_list_item_t*)it->list_prev;
            if( (elt_t*)it != fw[nf - 1 - i] ) { viol("ring list_prev chain is not the mirror image of the list_next chain"); return 0; }
        }
    }
    o += snprintf(buf + o, n - o, "R%d=[", ri);
    for(int i = 0; i < nf; i++) {
        if( fw[i]->where ) { viol("an item is reachable twice"); return 0; }
        fw[i]->where = 10 + ri;
        o += snprintf(buf + o, n - o, "%s%d:%d", i ? " " : "", fw[i]->prio, fw[i]->id);
    }
    o += snprintf(buf + o, n - o, "]");
    return nf;
}
static void show_all(void)
{
    static char buf[4][MAXID * 24];
    int tot = 0;
    for(int i = 0; i < MAXID; i++) items[i].where = 0;
    tot += show_list(0, buf[0], sizeof buf[0]);
    if( !bad_structure ) tot += show_list(1, buf[1], sizeof buf[1]);
    if( !bad_structure ) tot += show_ring(0, buf[2], sizeof buf[2]);
    if( !bad_structure ) tot += show_ring(1, buf[3], sizeof buf[3]);
    if( bad_structure ) { fflush(stdout); exit(0); }
    if( tot != inuse ) { char m[128]; snprintf(m, sizeof m, "%d items are reachable but %d were handed to the containers", tot, inuse); viol(m); fflush(stdout); exit(0); }
    printf(" | %s %s %s %s\n", buf[0], buf[1], buf[2], buf[3]);
}

static elt_t *fresh(int id, long p)
{
    if( id < 0 || id >= MAXID || items[id].where || p > PMAX || p < -PMAX ) return NULL;
    items[id].prio = (int)p;
    return &items[id];
}
static void pitem(parsec_list_item_t *it) { if( it ) printf("%d:%d", ((elt_t*)it)->prio, ((elt_t*)it)->id); else printf("null"); }

static int has_flavour(const char *set, char f) { return f && strchr(set, f) != NULL; }

static void seq_main(void)
{
    char line[256];
    reset();
    while( fgets(line, sizeof line, stdin) ) {
        char op[16], fs[8], ps[16], extra[8]; int L, R, R2, id; long p;
        line[strcspn(line, "\n")] = 0;
        if( !line[0] ) continue;
        printf("%s => ", line);
        alarm(wd_secs);
        extra[0] = 0;
#define REJ do { printf("rejected\n"); goto next; } while(0)
#define BAD do { printf("bad-op\n"); goto next; } while(0)
#define LOK(x) ((x) == 0 || (x) == 1)
        if( sscanf(line, "case %d%1s", &id, extra) == 1 ) { reset(); printf("ok\n"); goto next; }
        if( sscanf(line, "%15s", op) != 1 ) BAD;
        if( !strcmp(op, "pf") || !strcmp(op, "pb") || !strcmp(op, "ps") ) {
            if( sscanf(line, "%*s %1s %d %d %ld%1s", fs, &L, &id, &p, extra) != 4 || !LOK(L) ) BAD;
            char f = fs[0];
            const char *ok = op[1] == 'f' ? "nkde" : op[1] == 'b' ? "nkdefg" : "nk";
            if( !has_flavour(ok, f) ) BAD;
            elt_t *e = fresh(id, p); if( !e ) REJ;
            parsec_list_t *l = &lists[L]; parsec_list_item_t *it = &e->super;
            if( op[1] == 'f' ) {
                if( f == 'n' ) parsec_list_nolock_push_front(l, it); else if( f == 'k' ) parsec_list_push_front(l, it);
                else if( f == 'd' ) parsec_dequeue_push_front(l, it); else parsec_dequeue_nolock_push_front(l, it);
            } else if( op[1] == 'b' ) {
                if( f == 'n' ) parsec_list_nolock_push_back(l, it); else if( f == 'k' ) parsec_list_push_back(l, it);
                else if( f == 'd' ) parsec_dequeue_push_back(l, it); else if( f == 'e' ) parsec_dequeue_nolock_push_back(l, it);
                else if( f == 'f' ) parsec_fifo_push(l, it); else parsec_fifo_nolock_push(l, it);
            } else {
                if( f == 'n' ) parsec_list_nolock_push_sorted(l, it, OFF); else parsec_list_push_sorted(l, it, OFF);
            }
            inuse++; printf("ok");
        } else if( !strcmp(op, "popf") || !strcmp(op, "popb") ) {
            if( sscanf(line, "%*s %1s %d%1s", fs, &L, extra) != 2 || !LOK(L) ) BAD;
            char f = fs[0]; parsec_list_t *l = &lists[L]; parsec_list_item_t *it = NULL;
            if( !has_flavour(op[3] == 'f' ? "nkdefgtuv" : "nkdetu", f) ) BAD;
            if( op[3] == 'f' ) {
                switch( f ) {
                case 'n': it = parsec_list_nolock_pop_front(l); break; case 'k': it = parsec_list_pop_front(l); break;
                case 'd': it = parsec_dequeue_pop_front(l); break;     case 'e': it = parsec_dequeue_nolock_pop_front(l); break;
                case 'f': it = parsec_fifo_pop(l); break;              case 'g': it = parsec_fifo_nolock_pop(l); break;
                case 't': it = parsec_list_try_pop_front(l); break;    case 'u': it = parsec_dequeue_try_pop_front(l); break;
                default:  it = parsec_fifo_try_pop(l); break;
                }
            } else {
                switch( f ) {
                case 'n': it = parsec_list_nolock_pop_back(l); break;  case 'k': it = parsec_list_pop_back(l); break;
                case 'd': it = parsec_dequeue_pop_back(l); break;      case 'e': it = parsec_dequeue_nolock_pop_back(l); break;
                case 't': it = parsec_list_try_pop_back(l); break;     default:  it = parsec_dequeue_try_pop_back(l); break;
                }
            }
            if( it ) inuse--;
            pitem(it);
        } else if( !strcmp(op, "cf") || !strcmp(op, "cb") || !strcmp(op, "cs") ) {
            if( sscanf(line, "%*s %1s %d %d%1s", fs, &L, &R, extra) != 3 || !LOK(L) || !LOK(R) ) BAD;
            char f = fs[0]; parsec_list_t *l = &lists[L];
            if( !has_flavour(op[1] == 'f' ? "nkde" : op[1] == 'b' ? "nkdefg" : "nk", f) ) BAD;
            if( op[1] != 's' && NULL == rings[R] ) REJ;
            parsec_list_item_t *r = rings[R]; rings[R] = NULL;
            if( op[1] == 'f' ) {
                if( f == 'n' ) parsec_list_nolock_chain_front(l, r); else if( f == 'k' ) parsec_list_chain_front(l, r);
                else if( f == 'd' ) parsec_dequeue_chain_front(l, r); else parsec_dequeue_nolock_chain_front(l, r);
            } else if( op[1] == 'b' ) {
                if( f == 'n' ) parsec_list_nolock_chain_back(l, r); else if( f == 'k' ) parsec_list_chain_back(l, r);
                else if( f == 'd' ) parsec_dequeue_chain_back(l, r); else if( f == 'e' ) parsec_dequeue_nolock_chain_back(l, r);
                else if( f == 'f' ) parsec_fifo_chain(l, r); else parsec_fifo_nolock_chain(l, r);
            } else {
                if( f == 'n' ) parsec_list_nolock_chain_sorted(l, r, OFF); else parsec_list_chain_sorted(l, r, OFF);
            }
            printf("ok");
        } else if( !strcmp(op, "sort") ) {
            if( sscanf(line, "%*s %1s %d%1s", fs, &L, extra) != 2 || !LOK(L) || !has_flavour("nk", fs[0]) ) BAD;
            if( fs[0] == 'n' ) parsec_list_nolock_sort(&lists[L], OFF); else parsec_list_sort(&lists[L], OFF);
            printf("ok");
        } else if( !strcmp(op, "unchain") ) {
            if( sscanf(line, "%*s %1s %d %d%1s", fs, &L, &R, extra) != 3 || !LOK(L) || !LOK(R) || !has_flavour("nk", fs[0]) ) BAD;
            if( rings[R] ) REJ;
            rings[R] = fs[0] == 'n' ? parsec_list_nolock_unchain(&lists[L]) : parsec_list_unchain(&lists[L]);
            printf("%s", rings[R] ? "ring" : "null");
        } else if( !strcmp(op, "empty") ) {
            if( sscanf(line, "%*s %1s %d%1s", fs, &L, extra) != 2 || !LOK(L) || !has_flavour("nkdefg", fs[0]) ) BAD;
            parsec_list_t *l = &lists[L]; int r;
            switch( fs[0] ) {
            case 'n': r = parsec_list_nolock_is_empty(l); break; case 'k': r = parsec_list_is_empty(l); break;
            case 'd': r = parsec_dequeue_is_empty(l); break;     case 'e': r = parsec_dequeue_nolock_is_empty(l); break;
            case 'f': r = parsec_fifo_is_empty(l); break;        default:  r = parsec_fifo_nolock_is_empty(l); break;
            }
            printf("%d", r);
        } else if( !strcmp(op, "has") ) {
            if( sscanf(line, "%*s %d %d%1s", &L, &id, extra) != 2 || !LOK(L) ) BAD;
            if( id < 0 || id >= MAXID ) REJ;
            printf("%d", parsec_list_nolock_contains(&lists[L], &items[id].super));
        } else if( !strcmp(op, "rm") ) {
            if( sscanf(line, "%*s %d %d%1s", &L, &id, extra) != 2 || !LOK(L) ) BAD;
            if( id < 0 || id >= MAXID || items[id].where != 1 + L ) REJ;
            parsec_list_item_t *pr = parsec_list_nolock_remove(&lists[L], &items[id].super);
            inuse--;
            if( pr == &lists[L].ghost_element ) printf("ghost"); else pitem(pr);
        } else if( !strcmp(op, "ab") || !strcmp(op, "aa") ) {
            int isb = op[1] == 'b';
            if( isb ) { if( sscanf(line, "%*s %d %15s %d %ld%1s", &L, ps, &id, &p, extra) != 4 ) BAD; fs[0] = 'n'; }
            else if( sscanf(line, "%*s %1s %d %15s %d %ld%1s", fs, &L, ps, &id, &p, extra) != 5 || !has_flavour("nk", fs[0]) ) BAD;
            if( !LOK(L) ) BAD;
            parsec_list_item_t *pos; char *end;
            if( !strcmp(ps, "g") ) pos = &lists[L].ghost_element;
            else { long pid = strtol(ps, &end, 10); if( *end || end == ps ) BAD; if( pid < 0 || pid >= MAXID || items[pid].where != 1 + L ) REJ; pos = &items[pid].super; }
            elt_t *e = fresh(id, p); if( !e ) REJ;
            if( isb ) parsec_list_nolock_add_before(&lists[L], pos, &e->super);
            else if( fs[0] == 'n' ) parsec_list_nolock_add_after(&lists[L], pos, &e->super);
            else parsec_list_add_after(&lists[L], pos, &e->super);
            inuse++; printf("ok");
        } else if( !strcmp(op, "rpush") || !strcmp(op, "rps") ) {
            if( sscanf(line, "%*s %d %d %ld%1s", &R, &id, &p, extra) != 3 || !LOK(R) ) BAD;
            elt_t *e = fresh(id, p); if( !e ) REJ;
            if( op[1] == 'p' && op[2] == 's' ) rings[R] = parsec_list_item_ring_push_sorted(rings[R], &e->super, OFF);
            else if( NULL == rings[R] ) rings[R] = parsec_list_item_singleton(&e->super);
            else rings[R] = parsec_list_item_ring_push(rings[R], &e->super);
            inuse++; printf("ok");
        } else if( !strcmp(op, "rmerge") ) {
            if( sscanf(line, "%*s %d %d%1s", &R, &R2, extra) != 2 || !LOK(R) || !LOK(R2) ) BAD;
            if( R == R2 || !rings[R] || !rings[R2] ) REJ;
            rings[R] = parsec_list_item_ring_merge(rings[R], rings[R2]); rings[R2] = NULL;
            printf("ok");
        } else if( !strcmp(op, "rchop") ) {
            if( sscanf(line, "%*s %d%1s", &R, extra) != 1 || !LOK(R) ) BAD;
            if( !rings[R] ) REJ;
            parsec_list_item_t *h = rings[R];
            rings[R] = parsec_list_item_ring_chop(h);
            inuse--; pitem(h);
        } else BAD;
        show_all();
        continue;
    next: ;
    }
}

/* ------------------------------------------------------------------ concurrent locked calls */
enum { O_PF, O_PB, O_PS, O_CF, O_CB, O_CS, O_SORT, O_UNCHAIN, O_EMPTY, O_POPF, O_POPB, O_TPOPF, O_TPOPB };
typedef struct { int kind; int nit; int ids[8]; char res[160]; } cop_t;
#define MAXOPS 6
static cop_t prog[CTL_MAXT][MAXOPS]; static int nops[CTL_MAXT];
static volatile int curop[CTL_MAXT];
#define K_BOUNDARY 100

static parsec_list_item_t *mkring(cop_t *o)
{
    parsec_list_item_t *r = parsec_list_item_singleton(&items[o->ids[0]].super);
    for(int i = 1; i < o->nit; i++) parsec_list_item_ring_push(r, &items[o->ids[i]].super);
    return r;
}
static void ritem(cop_t *o, parsec_list_item_t *it) { if( it ) snprintf(o->res, sizeof o->res, "%d:%d", ((elt_t*)it)->prio, ((elt_t*)it)->id); else strcpy(o->res, "null"); }
static void do_op(cop_t *o)
{
    parsec_list_t *l = &lists[0];
    strcpy(o->res, "ok");
    switch( o->kind ) {
    case O_PF: parsec_list_push_front(l, &items[o->ids[0]].super); break;
    case O_PB: parsec_list_push_back(l, &items[o->ids[0]].super); break;
    case O_PS: parsec_list_push_sorted(l, &items[o->ids[0]].super, OFF); break;
    case O_CF: parsec_list_chain_front(l, mkring(o)); break;
    case O_CB: parsec_list_chain_back(l, mkring(o)); break;
    case O_CS: parsec_list_chain_sorted(l, mkring(o), OFF); break;
    case O_SORT: parsec_list_sort(l, OFF); break;
    case O_UNCHAIN: {
        parsec_list_item_t *r = parsec_list_unchain(l), *it = r; int n = 0, oo = 0;
        oo += snprintf(o->res + oo, sizeof o->res - oo, "ring[");
        if( r ) do { oo += snprintf(o->res + oo, sizeof o->res - oo, "%s%d:%d", n ? " " : "", ((elt_t*)it)->prio, ((elt_t*)it)->id); n++; it = (parsec_list_item_t*)it->list_next; } while( it != r && n < 16 );
        snprintf(o->res + oo, sizeof o->res - oo, "]");
        break; }
    case O_EMPTY: snprintf(o->res, sizeof o->res, "%d", parsec_list_is_empty(l)); break;
    case O_POPF: ritem(o, parsec_list_pop_front(l)); break;
    case O_POPB: ritem(o, parsec_list_pop_back(l)); break;
    case O_TPOPF: ritem(o, parsec_list_try_pop_front(l)); break;
    case O_TPOPB: ritem(o, parsec_list_try_pop_back(l)); break;
    }
}
static void cbody(int tid, void *arg)
{
    (void)arg;
    for(int k = 0; k < nops[tid]; k++) {
        if( k ) ctl_yield_cb(K_BOUNDARY, NULL);
        do_op(&prog[tid][k]);
        curop[tid] = k + 1;
    }
}
static int conc_bad = 0;
static void print_l0(void)
{
    parsec_list_item_t *g = &lists[0].ghost_element, *it, *pv = g; int n = 0, bad = 0;
    printf("L=[");
    for(it = (parsec_list_item_t*)g->list_next; it != g && n < MAXID; pv = it, it = (parsec_list_item_t*)it->list_next, n++) {
        if( (elt_t*)it < items || (elt_t*)it >= items + MAXID ) { bad = 1; break; }
        /* the list_prev chain is only required to be consistent while nobody is inside a critical section */
        if( !lists[0].atomic_lock && it->list_prev != pv ) bad = 1;
        printf("%s%d:%d", n ? " " : "", ((elt_t*)it)->prio, ((elt_t*)it)->id);
    }
    if( !lists[0].atomic_lock && !bad && it == g && g->list_prev != pv ) bad = 1;
    if( n >= MAXID ) bad = 1;
    printf("]");
    if( bad ) conc_bad = 1;
}
static void cobserve(void *o, int step, int t)
{
    (void)o; (void)step;
    int k = ctl_kind_of(t);
    printf("step %d => ", t);
    if( k == CTL_K_DONE ) printf("idle%d", nops[t]);
    else if( k == K_BOUNDARY ) printf("idle%d", curop[t]);
    else if( k == PARSEC_VERIF_K_CAS ) printf("cas%d", curop[t]);
    else if( k == PARSEC_VERIF_K_FENCE ) printf("fence%d", curop[t]);
    else printf("other%d", k);
    printf(" lock=%d ", (int)lists[0].atomic_lock);
    print_l0();
    printf(" rets=[");
    for(int i = 0; i < curop[t]; i++) printf("%s%s", i ? " " : "", prog[t][i].res);
    printf("]%s\n", conc_bad ? " !prev-chain-broken" : "");
}
/* chooser wrapper: a thread parked before the CAS of a blocking lock acquisition while the lock is held would
 * only spin (a step that changes nothing); such threads are not offered to the DFS chooser. */
static int is_try(int t) { int k = curop[t]; return k < nops[t] && (prog[t][k].kind == O_TPOPF || prog[t][k].kind == O_TPOPB); }
typedef struct { ctl_choose_t inner; void *ictx; } filt_t;
static int choose_filtered(void *cctx, int step, int ne, const int *enabled)
{
    filt_t *f = (filt_t*)cctx; int sub[CTL_MAXT], map[CTL_MAXT], ns = 0;
    for(int i = 0; i < ne; i++) {
        int t = enabled[i];
        if( ctl_kind_of(t) == PARSEC_VERIF_K_CAS && lists[0].atomic_lock && !is_try(t) ) continue;
        sub[ns] = t; map[ns] = i; ns++;
    }
    if( 0 == ns ) return -1;
    int k = f->inner(f->ictx, step, ns, sub);
    return (k < 0 || k >= ns) ? -1 : map[k];
}

static int parse_items(char *s, int *ids, int max)
{   /* p:id+p:id... ; returns count or -1 */
    int n = 0;
    if( !*s ) return 0;
    for(char *tok = strtok(s, "+"); tok; tok = strtok(NULL, "+")) {
        long p; int id; char x;
        if( n >= max || sscanf(tok, "%ld:%d%c", &p, &id, &x) != 2 ) return -1;
        if( id < 0 || id >= MAXID || p > PMAX || p < -PMAX || items[id].where ) return -1;
        items[id].prio = (int)p; items[id].where = 99; ids[n++] = id;
    }
    return n;
}
static int parse_op(char *s, cop_t *o)
{
    char *c = strchr(s, ':'); char name[16]; size_t ln = c ? (size_t)(c - s) : strlen(s);
    if( ln >= sizeof name ) return -1;
    memcpy(name, s, ln); name[ln] = 0; o->nit = 0;
    static const char *nm[] = { "pf", "pb", "ps", "cf", "cb", "cs", "sort", "unchain", "empty", "popf", "popb", "tpopf", "tpopb" };
    o->kind = -1;
    for(int i = 0; i < 13; i++) if( !strcmp(name, nm[i]) ) o->kind = i;
    if( o->kind < 0 ) return -1;
    if( o->kind <= O_CS ) {
        if( !c ) return -1;
        o->nit = parse_items(c + 1, o->ids, 8);
        if( o->nit < 1 || (o->kind <= O_PS && o->nit != 1) ) return -1;
    } else if( c ) return -1;
    return 0;
}

static int conc_setup(char *cfg)
{   /* "conc K init=items T=op,op T=op ..." ; returns nthreads or -1 */
    char *tok[32]; int nt = 0, n = 0;
    reset();
    for(char *p = cfg; *p && nt < 32; ) { while( *p == ' ' ) p++; if( !*p ) break; tok[nt++] = p; while( *p && *p != ' ' ) p++; if( *p ) *p++ = 0; }
    if( nt < 4 || strcmp(tok[0], "conc") || strncmp(tok[2], "init=", 5) ) return -1;
    int ids[64]; char tmp[512];
    snprintf(tmp, sizeof tmp, "%s", tok[2] + 5);
    int ni = parse_items(tmp, ids, 64); if( ni < 0 ) return -1;
    for(int i = 0; i < ni; i++) parsec_list_nolock_push_back(&lists[0], &items[ids[i]].super);
    for(int i = 3; i < nt; i++) {
        if( strncmp(tok[i], "T=", 2) || n >= CTL_MAXT ) return -1;
        char *ops[MAXOPS + 1]; int no = 0; char *q = tok[i] + 2;
        while( *q && no <= MAXOPS ) { ops[no++] = q; while( *q && *q != ',' ) q++; if( *q ) *q++ = 0; }
        if( no < 1 || no > MAXOPS ) return -1;
        for(int k = 0; k < no; k++) if( parse_op(ops[k], &prog[n][k]) ) return -1;
        nops[n] = no; curop[n] = 0; n++;
    }
    return n;
}
static void conc_run(const char *caseline, char *cfgcopy, ctl_choose_t ch, void *cctx)
{
    int sched[1024], complete;
    char cfg[1024]; snprintf(cfg, sizeof cfg, "%s", cfgcopy);
    int n = conc_setup(cfg);
    if( n < 1 ) { printf("%s => bad-op\n", caseline); return; }
    conc_bad = 0;
    alarm(wd_secs);
    printf("%s => ok n=%d ", caseline, n); print_l0(); printf("\n");
    filt_t f = { ch, cctx };
    if( ch == ctl_choose_dfs ) ctl_run(n, cbody, NULL, choose_filtered, &f, cobserve, NULL, 600, sched, &complete);
    else ctl_run(n, cbody, NULL, ch, cctx, cobserve, NULL, 600, sched, &complete);
    if( complete ) {   /* an incomplete run (step budget / schedule exhausted) ends free-running: nothing to compare */
        printf("final => lock=%d ", (int)lists[0].atomic_lock); print_l0();
        for(int t = 0; t < n; t++) { printf(" T%d=[", t); for(int i = 0; i < curop[t]; i++) printf("%s%s", i ? " " : "", prog[t][i].res); printf("]"); }
        printf("\n");
    }
    if( !complete ) pv_stat("incomplete_runs", 1);
}
static void conc_main(void)
{
    static char line[2048], caseline[2048];
    while( fgets(line, sizeof line, stdin) ) {
        line[strcspn(line, "\n")] = 0;
        if( !line[0] ) continue;
        char *bar = strstr(line, " | ");
        if( !bar ) { printf("%s => bad-op\n", line); continue; }
        *bar = 0; strcpy(caseline, line);
        char *pol = bar + 3;
        if( !strncmp(pol, "rng ", 4) ) {
            pv_rng_t r = { strtoull(pol + 4, NULL, 10) };
            conc_run(caseline, line, ctl_choose_rng, &r);
        } else if( !strncmp(pol, "dfs ", 4) ) {
            long max = atol(pol + 4), cnt = 0; ctl_dfs_t d; ctl_dfs_init(&d);
            do { conc_run(caseline, line, ctl_choose_dfs, &d); cnt++; } while( cnt < max && ctl_dfs_next(&d) );
            pv_stat("dfs_schedules", cnt);
            if( cnt < max ) pv_stat("dfs_exhausted_spaces", 1);
        } else if( !strncmp(pol, "replay", 6) ) {
            int sc[1024], len = 0; char *p = pol + 6;
            while( *p && len < 1024 ) { while( *p == ' ' ) p++; if( !*p ) break; sc[len++] = atoi(p); while( *p && *p != ' ' ) p++; }
            ctl_replay_t rp = { sc, len };
            conc_run(caseline, line, ctl_choose_replay, &rp);
        } else printf("%s => bad-op\n", caseline);
    }
}

/* ------------------------------------------------------------------ free-running stress (search only) */
static int s_n, s_rounds, s_kind; static pthread_barrier_t s_bar;
static long s_null[CTL_MAXT], s_ooo[CTL_MAXT], s_pops[CTL_MAXT];
static volatile long s_consumed, s_total; static volatile int s_done;
#define S_PER 24
static void *stress_worker(void *a)
{
    int tid = (int)(intptr_t)a; pv_rng_t r = { pv_seed_from_env() * 1000003ULL + (uint64_t)tid * 7919 + (uint64_t)s_kind };
    parsec_list_t *l = &lists[0];
    elt_t *mine[S_PER * CTL_MAXT]; int nm = 0;
    pthread_barrier_wait(&s_bar);
    if( s_kind == 0 ) {          /* sorted: push_sorted / chain_sorted / pops; items migrate between threads */
        for(int i = 0; i < S_PER; i++) mine[nm++] = &items[tid * S_PER + i];
        for(int it = 0; it < s_rounds; it++) {
            int c = (int)pv_below(&r, 6);
            if( c <= 1 && nm > 0 ) { elt_t *e = mine[--nm]; e->prio = (int)pv_range(&r, -3, 3); parsec_list_push_sorted(l, &e->super, OFF); }
            else if( c == 2 && nm > 1 ) {
                int k = 1 + (int)pv_below(&r, nm < 4 ? nm : 4);
                parsec_list_item_t *ring = NULL;
                for(int j = 0; j < k; j++) { elt_t *e = mine[--nm]; e->prio = (int)pv_range(&r, -3, 3); if( ring ) parsec_list_item_ring_push(ring, &e->super); else ring = parsec_list_item_singleton(&e->super); }
                parsec_list_chain_sorted(l, ring, OFF);
            } else {
                parsec_list_item_t *p = c == 3 ? parsec_list_pop_front(l) : c == 4 ? parsec_list_pop_back(l) : parsec_list_try_pop_front(l);
                if( p && nm < S_PER * CTL_MAXT ) mine[nm++] = (elt_t*)p;
            }
        }
        for(int i = 0; i < nm; i++) { mine[i]->prio = 0; parsec_list_push_sorted(l, &mine[i]->super, OFF); }
    } else if( s_kind == 1 ) {   /* fifo: even threads produce increasing sequence numbers (prio field), odd threads consume */
        if( tid % 2 == 0 ) {
            for(int it = 0; it < s_rounds; it++) {
                elt_t *e = NULL;
                while( !e ) { parsec_list_item_t *p = (it & 1) ? parsec_fifo_try_pop(&lists[1]) : parsec_fifo_pop(&lists[1]); e = (elt_t*)p; if( !e ) sched_yield(); }
                e->id = tid; e->prio = it;
                parsec_fifo_push(l, &e->super);
            }
        } else {
            int last[CTL_MAXT]; for(int i = 0; i < CTL_MAXT; i++) last[i] = -1;
            while( s_consumed < s_total ) {
                parsec_list_item_t *p = parsec_fifo_pop(l);
                if( !p ) { sched_yield(); continue; }
                elt_t *e = (elt_t*)p;
                if( e->prio <= last[e->id] ) s_ooo[tid]++;
                last[e->id] = e->prio;
                parsec_fifo_push(&lists[1], &e->super);
                __sync_fetch_and_add(&s_consumed, 1);
                s_pops[tid]++;
            }
        }
    } else {                     /* sort vs pop: the list never holds fewer than S_PER-1 items */
        if( tid == 0 ) { for(int it = 0; it < s_rounds; it++) { parsec_list_sort(l, OFF); for(volatile int z = (int)pv_below(&r, 2000); z > 0; z--) /* let the others take the lock */; } s_done = 1; }
        else while( !s_done ) {
            parsec_list_item_t *p = parsec_list_pop_front(l);
            if( !p ) { s_null[tid]++; continue; }
            s_pops[tid]++; ((elt_t*)p)->prio = (int)pv_range(&r, 0, 1000);
            parsec_list_push_back(l, p);
            for(volatile int z = (int)pv_below(&r, 400); z > 0; z--) /* think time: decorrelates the next call from our own unlock */;
        }
    }
    return NULL;
}
static void stress_main(int n, int rounds, int kind)
{
    pthread_t th[CTL_MAXT];
    reset();
    alarm(wd_secs * 15);
    s_n = n; s_rounds = rounds; s_kind = kind; s_done = 0; s_consumed = 0; s_total = (long)rounds * ((n + 1) / 2);
    memset(s_null, 0, sizeof s_null); memset(s_ooo, 0, sizeof s_ooo); memset(s_pops, 0, sizeof s_pops);
    int total = kind == 0 ? n * S_PER : kind == 1 ? 64 : 4000;
    if( total > MAXID ) total = MAXID;
    if( kind == 1 ) for(int i = 0; i < total; i++) parsec_list_nolock_push_back(&lists[1], &items[i].super);
    if( kind == 2 ) { pv_rng_t r = { 7 }; for(int i = 0; i < total; i++) { items[i].prio = (int)pv_range(&r, 0, 1000); parsec_list_nolock_push_back(&lists[0], &items[i].super); } }
    pthread_barrier_init(&s_bar, NULL, n);
    for(int i = 0; i < n; i++) pthread_create(&th[i], NULL, stress_worker, (void*)(intptr_t)i);
    for(int i = 0; i < n; i++) pthread_join(th[i], NULL);
    /* oracles on the quiescent final state */
    int seen[MAXID]; memset(seen, 0, sizeof seen);
    int cnt = 0, unsorted = 0, broken = 0;
    for(int li = 0; li < 2; li++) {
        parsec_list_item_t *g = &lists[li].ghost_element, *it, *pv = g; int k = 0;
        for(it = (parsec_list_item_t*)g->list_next; it != g && k <= MAXID; pv = it, it = (parsec_list_item_t*)it->list_next, k++) {
            if( (elt_t*)it < items || (elt_t*)it >= items + MAXID ) { broken++; break; }
            if( it->list_prev != pv ) broken++;
            if( seen[(elt_t*)it - items]++ ) broken++;
            if( kind == 0 && li == 0 && pv != g && ((elt_t*)pv)->prio < ((elt_t*)it)->prio ) unsorted++;
            cnt++;
        }
        if( it == g && g->list_prev != pv ) broken++;
        if( k > MAXID ) broken++;
    }
    const char *kn = kind == 0 ? "sorted" : kind == 1 ? "fifo" : "sortpop";
    if( broken ) printf("!viol C31 stress-%s: list structure broken after concurrent locked calls (%d inconsistencies, %d threads)\n", kn, broken, n);
    if( cnt != total ) printf("!viol C31 stress-%s: %d items after the run, %d before (%d threads)\n", kn, cnt, total, n);
    if( unsorted ) printf("!viol C31 stress-%s: list not in non-increasing priority order after concurrent push_sorted/chain_sorted/pop (%d inversions)\n", kn, unsorted);
    long ooo = 0, nul = 0, pops = 0;
    for(int i = 0; i < n; i++) { ooo += s_ooo[i]; nul += s_null[i]; pops += s_pops[i]; }
    if( ooo ) printf("!viol C31 stress-fifo: a consumer received items of one producer out of order %ld times\n", ooo);
    if( kind == 2 && nul ) printf("!viol C31 stress-sortpop: parsec_list_pop_front returned NULL %ld times (of %ld calls) although the list never held fewer than %d items (concurrent parsec_list_sort)\n", nul, nul + pops, total - (n - 1));
    printf("stress %s %d %d => done\n", kn, n, rounds);
    pv_stat("stress_ops", (long)rounds * n);
    for(int li = 0; li < 2; li++) lists[li].ghost_element.list_next = lists[li].ghost_element.list_prev = &lists[li].ghost_element;
}

int main(int argc, char **argv)
{
    wd_init();
    if( argc >= 2 && !strcmp(argv[1], "seq") ) seq_main();
    else if( argc >= 2 && !strcmp(argv[1], "conc") ) conc_main();
    else if( argc >= 5 && !strcmp(argv[1], "stress") ) stress_main(atoi(argv[2]), atoi(argv[3]), atoi(argv[4]));
    else { fprintf(stderr, "usage: C31 seq|conc|stress n rounds kind\n"); return 2; }
    return 0;
}
