/* C36 harness: executes an operation script (stdin) on the real parsec_rbtree_* API and prints a
 * transcript `op => result`.
 *   case n          reset (all nodes released, tree re-initialised)            => ok
 *   ins k           new node (fresh id = number of `ins` since `case`), insert => <id> <tree>
 *   rm i            parsec_rbtree_remove of node i, node freed afterwards      => <tree>
 *   upd i k         parsec_rbtree_update_node(node i, k)                       => ok <tree> | exists <tree>
 *   find k          parsec_rbtree_find                                         => <key>:<id> | none
 *   fol k           parsec_rbtree_find_or_larger                               => <key>:<id> | none
 *   min             parsec_rbtree_minimum(tree, root)                          => <key>:<id>
 *   each            parsec_rbtree_foreach                                      => [<key>:<id> ...]
 * <tree> = preorder walk of the real structure: `-` for the sentinel, `R<key>:<id>` / `B<key>:<id>` for a
 * node followed by its left and right subtrees.
 * Calls outside the API's precondition (rm / upd of a node that is not in the tree, min of an empty
 * tree) are not issued: `rejected`.  While walking, the harness also checks what the algebraic
 * model cannot express: parent pointers, sentinel colour, root->parent (reported as `!viol`).
 * A call that does not return (2 s CPU watchdog) ends the run with exit code 3. */
#include "parsec/parsec_config.h"
#include "parsec/class/parsec_rbtree.h"
#include "parsec/constants.h"
#include "pv.h"
#include <stdint.h>
#include <stddef.h>
#include <signal.h>
#include <unistd.h>
#include <sys/time.h>

typedef struct hnode_s {
    parsec_rbtree_node_t super;
    int key;
    long id;
} hnode_t;

static parsec_rbtree_t tree;
static int tree_ok = 0;
static hnode_t **nodes = NULL;     /* id -> live node or NULL */
static long nids = 0, cap = 0, nlive = 0;
static long visited;
static int walk_bad;

#define L(n) ((parsec_rbtree_node_t*)(n)->super.list_prev)
#define R(n) ((parsec_rbtree_node_t*)(n)->super.list_next)

static void walk(parsec_rbtree_node_t *n, parsec_rbtree_node_t *parent, int depth)
{
    if( n == tree.nil ) { fputs(" -", stdout); return; }
    if( n == NULL ) { fputs(" NULL", stdout); walk_bad = 1; return; }
    if( ++visited > nlive || depth > 128 ) { fputs(" ...", stdout); walk_bad = 2; return; }
    hnode_t *h = (hnode_t*)n;
    printf(" %c%d:%ld", n->color == PARSEC_RBTREE_RED ? 'R' : 'B', h->key, h->id);
    if( n->parent != parent ) walk_bad = 3;
    walk(L(n), n, depth + 1);
    if( walk_bad == 2 ) return;
    walk(R(n), n, depth + 1);
}

static void print_tree(void)
{
    visited = 0; walk_bad = 0;
    walk(tree.root, tree.nil, 0);
    /* structure facts outside the algebraic model: flagged inside the result (so the case is
     * attributed and shrunk) and as a !viol line */
    const char *v = NULL;
    if( walk_bad == 1 ) v = "NULL child pointer inside the tree";
    else if( walk_bad == 2 ) v = "tree walk visits more nodes than are stored (cycle or stale node)";
    else if( walk_bad == 3 ) v = "parent pointer of a node does not point to its parent";
    else if( visited != nlive ) v = "tree does not hold exactly the nodes inserted and not removed";
    else if( tree.nil->color != PARSEC_RBTREE_BLACK ) v = "sentinel is not black";
    if( v ) printf(" !%s", walk_bad == 3 ? "bad-parent" : walk_bad == 2 ? "cycle" : walk_bad == 1 ? "null-child" : visited != nlive ? "bad-count" : "red-sentinel");
    fputc('\n', stdout);
    if( v ) printf("!viol %s\n", v);
}

static void release_node(hnode_t *h)
{
    PARSEC_OBJ_DESTRUCT(&h->super);
    memset(h, 0xdb, sizeof *h);
    free(h);
}

static void reset(void)
{
    for(long i = 0; i < nids; i++) if( nodes[i] ) { release_node(nodes[i]); nodes[i] = NULL; }
    nids = 0; nlive = 0;
    if( tree_ok ) parsec_rbtree_fini(&tree);
    parsec_rbtree_init(&tree, offsetof(hnode_t, key));
    tree_ok = 1;
}

static hnode_t *live(long id) { return (id >= 0 && id < nids) ? nodes[id] : NULL; }

static void each_cb(parsec_rbtree_node_t *n, void *data)
{
    int *first = (int*)data;
    printf("%s%d:%ld", *first ? "" : " ", ((hnode_t*)n)->key, ((hnode_t*)n)->id);
    *first = 0;
}

static void show(parsec_rbtree_node_t *n)
{
    if( n == NULL ) printf("none\n");
    else if( n == tree.nil ) printf("sentinel\n");
    else printf("%d:%ld\n", ((hnode_t*)n)->key, ((hnode_t*)n)->id);
}

/* watchdog: a call of the real code that burns 2 s of CPU time does not return (every call is O(log n));
 * reported as a crash of the case, with the operation prefix */
static void on_hang(int sig)
{
    (void)sig;
    fputs("\n!viol the call did not return within 2 s of CPU time (endless loop)\n", stdout);
    fflush(stdout);
    _exit(3);
}

static void arm(void)
{
    struct itimerval it = { {0, 0}, {2, 0} };
    setitimer(ITIMER_VIRTUAL, &it, NULL);
}

int main(void)
{
    char line[256], tail[8];
    signal(SIGVTALRM, on_hang);
    reset();
    while( fgets(line, sizeof line, stdin) ) {
        int k; long id;
        line[strcspn(line, "\n")] = 0;
        if( line[0] == 0 ) continue;
        arm();
        printf("%s =>", line);
        if( sscanf(line, "case %d%1s", &k, tail) == 1 ) { reset(); printf(" ok\n"); }
        else if( sscanf(line, "ins %d%1s", &k, tail) == 1 ) {
            if( nids == cap ) { cap = cap ? 2 * cap : 1024; nodes = realloc(nodes, cap * sizeof *nodes); }
            hnode_t *h = malloc(sizeof *h);
            PARSEC_OBJ_CONSTRUCT(&h->super, parsec_rbtree_node_t);
            h->key = k; h->id = nids; nodes[nids++] = h; nlive++;
            parsec_rbtree_insert(&tree, &h->super);
            printf(" %ld", h->id);
            print_tree();
        } else if( sscanf(line, "rm %ld%1s", &id, tail) == 1 ) {
            hnode_t *h = live(id);
            if( !h ) { printf(" rejected\n"); continue; }
            parsec_rbtree_remove(&tree, &h->super);
            nodes[id] = NULL; nlive--;
            release_node(h);
            print_tree();
        } else if( sscanf(line, "upd %ld %d%1s", &id, &k, tail) == 2 ) {
            hnode_t *h = live(id);
            if( !h ) { printf(" rejected\n"); continue; }
            int rc = parsec_rbtree_update_node(&tree, &h->super, k);
            if( rc == PARSEC_SUCCESS ) printf(" ok");
            else if( rc == PARSEC_ERR_EXISTS ) printf(" exists");
            else printf(" rc=%d", rc);
            print_tree();
        } else if( sscanf(line, "find %d%1s", &k, tail) == 1 ) {
            fputc(' ', stdout); show(parsec_rbtree_find(&tree, k));
        } else if( sscanf(line, "fol %d%1s", &k, tail) == 1 ) {
            fputc(' ', stdout); show(parsec_rbtree_find_or_larger(&tree, k));
        } else if( 0 == strcmp(line, "min") ) {
            if( tree.root == tree.nil ) { printf(" rejected\n"); continue; }
            fputc(' ', stdout); show(parsec_rbtree_minimum(&tree, tree.root));
        } else if( 0 == strcmp(line, "each") ) {
            int first = 1;
            printf(" [");
            parsec_rbtree_foreach(&tree, each_cb, &first);
            printf("]\n");
        } else printf(" bad-op\n");
    }
    reset();
    parsec_rbtree_fini(&tree);
    free(nodes);
    return 0;
}
