/* Deterministic cooperative scheduler for /verif harnesses (DESIGN.md 2.4).
 *
 * Worker threads run real PaRSEC code.  The hook H1 (guard PARSEC_VERIF) calls
 * parsec_verif_yield_cb before every atomic primitive and inside the spin loops; the callback parks
 * the calling worker and hands control back to the controller, which then lets exactly ONE worker
 * run up to its next yield point.  A "step t" = worker t executes from its current park point
 * (thread start, or just before an atomic operation) up to the next park point (or its end).
 * Hence the real code executes under a sequentially consistent interleaving, at the granularity
 * of atomic operations, chosen by the controller.
 */
#ifndef CTL_SCHED_H
#define CTL_SCHED_H
#include <pthread.h>
#include <semaphore.h>
#include <stdint.h>
#include <stdio.h>
#include <stdlib.h>
#include <string.h>

#define CTL_MAXT 16
#define CTL_K_START (-1)
#define CTL_K_DONE  (-2)

extern void (*parsec_verif_yield_cb)(int kind, volatile void *addr);

typedef void (*ctl_body_t)(int tid, void *arg);
/* chooser: returns an index into enabled[0..nenabled-1]; may return -1 to stop the run */
typedef int (*ctl_choose_t)(void *cctx, int step, int nenabled, const int *enabled);
/* observer: called by the controller after every step, while all workers are parked */
typedef void (*ctl_observe_t)(void *octx, int step, int tid);

typedef struct {
    int n;
    pthread_t th[CTL_MAXT];
    sem_t go[CTL_MAXT];
    sem_t arrived;
    volatile int kind[CTL_MAXT];            /* park point: CTL_K_START, CTL_K_DONE or the hook's kind */
    volatile void *addr[CTL_MAXT];
    ctl_body_t body; void *arg;
    volatile int aborting;                  /* when set, workers run freely to completion */
} ctl_t;

static ctl_t *ctl_cur = NULL;
static __thread int ctl_me = -1;

static void ctl_yield_cb(int kind, volatile void *addr)
{
    ctl_t *c = ctl_cur;
    int me = ctl_me;
    if( me < 0 || NULL == c || c->aborting ) return;   /* not a registered worker: pass through */
    c->kind[me] = kind; c->addr[me] = addr;
    sem_post(&c->arrived);
    sem_wait(&c->go[me]);
}

typedef struct { ctl_t *c; int tid; } ctl_start_t;
static void *ctl_worker(void *p)
{
    ctl_start_t *s = (ctl_start_t*)p;
    ctl_t *c = s->c; int me = s->tid;
    free(s);
    ctl_me = me;
    sem_wait(&c->go[me]);                     /* parked at thread start */
    c->body(me, c->arg);
    c->kind[me] = CTL_K_DONE;
    ctl_me = -1;
    sem_post(&c->arrived);
    return NULL;
}

/* Runs n workers under the chooser.  sched[] receives the executed schedule (thread ids).
 * Returns the number of steps executed; *complete = 1 iff every worker reached its end. */
static int ctl_run(int n, ctl_body_t body, void *arg, ctl_choose_t choose, void *cctx,
                   ctl_observe_t observe, void *octx, int max_steps, int *sched, int *complete)
{
    ctl_t c; memset(&c, 0, sizeof c);
    int steps = 0, enabled[CTL_MAXT];
    c.n = n; c.body = body; c.arg = arg;
    sem_init(&c.arrived, 0, 0);
    for(int i = 0; i < n; i++) { sem_init(&c.go[i], 0, 0); c.kind[i] = CTL_K_START; }
    ctl_cur = &c;
    parsec_verif_yield_cb = ctl_yield_cb;
    for(int i = 0; i < n; i++) {
        ctl_start_t *s = malloc(sizeof *s); s->c = &c; s->tid = i;
        pthread_create(&c.th[i], NULL, ctl_worker, s);
    }
    *complete = 0;
    while( steps < max_steps ) {
        int ne = 0;
        for(int i = 0; i < n; i++) if( c.kind[i] != CTL_K_DONE ) enabled[ne++] = i;
        if( 0 == ne ) { *complete = 1; break; }
        int k = choose(cctx, steps, ne, enabled);
        if( k < 0 || k >= ne ) break;
        int t = enabled[k];
        sem_post(&c.go[t]);
        sem_wait(&c.arrived);
        sched[steps] = t;
        if( observe ) observe(octx, steps, t);
        steps++;
    }
    if( !*complete ) {
        int ne = 0;
        for(int i = 0; i < n; i++) if( c.kind[i] != CTL_K_DONE ) ne++;
        if( 0 == ne ) *complete = 1;
    }
    /* let unfinished workers run freely to their end (budget exhausted) */
    c.aborting = 1;
    for(int i = 0; i < n; i++) if( c.kind[i] != CTL_K_DONE ) sem_post(&c.go[i]);
    for(int i = 0; i < n; i++) pthread_join(c.th[i], NULL);
    parsec_verif_yield_cb = NULL;
    ctl_cur = NULL;
    for(int i = 0; i < n; i++) sem_destroy(&c.go[i]);
    sem_destroy(&c.arrived);
    return steps;
}

static inline int ctl_kind_of(int tid) { return ctl_cur ? ctl_cur->kind[tid] : CTL_K_DONE; }

/* ---- choosers ---- */
/* (a) pseudo-random, from a pv_rng_t */
#ifdef PV_H
static int ctl_choose_rng(void *cctx, int step, int ne, const int *enabled)
{ (void)step; (void)enabled; return (int)pv_below((pv_rng_t*)cctx, (uint64_t)ne); }
#endif

/* (b) replay of a fixed schedule (list of thread ids); stops when exhausted or when the named thread is not enabled */
typedef struct { const int *sched; int len; } ctl_replay_t;
static int ctl_choose_replay(void *cctx, int step, int ne, const int *enabled)
{
    ctl_replay_t *r = (ctl_replay_t*)cctx;
    if( step >= r->len ) return -1;
    for(int i = 0; i < ne; i++) if( enabled[i] == r->sched[step] ) return i;
    return -1;
}

/* (c) exhaustive DFS over all schedules (odometer over choice indices, re-execution from scratch) */
#define CTL_DFS_MAX 256
typedef struct { int choice[CTL_DFS_MAX]; int width[CTL_DFS_MAX]; int depth; int len; } ctl_dfs_t;
static void ctl_dfs_init(ctl_dfs_t *d) { memset(d, 0, sizeof *d); }
static int ctl_choose_dfs(void *cctx, int step, int ne, const int *enabled)
{
    ctl_dfs_t *d = (ctl_dfs_t*)cctx; (void)enabled;
    if( step >= CTL_DFS_MAX ) return -1;
    if( step >= d->len ) { d->choice[step] = 0; d->len = step + 1; }
    d->width[step] = ne;
    d->depth = step + 1;
    return d->choice[step] < ne ? d->choice[step] : ne - 1;
}
/* advance to the next schedule; returns 0 when the space is exhausted */
static int ctl_dfs_next(ctl_dfs_t *d)
{
    int i = d->depth - 1;
    while( i >= 0 && d->choice[i] + 1 >= d->width[i] ) i--;
    if( i < 0 ) return 0;
    d->choice[i]++;
    d->len = i + 1;
    return 1;
}
#endif
