/* Common helpers for /verif harnesses: PRNG (same stream as lib/pv.py Rng), transcript output. */
#ifndef PV_H
#define PV_H
#include <stdint.h>
#include <stdio.h>
#include <stdlib.h>
#include <string.h>

typedef struct { uint64_t s; } pv_rng_t;
static inline uint64_t pv_next(pv_rng_t *r) {
    uint64_t z = (r->s += 0x9E3779B97F4A7C15ULL);
    z = (z ^ (z >> 30)) * 0xBF58476D1CE4E5B9ULL;
    z = (z ^ (z >> 27)) * 0x94D049BB133111EBULL;
    return z ^ (z >> 31);
}
static inline uint64_t pv_below(pv_rng_t *r, uint64_t n) { return n ? pv_next(r) % n : 0; }
static inline int64_t pv_range(pv_rng_t *r, int64_t lo, int64_t hi) { return lo + (int64_t)pv_below(r, (uint64_t)(hi - lo + 1)); }
static inline pv_rng_t pv_fork(const pv_rng_t *r, uint64_t k) { pv_rng_t f = { r->s ^ ((k + 1) * 0xD1B54A32D192ED03ULL) }; return f; }
static inline uint64_t pv_seed_from_env(void) { const char *s = getenv("VERIF_SEED"); return s ? strtoull(s, NULL, 10) : 1; }

/* transcript: "op words => result"  */
#define PV_OUT stdout
#define pv_stat(k, v) fprintf(PV_OUT, "#stat %s %ld\n", (k), (long)(v))
#endif
