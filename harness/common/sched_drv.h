/* Shared driver for the scheduler-module checks (C09, C08).
 *
 * parsec_init() installs the scheduler module named by PARSEC_MCA_mca_sched and runs flow_init on
 * every execution stream; the context is never started.  The op script on stdin is then executed
 * by direct calls to the REAL module functions
 *      parsec_current_scheduler->module.schedule(es, ring, distance)
 *      parsec_current_scheduler->module.select(es, &distance)
 * (and, for C08, the real __parsec_schedule_vp) on the real execution streams of virtual process 0,
 * with fabricated tasks (identity in locals[0], a priority, a task class).
 *
 *   case k                         drain every container, forget all tasks
 *   mod <name> <nstreams>          must name the installed module / stream count
 *   topo                           (hierarchical modules) print the steal order found in the module's objects
 *   sched  <es> <dist> id:prio ... module.schedule on stream es with the ring in this order
 *   schedh <es> <dist> id:prio ... same, the ring head's task class has PARSEC_HIGH_PRIORITY_TASK
 *   sel <es>                       module.select on stream es  => "<id> <distance>" | "none"
 *   vps <es> <dist> id:prio ...    __parsec_schedule_vp(es, {ring}, dist)   (next_task retention)
 *   next <es>                      the body of __parsec_get_next_task: es->next_task, else select
 *   flush <es>                     __parsec_schedule_flush_private(es)
 *   stress <threads> <rounds> <seed>   free-running threads (C08 tie (b)); result = multiset verdict
 *
 * Precondition rule (identical in the Lean drivers): a ring is `rejected` when an id is >= MAXID,
 * repeated inside the ring, or names a task that is still pending; a stream index >= nstreams is
 * `rejected`.  An empty ring or a malformed token is `bad-op`.
 */
#ifndef SCHED_DRV_H
#define SCHED_DRV_H
#include <mpi.h>
#include "parsec/parsec_config.h"
#include "parsec/parsec_internal.h"
#include "parsec/mca/sched/sched.h"
#include "parsec/execution_stream.h"
#include "parsec/scheduling.h"
#include "parsec/hbbuffer.h"
#include "parsec/class/dequeue.h"
#include "parsec/mca/sched/sched_local_queues_utils.h"
#include "pv.h"
#include <pthread.h>

#define MAXID 4096
#define MAXRING 512

static parsec_context_t *pctx;
static parsec_vp_t *vp0;
static int ncores;
static char modname[32];
static parsec_task_t *tasks[MAXID];
static unsigned char pend[MAXID];
static parsec_task_class_t tc_norm, tc_high;
static int mod_seen;
static int drv_allow_high;   /* set by the including harness: accept `schedh` */

static inline parsec_execution_stream_t *ES(int i) { return vp0->execution_streams[i]; }
static inline int task_id(const parsec_task_t *t) { return t->locals[0].value; }

static parsec_task_t *mk_task(int id, int prio, int high)
{
    void *p = NULL;
    if( posix_memalign(&p, 64, sizeof(parsec_task_t)) ) abort();
    memset(p, 0, sizeof(parsec_task_t));
    parsec_task_t *t = (parsec_task_t*)p;
    PARSEC_OBJ_CONSTRUCT(&t->super, parsec_list_item_t);
    PARSEC_LIST_ITEM_SINGLETON(&t->super);
    t->priority = prio;
    t->locals[0].value = id;
    t->task_class = high ? &tc_high : &tc_norm;
    return t;
}

/* returns 0 ok, 1 bad-op, 2 rejected; on success *ring is the ring head, tasks registered pending */
static int build_ring(char **tok, int ntok, int high, parsec_task_t **ring)
{
    int ids[MAXRING], prios[MAXRING], n = 0;
    if( ntok <= 0 || ntok > MAXRING ) return 1;
    for(int i = 0; i < ntok; i++) {
        char *e1, *e2, *c = strchr(tok[i], ':');
        if( NULL == c || c == tok[i] || c[1] == 0 ) return 1;
        long id = strtol(tok[i], &e1, 10), pr = strtol(c + 1, &e2, 10);
        if( e1 != c || *e2 != 0 || id < 0 ) return 1;
        ids[n] = (id > MAXID ? MAXID : (int)id); prios[n] = (int)pr; n++;
    }
    for(int i = 0; i < n; i++) {
        if( ids[i] >= MAXID || pend[ids[i]] ) return 2;
        for(int j = 0; j < i; j++) if( ids[j] == ids[i] ) return 2;
    }
    parsec_task_t *first = NULL, *prev = NULL;
    for(int i = 0; i < n; i++) {
        if( tasks[ids[i]] ) free(tasks[ids[i]]);
        parsec_task_t *t = tasks[ids[i]] = mk_task(ids[i], prios[i], high && i == 0);
        pend[ids[i]] = 1;
        if( NULL == first ) first = t;
        else { prev->super.list_next = &t->super; t->super.list_prev = &prev->super; }
        prev = t;
    }
    prev->super.list_next = &first->super; first->super.list_prev = &prev->super;
    *ring = first;
    return 0;
}

static void print_task(parsec_task_t *t, int32_t d)
{
    if( NULL == t ) { printf("none\n"); return; }
    int id = task_id(t);
    if( id < 0 || id >= MAXID || tasks[id] != t ) { printf("unknown-task\n"); printf("!viol select returned a pointer that is no scheduled task\n"); return; }
    if( !pend[id] ) printf("!viol task %d returned although not pending (duplicate)\n", id);
    pend[id] = 0;
    printf("%d %d\n", id, (int)d);
}

static void drain(void)
{
    int got;
    for(int i = 0; i < ncores; i++) ES(i)->next_task = NULL;
    do {
        got = 0;
        for(int i = 0; i < ncores; i++) {
            int32_t d = 0; parsec_task_t *t;
            while( NULL != (t = parsec_current_scheduler->module.select(ES(i), &d)) ) got = 1;
        }
    } while( got );
    for(int i = 0; i < MAXID; i++) { if( tasks[i] ) { free(tasks[i]); tasks[i] = NULL; } pend[i] = 0; }
}

static int sched_drv_extra(char **w, int nw);   /* module-specific ops of the including harness; returns 1 if handled */

static int sched_drv_main(int argc, char **argv)
{
    int prov;
    static char line[1 << 16];
    char *w[MAXRING + 8];
    ncores = argc > 1 ? atoi(argv[1]) : 1;
    if( ncores < 1 ) ncores = 1;
    MPI_Init_thread(&argc, &argv, MPI_THREAD_SERIALIZED, &prov);
    int pargc = 1; char *pargv_[2] = { argv[0], NULL }; char **pargv = pargv_;
    pctx = parsec_init(ncores, &pargc, &pargv);
    if( NULL == pctx ) { fprintf(stderr, "parsec_init failed\n"); return 3; }
    vp0 = pctx->virtual_processes[0];
    if( pctx->nb_vp != 1 || vp0->nb_cores != ncores ) { fprintf(stderr, "unexpected vp layout %d vps %d cores\n", pctx->nb_vp, vp0->nb_cores); return 3; }
    snprintf(modname, sizeof modname, "%s", parsec_current_scheduler->component->base_version.mca_component_name);
    tc_norm.name = "pv_norm"; tc_norm.flags = 0;
    tc_high.name = "pv_high"; tc_high.flags = PARSEC_HIGH_PRIORITY_TASK;
    setvbuf(stdout, NULL, _IOFBF, 1 << 16);

    while( fgets(line, sizeof line, stdin) ) {
        int nw = 0, k, a;
        line[strcspn(line, "\n")] = 0;
        if( line[0] == 0 ) continue;
        printf("%s => ", line);
        for(char *p = strtok(line, " "); p && nw < MAXRING + 8; p = strtok(NULL, " ")) w[nw++] = p;
        if( nw == 0 ) { printf("bad-op\n"); continue; }
        if( 0 == strcmp(w[0], "case") && nw == 2 ) { drain(); mod_seen = 0; printf("ok\n"); (void)k; continue; }
        if( 0 == strcmp(w[0], "mod") && nw == 3 ) {
            if( 0 != strcmp(w[1], modname) || atoi(w[2]) != ncores ) printf("wrong-module installed=%s/%d\n", modname, ncores);
            else { mod_seen = 1; printf("ok\n"); }
            continue;
        }
        if( !mod_seen ) { printf("bad-op\n"); continue; }
        if( (0 == strcmp(w[0], "sched") || (drv_allow_high && 0 == strcmp(w[0], "schedh"))) && nw >= 3 ) {
            char *e1, *e2; long es = strtol(w[1], &e1, 10), d = strtol(w[2], &e2, 10);
            if( *e1 || *e2 || es < 0 ) { printf("bad-op\n"); continue; }
            if( nw == 3 ) { printf("bad-op\n"); continue; }
            if( es >= ncores ) { printf("rejected\n"); continue; }
            parsec_task_t *ring;
            a = build_ring(w + 3, nw - 3, w[0][5] == 'h', &ring);
            if( a ) { printf(a == 1 ? "bad-op\n" : "rejected\n"); continue; }
            int rc = parsec_current_scheduler->module.schedule(ES(es), ring, (int32_t)d);
            printf(rc == 0 ? "ok\n" : "err %d\n", rc);
            continue;
        }
        if( 0 == strcmp(w[0], "sel") && nw == 2 ) {
            char *e1; long es = strtol(w[1], &e1, 10);
            if( *e1 || es < 0 ) { printf("bad-op\n"); continue; }
            if( es >= ncores ) { printf("rejected\n"); continue; }
            int32_t d = -12345;
            parsec_task_t *t = parsec_current_scheduler->module.select(ES(es), &d);
            print_task(t, d);
            continue;
        }
        if( sched_drv_extra(w, nw) ) continue;
        printf("bad-op\n");
    }
    fflush(stdout);
    drain();
    parsec_fini(&pctx);
    MPI_Finalize();
    return 0;
}
#endif
