/* Shared driver for the scheduler-module checks (C09, C08).
 *
 * parsec_init() installs the scheduler module named by PARSEC_MCA_mca_sched and runs flow_init on
 * every execution stream; the context is never started.  The op script on stdin is then executed
 * by direct calls to the REAL module functions
 *      parsec_current_scheduler->module.schedule(es, ring, distance)
 *      parsec_current_scheduler->module.select(es, &distance)
 * (and, for C08, the real __parsec_schedule_vp) on the real execution streams of virtual process 0,
 * with fabricated tasks (identity in locals[0], a priority, a task class).
 *
 *   case k                         drain every container, forget all tasks
 *   mod <name> <nstreams>          must name the installed module / stream count
 *   topo                           (hierarchical modules) print the steal order found in the module's objects
 *   cfg sizes=.. par=.. hq=..      (hierarchical modules, C08) must equal the topology found in the module's objects
 *   sched  <es> <dist> id:prio[:grp] ... module.schedule on stream es with the ring in this order
 *                                  (grp stands for data[0].data_in, read by ltq only; default 0)
 *   schedh <es> <dist> id:prio ... same, the ring head's task class has PARSEC_HIGH_PRIORITY_TASK (C08)
 *   sel <es>                       module.select on stream es  => "<id> <distance>" | "none"
 *   vps <es> <dist> id:prio ...    __parsec_schedule_vp(es, {ring}, dist)   (next_task retention, C08)
 *   next <es>                      the body of __parsec_get_next_task: es->next_task, else select (C08)
 *   drain                          retained tasks, then select on streams 0..n-1 until a whole round returns nothing => "[ids]"
 *   stress <threads> <rounds> <seed>   free-running threads (C08 tie (b)); result = multiset verdict
 *
 * Precondition rule (identical in the Lean drivers): a ring is `rejected` when an id is >= MAXID,
 * repeated inside the ring, or names a task that is still pending; a stream index >= nstreams is
 * `rejected`.  An empty ring or a malformed token is `bad-op`.
 */
#ifndef SCHED_DRV_H
#define SCHED_DRV_H
#include <mpi.h>
#include "parsec/parsec_config.h"
#include "parsec/parsec_internal.h"
#include "parsec/mca/sched/sched.h"
#include "parsec/execution_stream.h"
#include "parsec/scheduling.h"
#include "parsec/hbbuffer.h"
#include "parsec/class/dequeue.h"
#include "parsec/mca/sched/sched_local_queues_utils.h"
#include "pv.h"
#include <pthread.h>

#define MAXID 4096
#define MAXRING 512

static parsec_context_t *pctx;
static parsec_vp_t *vp0;
static int ncores;
static char modname[32];
static parsec_task_t *tasks[MAXID];
static unsigned char pend[MAXID];
static parsec_task_class_t tc_norm, tc_high;
static int mod_seen;
static int drv_allow_high;   /* set by the including harness: accept `schedh` */
static int drv_cfg_hook;     /* set by the including harness: hierarchical modules wait for a `cfg` line after `mod` */
static int cfg_needed;
static int drain_bad;

static inline parsec_execution_stream_t *ES(int i) { return vp0->execution_streams[i]; }
static inline int task_id(const parsec_task_t *t) { return t->locals[0].value; }

static parsec_task_t *mk_task_g(int id, int prio, int high, int grp);
static parsec_task_t *mk_task(int id, int prio, int high) { return mk_task_g(id, prio, high, 0); }
static parsec_task_t *mk_task_g(int id, int prio, int high, int grp)
{
    void *p = NULL;
    if( posix_memalign(&p, 64, sizeof(parsec_task_t)) ) abort();
    memset(p, 0, sizeof(parsec_task_t));
    parsec_task_t *t = (parsec_task_t*)p;
    PARSEC_OBJ_CONSTRUCT(&t->super, parsec_list_item_t);
    PARSEC_LIST_ITEM_SINGLETON(&t->super);
    t->priority = prio;
    t->locals[0].value = id;
    t->task_class = high ? &tc_high : &tc_norm;
    /* never dereferenced by a scheduler; ltq compares these pointers to group tasks into heaps */
    t->data[0].data_in = (parsec_data_copy_t*)(uintptr_t)(0x100000 + 64 * (uintptr_t)grp);
    return t;
}

/* returns 0 ok, 1 bad-op, 2 rejected; on success *ring is the ring head, tasks registered pending */
static int build_ring(char **tok, int ntok, int high, parsec_task_t **ring)
{
    int ids[MAXRING], prios[MAXRING], grps[MAXRING], n = 0;
    if( ntok <= 0 || ntok > MAXRING ) return 1;
    for(int i = 0; i < ntok; i++) {
        char *e1, *e2, *e3, *c = strchr(tok[i], ':');
        long g = 0;
        if( NULL == c || c == tok[i] || c[1] == 0 ) return 1;
        if( tok[i][0] < '0' || tok[i][0] > '9' ) return 1;
        long id = strtol(tok[i], &e1, 10), pr = strtol(c + 1, &e2, 10);
        if( e1 != c || e2 == c + 1 || id < 0 ) return 1;
        if( *e2 == ':' ) {
            if( e2[1] < '0' || e2[1] > '9' ) return 1;
            g = strtol(e2 + 1, &e3, 10);
            if( *e3 != 0 || g < 0 ) return 1;
        } else if( *e2 != 0 ) return 1;
        ids[n] = (id > MAXID ? MAXID : (int)id); prios[n] = (int)pr; grps[n] = (int)(g > 1000000 ? 1000000 : g); n++;
    }
    for(int i = 0; i < n; i++) {
        if( ids[i] >= MAXID || pend[ids[i]] ) return 2;
        for(int j = 0; j < i; j++) if( ids[j] == ids[i] ) return 2;
    }
    parsec_task_t *first = NULL, *prev = NULL;
    for(int i = 0; i < n; i++) {
        if( tasks[ids[i]] ) free(tasks[ids[i]]);
        parsec_task_t *t = tasks[ids[i]] = mk_task_g(ids[i], prios[i], high && i == 0, grps[i]);
        pend[ids[i]] = 1;
        if( NULL == first ) first = t;
        else { prev->super.list_next = &t->super; t->super.list_prev = &prev->super; }
        prev = t;
    }
    prev->super.list_next = &first->super; first->super.list_prev = &prev->super;
    *ring = first;
    return 0;
}

static void print_task(parsec_task_t *t, int32_t d)
{
    if( NULL == t ) { printf("none\n"); return; }
    int id = task_id(t);
    if( id < 0 || id >= MAXID || tasks[id] != t ) { printf("unknown-task\n"); printf("!viol select returned a pointer that is no scheduled task\n"); return; }
    if( !pend[id] ) printf("!viol task %d returned although not pending (duplicate)\n", id);
    pend[id] = 0;
    printf("%d %d\n", id, (int)d);
}

static void drain(void)
{
    int got;
    for(int i = 0; i < ncores; i++) ES(i)->next_task = NULL;
    do {
        got = 0;
        for(int i = 0; i < ncores; i++) {
            int32_t d = 0; parsec_task_t *t;
            while( NULL != (t = parsec_current_scheduler->module.select(ES(i), &d)) ) got = 1;
        }
    } while( got );
    for(int i = 0; i < MAXID; i++) { if( tasks[i] ) { free(tasks[i]); tasks[i] = NULL; } pend[i] = 0; }
}

static int sched_drv_extra(char **w, int nw);   /* module-specific ops of the including harness; returns 1 if handled */
static int sched_drv_topo(char *out, size_t len); /* topology string of the installed module ("none" if it has none) */

static int sched_drv_main(int argc, char **argv)
{
    int prov;
    static char line[1 << 16];
    char *w[MAXRING + 8];
    ncores = argc > 1 ? atoi(argv[1]) : 1;
    if( ncores < 1 ) ncores = 1;
    MPI_Init_thread(&argc, &argv, MPI_THREAD_SERIALIZED, &prov);
    int pargc = 1; char *pargv_[2] = { argv[0], NULL }; char **pargv = pargv_;
    pctx = parsec_init(ncores, &pargc, &pargv);
    if( NULL == pctx ) { fprintf(stderr, "parsec_init failed\n"); return 3; }
    vp0 = pctx->virtual_processes[0];
    if( pctx->nb_vp != 1 || vp0->nb_cores != ncores ) { fprintf(stderr, "unexpected vp layout %d vps %d cores\n", pctx->nb_vp, vp0->nb_cores); return 3; }
    snprintf(modname, sizeof modname, "%s", parsec_current_scheduler->component->base_version.mca_component_name);
    tc_norm.name = "pv_norm"; tc_norm.flags = 0; tc_norm.nb_flows = 1;
    tc_high.name = "pv_high"; tc_high.flags = PARSEC_HIGH_PRIORITY_TASK; tc_high.nb_flows = 1;
    setvbuf(stdout, NULL, _IOLBF, 1 << 16);   /* line by line: a hang or crash of the real code must not swallow the transcript */

    while( fgets(line, sizeof line, stdin) ) {
        int nw = 0, k, a;
        line[strcspn(line, "\n")] = 0;
        if( line[0] == 0 ) continue;
        if( 0 == strcmp(line, "cfg auto") && drv_cfg_hook && mod_seen && cfg_needed ) {
            /* the check does not know the topology: the transcript names it, and the transcript's ops are what the model replays */
            static char tp[1 << 14];
            if( 0 == sched_drv_topo(tp, sizeof tp) ) { printf("cfg %s => ok\n", tp); cfg_needed = 0; continue; }
        }
        printf("%s => ", line);
        for(char *p = strtok(line, " "); p && nw < MAXRING + 8; p = strtok(NULL, " ")) w[nw++] = p;
        if( nw == 0 ) { printf("bad-op\n"); continue; }
        if( 0 == strcmp(w[0], "case") && nw == 2 ) { drain(); mod_seen = 0; cfg_needed = 0; printf("ok\n"); (void)k; continue; }
        if( 0 == strcmp(w[0], "mod") && nw == 3 ) {
            if( 0 != strcmp(w[1], modname) || atoi(w[2]) != ncores ) printf("wrong-module installed=%s/%d\n", modname, ncores);
            else {
                static char tp[1 << 14];
                mod_seen = 1;
                cfg_needed = drv_cfg_hook && 0 == sched_drv_topo(tp, sizeof tp) && 0 != strcmp(tp, "none");
                printf("ok\n");
            }
            continue;
        }
        if( 0 == strcmp(w[0], "topo") && nw == 1 && drv_cfg_hook ) {   /* not part of the compared protocol: asked once by the check */
            static char tp[1 << 14];
            int rc = sched_drv_topo(tp, sizeof tp);
            if( rc ) printf("topo-error %d\n", rc); else printf("%s\n", tp);
            continue;
        }
        if( 0 == strcmp(w[0], "cfg") ) {
            static char tp[1 << 14], given[1 << 14];
            if( !mod_seen || !cfg_needed || nw != 4 || strncmp(w[1], "sizes=", 6) || strncmp(w[2], "par=", 4) || strncmp(w[3], "hq=", 3) ) { printf("bad-op\n"); continue; }
            snprintf(given, sizeof given, "%s %s %s", w[1], w[2], w[3]);
            if( sched_drv_topo(tp, sizeof tp) || strcmp(tp, given) ) printf("topo-mismatch real: %s\n", tp);
            else { cfg_needed = 0; printf("ok\n"); }
            continue;
        }
        if( !mod_seen || cfg_needed ) { printf("bad-op\n"); continue; }
        if( (0 == strcmp(w[0], "sched") || (drv_allow_high && 0 == strcmp(w[0], "schedh"))) && nw >= 3 ) {
            char *e1, *e2; long es = strtol(w[1], &e1, 10), d = strtol(w[2], &e2, 10);
            if( *e1 || *e2 || es < 0 ) { printf("bad-op\n"); continue; }
            if( nw == 3 ) { printf("bad-op\n"); continue; }
            if( es >= ncores ) { printf("rejected\n"); continue; }
            parsec_task_t *ring;
            a = build_ring(w + 3, nw - 3, w[0][5] == 'h', &ring);
            if( a ) { printf(a == 1 ? "bad-op\n" : "rejected\n"); continue; }
            int rc = parsec_current_scheduler->module.schedule(ES(es), ring, (int32_t)d);
            printf(rc == 0 ? "ok\n" : "err %d\n", rc);
            continue;
        }
        if( 0 == strcmp(w[0], "sel") && nw == 2 ) {
            char *e1; long es = strtol(w[1], &e1, 10);
            if( *e1 || es < 0 ) { printf("bad-op\n"); continue; }
            if( es >= ncores ) { printf("rejected\n"); continue; }
            int32_t d = -12345;
            parsec_task_t *t = parsec_current_scheduler->module.select(ES(es), &d);
            print_task(t, d);
            continue;
        }
        if( 0 == strcmp(w[0], "drain") && nw == 1 && drv_allow_high ) {
            /* retained tasks first, then selects stream by stream until a full round returns nothing */
            int got, first = 1;
            printf("[");
            for(int i = 0; i < ncores; i++) {
                parsec_task_t *t = ES(i)->next_task;
                if( t ) { ES(i)->next_task = NULL; int id = task_id(t); printf("%s%d", first ? "" : " ", id); first = 0;
                          if( id < 0 || id >= MAXID || tasks[id] != t || !pend[id] ) drain_bad++; else pend[id] = 0; }
            }
            do {
                got = 0;
                for(int i = 0; i < ncores; i++) {
                    int32_t d = 0; parsec_task_t *t;
                    while( NULL != (t = parsec_current_scheduler->module.select(ES(i), &d)) ) {
                        int id = task_id(t); got = 1; printf("%s%d", first ? "" : " ", id); first = 0;
                        if( id < 0 || id >= MAXID || tasks[id] != t || !pend[id] ) drain_bad++; else pend[id] = 0;
                    }
                }
            } while( got );
            printf("]\n");
            if( drain_bad ) { printf("!viol drain returned %d tasks that were not pending (duplicate or unknown)\n", drain_bad); drain_bad = 0; }
            for(int i = 0; i < MAXID; i++) if( pend[i] ) { printf("!viol task %d is lost: still pending after a full drain\n", i); break; }
            continue;
        }
        if( sched_drv_extra(w, nw) ) continue;
        printf("bad-op\n");
    }
    fflush(stdout);
    drain();
    parsec_fini(&pctx);
    MPI_Finalize();
    return 0;
}
#endif
