/* C42 harness: writes binary profiles with the REAL parsec_profiling_* API (several streams written
 * concurrently by several pthreads, several processes = several init/dbp_start/dump/fini cycles with
 * different ranks) and reads them back with the REAL reader tools/profiling/dbpreader.c (compiled
 * into this program).  Prints the transcript `op => result`; the bytes of every file are emitted as
 * extra ops (`file`, `hexbuf`) so that the Lean model reader decodes the very same bytes.
 *
 * script (stdin); all strings are hex encoded, `-` is the empty string:
 *   case k
 *   layout                                  offsetof/sizeof of the on-disk structures
 *   open rank pages hrid                    setenv buffer_pages; parsec_profiling_init(rank); dbp_start(base, hrid)
 *   key name attrs infolen conv|null        parsec_profiling_add_dictionary_keyword  -> "start end"
 *   ginfo key value                         parsec_profiling_add_information
 *   stream hrid                             parsec_profiling_stream_init             -> index
 *   sinfo s key value                       parsec_profiling_stream_add_information
 *   sinfo! s key value                      same, without the "fits in a buffer" precondition (probe)
 *   ev s key flags tp id payload|-          recorded; executed by `write`
 *   write nthreads                          parsec_profiling_start + threads calling parsec_profiling_trace_flags
 *   close                                   parsec_profiling_dbp_dump + parsec_profiling_fini; then emits the file
 *   read                                    dbp_reader_open_files on all files of the case
 *   rdict f | rthreads f | revents f t      what the reader returns
 *   check f                                 (model side: decoded == written, placement check) expected constant
 *   endread
 * Calls outside the API preconditions are not issued: `rejected` (same rule in the model driver). */
#define _GNU_SOURCE
#include "parsec/parsec_config.h"
#include "parsec/profiling.h"
#include "parsec/parsec_binary_profile.h"
#include "dbpreader.h"
#include "pv.h"
#include <pthread.h>
#include <signal.h>
#include <unistd.h>
#include <stddef.h>
#include <sys/stat.h>
#include <fcntl.h>
#include <sys/wait.h>

#define MAXKEYS 128
#define MAXSTREAMS 64
#define MAXFILES 16

typedef struct { int key, flags, has, pllen; uint32_t tp; uint64_t id; unsigned char *pl; } ev_t;
typedef struct { parsec_profiling_stream_t *s; ev_t *evs; int n, cap; long infobytes; } st_t;

static const char *base = "/tmp/pvC42";
static int opened = 0, rank_ = 0, started = 0;
static long B = 0, avail_ = 0;
static int nkeys = 0; static long keylen[MAXKEYS];
static st_t streams[MAXSTREAMS]; static int nstreams = 0;
static char *files[MAXFILES]; static int nfiles = 0;
static dbp_multifile_reader_t *dbp = NULL;
static int trace_errors = 0;

static void on_fatal(int sig)
{
    const char *m = sig == SIGALRM ? "hang\n" : "crash\n";
    ssize_t r = write(1, m, strlen(m)); (void)r;
    _exit(0);
}

static int unhex(const char *h, unsigned char **out)
{   /* returns length, -1 on malformed */
    if( 0 == strcmp(h, "-") ) { *out = calloc(1, 1); return 0; }
    size_t n = strlen(h);
    if( n % 2 ) return -1;
    unsigned char *b = calloc(n / 2 + 1, 1);
    for(size_t i = 0; i < n / 2; i++) {
        unsigned v;
        if( sscanf(h + 2 * i, "%2x", &v) != 1 ) { free(b); return -1; }
        b[i] = (unsigned char)v;
    }
    *out = b;
    return (int)(n / 2);
}
static int unhex_str(const char *h, char **out)
{   /* C string: no zero byte allowed */
    unsigned char *b; int n = unhex(h, &b);
    if( n < 0 ) return -1;
    for(int i = 0; i < n; i++) if( b[i] == 0 ) { free(b); return -1; }
    *out = (char*)b; return n;
}
static void puthex(const unsigned char *b, size_t n)
{
    static const char d[] = "0123456789abcdef";
    if( n == 0 ) { putchar('-'); return; }
    for(size_t i = 0; i < n; i++) { putchar(d[b[i] >> 4]); putchar(d[b[i] & 15]); }
}
static void puthexs(const char *s) { puthex((const unsigned char*)s, strlen(s)); }

static void reset_case(void)
{
    if( dbp ) { dbp_reader_close_files(dbp); dbp_reader_destruct(dbp); dbp = NULL; }
    if( opened ) { parsec_profiling_fini(); opened = 0; }
    for(int i = 0; i < nstreams; i++) { for(int j = 0; j < streams[i].n; j++) free(streams[i].evs[j].pl); free(streams[i].evs); }
    memset(streams, 0, sizeof streams); nstreams = 0; nkeys = 0; started = 0;
    for(int i = 0; i < nfiles; i++) { unlink(files[i]); free(files[i]); }
    nfiles = 0;
}

typedef struct { int tid, nth; } warg_t;
static pthread_barrier_t bar;
static void *worker(void *a_)
{
    warg_t *a = (warg_t*)a_;
    int idx[MAXSTREAMS] = {0}, progress = 1, first = 1;
    static const char dummy = 0;
    pthread_barrier_wait(&bar);
    while( progress ) {
        progress = 0;
        for(int s = a->tid; s < nstreams; s += a->nth) {
            st_t *st = &streams[s];
            if( idx[s] >= st->n ) continue;
            ev_t *e = &st->evs[idx[s]++];
            const void *info = e->has ? (e->pllen ? (const void*)e->pl : (const void*)&dummy) : NULL;
            int rc;
            if( s == a->tid ) {   /* this thread's default stream: use the thread-specific entry point */
                if( first ) { parsec_profiling_set_default_thread(st->s); first = 0; }
                rc = parsec_profiling_ts_trace_flags_info_fn(e->key, e->id, e->tp, memcpy, info, (uint16_t)e->flags);
            } else
                rc = parsec_profiling_trace_flags(st->s, e->key, e->id, e->tp, info, (uint16_t)e->flags);
            if( rc != 0 ) __sync_fetch_and_add(&trace_errors, 1);
            progress = 1;
        }
    }
    return NULL;
}

static void emit_file(int fi)
{
    FILE *f = fopen(files[fi], "rb");
    if( !f ) { printf("file %d 0 => ok\n", fi); return; }
    fseek(f, 0, SEEK_END); long sz = ftell(f); fseek(f, 0, SEEK_SET);
    unsigned char *buf = malloc(sz + 1);
    if( fread(buf, 1, sz, f) != (size_t)sz ) { sz = 0; }
    fclose(f);
    printf("file %d %ld => ok\n", fi, sz);
    long step = B > 0 ? B : 4096;
    for(long off = 0; off < sz; off += step) {
        long n = sz - off < step ? sz - off : step, last = n;
        while( last > 0 && buf[off + last - 1] == 0 ) last--;
        printf("hexbuf %d ", fi); puthex(buf + off, last); printf(" %ld => ok\n", n - last);
    }
    pv_stat("file_buffers", sz / step);
    free(buf);
}

static int file_ok(int f) { return dbp && f >= 0 && f < dbp_reader_nb_files(dbp) && dbp_file_error(dbp_reader_get_file(dbp, f)) == 0; }

static int alarm_s = 60;

static void exec_line(const char *line)
{
        char *w[8]; int nw = 0;
        char *copy = strdup(line);
        for(char *p = strtok(copy, " "); p && nw < 8; p = strtok(NULL, " ")) w[nw++] = p;
        printf("%s => ", line);
        fflush(stdout);
        if( nw == 2 && 0 == strcmp(w[0], "case") ) { reset_case(); printf("ok\n"); }
        else if( nw == 1 && 0 == strcmp(w[0], "layout") ) {
            typedef parsec_profiling_binary_file_header_t H;
            printf("bufhdr=%zu ev=%zu keyfixed=%zu keytail=%zu thrfixed=%zu infotail=%zu filehdr=%zu "
                   "hdr=%zu,%zu,%zu,%zu,%zu,%zu,%zu,%zu,%zu,%zu,%zu buf=%zu,%zu,%zu evf=%zu,%zu,%zu,%zu,%zu "
                   "keyf=%zu,%zu,%zu,%zu thrf=%zu,%zu,%zu,%zu,%zu,%zu\n",
                   offsetof(parsec_profiling_buffer_t, buffer), sizeof(parsec_profiling_output_base_event_t),
                   offsetof(parsec_profiling_key_buffer_t, convertor), sizeof(parsec_profiling_key_buffer_t) - 1,
                   sizeof(parsec_profiling_stream_buffer_t) - sizeof(parsec_profiling_info_buffer_t),
                   sizeof(parsec_profiling_info_buffer_t) - 1, sizeof(H),
                   offsetof(H, magick), offsetof(H, byte_order), offsetof(H, profile_buffer_size), offsetof(H, hr_id),
                   offsetof(H, dictionary_size), offsetof(H, dictionary_offset), offsetof(H, info_size), offsetof(H, info_offset),
                   offsetof(H, rank), offsetof(H, nb_threads), offsetof(H, thread_offset),
                   offsetof(parsec_profiling_buffer_t, next_buffer_file_offset), offsetof(parsec_profiling_buffer_t, this_buffer),
                   offsetof(parsec_profiling_buffer_t, buffer_type),
                   offsetof(parsec_profiling_output_base_event_t, key), offsetof(parsec_profiling_output_base_event_t, flags),
                   offsetof(parsec_profiling_output_base_event_t, taskpool_id), offsetof(parsec_profiling_output_base_event_t, event_id),
                   offsetof(parsec_profiling_output_base_event_t, timestamp),
                   offsetof(parsec_profiling_key_buffer_t, name), offsetof(parsec_profiling_key_buffer_t, attributes),
                   offsetof(parsec_profiling_key_buffer_t, keyinfo_convertor_length), offsetof(parsec_profiling_key_buffer_t, keyinfo_length),
                   offsetof(parsec_profiling_stream_buffer_t, next_thread_offset), offsetof(parsec_profiling_stream_buffer_t, nb_events),
                   offsetof(parsec_profiling_stream_buffer_t, hr_id), offsetof(parsec_profiling_stream_buffer_t, first_events_buffer_offset),
                   offsetof(parsec_profiling_stream_buffer_t, nb_infos), offsetof(parsec_profiling_stream_buffer_t, infos));
        }
        else if( nw == 4 && 0 == strcmp(w[0], "open") ) {
            int rank = atoi(w[1]), pages = atoi(w[2]); char *hr;
            if( opened || nfiles >= MAXFILES || pages < 1 || pages > 16 || rank < 0 || unhex_str(w[3], &hr) < 0 ) { printf("rejected\n"); goto next; }
            char pg[16]; snprintf(pg, sizeof pg, "%d", pages);
            setenv("PARSEC_MCA_profile_buffer_pages", pg, 1);
            int rc = parsec_profiling_init(rank);
            if( rc == 0 ) rc = parsec_profiling_dbp_start(base, hr);
            if( rc != 0 ) { printf("err %d %s\n", rc, parsec_profiling_strerror()); goto next; }
            opened = 1; rank_ = rank; started = 0; nkeys = 1; keylen[0] = 0; nstreams = 0; trace_errors = 0;
            B = pages * sysconf(_SC_PAGESIZE); avail_ = B - (long)offsetof(parsec_profiling_buffer_t, buffer);
            if( asprintf(&files[nfiles], "%s-%d.prof", base, rank) < 0 ) abort();
            nfiles++;
            printf("ok B=%ld\n", B);
            free(hr);
        }
        else if( nw == 5 && 0 == strcmp(w[0], "key") ) {
            char *name, *attrs, *conv = NULL; long il = atol(w[3]); int cl = 0;
            if( !opened || unhex_str(w[1], &name) < 0 || unhex_str(w[2], &attrs) < 0 ) { printf("rejected\n"); goto next; }
            if( strcmp(w[4], "null") && (cl = unhex_str(w[4], &conv)) < 0 ) { printf("rejected\n"); goto next; }
            if( il < 0 || il >= 2147483648L || 203 + cl >= avail_ || nkeys >= MAXKEYS - 1 ) { printf("rejected\n"); goto next; }
            int ks = -1, ke = -1;
            int rc = parsec_profiling_add_dictionary_keyword(name, attrs, (size_t)il, conv, &ks, &ke);
            if( rc != 0 ) { printf("err %d\n", rc); goto next; }
            if( ks / 2 >= nkeys ) { keylen[ks / 2] = il; nkeys = ks / 2 + 1; }
            printf("%d %d\n", ks, ke);
        }
        else if( nw == 3 && 0 == strcmp(w[0], "ginfo") ) {
            char *k, *v;
            if( !opened || unhex_str(w[1], &k) < 0 || unhex_str(w[2], &v) < 0 ) { printf("rejected\n"); goto next; }
            parsec_profiling_add_information(k, v);
            printf("ok\n");
        }
        else if( nw == 2 && 0 == strcmp(w[0], "stream") ) {
            char *hr;
            if( !opened || nstreams >= MAXSTREAMS || unhex_str(w[1], &hr) < 0 ) { printf("rejected\n"); goto next; }
            parsec_profiling_stream_t *s = parsec_profiling_stream_init(4096, "%s", hr);
            if( NULL == s ) { printf("err %s\n", parsec_profiling_strerror()); goto next; }
            streams[nstreams].s = s; streams[nstreams].infobytes = 156;
            printf("%d\n", nstreams++);
        }
        else if( nw == 4 && (0 == strcmp(w[0], "sinfo") || 0 == strcmp(w[0], "sinfo!")) ) {
            int s = atoi(w[1]); char *k, *v; int kl, vl;
            if( !opened || s < 0 || s >= nstreams || (kl = unhex_str(w[2], &k)) < 0 || (vl = unhex_str(w[3], &v)) < 0 ) { printf("rejected\n"); goto next; }
            if( w[0][5] != '!' && streams[s].infobytes + 11 + kl + vl >= avail_ ) { printf("rejected\n"); goto next; }
            streams[s].infobytes += 11 + kl + vl;
            parsec_profiling_stream_add_information(streams[s].s, k, v);
            printf("ok\n");
        }
        else if( nw == 7 && 0 == strcmp(w[0], "ev") ) {
            int s = atoi(w[1]), key = atoi(w[2]), flags = atoi(w[3]);
            unsigned long long tp = strtoull(w[4], NULL, 10), id = strtoull(w[5], NULL, 10);
            int has = strcmp(w[6], "-") != 0;
            unsigned char *pl = NULL; int pllen = 0;
            if( !opened || started || s < 0 || s >= nstreams || key < 2 || key >= 2 * nkeys || flags < 0 || flags > 65535 || (flags & 1) || tp > 4294967295ULL ) { printf("rejected\n"); goto next; }
            if( has ) {    /* `e` = info present with an empty payload (only legal for keys of info length 0) */
                pllen = 0 == strcmp(w[6], "e") ? 0 : unhex(w[6], &pl);
                if( pllen < 0 || pllen != keylen[key / 2] ) { printf("rejected\n"); goto next; }
            }
            if( 24 + (has ? keylen[key / 2] : 0) >= avail_ ) { printf("rejected\n"); goto next; }
            st_t *st = &streams[s];
            if( st->n == st->cap ) { st->cap = st->cap ? 2 * st->cap : 64; st->evs = realloc(st->evs, st->cap * sizeof(ev_t)); }
            st->evs[st->n++] = (ev_t){ key, flags, has, pllen, (uint32_t)tp, id, pl };
            printf("ok\n");
        }
        else if( nw == 2 && 0 == strcmp(w[0], "write") ) {
            int nth = atoi(w[1]);
            if( !opened || started || nth < 1 || nth > 16 ) { printf("rejected\n"); goto next; }
            started = 1;
            parsec_profiling_start();
            pthread_t th[16]; warg_t wa[16];
            pthread_barrier_init(&bar, NULL, nth);
            for(int i = 0; i < nth; i++) { wa[i].tid = i; wa[i].nth = nth; pthread_create(&th[i], NULL, worker, &wa[i]); }
            for(int i = 0; i < nth; i++) pthread_join(th[i], NULL);
            pthread_barrier_destroy(&bar);
            parsec_profiling_set_default_thread(NULL);
            long tot = 0; for(int i = 0; i < nstreams; i++) tot += streams[i].n;
            printf("ok events=%ld errors=%d\n", tot, trace_errors);
            pv_stat("events_written", tot); pv_stat("writer_threads", nth);
        }
        else if( nw == 1 && 0 == strcmp(w[0], "close") ) {
            if( !opened ) { printf("rejected\n"); goto next; }
            alarm(alarm_s);
            int rc = parsec_profiling_dbp_dump();
            int rc2 = parsec_profiling_fini();
            alarm(0);
            opened = 0;
            for(int i = 0; i < nstreams; i++) { for(int j = 0; j < streams[i].n; j++) free(streams[i].evs[j].pl); free(streams[i].evs); }
            memset(streams, 0, sizeof streams); nstreams = 0;
            printf("ok %d %d\n", rc, rc2);
            emit_file(nfiles - 1);
        }
        else if( nw == 1 && 0 == strcmp(w[0], "read") ) {
            if( opened || dbp || nfiles == 0 ) { printf("rejected\n"); goto next; }
            alarm(alarm_s);
            dbp = dbp_reader_open_files(nfiles, files);
            alarm(0);
            printf("nfiles=%d errs=", dbp_reader_nb_files(dbp));
            for(int i = 0; i < dbp_reader_nb_files(dbp); i++) printf("%s%d", i ? "," : "", dbp_file_error(dbp_reader_get_file(dbp, i)));
            printf(" gdict=%d\n", dbp_reader_nb_dictionary_entries(dbp));
            for(int i = 0; i < dbp_reader_nb_files(dbp); i++) {
                if( !file_ok(i) ) continue;
                dbp_file_t *f = dbp_reader_get_file(dbp, i);
                printf("#file %d rank=%d hrid=", i, dbp_file_get_rank(f)); puthexs(dbp_file_hr_id(f)); printf("\n");
                for(int j = 0; j < dbp_file_nb_infos(f); j++) {
                    dbp_info_t *nfo = dbp_file_get_info(f, j);
                    printf("#ginfo %d ", i); puthexs(dbp_info_get_key(nfo)); putchar(' ');
                    if( strlen(dbp_info_get_value(nfo)) > 20000 ) printf("long:%zu", strlen(dbp_info_get_value(nfo))); else puthexs(dbp_info_get_value(nfo));
                    printf("\n");
                }
            }
        }
        else if( nw == 2 && 0 == strcmp(w[0], "rfile") ) {
            int f = atoi(w[1]);
            if( !file_ok(f) ) { printf("rejected\n"); goto next; }
            dbp_file_t *fl = dbp_reader_get_file(dbp, f);
            printf("rank=%d hrid=", dbp_file_get_rank(fl)); puthexs(dbp_file_hr_id(fl));
            printf(" nthreads=%d ndict=%d\n", dbp_file_nb_threads(fl), dbp_file_nb_dictionary_entries(fl));
        }
        else if( nw == 2 && 0 == strcmp(w[0], "rdict") ) {
            int f = atoi(w[1]);
            if( !file_ok(f) ) { printf("rejected\n"); goto next; }
            dbp_file_t *fl = dbp_reader_get_file(dbp, f);
            printf("[");
            for(int d = 0; d < dbp_file_nb_dictionary_entries(fl); d++) {
                dbp_dictionary_t *dc = dbp_file_get_dictionary(fl, d);
                printf("%sg%d:", d ? " " : "", dbp_file_translate_local_dico_to_global(fl, d));
                puthexs(dbp_dictionary_name(dc)); putchar(':'); puthexs(dbp_dictionary_attributes(dc));
                printf(":%d:", dbp_dictionary_keylen(dc)); puthexs(dbp_dictionary_convertor(dc));
            }
            printf("]\n");
        }
        else if( nw == 2 && 0 == strcmp(w[0], "rthreads") ) {
            int f = atoi(w[1]);
            if( !file_ok(f) ) { printf("rejected\n"); goto next; }
            dbp_file_t *fl = dbp_reader_get_file(dbp, f);
            printf("[");
            for(int t = 0; t < dbp_file_nb_threads(fl); t++) {
                dbp_thread_t *th = dbp_file_get_thread(fl, t);
                printf("%s", t ? " " : ""); puthexs(dbp_thread_get_hr_id(th)); printf(":%d:", dbp_thread_nb_events(th));
                for(int j = 0; j < dbp_thread_nb_infos(th); j++) {
                    dbp_info_t *nfo = dbp_thread_get_info(th, j);
                    printf("%s", j ? "," : ""); puthexs(dbp_info_get_key(nfo)); putchar('='); puthexs(dbp_info_get_value(nfo));
                }
            }
            printf("]\n");
        }
        else if( nw == 3 && 0 == strcmp(w[0], "revents") ) {
            int f = atoi(w[1]), t = atoi(w[2]);
            if( !file_ok(f) || t < 0 || t >= dbp_file_nb_threads(dbp_reader_get_file(dbp, f)) ) { printf("rejected\n"); goto next; }
            dbp_file_t *fl = dbp_reader_get_file(dbp, f);
            dbp_thread_t *th = dbp_file_get_thread(fl, t);
            alarm(alarm_s);
            dbp_event_iterator_t *it = dbp_iterator_new_from_thread(th);
            const dbp_event_t *e = dbp_iterator_current(it);
            long n = 0; int mono = 1; uint64_t last = 0;
            printf("[");
            while( NULL != e ) {
                uint64_t ts = dbp_event_get_timestamp(e);
                if( ts < last ) mono = 0;
                last = ts;
                int il = dbp_event_info_len(e, fl);
                printf("%s%d.%d.%u.%llu.", n ? " " : "", dbp_event_get_key(e), dbp_event_get_flags(e), dbp_event_get_taskpool_id(e),
                       (unsigned long long)dbp_event_get_event_id(e));
                if( dbp_event_get_flags(e) & PARSEC_PROFILING_EVENT_HAS_INFO ) { if( il ) puthex(dbp_event_get_info(e), il); else putchar('e'); }
                else putchar('-');
                n++;
                e = dbp_iterator_next(it);
            }
            dbp_iterator_delete(it);
            alarm(0);
            printf("] n=%ld mono=%d\n", n, mono);
            pv_stat("events_read", n);
        }
        else if( nw == 2 && 0 == strcmp(w[0], "check") ) {
            if( !file_ok(atoi(w[1])) ) { printf("rejected\n"); goto next; }
            printf("wf=1 same=1 layout=1\n");
        }
        else if( nw == 1 && 0 == strcmp(w[0], "endread") ) {
            if( !dbp ) { printf("rejected\n"); goto next; }
            dbp_reader_close_files(dbp); dbp_reader_destruct(dbp); dbp = NULL;
            printf("ok\n");
        }
        else printf("bad-op\n");
      next:
        free(copy);
        fflush(stdout);
}

/* `open` accepted?  (same rule as in exec_line; used by the parent to decide whether a child process is started) */
static int open_ok(const char *line)
{
    int rank, pages; char hr[4096];
    if( sscanf(line, "open %d %d %4095s", &rank, &pages, hr) != 3 ) return 0;
    char *h;
    if( opened || nfiles >= MAXFILES || pages < 1 || pages > 16 || rank < 0 || unhex_str(hr, &h) < 0 ) return 0;
    free(h);
    return 1;
}

/* One profiled process = one child process (the library keeps file offsets in static variables that are not
 * reset by parsec_profiling_fini: see finding C42-F3; argv[2] = "samepid" keeps everything in this process). */
static void run_child(char **lines, int n)
{
    fflush(stdout);
    pid_t pid = fork();
    if( pid == 0 ) {
        for(int i = 0; i < n; i++) exec_line(lines[i]);
        fflush(stdout);
        _exit(0);
    }
    int st = 0;
    waitpid(pid, &st, 0);
    if( !WIFEXITED(st) ) printf("crash\n");
    int rank = atoi(lines[0] + 5);
    if( asprintf(&files[nfiles], "%s-%d.prof", base, rank) < 0 ) abort();
    nfiles++;
}

int main(int argc, char **argv)
{
    char *line = NULL; size_t cap = 0;
    char **pend = NULL; int npend = 0, cpend = 0, collecting = 0, samepid = 0;
    if( argc > 1 ) base = argv[1];
    if( argc > 2 && 0 == strcmp(argv[2], "samepid") ) samepid = 1;
    if( getenv("PVC42_ALARM") ) alarm_s = atoi(getenv("PVC42_ALARM"));
    signal(SIGSEGV, on_fatal); signal(SIGBUS, on_fatal); signal(SIGALRM, on_fatal); signal(SIGABRT, on_fatal);
    while( getline(&line, &cap, stdin) > 0 ) {
        line[strcspn(line, "\n")] = 0;
        if( line[0] == 0 ) continue;
        if( !samepid ) {
            if( !collecting && 0 == strncmp(line, "open ", 5) && open_ok(line) ) { collecting = 1; npend = 0; }
            if( collecting ) {
                if( npend == cpend ) { cpend = cpend ? 2 * cpend : 1024; pend = realloc(pend, cpend * sizeof(char*)); }
                pend[npend++] = strdup(line);
                if( 0 == strcmp(line, "close") ) {
                    run_child(pend, npend);
                    for(int i = 0; i < npend; i++) free(pend[i]);
                    npend = 0; collecting = 0;
                }
                continue;
            }
        }
        exec_line(line);
    }
    if( collecting ) run_child(pend, npend);
    reset_case();
    return 0;
}
