/* C06 / C15 harness: randomised start / add / wait / test / taskpool_wait histories on the REAL
 * runtime (single process, K threads), with PTG taskpools generated at check time from
 * harness/ctx/ctx_{chain,fork,indep}.jdf and compositions built with parsec_compose.
 *
 * stdin: a script (one op per line, see below); argv[1] = number of threads K (master included),
 *        argv[2] = per-case watchdog in seconds.
 * stdout: per case a transcript
 *     case k K => ok
 *     decl tp <id> <total tasks> => ok
 *     decl compose <rid> <a> <b> => kind=<new|append> n=<nb_taskpools> term=<array[nb]==NULL> members=<id,id,...>
 *                                                (one line per parsec_compose call; the state of the RETURNED compound read through the mirror:
 *                                                 members = ids of taskpool_array[0..n-1], -1 for a pointer that is no taskpool of the case)
 *     ev <kind> <thread> <a> <b> => ok          (all events of the case, ordered by the global stamp; cb/cbe = begin/end of a callback)
 *     end => quiescent | not-quiescent active=<v>
 * Events are recorded by test-owned task bodies and completion callbacks, by the master around
 * every API call, and by the H1 yield hook (guard PARSEC_VERIF) for every atomic read-modify-write
 * of context->active_taskpools (`rmw`) and of a compound's nb_pending_actions (`mcb`, i.e. the
 * completion callback parsec_composed_taskpool_cb of a member).  One global atomic counter gives the
 * stamps.  A watchdog dumps the events of a hanging case, prints `!viol hang ...` and exits 3.
 *
 * script ops:
 *   case k
 *   tp <id> chain|fork|indep <n> <delay>     create a PTG taskpool (ids dense from 0 per case)
 *   cb <id>                                  give taskpool/compound <id> a test-owned completion callback
 *   cbdelay <id> <us>                        that callback spins <us> between its begin (`cb`) and end (`cbe`) stamps
 *   cbadd <id> <id2>                         that callback adds taskpool <id2> to the context
 *   addat <id> <task> <id2>                  the body of task <task> of <id> adds taskpool <id2>
 *   compose <rid> <a> <b>                    r = parsec_compose(a, b); a, b plain taskpools or compounds (any composition tree).  If <a> is a compound
 *                                            r must be a itself (<rid> = <a>, b appended as a member, nested if b is a compound), otherwise r is a NEW
 *                                            compound [a, b] registered under the fresh id <rid>
 *   compound <cid> <m1> ... <mn>             the left fold compose cid m1 m2; compose cid cid m3; ...   (n >= 2)
 *   compose1 <id>                            parsec_compose(tp, NULL) and (NULL, tp) must return tp
 *   start | wait | test | active | add <id> | tpwait <id> | tpwaitlate <id> <us> | stall <us> | stalladd <us> | sleep <us>
 *       tpwaitlate: call parsec_taskpool_wait(<id>) as soon as the completion callback of <id> has begun (at most <us> later)
 *       stall: the next RMW of active_taskpools by a worker that reads 0 first sleeps <us> (a preemption at that point)
 *       stalladd: every test-issued add_taskpool sleeps <us> right before its first RMW of active_taskpools
 *   endcase
 */
#include "parsec.h"
#include "parsec/parsec_internal.h"
#include "parsec/data_distribution.h"
#include "parsec/execution_stream.h"
#include "parsec/sys/atomic.h"
#include "ctx_chain.h"
#include "ctx_fork.h"
#include "ctx_indep.h"
#include "pv.h"
#include <stdarg.h>
#include <pthread.h>
#include <time.h>
#include <unistd.h>

extern void (*parsec_verif_yield_cb)(int kind, volatile void *addr);

/* mirror of the private struct of parsec/compound.c (observation only) */
typedef struct {
    parsec_taskpool_t super;
    parsec_context_t* ctx;
    int32_t nb_taskpools;
    uint32_t completed_taskpools;
    parsec_taskpool_t** taskpool_array;
} compound_mirror_t;

enum { EV_TB, EV_TE, EV_CB, EV_CBE, EV_ADD, EV_ADDRET, EV_RMW, EV_MCB, EV_STARTCALL, EV_START, EV_WAITCALL, EV_WAITRET,
       EV_TPWAITCALL, EV_TPWAITRET, EV_TEST, EV_ACTIVE, EV_NKINDS };
static const char *ev_name[] = { "tb", "te", "cb", "cbe", "add", "addret", "rmw", "mcb", "startcall", "start", "waitcall", "waitret",
                                 "tpwaitcall", "tpwaitret", "test", "active" };
typedef struct { int kind, t, a, b; } ev_t;
#define MAXEV (1 << 20)
static ev_t *evs;
static int32_t nev = 0;

#define MAXTP 128
typedef struct {
    int used, kind /*0 chain 1 fork 2 indep 3 compound*/, n, delay, has_cb, added, cbdelay;
    int member;              /* was passed to parsec_compose as a member of some compound (a nested compound if kind == 3): never gets a test callback */
    int alias;               /* tp is an object already registered under another id (only with a broken parsec_compose): never freed through this entry */
    volatile int cb_state;   /* 0 = callback not begun, 1 = running, 2 = ended */
    parsec_taskpool_t *tp;
    int ncbadd, cbadd[8];
    int naddat; struct { int task, id; } addat[16];
    int nmem, mem[32];
} tpd_t;
static tpd_t T[MAXTP];
static parsec_context_t *ctx;
static parsec_data_collection_t A;
static int K = 1, wd_limit = 30;
static volatile time_t case_t0 = 0;
static volatile int case_no = -1;
static volatile int32_t stall_us = 0, stalladd_us = 0;
static __thread int pend_add = 0;   /* the calling thread is inside a test-issued add_taskpool, before its first counter update */
static int dbg = 0;
static long n_tasks = 0, n_adds_task = 0, n_adds_cb = 0, n_stalls = 0, n_late = 0;

static inline int me(void)
{
    parsec_execution_stream_t *es = parsec_my_execution_stream();
    return es ? es->th_id : 99;
}
static inline void ev(int kind, int t, int a, int b)
{
    int32_t i = __atomic_fetch_add(&nev, 1, __ATOMIC_SEQ_CST);
    if( i < MAXEV ) { evs[i].kind = kind; evs[i].t = t; evs[i].a = a; evs[i].b = b; }
}

static void dump_events(void)
{
    int32_t n = nev < MAXEV ? nev : MAXEV;
    for( int32_t i = 0; i < n; i++ )
        printf("ev %s %d %d %d => ok\n", ev_name[evs[i].kind], evs[i].t, evs[i].a, evs[i].b);
    fflush(stdout);
}

static void *watchdog(void *_)
{
    (void)_;
    for(;;) {
        usleep(100000);
        time_t t0 = case_t0;
        if( t0 && time(NULL) - t0 > wd_limit ) {
            dump_events();
            printf("!viol hang case %d: no progress for %d s (active_taskpools=%d)\n", case_no, wd_limit, ctx ? ctx->active_taskpools : -99);
            fflush(stdout);
            _exit(3);
        }
    }
    return NULL;
}

static void ycb(int kind, volatile void *addr)
{
    if( kind != PARSEC_VERIF_K_RMW || NULL == ctx ) return;
    if( addr == (volatile void*)&ctx->active_taskpools ) {
        int t = me();
        int v = ctx->active_taskpools;
        ev(EV_RMW, t, v, 0);
        if( pend_add ) { pend_add = 0; if( stalladd_us > 0 ) usleep(stalladd_us); }
        if( t != 0 && 0 == v && stall_us > 0 ) {
            int32_t us = __atomic_exchange_n(&stall_us, 0, __ATOMIC_SEQ_CST);
            if( us > 0 ) { __atomic_fetch_add(&n_stalls, 1, __ATOMIC_RELAXED); usleep(us); }
        }
        return;
    }
    if( dbg ) for( int i = 0; i < MAXTP; i++ )
        if( T[i].used && 3 != T[i].kind && T[i].tp && addr == (volatile void*)&T[i].tp->nb_pending_actions )
            fprintf(stderr, "rmw nb_pa of %d by thread %d, value before %d, nb_tasks %d\n", i, me(), T[i].tp->nb_pending_actions, T[i].tp->nb_tasks);
    for( int i = 0; i < MAXTP; i++ ) {
        if( T[i].used && 3 == T[i].kind && addr == (volatile void*)&T[i].tp->nb_pending_actions ) {
            ev(EV_MCB, me(), i, 0);
            return;
        }
    }
}

static void spin_us(int us)
{
    if( us <= 0 ) return;
    struct timespec a, b;
    clock_gettime(CLOCK_MONOTONIC, &a);
    if( us >= 100 ) { usleep(us); return; }
    do { clock_gettime(CLOCK_MONOTONIC, &b); } while( (b.tv_sec - a.tv_sec) * 1000000L + (b.tv_nsec - a.tv_nsec) / 1000 < us );
}

static void do_add(int t, int id)
{
    ev(EV_ADD, t, id, 0);
    T[id].added = 1;
    pend_add = 1;
    parsec_context_add_taskpool(ctx, T[id].tp);
    pend_add = 0;
    ev(EV_ADDRET, t, id, 0);
}

void ctx_body(parsec_execution_stream_t *es, int tag, int task, int phase)
{
    int t = es->th_id;
    if( 0 == phase ) {
        ev(EV_TB, t, tag, task);
        tpd_t *d = &T[tag];
        for( int i = 0; i < d->naddat; i++ )
            if( d->addat[i].task == task ) { __atomic_fetch_add(&n_adds_task, 1, __ATOMIC_RELAXED); do_add(t, d->addat[i].id); }
        if( d->delay ) spin_us((int)(((unsigned)(tag * 7919 + task * 104729 + d->delay * 31)) % (unsigned)(d->delay + 1)));
    } else {
        ev(EV_TE, t, tag, task);
        __atomic_fetch_add(&n_tasks, 1, __ATOMIC_RELAXED);
    }
}

static int on_complete(parsec_taskpool_t *tp, void *data)
{
    int id = (int)(intptr_t)data;
    int t = me();
    (void)tp;
    ev(EV_CB, t, id, 0);
    T[id].cb_state = 1;
    for( int i = 0; i < T[id].ncbadd; i++ ) { __atomic_fetch_add(&n_adds_cb, 1, __ATOMIC_RELAXED); do_add(t, T[id].cbadd[i]); }
    if( T[id].cbdelay ) spin_us(T[id].cbdelay);     /* a callback that takes some time */
    else if( T[id].delay ) spin_us(T[id].delay);
    ev(EV_CBE, t, id, 0);
    T[id].cb_state = 2;
    return 0;
}

static uint32_t rank_of(parsec_data_collection_t *d, ...) { (void)d; return 0; }
static int32_t vpid_of(parsec_data_collection_t *d, ...) { (void)d; return 0; }
static parsec_data_t* data_of(parsec_data_collection_t *d, ...) { (void)d; return NULL; }
static uint32_t rank_of_key(parsec_data_collection_t *d, parsec_data_key_t k) { (void)d; (void)k; return 0; }
static int32_t vpid_of_key(parsec_data_collection_t *d, parsec_data_key_t k) { (void)d; (void)k; return 0; }
static parsec_data_t* data_of_key(parsec_data_collection_t *d, parsec_data_key_t k) { (void)d; (void)k; return NULL; }
static parsec_data_key_t data_key(parsec_data_collection_t *d, ...) { va_list ap; va_start(ap, d); int k = va_arg(ap, int); va_end(ap); return (parsec_data_key_t)k; }

static int ntasks_of(const tpd_t *d) { return 1 == d->kind ? d->n + 2 : d->n; }

static int id_of_tp(const parsec_taskpool_t *p)
{
    if( NULL == p ) return -1;
    for( int i = 0; i < MAXTP; i++ ) if( T[i].used && T[i].tp == p ) return i;
    return -1;
}

/* r = parsec_compose(T[a].tp, T[b].tp), a and b of either kind; prints one `decl compose` line */
static void do_compose(int rid, int a, int b)
{
    if( rid < 0 || rid >= MAXTP || a < 0 || a >= MAXTP || b < 0 || b >= MAXTP || !T[a].used || !T[b].used || a == b ) {
        printf("compose %d %d %d => bad-op\n", rid, a, b);
        return;
    }
    int append = (3 == T[a].kind);
    parsec_taskpool_t *r = parsec_compose(T[a].tp, T[b].tp);
    if( append ) {
        if( r != T[a].tp || rid != a )
            printf("!viol compose %d %d %d: start is a compound, parsec_compose must return it (returned %s, id %d)\n", rid, a, b, r == T[a].tp ? "start" : "another object", id_of_tp(r));
        if( T[a].nmem < 32 ) T[a].mem[T[a].nmem++] = b;
    } else {
        tpd_t *d = &T[rid];
        int ex = id_of_tp(r);
        if( d->used ) { printf("!viol compose %d %d %d: result id already in use\n", rid, a, b); return; }
        if( ex >= 0 ) { printf("!viol compose %d %d %d: start is a plain taskpool, parsec_compose must return a new compound (returned the object of id %d)\n", rid, a, b, ex); d->alias = 1; }
        d->kind = 3; d->nmem = 2; d->mem[0] = a; d->mem[1] = b; d->tp = r;
        __atomic_thread_fence(__ATOMIC_SEQ_CST);
        d->used = 1;
        T[a].member = 1;
    }
    T[b].member = 1;
    printf("decl compose %d %d %d => kind=%s", rid, a, b, append ? "append" : "new");
    if( NULL != r && PARSEC_TASKPOOL_TYPE_COMPOUND == r->taskpool_type ) {
        compound_mirror_t *m = (compound_mirror_t*)r;
        int n = m->nb_taskpools;
        printf(" n=%d term=%d members=", n, (n >= 0 && n < 4096) ? (NULL == m->taskpool_array[n]) : 0);
        for( int i = 0; i < n && i < 4096; i++ ) printf("%s%d", i ? "," : "", id_of_tp(m->taskpool_array[i]));
        printf("\n");
    } else {
        printf(" n=-1 term=0 members=\n");
    }
}

static void end_case(void)
{
    if( case_no < 0 ) return;
    int act = ctx->active_taskpools;
    int started = !!(ctx->flags & PARSEC_CONTEXT_FLAG_CONTEXT_ACTIVE);
    /* release the taskpools that went through the context (never-added ones are leaked on purpose): the members of a compound that was
     * added went through it too (nested compounds are added by the callback of their parent).  Every object exactly once: one entry of T
     * per compound object (compose with a compound `start` returns the same object and creates no entry). */
    if( 0 == act && !started ) {
        for( int ch = 1; ch; ) {
            ch = 0;
            for( int i = 0; i < MAXTP; i++ ) if( T[i].used && 3 == T[i].kind && T[i].added )
                for( int j = 0; j < T[i].nmem; j++ ) if( !T[T[i].mem[j]].added ) { T[T[i].mem[j]].added = 1; ch = 1; }
        }
        for( int i = 0; i < MAXTP; i++ ) if( T[i].used && 3 != T[i].kind && T[i].added && !T[i].alias ) parsec_taskpool_free(T[i].tp);
        for( int i = 0; i < MAXTP; i++ ) if( T[i].used && 3 == T[i].kind && T[i].added && !T[i].alias ) parsec_taskpool_free(T[i].tp);
    }
    dump_events();
    if( nev >= MAXEV ) printf("!viol event buffer overflow in case %d\n", case_no);
    if( 0 == act && !started ) printf("end => quiescent\n"); else printf("end => not-quiescent active=%d started=%d\n", act, started);
    fflush(stdout);
    case_t0 = 0;
    if( !(0 == act && !started) ) _exit(4);      /* the context is not reusable: do not run further cases in it */
}

int main(int argc, char **argv)
{
    int prov;
    char line[4096];
    MPI_Init_thread(&argc, &argv, MPI_THREAD_SERIALIZED, &prov);
    K = argc > 1 ? atoi(argv[1]) : 2;
    dbg = NULL != getenv("CTX_DEBUG");
    wd_limit = argc > 2 ? atoi(argv[2]) : 30;
    evs = (ev_t*)malloc(sizeof(ev_t) * MAXEV);
    ctx = parsec_init(K, NULL, NULL);
    if( NULL == ctx ) { printf("!viol parsec_init failed\n"); return 2; }
    parsec_data_collection_init(&A, 1, 0);
    A.rank_of = rank_of; A.vpid_of = vpid_of; A.data_of = data_of;
    A.rank_of_key = rank_of_key; A.vpid_of_key = vpid_of_key; A.data_of_key = data_of_key; A.data_key = data_key;
    pthread_t wd; pthread_create(&wd, NULL, watchdog, NULL);
    parsec_verif_yield_cb = ycb;

    while( fgets(line, sizeof(line), stdin) ) {
        char *w[64]; int nw = 0;
        for( char *p = strtok(line, " \t\r\n"); p && nw < 64; p = strtok(NULL, " \t\r\n") ) w[nw++] = p;
        if( 0 == nw || '#' == w[0][0] ) continue;
        if( !strcmp(w[0], "case") && nw == 2 ) {
            end_case();
            memset(T, 0, sizeof(T)); nev = 0; stall_us = 0; stalladd_us = 0;
            case_no = atoi(w[1]); case_t0 = time(NULL);
            printf("case %d %d => ok\n", case_no, K);
        } else if( !strcmp(w[0], "tp") && nw == 5 ) {
            int id = atoi(w[1]), n = atoi(w[3]); tpd_t *d = &T[id];
            d->used = 1; d->n = n; d->delay = atoi(w[4]);
            if( !strcmp(w[2], "chain") )      { d->kind = 0; d->tp = (parsec_taskpool_t*)parsec_ctx_chain_new(id, n, &A); }
            else if( !strcmp(w[2], "fork") )  { d->kind = 1; d->tp = (parsec_taskpool_t*)parsec_ctx_fork_new(id, n, &A); }
            else                              { d->kind = 2; d->tp = (parsec_taskpool_t*)parsec_ctx_indep_new(id, n, &A); }
            printf("decl tp %d %d => ok\n", id, ntasks_of(d));
        } else if( !strcmp(w[0], "cb") && nw == 2 ) {
            int id = atoi(w[1]);
            if( T[id].member ) { printf("!viol cb %d: a member of a compound must not have a completion callback (the compound owns on_complete)\n", id); continue; }
            T[id].has_cb = 1;
            T[id].tp->on_complete = on_complete; T[id].tp->on_complete_data = (void*)(intptr_t)id;
        } else if( !strcmp(w[0], "cbdelay") && nw == 3 ) {
            T[atoi(w[1])].cbdelay = atoi(w[2]);
        } else if( !strcmp(w[0], "cbadd") && nw == 3 ) {
            tpd_t *d = &T[atoi(w[1])]; d->cbadd[d->ncbadd++] = atoi(w[2]);
        } else if( !strcmp(w[0], "addat") && nw == 4 ) {
            tpd_t *d = &T[atoi(w[1])]; d->addat[d->naddat].task = atoi(w[2]); d->addat[d->naddat++].id = atoi(w[3]);
        } else if( !strcmp(w[0], "compose") && nw == 4 ) {
            do_compose(atoi(w[1]), atoi(w[2]), atoi(w[3]));
        } else if( !strcmp(w[0], "compound") && nw >= 4 ) {
            int cid = atoi(w[1]);
            do_compose(cid, atoi(w[2]), atoi(w[3]));
            for( int i = 4; i < nw; i++ ) do_compose(cid, cid, atoi(w[i]));
        } else if( !strcmp(w[0], "compose1") && nw == 2 ) {
            int id = atoi(w[1]);
            int same = (parsec_compose(T[id].tp, NULL) == T[id].tp) && (parsec_compose(NULL, T[id].tp) == T[id].tp);
            printf("compose1 %d => %s\n", id, same ? "same" : "different");
        } else if( !strcmp(w[0], "start") ) {
            ev(EV_STARTCALL, 0, 0, 0); int r = parsec_context_start(ctx); ev(EV_START, 0, r, 0);
        } else if( !strcmp(w[0], "wait") ) {
            ev(EV_WAITCALL, 0, 0, 0); int r = parsec_context_wait(ctx); ev(EV_WAITRET, 0, r < 0 ? -1 : 0, 0);
        } else if( !strcmp(w[0], "test") ) {
            ev(EV_TEST, 0, parsec_context_test(ctx), 0);
        } else if( !strcmp(w[0], "active") ) {
            ev(EV_ACTIVE, 0, ctx->active_taskpools, 0);
        } else if( !strcmp(w[0], "add") && nw == 2 ) {
            do_add(0, atoi(w[1]));
        } else if( !strcmp(w[0], "tpwait") && nw == 2 ) {
            int id = atoi(w[1]);
            ev(EV_TPWAITCALL, 0, id, 0); int r = parsec_taskpool_wait(T[id].tp); ev(EV_TPWAITRET, 0, id, r < 0 ? -1 : 0);
        } else if( !strcmp(w[0], "tpwaitlate") && nw == 3 ) {
            /* enter parsec_taskpool_wait LATE: once the completion callback of <id> has begun on some worker (or after <us>) */
            int id = atoi(w[1]); long lim = (K > 1) ? atol(w[2]) : 0;   /* without workers nothing runs while the master is outside */
            struct timespec a, b; clock_gettime(CLOCK_MONOTONIC, &a);
            while( 0 == T[id].cb_state ) {
                clock_gettime(CLOCK_MONOTONIC, &b);
                if( (b.tv_sec - a.tv_sec) * 1000000L + (b.tv_nsec - a.tv_nsec) / 1000 > lim ) break;
            }
            if( 1 == T[id].cb_state ) __atomic_fetch_add(&n_late, 1, __ATOMIC_RELAXED);
            if( getenv("CTX_DEBUG") ) fprintf(stderr, "tpwaitlate %d: cb_state=%d nb_tasks=%d nb_pa=%d monitor=%p\n", id, T[id].cb_state, T[id].tp->nb_tasks, T[id].tp->nb_pending_actions, T[id].tp->tdm.monitor);
            ev(EV_TPWAITCALL, 0, id, 0); int r = parsec_taskpool_wait(T[id].tp); ev(EV_TPWAITRET, 0, id, r < 0 ? -1 : 0);
        } else if( !strcmp(w[0], "stall") && nw == 2 ) {
            stall_us = atoi(w[1]);
        } else if( !strcmp(w[0], "stalladd") && nw == 2 ) {
            stalladd_us = atoi(w[1]);
        } else if( !strcmp(w[0], "sleep") && nw == 2 ) {
            usleep(atoi(w[1]));
        } else if( !strcmp(w[0], "endcase") ) {
            end_case(); case_no = -1;
        } else {
            printf("%s => bad-op\n", w[0]);
        }
        fflush(stdout);
    }
    end_case();
    pv_stat("tasks", n_tasks); pv_stat("adds_from_tasks", n_adds_task); pv_stat("adds_from_callbacks", n_adds_cb); pv_stat("stalls", n_stalls); pv_stat("tpwait_entered_during_callback", n_late);
    fflush(stdout);
    parsec_verif_yield_cb = NULL;
    case_t0 = 0;
    parsec_fini(&ctx);
    MPI_Finalize();
    return 0;
}
