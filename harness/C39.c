/* C39 harness: executes an operation script (stdin) on the REAL parsec_argv_* functions and on
 * parsec_cmd_line_* (create / parse / get_*), and prints a transcript `op => result`.
 *
 * Words (strings) are written  'raw  (non-empty, bytes from [A-Za-z0-9,.:;_=+/-])  or  x<hex>
 * (any bytes, `x` alone = empty string);  NULL = the NULL pointer.  A vector prints as NULL or
 * [w w ...].  The harness owns one current vector V (char **) and one int C (the `argc` that
 * parsec_argv_append / parsec_argv_delete update through their int* argument).
 *
 *   case k | setv W* | null | append W | appendn W | prepend W | appendu W ow | insert start (NULL|W*)
 *   inselt loc (NULL|W) | delete start num | count | len | copy | join d | joinr start end d
 *   split W d | splite W d | parse ign nopt {short sd long np}*nopt W*          (fresh handle per op)
 *   hnew nopt {short sd long np}*nopt | haddopt short sd long np | hparse ign W* | hdump | htail
 *   hninsts W | hparam W inst idx | hargv idx      (ONE persistent handle, parsed any number of times)
 *
 * Calls outside the API precondition are not issued (`rejected`): delimiter not in 1..127,
 * a string with a NUL byte, |int| > 1000000, negative size_t, more than 32 options. */
#include "parsec/parsec_config.h"
#include "parsec/utils/argv.h"
#include "parsec/utils/cmd_line.h"
#include "parsec/constants.h"
#include "pv.h"
#include <ctype.h>

#define MAXW 4096
static char **V = NULL;
static int C = 0;
static long n_long_args = 0, n_bundles = 0;

static int safe_byte(unsigned char c) { return isalnum(c) || (c && strchr(",.:;_=+/-", c)); }

static void put_word(const char *s)
{
    int safe = (s[0] != 0);
    for(const unsigned char *p = (const unsigned char*)s; *p; p++) if( !safe_byte(*p) ) safe = 0;
    if( safe ) { printf("'%s", s); return; }
    putchar('x');
    for(const unsigned char *p = (const unsigned char*)s; *p; p++) printf("%02x", *p);
}
static void put_vec(char **v)
{
    if( NULL == v ) { printf("NULL"); return; }
    putchar('[');
    for(int i = 0; v[i]; i++) { if( i ) putchar(' '); put_word(v[i]); }
    putchar(']');
}
static void put_state(void) { printf("argc=%d v=", C); put_vec(V); }

/* decode a word into a fresh malloc'd string; returns 0 ok, 1 malformed, 2 contains NUL, 3 NULL */
static int get_word(const char *w, char **out)
{
    *out = NULL;
    if( 0 == strcmp(w, "NULL") ) return 3;
    if( w[0] == '\'' ) { *out = strdup(w + 1); return 0; }
    if( w[0] != 'x' ) return 1;
    size_t n = strlen(w + 1);
    if( n % 2 ) return 1;
    char *s = malloc(n / 2 + 1);
    for(size_t i = 0; i < n / 2; i++) {
        int v = 0;
        for(int k = 0; k < 2; k++) {
            char c = w[1 + 2 * i + k];
            int d = (c >= '0' && c <= '9') ? c - '0' : (c >= 'a' && c <= 'f') ? c - 'a' + 10 : -1;
            if( d < 0 ) { free(s); return 1; }
            v = v * 16 + d;
        }
        if( 0 == v ) { free(s); return 2; }
        s[i] = (char)v;
    }
    s[n / 2] = 0;
    *out = s;
    return 0;
}
static int get_int(const char *w, long *out)
{
    char *e; if( !*w ) return 1;
    if( !(isdigit((unsigned char)w[0]) || (w[0] == '-' && isdigit((unsigned char)w[1]))) ) return 1;
    *out = strtol(w, &e, 10);
    return *e != 0;
}
static char **empty_vec(void) { char **v = malloc(sizeof(char*)); v[0] = NULL; return v; }

/* decode words w[0..n) into a vector; rc as get_word (first failure) */
static int get_vec(char **w, int n, char ***out)
{
    char **v = empty_vec(); int c = 0;
    for(int i = 0; i < n; i++) {
        char *s; int rc = get_word(w[i], &s);
        if( rc ) { parsec_argv_free(v); *out = NULL; return rc == 3 ? 1 : rc; }
        parsec_argv_append(&c, &v, s); free(s);
    }
    *out = v; return 0;
}
static const char *fail_word(int rc) { return rc == 2 ? "rejected" : "bad-op"; }
#define BIG 1000000

static void do_split(char **w, int nw, int with_empty)
{
    char *s; long d; int rc;
    if( nw != 3 || get_int(w[2], &d) ) { printf("bad-op\n"); return; }
    if( (rc = get_word(w[1], &s)) ) { printf("%s\n", rc == 3 ? "bad-op" : fail_word(rc)); return; }
    if( d < 1 || d > 127 ) { free(s); printf("rejected\n"); return; }
    char **r = with_empty ? parsec_argv_split_with_empty(s, (int)d) : parsec_argv_split(s, (int)d);
    put_vec(r);
    for(int i = 0; r && r[i]; i++) if( strlen(r[i]) > 127 ) n_long_args++;
    char *j = parsec_argv_join(r, (int)d);
    printf(" j="); put_word(j); printf("\n");
    free(j); parsec_argv_free(r); free(s);
}

/* ---- command-line handles.  Declared options are remembered (names) so that every one can be queried. */
typedef struct { parsec_cmd_line_t cmd; int live, n; char sh[33]; char *nm[33][2]; } handle_t;
static handle_t H;      /* the persistent handle of the h* ops */

static void handle_clear(handle_t *h)
{
    if( h->live ) PARSEC_OBJ_DESTRUCT(&h->cmd);
    for(int k = 0; k < 33; k++) { free(h->nm[k][0]); free(h->nm[k][1]); }
    memset(h, 0, sizeof(*h));
}
/* decode one option entry f[0..3]; 0 ok, 1 malformed, 2 outside the precondition */
static int get_opt(char **f, char *sh, char **sd, char **lg, long *np)
{
    long s; int r = 0, rc;
    *sd = *lg = NULL;
    if( get_int(f[0], &s) || get_int(f[3], np) ) return 1;
    if( s < 0 || s > 127 || *np < -BIG || *np > BIG ) r = 2;
    *sh = (char)s;
    rc = get_word(f[1], sd); if( rc == 1 ) return 1; if( rc == 2 ) r = 2;
    rc = get_word(f[2], lg); if( rc == 1 ) { free(*sd); *sd = NULL; return 1; } if( rc == 2 ) r = 2;
    return r;
}
/* decode nopt entries into a scratch table; 0 ok, 1 bad-op, 2 rejected */
static int get_table(char **w, long nopt, char *sh, char *nm[][2], long *np)
{
    int bad = 0, rej = 0;
    for(int k = 0; k < nopt && !bad; k++) {
        int rc = get_opt(w + 4 * k, &sh[k], &nm[k][0], &nm[k][1], &np[k]);
        if( rc == 1 ) bad = 1; else if( rc == 2 ) rej = 1;
    }
    return bad ? 1 : rej ? 2 : 0;
}
/* add one option through the public per-entry constructor; remembered only if accepted */
static int handle_add(handle_t *h, char sh, char *sd, char *lg, long np)
{
    int rc = parsec_cmd_line_make_opt3(&h->cmd, sh, sd, lg, (int)np, NULL);
    if( PARSEC_SUCCESS == rc ) { h->sh[h->n] = sh; h->nm[h->n][0] = sd ? strdup(sd) : NULL; h->nm[h->n][1] = lg ? strdup(lg) : NULL; h->n++; }
    return rc;
}
static void handle_dump(handle_t *h, int ac)
{
    parsec_cmd_line_t *cmd = &h->cmd;
    printf("argv=");
    {   /* through the public accessors */
        int n = parsec_cmd_line_get_argc(cmd);
        printf("%d:[", n);
        for(int i = 0; i < n; i++) { char *a = parsec_cmd_line_get_argv(cmd, i); if( i ) putchar(' '); if( a ) put_word(a); else printf("NULL"); }
        printf("]");
        if( n != parsec_argv_count(cmd->lcl_argv) ) printf("!count=%d", parsec_argv_count(cmd->lcl_argv));
        if( ac >= 0 && n > ac ) n_bundles++;
    }
    {
        int tc = -1; char **tv = NULL;
        parsec_cmd_line_get_tail(cmd, &tc, &tv);
        printf(" tail=%d:", tc); put_vec(tv); parsec_argv_free(tv);
    }
    printf(" q=");
    for(int k = 0; k < h->n; k++) {
        char sname[2] = { h->sh[k], 0 };
        const char *qn[3] = { h->sh[k] ? sname : NULL, h->nm[k][0], h->nm[k][1] };
        for(int m = 0; m < 3; m++) {
            if( NULL == qn[m] ) continue;
            int n = parsec_cmd_line_get_ninsts(cmd, qn[m]);
            printf(" %d%c:%d", k, "sdl"[m], n);
            if( (n > 0) != parsec_cmd_line_is_taken(cmd, qn[m]) ) printf("!taken");
            for(int inst = 0; inst < n; inst++) {
                printf(" (");
                for(int idx = 0; ; idx++) {
                    char *p = parsec_cmd_line_get_param(cmd, qn[m], inst, idx);
                    if( NULL == p ) break;
                    putchar(' '); put_word(p);
                }
                printf(" )");
            }
        }
    }
    printf("\n");
}
static void scratch_free(long nopt, char *nm[][2]) { for(int k = 0; k < nopt; k++) { free(nm[k][0]); free(nm[k][1]); } }

/* parse ign nopt {..}* W*  : fresh handle;   hnew nopt {..}*  : replace the persistent handle */
static void do_parse(char **w, int nw, int persistent)
{
    long ign = 0, nopt; int base = persistent ? 1 : 2;
    if( nw < base + 1 || (!persistent && get_int(w[1], &ign)) || get_int(w[base], &nopt) || nopt < 0 || (ign != 0 && ign != 1) ) { printf("bad-op\n"); return; }
    if( nopt > 32 ) { printf("rejected\n"); return; }
    if( nw < base + 1 + 4 * nopt ) { printf("bad-op\n"); return; }
    char sh[33]; char *nm[33][2]; long np[33];
    memset(nm, 0, sizeof(nm));
    int trc = get_table(w + base + 1, nopt, sh, nm, np);
    char **av = NULL;
    if( persistent && trc != 1 && nw != base + 1 + 4 * nopt ) trc = 1;
    if( !persistent && trc != 1 ) { int rc = get_vec(w + 3 + 4 * nopt, nw - 3 - 4 * (int)nopt, &av); if( rc == 1 ) trc = 1; else if( rc == 2 ) trc = 2; }
    if( trc ) { printf("%s\n", trc == 1 ? "bad-op" : "rejected"); goto out; }
    static handle_t T;
    handle_t *h = persistent ? &H : &T;
    handle_clear(h);
    int crc = parsec_cmd_line_create(&h->cmd, NULL);
    h->live = 1;
    for(int k = 0; k < nopt && PARSEC_SUCCESS == crc; k++) crc = handle_add(h, sh[k], nm[k][0], nm[k][1], np[k]);
    if( persistent ) { printf("hrc=%d nopts=%d\n", crc, h->n); goto out; }
    if( PARSEC_SUCCESS != crc ) { printf("create=%d\n", crc); handle_clear(h); goto out; }
    int ac = parsec_argv_count(av);
    fflush(stdout);
    int prc = parsec_cmd_line_parse(&h->cmd, (bool)ign, ac, av);
    printf("rc=%d ", prc);
    handle_dump(h, ac);
    handle_clear(h);
out:
    scratch_free(33, nm);
    parsec_argv_free(av);
}

/* ops on the persistent handle: haddopt sh sd lg np | hparse ign W* | hdump | htail | hninsts W | hparam W inst idx | hargv idx */
static void do_hop(char **w, int nw)
{
    long a, b; char *s = NULL; int rc;
    if( !H.live ) { printf("rejected\n"); return; }
    if( 0 == strcmp(w[0], "haddopt") && nw == 5 ) {
        char sh, *sd, *lg; long np;
        rc = get_opt(w + 1, &sh, &sd, &lg, &np);
        if( rc ) printf("%s\n", rc == 1 ? "bad-op" : "rejected");
        else if( H.n >= 32 ) printf("rejected\n");
        else { rc = handle_add(&H, sh, sd, lg, np); printf("%d nopts=%d\n", rc, H.n); }
        free(sd); free(lg);
    }
    else if( 0 == strcmp(w[0], "hparse") && nw >= 2 ) {
        char **av = NULL;
        if( get_int(w[1], &a) || (a != 0 && a != 1) ) printf("bad-op\n");
        else if( (rc = get_vec(w + 2, nw - 2, &av)) ) printf("%s\n", fail_word(rc));
        else {
            int ac = parsec_argv_count(av);
            fflush(stdout);
            int prc = parsec_cmd_line_parse(&H.cmd, (bool)a, ac, av);
            printf("rc=%d ", prc);
            handle_dump(&H, ac);
        }
        parsec_argv_free(av);
    }
    else if( 0 == strcmp(w[0], "hdump") && nw == 1 ) handle_dump(&H, -1);
    else if( 0 == strcmp(w[0], "htail") && nw == 1 ) {
        int tc = -1; char **tv = NULL;
        parsec_cmd_line_get_tail(&H.cmd, &tc, &tv);
        printf("%d:", tc); put_vec(tv); printf("\n"); parsec_argv_free(tv);
    }
    else if( 0 == strcmp(w[0], "hninsts") && nw == 2 ) {
        if( (rc = get_word(w[1], &s)) ) printf("%s\n", rc == 2 ? "rejected" : "bad-op");
        else printf("%d\n", parsec_cmd_line_get_ninsts(&H.cmd, s));
    }
    else if( 0 == strcmp(w[0], "hparam") && nw == 4 ) {
        if( get_int(w[2], &a) || get_int(w[3], &b) ) printf("bad-op\n");
        else if( (rc = get_word(w[1], &s)) ) printf("%s\n", rc == 2 ? "rejected" : "bad-op");
        else if( a < 0 || b < 0 || a > BIG || b > BIG ) printf("rejected\n");
        else { char *p = parsec_cmd_line_get_param(&H.cmd, s, (int)a, (int)b); if( p ) put_word(p); else printf("NULL"); printf("\n"); }
    }
    else if( 0 == strcmp(w[0], "hargv") && nw == 2 ) {
        if( get_int(w[1], &a) ) printf("bad-op\n");
        else if( a < -BIG || a > BIG ) printf("rejected\n");
        else { char *p = parsec_cmd_line_get_argv(&H.cmd, (int)a); if( p ) put_word(p); else printf("NULL"); printf("\n"); }
    }
    else printf("bad-op\n");
    free(s);
}

int main(void)
{
    char *line = NULL; size_t cap = 0;
    static char *w[MAXW];
    while( getline(&line, &cap, stdin) > 0 ) {
        line[strcspn(line, "\n")] = 0;
        if( line[0] == 0 ) continue;
        printf("%s => ", line);
        char *copy = strdup(line);
        int nw = 0;
        for(char *t = strtok(copy, " "); t && nw < MAXW; t = strtok(NULL, " ")) w[nw++] = t;
        long a, b, d; char *s = NULL; int rc;
        if( nw == 0 ) { printf("bad-op\n"); }
        else if( 0 == strcmp(w[0], "case") && nw == 2 ) { parsec_argv_free(V); V = NULL; C = 0; printf("ok\n"); }
        else if( 0 == strcmp(w[0], "null") && nw == 1 ) { parsec_argv_free(V); V = NULL; C = 0; put_state(); printf("\n"); }
        else if( 0 == strcmp(w[0], "setv") ) {
            char **nv; rc = get_vec(w + 1, nw - 1, &nv);
            if( rc ) printf("%s\n", fail_word(rc));
            else { parsec_argv_free(V); V = nv; C = parsec_argv_count(V); put_state(); printf("\n"); }
        }
        else if( (0 == strcmp(w[0], "append") || 0 == strcmp(w[0], "appendn") || 0 == strcmp(w[0], "prepend")) && nw == 2 ) {
            if( (rc = get_word(w[1], &s)) ) printf("%s\n", rc == 3 ? "bad-op" : fail_word(rc));
            else {
                if( 0 == strcmp(w[0], "append") ) rc = parsec_argv_append(&C, &V, s);
                else if( 0 == strcmp(w[0], "appendn") ) rc = parsec_argv_append_nosize(&V, s);
                else rc = parsec_argv_prepend_nosize(&V, s);
                printf("%d ", rc); put_state(); printf("\n");
            }
        }
        else if( 0 == strcmp(w[0], "appendu") && nw == 3 ) {
            if( get_int(w[2], &a) || (a != 0 && a != 1) ) printf("bad-op\n");
            else if( (rc = get_word(w[1], &s)) ) printf("%s\n", rc == 3 ? "bad-op" : fail_word(rc));
            else { rc = parsec_argv_append_unique_nosize(&V, s, (bool)a); printf("%d ", rc); put_state(); printf("\n"); }
        }
        else if( 0 == strcmp(w[0], "insert") && nw >= 2 ) {
            char **src = NULL;
            if( get_int(w[1], &a) ) printf("bad-op\n");
            else if( nw == 3 && 0 == strcmp(w[2], "NULL") ) {
                if( a < -BIG || a > BIG ) printf("rejected\n");
                else { rc = parsec_argv_insert(&V, (int)a, NULL); printf("%d ", rc); put_state(); printf("\n"); }
            }
            else if( (rc = get_vec(w + 2, nw - 2, &src)) ) printf("%s\n", fail_word(rc));
            else if( a < -BIG || a > BIG ) { printf("rejected\n"); parsec_argv_free(src); }
            else {
                char **before = parsec_argv_copy(src);
                rc = parsec_argv_insert(&V, (int)a, src); printf("%d ", rc); put_state(); printf("\n");
                /* "The source array is left unaffected" */
                for(int i = 0; before[i] || src[i]; i++)
                    if( !before[i] || !src[i] || strcmp(before[i], src[i]) ) { printf("!viol insert modified its source vector\n"); break; }
                parsec_argv_free(before); parsec_argv_free(src);
            }
        }
        else if( 0 == strcmp(w[0], "inselt") && nw == 3 ) {
            if( get_int(w[1], &a) ) printf("bad-op\n");
            else if( (rc = get_word(w[2], &s)) && rc != 3 ) printf("%s\n", fail_word(rc));
            else if( a < -BIG || a > BIG ) printf("rejected\n");
            else { rc = parsec_argv_insert_element(&V, (int)a, s); printf("%d ", rc); put_state(); printf("\n"); }
        }
        else if( 0 == strcmp(w[0], "delete") && nw == 3 ) {
            if( get_int(w[1], &a) || get_int(w[2], &b) ) printf("bad-op\n");
            else if( a < -BIG || a > BIG || b < -BIG || b > BIG ) printf("rejected\n");
            else { rc = parsec_argv_delete(&C, &V, (int)a, (int)b); printf("%d ", rc); put_state(); printf("\n"); }
        }
        else if( 0 == strcmp(w[0], "count") && nw == 1 ) printf("%d\n", parsec_argv_count(V));
        else if( 0 == strcmp(w[0], "len") && nw == 1 ) printf("%zu\n", parsec_argv_len(V));
        else if( 0 == strcmp(w[0], "copy") && nw == 1 ) {
            char **c2 = parsec_argv_copy(V);
            put_vec(c2); printf("\n");
            if( c2 && V ) for(int i = 0; c2[i] && V[i]; i++) if( c2[i] == V[i] ) { printf("!viol copy shares string storage with the original\n"); break; }
            if( c2 && c2 == V ) printf("!viol copy returned the original vector\n");
            parsec_argv_free(c2);
        }
        else if( 0 == strcmp(w[0], "join") && nw == 2 ) {
            if( get_int(w[1], &d) ) printf("bad-op\n");
            else if( d < 1 || d > 127 ) printf("rejected\n");
            else { char *j = parsec_argv_join(V, (int)d); put_word(j); printf("\n"); free(j); }
        }
        else if( 0 == strcmp(w[0], "joinr") && nw == 4 ) {
            if( get_int(w[1], &a) || get_int(w[2], &b) || get_int(w[3], &d) ) printf("bad-op\n");
            else if( d < 1 || d > 127 || a < 0 || b < 0 || a > BIG || b > BIG ) printf("rejected\n");
            else { char *j = parsec_argv_join_range(V, (size_t)a, (size_t)b, (int)d); put_word(j); printf("\n"); free(j); }
        }
        else if( 0 == strcmp(w[0], "split") ) do_split(w, nw, 0);
        else if( 0 == strcmp(w[0], "splite") ) do_split(w, nw, 1);
        else if( 0 == strcmp(w[0], "parse") ) do_parse(w, nw, 0);
        else if( 0 == strcmp(w[0], "hnew") ) do_parse(w, nw, 1);
        else if( w[0][0] == 'h' ) do_hop(w, nw);
        else printf("bad-op\n");
        free(s); free(copy);
        fflush(stdout);
    }
    pv_stat("long_args", n_long_args);
    pv_stat("bundle_expansions", n_bundles);
    parsec_argv_free(V); free(line); handle_clear(&H);
    return 0;
}
