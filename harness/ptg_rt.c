/* Runtime support for generated PTG (JDF) test programs: data collection, event log, driver main.
 * Linked with every generated program (gen/ptg_gen.py); runs the REAL runtime and the REAL generated code.
 * Transcript format: docs/notes/PTG.md. */
#define _GNU_SOURCE
#include "ptg_rt.h"
#include "parsec/parsec_internal.h"
#include "parsec/scheduling.h"
#include <dlfcn.h>
#include "parsec/class/parsec_hash_table.h"
#include "parsec/utils/debug.h"
#include <stdarg.h>
#include <stdio.h>
#include <stdlib.h>
#include <string.h>
#include <pthread.h>
#include <unistd.h>
#if defined(PARSEC_HAVE_MPI)
#include <mpi.h>
#endif

/* ------------------------------------------------------------------ data collection */
typedef struct {
    parsec_data_collection_t super;
    parsec_data_t **data;
    int nt;
    int32_t *ptr;
} ptg_dc_t;

static int ptg_norm(int k, int n) { int r = k % n; return r < 0 ? r + n : r; }

/* Placement.  Default: rank_of(k) = k mod nodes.  With PTG_DIST=tab:r0,r1,.. (C05): the owner of element k is
 * table[(k mod nt) mod table length] mod nodes — any distribution (2D block-cyclic, tabular, hash of the index) is given
 * as its table over the nt tiles, so that the owner is a function of the TILE and every tile has one owner. */
static int *ptg_dist_tab; static int ptg_dist_len;
static void ptg_dist_init(void)
{
    const char *e = getenv("PTG_DIST");
    if (!e || strncmp(e, "tab:", 4)) return;
    const char *p = e + 4; char *q;
    ptg_dist_tab = calloc(strlen(e) + 1, sizeof(int));
    for (;;) { long x = strtol(p, &q, 10); if (q == p) break; ptg_dist_tab[ptg_dist_len++] = (int)x; p = q; if (*p == ',') p++; }
    if (ptg_dist_len == 0) { free(ptg_dist_tab); ptg_dist_tab = NULL; }
}
static uint32_t ptg_owner(int tile_or_k, int nt, int nodes)
{
    if (ptg_dist_tab) return (uint32_t)ptg_norm(ptg_dist_tab[ptg_norm(tile_or_k, nt) % ptg_dist_len], nodes);
    return (uint32_t)ptg_norm(tile_or_k, nodes);
}
static int ptg_nt_of(parsec_data_collection_t *d);

static uint32_t ptg_rank_of(parsec_data_collection_t *d, ...)
{
    va_list ap; va_start(ap, d); int k = va_arg(ap, int); va_end(ap);
    return ptg_owner(k, ptg_nt_of(d), (int)d->nodes);
}
static int32_t ptg_vpid_of(parsec_data_collection_t *d, ...) { (void)d; return 0; }
static parsec_data_key_t ptg_data_key(parsec_data_collection_t *d, ...)
{
    va_list ap; va_start(ap, d); int k = va_arg(ap, int); va_end(ap);
    return (parsec_data_key_t)ptg_norm(k, ((ptg_dc_t *)d)->nt);
}
static parsec_data_t *ptg_data_of(parsec_data_collection_t *d, ...)
{
    ptg_dc_t *m = (ptg_dc_t *)d;
    va_list ap; va_start(ap, d); int k = va_arg(ap, int); va_end(ap);
    int t = ptg_norm(k, m->nt);
    return parsec_data_create(&m->data[t], d, t, &m->ptr[t * PTG_TILE], PTG_TILE * sizeof(int32_t), 0);
}
static int ptg_nt_of(parsec_data_collection_t *d) { return ((ptg_dc_t *)d)->nt; }
static uint32_t ptg_rank_of_key(parsec_data_collection_t *d, parsec_data_key_t key)
{
    return ptg_dist_tab ? ptg_owner((int)key, ptg_nt_of(d), (int)d->nodes) : (uint32_t)(key % d->nodes);
}
static int32_t ptg_vpid_of_key(parsec_data_collection_t *d, parsec_data_key_t key) { (void)d; (void)key; return 0; }
static parsec_data_t *ptg_data_of_key(parsec_data_collection_t *d, parsec_data_key_t key) { return ptg_data_of(d, (int)key); }

static ptg_dc_t *ptg_dc_new(int rank, int world, int nt)
{
    ptg_dc_t *m = calloc(1, sizeof(*m));
    parsec_data_collection_init(&m->super, world, rank);
    m->super.rank_of = ptg_rank_of;      m->super.rank_of_key = ptg_rank_of_key;
    m->super.vpid_of = ptg_vpid_of;      m->super.vpid_of_key = ptg_vpid_of_key;
    m->super.data_of = ptg_data_of;      m->super.data_of_key = ptg_data_of_key;
    m->super.data_key = ptg_data_key;
    parsec_type_create_contiguous(PTG_TILE, parsec_datatype_int32_t, &m->super.default_dtt);
    m->nt = nt;
    m->data = calloc(nt, sizeof(parsec_data_t *));
    m->ptr = calloc((size_t)nt * PTG_TILE, sizeof(int32_t));
    /* initial contents: tile t holds 1000+t; element j of a tile always holds element 0 plus j (checked by ptg_flow) */
    for (int t = 0; t < nt; t++) for (int j = 0; j < PTG_TILE; j++) m->ptr[t * PTG_TILE + j] = 1000 + t + j;
    return m;
}
static void ptg_dc_free(ptg_dc_t *m)
{
    for (int t = 0; t < m->nt; t++) if (m->data[t]) parsec_data_destroy(m->data[t]);
    parsec_type_free(&m->super.default_dtt);
    parsec_data_collection_destroy(&m->super);
    free(m->data); free(m->ptr); free(m);
}

static parsec_datatype_t ptg_tile_dtt;
void ptg_rt_set_adt(parsec_arena_datatype_t *adt)
{
    parsec_type_create_contiguous(PTG_TILE, parsec_datatype_int32_t, &ptg_tile_dtt);
    parsec_arena_datatype_set_type(adt, PTG_TILE * sizeof(int32_t), PARSEC_ARENA_ALIGNMENT_SSE, ptg_tile_dtt);
}
void ptg_rt_unset_adt(parsec_arena_datatype_t *adt)
{
    parsec_type_free(&adt->opaque_dtt);
    PARSEC_OBJ_DESTRUCT(adt);
}

/* ------------------------------------------------------------------ event log */
typedef struct {
    int kind;                 /* 'B' (begin), 'E' (end, DONE) or 'A' (end, the body answered AGAIN) */
    int th, cls, nloc, nfl;
    int loc[PTG_MAXP];
    int64_t val[PTG_MAXF];    /* per data flow: value seen (B) / written (E); INT64_MIN = none */
} ptg_ev_t;
#define PTG_NONE INT64_MIN

static ptg_ev_t *ptg_log;
static int64_t ptg_log_cap;
static volatile int64_t ptg_stamp;        /* global atomic sequence stamp */
static FILE *ptg_out;
static int ptg_rank, ptg_world;

/* per-thread scratch for the body in progress (a thread runs one body at a time) */
#define PTG_MAXTH 256
typedef struct { int nfl; int mode[PTG_MAXF]; int32_t *ptr[PTG_MAXF]; int64_t in[PTG_MAXF]; int again; void *bev; char pad[64]; } ptg_scratch_t;
static ptg_scratch_t ptg_scr[PTG_MAXTH];

/* body behaviours (PTG_BODY): "log" (default), "spin" (busy-wait a pseudo-random few microseconds between begin and end
 * so that bodies overlap).  PTG_AGAIN="seed,percent,maxk": an instance answers PARSEC_HOOK_RETURN_AGAIN k times before it
 * does its work, k = ptg_again_count(seed, class, locals) (same function in lib/pvptg.py): with probability percent/100 a
 * value in 1..maxk, else 0.  New behaviours are added here: see docs/notes/PTG.md */
static int ptg_body_spin;
static int ptg_again_on, ptg_again_pct, ptg_again_maxk;
static uint64_t ptg_again_seed;

uint64_t ptg_again_hash(uint64_t seed, int cls, int nloc, const int *loc)
{
    uint64_t z = seed * 0x9E3779B97F4A7C15ULL + (uint64_t)(cls + 1) * 0x632BE59BD9B4E019ULL;
    for (int i = 0; i < nloc; i++) {
        z = (z ^ (uint64_t)(uint32_t)loc[i]) * 0xD1B54A32D192ED03ULL;
        z ^= z >> 29;
    }
    z = (z ^ (z >> 30)) * 0xBF58476D1CE4E5B9ULL;
    z = (z ^ (z >> 27)) * 0x94D049BB133111EBULL;
    return z ^ (z >> 31);
}
static int ptg_again_count(int cls, int nloc, const int *loc)
{
    if (!ptg_again_on) return 0;
    uint64_t z = ptg_again_hash(ptg_again_seed, cls, nloc, loc);
    if ((int)((z >> 16) % 100) >= ptg_again_pct) return 0;
    return 1 + (int)((z >> 40) % (uint64_t)ptg_again_maxk);
}

/* how many times the body of an instance has been invoked so far (an instance never runs concurrently with itself) */
typedef struct { int cls, nloc, loc[PTG_MAXP], count; } ptg_inv_t;
#define PTG_MAXINV 8192
static ptg_inv_t ptg_inv[PTG_MAXINV];
static int ptg_ninv;
static pthread_mutex_t ptg_inv_lock = PTHREAD_MUTEX_INITIALIZER;
static int ptg_invocations(int cls, int nloc, const int *loc)    /* returns the count BEFORE this invocation and increments it */
{
    int r = 0, i;
    pthread_mutex_lock(&ptg_inv_lock);
    for (i = 0; i < ptg_ninv; i++)
        if (ptg_inv[i].cls == cls && ptg_inv[i].nloc == nloc && !memcmp(ptg_inv[i].loc, loc, sizeof(int) * (size_t)nloc)) break;
    if (i == ptg_ninv && ptg_ninv < PTG_MAXINV) {
        ptg_inv[i].cls = cls; ptg_inv[i].nloc = nloc; memcpy(ptg_inv[i].loc, loc, sizeof(int) * (size_t)nloc); ptg_inv[i].count = 0;
        ptg_ninv++;
    }
    if (i < PTG_MAXINV) r = ptg_inv[i].count++;
    pthread_mutex_unlock(&ptg_inv_lock);
    return r;
}

static ptg_ev_t *ptg_new_ev(int kind, int th, int cls, int nloc, va_list ap)
{
    int64_t s = __atomic_fetch_add(&ptg_stamp, 1, __ATOMIC_SEQ_CST);
    if (s >= ptg_log_cap) s = ptg_log_cap - 1;     /* overflow (runaway program): the last slot is scratch; the watchdog reports */
    ptg_ev_t *e = &ptg_log[s];
    e->th = th; e->cls = cls; e->nloc = nloc; e->nfl = 0;
    for (int i = 0; i < nloc && i < PTG_MAXP; i++) e->loc[i] = va_arg(ap, int);
    __atomic_store_n(&e->kind, kind, __ATOMIC_RELEASE);
    return e;
}

static int64_t ptg_mix(int64_t h, int64_t x) { return (h * 31 + (x & 0xffffffffLL)) % 1000003; }

void ptg_task_begin(int th, int cls, int nloc, ...)
{
    ptg_scr[th % PTG_MAXTH].nfl = 0;
    for (int f = 0; f < PTG_MAXF; f++) { ptg_scr[th % PTG_MAXTH].mode[f] = 0; ptg_scr[th % PTG_MAXTH].ptr[f] = NULL; ptg_scr[th % PTG_MAXTH].in[f] = PTG_NONE; }
    va_list ap; va_start(ap, nloc);
    /* the stamp is taken here: everything the body does comes after it */
    ptg_ev_t *e = ptg_new_ev('b', th, cls, nloc, ap);       /* 'b' = begin under construction: flows follow */
    va_end(ap);
    ptg_scr[th % PTG_MAXTH].bev = e;
    ptg_scr[th % PTG_MAXTH].again = 0;
}

void ptg_flow(int th, int flow, int mode, void *ptr)
{
    ptg_scratch_t *s = &ptg_scr[th % PTG_MAXTH];
    if (flow >= PTG_MAXF) return;
    s->mode[flow] = mode; s->ptr[flow] = (int32_t *)ptr;
    if (ptr != NULL && (mode & PTG_NEW)) for (int j = 0; j < PTG_TILE; j++) ((int32_t *)ptr)[j] = j;   /* a copy allocated for this task (NEW): the body initialises it as the whole tile of value 0 */
    s->in[flow] = (ptr != NULL && (mode & PTG_READ)) ? ((int32_t *)ptr)[0] : PTG_NONE;
    if (ptr != NULL && (mode & PTG_READ))       /* a copy that is not whole (element j != element 0 + j) is seen as a value nobody writes */
        for (int j = 1; j < PTG_TILE; j++) if (((int32_t *)ptr)[j] != ((int32_t *)ptr)[0] + j) { s->in[flow] = -1000000 - j; break; }
    if (flow + 1 > s->nfl) s->nfl = flow + 1;
}

int ptg_task_end(int th, int cls, int nloc, ...)
{
    ptg_scratch_t *s = &ptg_scr[th % PTG_MAXTH];
    int loc[PTG_MAXP];
    va_list ap; va_start(ap, nloc);
    va_list ap2; va_copy(ap2, ap);
    for (int i = 0; i < nloc && i < PTG_MAXP; i++) loc[i] = va_arg(ap2, int);
    va_end(ap2);
    if (ptg_body_spin) {
        uint64_t z = (uint64_t)(cls * 7919 + loc[0] * 31 + th) * 0x9E3779B97F4A7C15ULL;
        volatile int spin = (int)((z >> 40) % 2000);
        while (spin-- > 0) ;
    }
    /* C16: answer AGAIN the first k invocations (nothing is written, the inputs seen are logged with the begin event) */
    {
        int nl = nloc < PTG_MAXP ? nloc : PTG_MAXP;
        int before = ptg_invocations(cls, nl, loc);
        if (before < ptg_again_count(cls, nl, loc)) {
            ptg_ev_t *b = (ptg_ev_t *)s->bev;
            ptg_ev_t *e = ptg_new_ev('A', th, cls, nloc, ap);
            va_end(ap);
            e->nfl = 0;
            b->nfl = s->nfl;
            for (int f = 0; f < s->nfl; f++) b->val[f] = s->in[f];
            b->kind = 'B';
            return PARSEC_HOOK_RETURN_AGAIN;
        }
    }
    /* outputs: every written flow gets H(class, flow, locals, the values seen in the data flows, in flow order) */
    int64_t out[PTG_MAXF];
    for (int f = 0; f < s->nfl; f++) {
        out[f] = PTG_NONE;
        if (s->ptr[f] != NULL && (s->mode[f] & PTG_WRITE)) {
            int64_t h = 17;
            h = ptg_mix(h, cls); h = ptg_mix(h, f);
            for (int i = 0; i < nloc && i < PTG_MAXP; i++) h = ptg_mix(h, loc[i]);
            /* C02/C16 hash only the announced (data) flows; C05's reference also mixes 0 for unannounced (CTL) flows: PTG_HASH_ALLFLOWS=1 */
            static int allflows = -1; if (allflows < 0) allflows = getenv("PTG_HASH_ALLFLOWS") ? 1 : 0;
            for (int g = 0; g < s->nfl; g++) if (allflows || s->mode[g]) h = ptg_mix(h, s->in[g] == PTG_NONE ? 0 : s->in[g]);
            out[f] = h;
        }
    }
    for (int f = 0; f < s->nfl; f++) if (out[f] != PTG_NONE) for (int j = 0; j < PTG_TILE; j++) s->ptr[f][j] = (int32_t)out[f] + j;
    /* the end stamp is taken after all effects of the body */
    ptg_ev_t *e = ptg_new_ev('E', th, cls, nloc, ap);
    va_end(ap);
    e->nfl = s->nfl;
    for (int f = 0; f < s->nfl; f++) e->val[f] = out[f];
    /* attach the input values to the matching begin event */
    {
        ptg_ev_t *b = (ptg_ev_t *)s->bev;
        b->nfl = s->nfl;
        for (int f = 0; f < s->nfl; f++) b->val[f] = s->in[f];
        b->kind = 'B';
    }
    return PARSEC_HOOK_RETURN_DONE;
}

/* ------------------------------------------------------------------ startup batches (C16)
 * The generated startup function calls parsec_dependencies_mark_task_as_startup for every task it creates and hands the
 * ring to __parsec_schedule_vp.  Both are exported by libparsec; the definitions below take precedence for the calls made by
 * the generated code (which is part of this executable), record what passes, and forward to the real functions. */
typedef struct { int cls, n, cap; int (*loc)[PTG_MAXP]; int nloc; } ptg_batch_t;
static __thread int ptg_su_cls, ptg_su_n, ptg_su_nloc;
static __thread int ptg_su_loc[2048][PTG_MAXP];
static ptg_batch_t *ptg_batches; static int ptg_nbatches, ptg_capbatches;
static pthread_mutex_t ptg_batch_lock = PTHREAD_MUTEX_INITIALIZER;

void parsec_dependencies_mark_task_as_startup(parsec_task_t *task, parsec_execution_stream_t *es)
{
    static void (*real)(parsec_task_t *, parsec_execution_stream_t *);
    if (!real) real = (void (*)(parsec_task_t *, parsec_execution_stream_t *))dlsym(RTLD_NEXT, "parsec_dependencies_mark_task_as_startup");
    if (ptg_su_n < 2048) {
        int nl = task->task_class->nb_locals < PTG_MAXP ? task->task_class->nb_locals : PTG_MAXP;
        ptg_su_cls = task->task_class->task_class_id; ptg_su_nloc = nl;
        for (int i = 0; i < nl; i++) ptg_su_loc[ptg_su_n][i] = task->locals[i].value;
        ptg_su_n++;
    }
    real(task, es);
}

int __parsec_schedule_vp(parsec_execution_stream_t *es, parsec_task_t **task_rings, int32_t distance)
{
    static int (*real)(parsec_execution_stream_t *, parsec_task_t **, int32_t);
    if (!real) real = (int (*)(parsec_execution_stream_t *, parsec_task_t **, int32_t))dlsym(RTLD_NEXT, "__parsec_schedule_vp");
    if (ptg_su_n > 0) {
        pthread_mutex_lock(&ptg_batch_lock);
        if (ptg_nbatches == ptg_capbatches) {
            ptg_capbatches = ptg_capbatches ? 2 * ptg_capbatches : 256;
            ptg_batches = realloc(ptg_batches, sizeof(ptg_batch_t) * (size_t)ptg_capbatches);
        }
        ptg_batch_t *b = &ptg_batches[ptg_nbatches++];
        b->cls = ptg_su_cls; b->n = ptg_su_n; b->nloc = ptg_su_nloc;
        b->loc = malloc(sizeof(int[PTG_MAXP]) * (size_t)ptg_su_n);
        memcpy(b->loc, ptg_su_loc, sizeof(int[PTG_MAXP]) * (size_t)ptg_su_n);
        pthread_mutex_unlock(&ptg_batch_lock);
        ptg_su_n = 0;
    }
    return real(es, task_rings, distance);
}

static void ptg_dump_batches(void)
{
    /* `#batch <cls> <k> : l0 l1 .. ; l0 l1 ..` = the k-th ring scheduled by the startup function of class cls, creation order */
    int k[64] = {0};
    /* a runaway startup function (hang path) may still be appending: dump under the lock, and not more than 4000 rings */
    pthread_mutex_lock(&ptg_batch_lock);
    for (int i = 0; i < ptg_nbatches && i < 4000; i++) {
        ptg_batch_t *b = &ptg_batches[i];
        fprintf(ptg_out, "#batch %d %d :", b->cls, (b->cls >= 0 && b->cls < 64) ? k[b->cls]++ : -1);
        for (int j = 0; j < b->n; j++) {
            for (int l = 0; l < b->nloc; l++) fprintf(ptg_out, " %d", b->loc[j][l]);
            if (j + 1 < b->n) fprintf(ptg_out, " ;");
        }
        fprintf(ptg_out, "\n");
    }
    pthread_mutex_unlock(&ptg_batch_lock);
}

static void ptg_dump_events(int64_t cap)
{
    int64_t n = ptg_stamp;
    if (n > ptg_log_cap) n = ptg_log_cap;
    if (cap > 0 && n > cap) n = cap;
    for (int64_t i = 0; i < n; i++) {
        ptg_ev_t *e = &ptg_log[i];
        int k = __atomic_load_n(&e->kind, __ATOMIC_ACQUIRE);
        if (k == 0) continue;
        fprintf(ptg_out, "%c %d", k == 'E' ? 'E' : k == 'A' ? 'A' : 'B', e->cls);
        for (int j = 0; j < e->nloc && j < PTG_MAXP; j++) fprintf(ptg_out, " %d", e->loc[j]);
        fprintf(ptg_out, " / %d", e->th);
        for (int f = 0; f < e->nfl; f++) {
            if (e->val[f] == PTG_NONE) fprintf(ptg_out, " -"); else fprintf(ptg_out, " %lld", (long long)e->val[f]);
        }
        fprintf(ptg_out, " => ok\n");
    }
}

/* ------------------------------------------------------------------ watchdog */
static int ptg_timeout_ms = 20000, ptg_init_timeout_ms = 120000;
static int64_t ptg_max_events = 100000;   /* PTG_MAX_EVENTS: more logged events than this = runaway program, reported as a hang */
static parsec_taskpool_t *ptg_tp; static ptg_initial_fn ptg_ini; static const char *ptg_keyfile;
static void ptg_probe_keys(parsec_taskpool_t *tp, const char *file);
static void ptg_dump_batches(void);
static volatile int ptg_done;
static ptg_initial_fn ptg_inited;
static void *ptg_watchdog(void *arg)
{
    (void)arg;
    /* 1. wait (up to PTG_INIT_TIMEOUT_MS) until every internal_init task has run: only then are the announced count and
     *    the (min, range) pairs used by make_key / key_print defined.
     * 2. then declare a hang when no body event has been logged for PTG_TIMEOUT_MS (idle time, robust on a loaded machine). */
    int waited = 0, idle = 0;
    int64_t last = -1;
    while (!ptg_done && !ptg_inited(ptg_tp) && waited < ptg_init_timeout_ms) { usleep(5000); waited += 5; }
    while (!ptg_done && idle < ptg_timeout_ms) {
        usleep(10000);
        int64_t now = ptg_stamp;
        if (now != last) { last = now; idle = 0; } else idle += 10;
        if (now >= ptg_max_events) break;       /* runaway program (e.g. a startup loop that never terminates) */
    }
    if (!ptg_done) {
        int64_t n = ptg_stamp, b = 0, e = 0;
        if (n > ptg_log_cap) n = ptg_log_cap;
        for (int64_t i = 0; i < n; i++) { if (ptg_log[i].kind == 'E') e++; else if (ptg_log[i].kind) b++; }
        if (ptg_inited(ptg_tp)) {
            fprintf(ptg_out, "count %d %d => %d\n", ptg_rank, ptg_world, ptg_ini(ptg_tp));
            if (ptg_keyfile) ptg_probe_keys(ptg_tp, ptg_keyfile);
        } else fprintf(ptg_out, "#not-initialised\n");
        ptg_dump_events(4000);
        fprintf(ptg_out, "end => hang %lld %lld\n", (long long)b, (long long)e);
        ptg_dump_batches();
        fflush(ptg_out);
        _exit(3);
    }
    return NULL;
}

/* ------------------------------------------------------------------ main */
static void ptg_probe_keys(parsec_taskpool_t *tp, const char *file)
{
    FILE *f = fopen(file, "r");
    char line[512], buf[256];
    if (!f) { fprintf(stderr, "ptg_rt: cannot open %s\n", file); exit(2); }
    while (fgets(line, sizeof line, f)) {
        parsec_assignment_t as[MAX_LOCAL_COUNT];
        int v[PTG_MAXP + 1], n = 0;
        char *p = line, *q;
        memset(as, 0, sizeof as);
        for (;;) { long x = strtol(p, &q, 10); if (q == p || n > PTG_MAXP) break; v[n++] = (int)x; p = q; }
        if (n < 1) continue;
        int cls = v[0];
        fprintf(ptg_out, "key");
        for (int i = 0; i < n; i++) fprintf(ptg_out, " %d", v[i]);
        if (cls < 0 || cls >= (int)tp->nb_task_classes) { fprintf(ptg_out, " => bad-op\n"); continue; }
        const parsec_task_class_t *tc = tp->task_classes_array[cls];
        for (int i = 1; i < n; i++) as[i - 1].value = v[i];
        parsec_key_t key = tc->make_key(tp, as);
        buf[0] = 0;
        tc->key_functions->key_print(buf, sizeof buf, key, (void *)tp);
        fprintf(ptg_out, " => %llu %s\n", (unsigned long long)(uint64_t)key, buf);
    }
    fclose(f);
}

#include <time.h>
static double ptg_now(void) { struct timespec ts; clock_gettime(CLOCK_MONOTONIC, &ts); return ts.tv_sec + 1e-9 * ts.tv_nsec; }

int ptg_rt_main(int argc, char **argv, int nglobals, ptg_make_fn mk, ptg_initial_fn ini, ptg_initial_fn inited, ptg_unmake_fn unmk)
{
    int threads = 1, nt = 16, g[16] = {0}, rc;
    const char *keyfile = NULL, *outfile = NULL;
    int pargc = 0; char **pargv = NULL;
    for (int i = 1; i < argc; i++) {
        if (!strcmp(argv[i], "--")) { pargc = argc - i; pargv = argv + i; break; }
        if (!strcmp(argv[i], "-t") && i + 1 < argc) threads = atoi(argv[++i]);
        else if (!strcmp(argv[i], "-n") && i + 1 < argc) nt = atoi(argv[++i]);
        else if (!strcmp(argv[i], "-k") && i + 1 < argc) keyfile = argv[++i];
        else if (!strcmp(argv[i], "-o") && i + 1 < argc) outfile = argv[++i];
        else if (!strcmp(argv[i], "-g") && i + 1 < argc) {
            char *p = argv[++i]; int k = 0;
            while (*p && k < 16) { g[k++] = (int)strtol(p, &p, 10); if (*p == ',') p++; }
        } else { fprintf(stderr, "usage: %s [-t threads] [-g g0,g1,..] [-n tiles] [-k instance-file] [-o out] [-- parsec args]\n", argv[0]); return 2; }
    }
    (void)nglobals;
    double t_start = ptg_now(), t_mpi, t_init, t_run;
    if (getenv("PTG_TIMEOUT_MS")) ptg_timeout_ms = atoi(getenv("PTG_TIMEOUT_MS"));
    if (getenv("PTG_MAX_EVENTS")) ptg_max_events = atoll(getenv("PTG_MAX_EVENTS"));
    if (getenv("PTG_INIT_TIMEOUT_MS")) ptg_init_timeout_ms = atoi(getenv("PTG_INIT_TIMEOUT_MS"));
    if (getenv("PTG_BODY") && !strcmp(getenv("PTG_BODY"), "spin")) ptg_body_spin = 1;
    if (getenv("PTG_AGAIN")) {
        unsigned long long sd = 1; int pct = 30, mk = 3;
        if (sscanf(getenv("PTG_AGAIN"), "%llu,%d,%d", &sd, &pct, &mk) >= 1 && mk >= 1) {
            ptg_again_on = 1; ptg_again_seed = sd; ptg_again_pct = pct; ptg_again_maxk = mk;
        }
    }
#if defined(PARSEC_HAVE_MPI)
    { int provided; MPI_Init_thread(&argc, &argv, MPI_THREAD_SERIALIZED, &provided);
      MPI_Comm_size(MPI_COMM_WORLD, &ptg_world); MPI_Comm_rank(MPI_COMM_WORLD, &ptg_rank); }
#else
    ptg_world = 1; ptg_rank = 0;
#endif
    t_mpi = ptg_now();
    ptg_dist_init();
    ptg_out = stdout;
    if (outfile) {
        char name[1024];
        if (ptg_world > 1) snprintf(name, sizeof name, "%s.%d", outfile, ptg_rank); else snprintf(name, sizeof name, "%s", outfile);
        ptg_out = fopen(name, "w");
        if (!ptg_out) { perror(name); return 2; }
    }
    ptg_log_cap = 1 << 20;
    ptg_log = calloc((size_t)ptg_log_cap, sizeof(ptg_ev_t));

    parsec_context_t *ctx = parsec_init(threads, &pargc, &pargv);
    if (!ctx) { fprintf(stderr, "parsec_init failed\n"); return 2; }
    t_init = ptg_now();
    ptg_dc_t *dc = ptg_dc_new(ptg_rank, ptg_world, nt);
    parsec_taskpool_t *tp = mk(&dc->super, g);
    fprintf(ptg_out, "#ptg rank %d world %d threads %d sched %s startup_iter %zu startup_chunk %zu\n", ptg_rank, ptg_world, threads,
            getenv("PARSEC_MCA_mca_sched") ? getenv("PARSEC_MCA_mca_sched") : "default", parsec_task_startup_iter, parsec_task_startup_chunk);

    ptg_tp = tp; ptg_ini = ini; ptg_inited = inited; ptg_keyfile = keyfile;
    pthread_t wd; pthread_create(&wd, NULL, ptg_watchdog, NULL);
    rc = parsec_context_add_taskpool(ctx, tp);   PARSEC_CHECK_ERROR(rc, "parsec_context_add_taskpool");
    rc = parsec_context_start(ctx);              PARSEC_CHECK_ERROR(rc, "parsec_context_start");
    rc = parsec_context_wait(ctx);               PARSEC_CHECK_ERROR(rc, "parsec_context_wait");
    ptg_done = 1;
    t_run = ptg_now();
    pthread_join(wd, NULL);
    fprintf(ptg_out, "#timing mpi_init %.2f parsec_init %.2f run %.2f\n", t_mpi - t_start, t_init - t_mpi, t_run - t_init);

    fprintf(ptg_out, "count %d %d => %d\n", ptg_rank, ptg_world, ini(tp));
    if (keyfile) ptg_probe_keys(tp, keyfile);
    ptg_dump_events(0);
    fprintf(ptg_out, "end => complete\n");
    ptg_dump_batches();
    /* C05 (PTG_GATHER=1): remember the local tiles; they are gathered on rank 0 after parsec_fini (the communication
     * thread is then gone: MPI is initialised with MPI_THREAD_SERIALIZED) */
    int gather_nt = dc->nt;
    int32_t *mine = NULL;
    if (getenv("PTG_GATHER")) {
        mine = malloc(sizeof(int32_t) * (size_t)dc->nt);
        for (int t = 0; t < dc->nt; t++) {
            mine[t] = dc->ptr[t * PTG_TILE];
            for (int j = 1; j < PTG_TILE; j++) if (dc->ptr[t * PTG_TILE + j] != dc->ptr[t * PTG_TILE] + j) { mine[t] = -1000000 - j; break; }
        }
    }
    /* final contents of the collection (C02) */
    fprintf(ptg_out, "#final");        /* the tiles whose content is not the initial one, `tile:value` */
    for (int t = 0; t < dc->nt; t++) if (dc->ptr[t * PTG_TILE] != 1000 + t) fprintf(ptg_out, " %d:%d", t, dc->ptr[t * PTG_TILE]);
    fprintf(ptg_out, "\n");
    fflush(ptg_out);
    /* PTG_FAST_EXIT: the transcript is complete; skip the teardown of the runtime and of MPI (seconds on a loaded machine) */
    if (getenv("PTG_FAST_EXIT")) { if (ptg_out != stdout) fclose(ptg_out); _exit(0); }

    unmk(tp);
    parsec_taskpool_free(tp);
    ptg_dc_free(dc);
    parsec_fini(&ctx);
    if (mine) {       /* the final contents of the collection on rank 0, every tile taken from its owner */
        int32_t *all = NULL;
#if defined(PARSEC_HAVE_MPI)
        if (ptg_world > 1) {
            if (ptg_rank == 0) all = malloc(sizeof(int32_t) * (size_t)gather_nt * (size_t)ptg_world);
            MPI_Gather(mine, gather_nt, MPI_INT32_T, all, gather_nt, MPI_INT32_T, 0, MPI_COMM_WORLD);
        }
#endif
        if (ptg_rank == 0) {
            fprintf(ptg_out, "final =>");
            for (int t = 0; t < gather_nt; t++) {
                int o = (int)ptg_owner(t, gather_nt, ptg_world);
                fprintf(ptg_out, " %d", all ? all[(size_t)o * (size_t)gather_nt + t] : mine[t]);
            }
            fprintf(ptg_out, "\n");
            fflush(ptg_out);
        }
        free(mine); free(all);
    }
#if defined(PARSEC_HAVE_MPI)
    MPI_Finalize();
#endif
    if (ptg_out != stdout) fclose(ptg_out);
    free(ptg_log);
    return 0;
}
