/* C07 harness: real parsec_update_deps_with_counter / _with_mask on a fabricated task class, N
 * releasing threads under the cooperative scheduler.
 * stdin lines:  case <k> <counter|mask> <flow>... | <rng SEED | dfs MAX | replay t0 t1 ...>
 * flows: D (data from a task) L (data from a collection) C1 (control) G<k> (control gather k)
 *        CN (control, guards false) W (write-only)
 */
#include "parsec/parsec_config.h"
#include "parsec/parsec_internal.h"
#include "parsec/include/parsec/parsec_description_structures.h"
#include "parsec/interfaces/interface.h"
#include "pv.h"
#include "ctl_sched.h"

#define MAXF 12
static parsec_task_class_t tc;
static parsec_flow_t flows[MAXF];
#define MAXD 4
static parsec_dep_t deps[MAXF], xdeps[MAXF][MAXD];
static parsec_expr_t gexpr[MAXF], fexpr, texpr, xgexpr[MAXF][MAXD];
static int xgather[MAXF][MAXD];
static parsec_task_t task;
static volatile parsec_dependency_t word;
static int mode_mask, nthreads, relbit[CTL_MAXT];
static volatile int ret[CTL_MAXT];
static int gather_k[MAXF];

#define GF(i) static int32_t gfun##i(const parsec_taskpool_t *tp, const parsec_assignment_t *l) { (void)tp; (void)l; return gather_k[i]; }
GF(0) GF(1) GF(2) GF(3) GF(4) GF(5) GF(6) GF(7) GF(8) GF(9) GF(10) GF(11)
static parsec_expr_op_int32_inline_func_t gfuns[MAXF] = { gfun0, gfun1, gfun2, gfun3, gfun4, gfun5, gfun6, gfun7, gfun8, gfun9, gfun10, gfun11 };
/* one gather function per (flow, dep) slot */
#define XG(i,j) static int32_t xg##i##_##j(const parsec_taskpool_t *tp, const parsec_assignment_t *l) { (void)tp; (void)l; return xgather[i][j]; }
#define XGR(i) XG(i,0) XG(i,1) XG(i,2) XG(i,3)
XGR(0) XGR(1) XGR(2) XGR(3) XGR(4) XGR(5) XGR(6) XGR(7) XGR(8) XGR(9) XGR(10) XGR(11)
#define XGP(i) { xg##i##_0, xg##i##_1, xg##i##_2, xg##i##_3 }
static parsec_expr_op_int32_inline_func_t xgfuns[MAXF][MAXD] = { XGP(0), XGP(1), XGP(2), XGP(3), XGP(4), XGP(5), XGP(6), XGP(7), XGP(8), XGP(9), XGP(10), XGP(11) };
static int32_t ftrue(const parsec_taskpool_t *tp, const parsec_assignment_t *l) { (void)tp; (void)l; return 1; }
static int32_t ffalse(const parsec_taskpool_t *tp, const parsec_assignment_t *l) { (void)tp; (void)l; return 0; }

static int build(int mask, int nf, char **fl)
{
    int in_in = 0, gather = 0, n = 0;
    memset(&tc, 0, sizeof tc); memset(flows, 0, sizeof flows); memset(deps, 0, sizeof deps);
    fexpr.op = PARSEC_EXPR_OP_INLINE; fexpr.u_expr.v_func.func.inline_func_int32 = ffalse;
    texpr.op = PARSEC_EXPR_OP_INLINE; texpr.u_expr.v_func.func.inline_func_int32 = ftrue;
    memset(xdeps, 0, sizeof xdeps);
    for(int i = 0; i < nf; i++) {
        parsec_flow_t *f = &flows[i]; parsec_dep_t *d = &deps[i];
        f->name = "f"; f->flow_index = (uint8_t)i; f->sym_type = PARSEC_SYM_IN;
        d->task_class_id = 1; d->belongs_to = f;
        f->dep_in[0] = d;
        if( !strcmp(fl[i], "D") ) { f->flow_flags = PARSEC_FLOW_ACCESS_READ | PARSEC_FLOW_HAS_IN_DEPS; if( mask ) relbit[n] = i; n++; }
        else if( !strcmp(fl[i], "L") ) { f->flow_flags = PARSEC_FLOW_ACCESS_READ | PARSEC_FLOW_HAS_IN_DEPS; d->task_class_id = PARSEC_LOCAL_DATA_TASK_CLASS_ID; in_in = 1; }
        else if( !strcmp(fl[i], "C1") ) { f->flow_flags = PARSEC_FLOW_ACCESS_NONE; if( mask ) relbit[n] = i; n++; }
        else if( fl[i][0] == 'G' ) {
            if( mask ) return -1;
            f->flow_flags = PARSEC_FLOW_ACCESS_NONE; gather_k[i] = atoi(fl[i] + 1);
            gexpr[i].op = PARSEC_EXPR_OP_INLINE; gexpr[i].u_expr.v_func.func.inline_func_int32 = gfuns[i];
            d->ctl_gather_nb = &gexpr[i]; gather = 1; n += gather_k[i];
        }
        else if( !strcmp(fl[i], "CN") ) { f->flow_flags = PARSEC_FLOW_ACCESS_NONE; d->cond = &fexpr; in_in = 1; }
        else if( !strncmp(fl[i], "X:", 2) || !strncmp(fl[i], "K:", 2) ) {
            /* several guarded input deps: X:<g><T|L>,...  (data)   K:<g><v>,...  (control; v = 0 plain, k+1 gather of k) */
            int isdata = fl[i][0] == 'X', nd = 0, decided = 0; char *q = fl[i] + 2;
            f->flow_flags = isdata ? (PARSEC_FLOW_ACCESS_READ | PARSEC_FLOW_HAS_IN_DEPS) : PARSEC_FLOW_ACCESS_NONE;
            memset(f->dep_in, 0, sizeof f->dep_in);
            while( *q && nd < MAXD ) {
                parsec_dep_t *xd = &xdeps[i][nd];
                char g = *q++;
                xd->belongs_to = f; xd->task_class_id = 1;
                xd->cond = (g == 't') ? &texpr : (g == 'f') ? &fexpr : NULL;
                if( g != 'n' && g != 't' && g != 'f' ) return -1;
                if( isdata ) {
                    if( *q == 'L' ) xd->task_class_id = PARSEC_LOCAL_DATA_TASK_CLASS_ID; else if( *q != 'T' ) return -1;
                    if( g != 'f' && !decided ) { decided = 1; if( *q == 'T' ) { if( mask ) relbit[n] = i; n++; } else in_in = 1; }
                    q++;
                } else {
                    int v = (int)strtol(q, &q, 10);
                    if( v > 0 ) { if( mask ) return -1; xgather[i][nd] = v - 1; xgexpr[i][nd].op = PARSEC_EXPR_OP_INLINE;
                                  xgexpr[i][nd].u_expr.v_func.func.inline_func_int32 = xgfuns[i][nd]; xd->ctl_gather_nb = &xgexpr[i][nd]; gather = 1; }
                    if( g != 'f' ) { if( mask ) { if( decided ) return -1; relbit[n] = i; n++; } else n += (v > 0 ? v - 1 : 1); decided = 1; }
                }
                f->dep_in[nd++] = xd;
                if( *q == ',' ) q++;
            }
            if( !decided ) { if( isdata ) return -1; in_in = 1; }   /* data flow without an applicable input is ill formed */
            in_in = 1;  /* guards are evaluated per instance: the class has the IN-IN flag */
        }
        else if( !strcmp(fl[i], "W") ) { f->flow_flags = PARSEC_FLOW_ACCESS_WRITE | PARSEC_FLOW_HAS_IN_DEPS; f->dep_in[0] = NULL; in_in = 1; }
        else return -1;
        tc.in[i] = f;
    }
    tc.nb_flows = nf;
    tc.flags = (in_in ? PARSEC_HAS_IN_IN_DEPENDENCIES : 0) | (mask ? PARSEC_USE_DEPS_MASK : 0) | (gather ? PARSEC_HAS_CTL_GATHER : 0);
    /* what parsec-ptgpp emits: the mask of all input flows, resp. the number of input flows */
    tc.dependencies_goal = mask ? (parsec_dependency_t)((1u << nf) - 1) : (parsec_dependency_t)nf;
    memset(&task, 0, sizeof task); task.task_class = &tc;
    return n;
}

static void body(int tid, void *arg)
{
    (void)arg;
    if( mode_mask ) ret[tid] = parsec_update_deps_with_mask(NULL, &task, (parsec_dependency_t*)&word, &task, &flows[relbit[tid]], &flows[relbit[tid]]);
    else            ret[tid] = parsec_update_deps_with_counter(NULL, &task, (parsec_dependency_t*)&word, NULL, NULL, NULL);
}
static const char *kname(int tid)
{
    int k = ctl_kind_of(tid);
    if( k == CTL_K_DONE ) return ret[tid] ? "done1" : "done0";
    if( k == CTL_K_START ) return "start";
    if( k == PARSEC_VERIF_K_CAS ) return "cas";
    if( k == PARSEC_VERIF_K_RMW ) return "rmw";
    return "other";
}
static void observe(void *o, int step, int t)
{
    (void)o; (void)step;
    if( mode_mask ) printf("step %d => %s w=%u\n", t, kname(t), (unsigned)word);
    else            printf("step %d => %s w=%d\n", t, kname(t), (int)word);
}

static void one_run(const char *caseline, ctl_choose_t ch, void *cctx, int n)
{
    int sched[256], complete;
    word = 0; for(int i = 0; i < n; i++) ret[i] = -1;
    if( mode_mask ) printf("%s => ok n=%d goal=%u\n", caseline, n, (unsigned)tc.dependencies_goal);
    else printf("%s => ok n=%d goal=%d\n", caseline, n, n);
    /* ctl_cur is needed by kname at the end: capture names inside the observer of the final step instead */
    static char final[CTL_MAXT][8];
    for(int i = 0; i < n; i++) strcpy(final[i], "start");
    int steps = ctl_run(n, body, NULL, ch, cctx, observe, NULL, 200, sched, &complete);
    (void)steps;
    printf("rets => [");
    for(int i = 0; i < n; i++) printf("%s%s", i ? " " : "", ret[i] < 0 ? "unfinished" : (ret[i] ? "done1" : "done0"));
    printf("]\n");
    if( !complete ) pv_stat("incomplete_runs", 1);
}

/* free-running search (no cooperative scheduling): n threads release concurrently, many rounds */
static pthread_barrier_t bar; static int s_rounds; static volatile parsec_dependency_t *s_words; static int *s_ready;
static void *stress_worker(void *p)
{
    int tid = (int)(intptr_t)p;
    for(int r = 0; r < s_rounds; r++) {
        pthread_barrier_wait(&bar);
        int rc = mode_mask ? parsec_update_deps_with_mask(NULL, &task, (parsec_dependency_t*)&s_words[r], &task, &flows[relbit[tid]], &flows[relbit[tid]])
                           : parsec_update_deps_with_counter(NULL, &task, (parsec_dependency_t*)&s_words[r], NULL, NULL, NULL);
        if( rc ) __sync_fetch_and_add(&s_ready[r], 1);
    }
    return NULL;
}
static void stress(const char *caseline, int n, int rounds)
{
    pthread_t th[CTL_MAXT];
    s_rounds = rounds; s_words = calloc(rounds, sizeof(parsec_dependency_t)); s_ready = calloc(rounds, sizeof(int));
    pthread_barrier_init(&bar, NULL, n);
    for(int i = 0; i < n; i++) pthread_create(&th[i], NULL, stress_worker, (void*)(intptr_t)i);
    for(int i = 0; i < n; i++) pthread_join(th[i], NULL);
    long bad = 0; int first = -1;
    for(int r = 0; r < rounds; r++) if( s_ready[r] != 1 ) { bad++; if( first < 0 ) first = r; }
    if( bad ) printf("!viol C07 free-running %s with %d threads: %ld of %d rounds returned ready %d time(s) instead of once (first bad round %d)\n", caseline, n, bad, rounds, s_ready[first], first);
    pv_stat("stress_rounds", rounds);
    free((void*)s_words); free(s_ready); pthread_barrier_destroy(&bar);
}

int main(void)
{
    static char line[4096], caseline[4096];
    while( fgets(line, sizeof line, stdin) ) {
        char *tok[64]; int nt = 0;
        line[strcspn(line, "\n")] = 0;
        char *bar = strstr(line, " | ");
        if( !bar ) { printf("%s => bad-op\n", line); continue; }
        *bar = 0; strcpy(caseline, line);
        char *pol = bar + 3;
        for(char *p = strtok(line, " "); p && nt < 64; p = strtok(NULL, " ")) tok[nt++] = p;
        if( nt < 4 || strcmp(tok[0], "case") ) { printf("%s => bad-op\n", caseline); continue; }
        mode_mask = !strcmp(tok[2], "mask");
        int n = build(mode_mask, nt - 3, tok + 3);
        if( n < 1 || n > CTL_MAXT ) { printf("%s => bad-op\n", caseline); continue; }
        nthreads = n;
        if( !strncmp(pol, "rng ", 4) ) {
            pv_rng_t r = { strtoull(pol + 4, NULL, 10) };
            one_run(caseline, ctl_choose_rng, &r, n);
        } else if( !strncmp(pol, "dfs ", 4) ) {
            long max = atol(pol + 4), cnt = 0; ctl_dfs_t d; ctl_dfs_init(&d);
            do { one_run(caseline, ctl_choose_dfs, &d, n); cnt++; } while( cnt < max && ctl_dfs_next(&d) );
            pv_stat("dfs_schedules", cnt);
            if( cnt < max ) pv_stat("dfs_exhausted_spaces", 1);
        } else if( !strncmp(pol, "replay", 6) ) {
            int sc[256], len = 0; char *p = pol + 6;
            while( *p && len < 256 ) { while( *p == ' ' ) p++; if( !*p ) break; sc[len++] = atoi(p); while( *p && *p != ' ' ) p++; }
            ctl_replay_t rp = { sc, len };
            one_run(caseline, ctl_choose_replay, &rp, n);
        } else if( !strncmp(pol, "stress ", 7) ) {
            stress(caseline, n, atoi(pol + 7));
        } else printf("%s => bad-op\n", caseline);
    }
    return 0;
}
