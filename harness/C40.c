/* C40 harness: runs the REAL virtual-process-map and binding parsers of parsec/vpmap.c and parsec/parsec.c.
 * The two source files are #included so that their static functions (parse_binding_parameter,
 * parsec_vpmap_init_from_flat/_from_hardware_affinity, parsec_parse_binding_parameter, ...) are called
 * directly and are compiled with ASan/UBSan instrumentation.  -DNDEBUG matches the library build
 * (RelWithDebInfo), i.e. assert() is compiled out exactly as in libparsec.so.
 *
 * usage:  C40 topo            print "R <nb_real_cores> sockets <a,b,..>" and exit
 *         C40                 read operations from stdin, one per line, print `op => result`
 * The hwloc topology comes from the environment: HWLOC_SYNTHETIC="package:S core:C pu:1" (synthetic), or the
 * machine (optionally C40_AFFINITY=k restricts the process to k CPUs before parsec_hwloc_init, which makes
 * parsec_hwloc_nb_real_cores() = k).
 *
 * Operations run in a forked worker process, one after the other, each from reset statics (parsec_nbvp = -1,
 * ...) and each ending with parsec_vpmap_fini(); the worker reports a result only after the LAST real call of
 * the operation returned.  When the worker dies the operation's result is
 *   exit status 250 (parsec_fatal -> _Exit(-6)) => "fatal";  no answer in time => "hang";  else => "crash"
 * and a new worker is forked (fork per operation costs 0.2 s in this sandbox under ASan).
 *
 * Strings are tokens `=text` with %XX escapes; `NULL` / `-` = absent.
 *   flat R sing n                       parsec_vpmap_init_from_flat(n)                (n = -1 or n >= 1)
 *   hwloc R sing sockets n              parsec_vpmap_init_from_hardware_affinity(n)
 *   bind R nbth =binding                parse_binding_parameter(0, nbth, binding) on calloc'ed threads
 *   init R sing sockets nb spec file    parsec_vpmap_init(spec, nb); `file` = content of ./vpmap.in or -
 *   bmap R allowed n comm =opt file     parsec_parse_binding_parameter(opt, ctx, startup); ./bind.in
 *   dflt R allowed sing sockets nb spec file   parsec_vpmap_init + parsec_parse_binding_parameter(NULL,..)
 * R / sockets in the op must equal the harness topology (else `bad-topo`).
 */
#define _GNU_SOURCE
#include <sched.h>
#include <unistd.h>
#include <signal.h>
#include <sys/wait.h>
#include <fcntl.h>
#include <poll.h>
#include "parsec/vpmap.c"
#include "parsec/parsec.c"
#include "pv.h"

/* ---------------------------------------------------------------- small helpers */
typedef struct { char *p; size_t n, cap; } sbuf_t;
static void sb_add(sbuf_t *b, const char *s, size_t k)
{
    if( b->n + k + 1 > b->cap ) { b->cap = 2 * (b->n + k + 1); b->p = realloc(b->p, b->cap); }
    memcpy(b->p + b->n, s, k); b->n += k; b->p[b->n] = 0;
}
static void sb_put(sbuf_t *b, const char *fmt, ...)
{
    va_list ap; char tmp[512];
    va_start(ap, fmt); int k = vsnprintf(tmp, sizeof tmp, fmt, ap); va_end(ap);
    if( k < 0 ) return;
    if( (size_t)k >= sizeof tmp ) k = (int)sizeof tmp - 1;   /* never happens: all formats are short */
    sb_add(b, tmp, (size_t)k);
}

static int hexv(int c) { if(c>='0'&&c<='9') return c-'0'; if(c>='a'&&c<='f') return c-'a'+10; if(c>='A'&&c<='F') return c-'A'+10; return -1; }

/* decode `=text`; returns an exactly-sized malloc'ed NUL-terminated string (so that ASan sees over-reads),
 * NULL for NULL/-; *bad set on a malformed token */
static char *dec(const char *tok, int *bad)
{
    if( 0 == strcmp(tok, "NULL") || 0 == strcmp(tok, "-") ) return NULL;
    if( tok[0] != '=' ) { *bad = 1; return NULL; }
    size_t n = strlen(tok + 1), k = 0;
    char *tmp = malloc(n + 1);
    for(size_t i = 1; tok[i]; ) {
        if( tok[i] == '%' ) {
            int a = tok[i+1] ? hexv(tok[i+1]) : -1, b = (a >= 0 && tok[i+2]) ? hexv(tok[i+2]) : -1;
            if( a < 0 || b < 0 || (a == 0 && b == 0) ) { *bad = 1; free(tmp); return NULL; }
            tmp[k++] = (char)(16 * a + b); i += 3;
        } else tmp[k++] = tok[i++];
    }
    char *r = malloc(k + 1); memcpy(r, tmp, k); r[k] = 0; free(tmp);
    return r;
}

static void put_file(const char *name, const char *content)
{
    unlink(name);
    if( NULL == content ) return;
    FILE *f = fopen(name, "w"); if( !f ) return;
    fwrite(content, 1, strlen(content), f); fclose(f);
}

/* canonical set: finite members ascending, then `k-` when every index >= k is a member */
static void show_set(sbuf_t *b, hwloc_cpuset_t c)
{
    if( NULL == c ) { sb_put(b, "null"); return; }
    int infinite = (hwloc_bitmap_weight(c) == -1), k = 0, first = 1;
    if( infinite ) { hwloc_bitmap_t t = hwloc_bitmap_alloc(); hwloc_bitmap_not(t, c); k = hwloc_bitmap_last(t) + 1; hwloc_bitmap_free(t); }
    sb_put(b, "[");
    for(int i = hwloc_bitmap_next(c, -1); i != -1 && (!infinite || i < k); i = hwloc_bitmap_next(c, i)) {
        sb_put(b, "%s%d", first ? "" : " ", i); first = 0;
    }
    if( !infinite && hwloc_bitmap_isset(c, 4294967295U) ) { sb_put(b, "%s4294967295", first ? "" : " "); first = 0; }
    if( infinite ) sb_put(b, "%s%d-", first ? "" : " ", k);
    sb_put(b, "]");
}

static void show_thr(sbuf_t *b, vpmap_thread_t *t)
{
    sb_put(b, " %d/%d/", t->nbcores, t->ht); show_set(b, t->cpuset);
}

/* the map as seen through the query API */
static void show_map(sbuf_t *b)
{
    int nv = parsec_vpmap_get_nb_vp();
    if( nv < 0 ) { sb_put(b, "negvp %d %d", nv, parsec_vpmap_get_nb_total_threads()); return; }
    sb_put(b, "ok %d %d", nv, parsec_vpmap_get_nb_total_threads());
    for(int v = 0; v < nv; v++) {
        int nt = parsec_vpmap_get_vp_threads(v);
        sb_put(b, " | %d:", nt);
        for(int t = 0; t < nt; t++) {
            int ht = -99;
            hwloc_cpuset_t c = parsec_vpmap_get_vp_thread_affinity(v, t, &ht);
            sb_put(b, " %d/%d/", parsec_vpmap_get_vp_thread_cores(v, t), ht); show_set(b, c);
        }
    }
}

static int myR; static char mysockets[256];

static void topo(void)
{
    myR = parsec_hwloc_nb_real_cores();
    int level = parsec_hwloc_core_first_hrwd_ancestor_depth();
    int n = parsec_hwloc_get_nb_objects(level);
    size_t k = 0; mysockets[0] = 0;
    if( n <= 0 ) strcpy(mysockets, "-");
    for(int i = 0; i < n && k < sizeof(mysockets) - 16; i++)
        k += (size_t)sprintf(mysockets + k, "%s%d", i ? "," : "", parsec_hwloc_nb_cores_per_obj(level, i));
}

static int parse_list(const char *s, int *out, int max)
{
    int n = 0;
    if( 0 == strcmp(s, "-") ) return 0;
    while( *s && n < max ) { char *e; long v = strtol(s, &e, 10); if( e == s ) return -1; out[n++] = (int)v; s = e; if( *s == ',' ) s++; else if( *s ) return -1; }
    return n;
}

static parsec_context_t *mk_context(int nvp, const int *nth, const int *allowed, int nallowed, int comm)
{
    parsec_context_t *ctx = calloc(1, sizeof(parsec_context_t) + (size_t)(nvp > 0 ? nvp : 1) * sizeof(parsec_vp_t*));
    ctx->nb_vp = nvp;
    for(int p = 0; p < nvp; p++) {
        parsec_vp_t *vp = calloc(1, sizeof(parsec_vp_t));
        vp->vp_id = p; vp->nb_cores = nth[p]; vp->parsec_context = ctx;
        ctx->virtual_processes[p] = vp;
    }
    ctx->cpuset_allowed_mask = hwloc_bitmap_alloc();
    for(int i = 0; i < nallowed; i++) hwloc_bitmap_set(ctx->cpuset_allowed_mask, (unsigned)allowed[i]);
    ctx->comm_th_core = comm;
    return ctx;
}

static void show_binds(sbuf_t *b, __parsec_temporary_thread_initialization_t *st, int n, hwloc_cpuset_t used)
{
    sb_put(b, "bind=[");
    for(int i = 0; i < n; i++) sb_put(b, "%s%d", i ? " " : "", st[i].bindto);
    sb_put(b, "] used=[");
    int first = 1;
    for(int i = hwloc_bitmap_next(used, -1); i != -1; i = hwloc_bitmap_next(used, i)) { sb_put(b, "%s%d", first ? "" : " ", i); first = 0; }
    sb_put(b, "]");
}

/* ---------------------------------------------------------------- one operation, in the child */
static void run_op(char *line, sbuf_t *b)
{
    char *w[12]; int nw = 0;
    for(char *p = strtok(line, " "); p && nw < 12; p = strtok(NULL, " ")) w[nw++] = p;
    int bad = 0;
    if( nw == 0 ) { sb_put(b, "bad-op"); return; }
    if( 0 == strcmp(w[0], "case") && nw == 2 ) { sb_put(b, "ok"); return; }
    if( nw >= 2 && atoi(w[1]) != myR ) { sb_put(b, "bad-topo"); return; }

    if( 0 == strcmp(w[0], "flat") && nw == 4 ) {
        int n = atoi(w[3]);
        if( !(n == -1 || n >= 1) ) { sb_put(b, "rejected"); return; }
        parsec_runtime_singlify_bindings = atoi(w[2]);
        parsec_vpmap_init_from_flat(n);
        for(int i = 0; i < parsec_nbvp; i++) parsec_vpmap[i].cpuset = NULL;   /* malloc'ed, set later by parsec_vpmap_init */
        show_map(b);
        parsec_vpmap_fini();
        return;
    }
    if( 0 == strcmp(w[0], "hwloc") && nw == 5 ) {
        if( strcmp(w[3], mysockets) ) { sb_put(b, "bad-topo"); return; }
        parsec_runtime_singlify_bindings = atoi(w[2]);
        parsec_vpmap_init_from_hardware_affinity(atoi(w[4]));
        for(int i = 0; i < parsec_nbvp && parsec_vpmap; i++) parsec_vpmap[i].cpuset = NULL;
        show_map(b);
        parsec_vpmap_fini();
        return;
    }
    if( 0 == strcmp(w[0], "bind") && nw == 4 ) {
        int nbth = atoi(w[2]);
        char *s = dec(w[3], &bad);
        if( bad || NULL == s ) { sb_put(b, "bad-op"); return; }
        if( nbth < 1 || nbth > 4096 ) { sb_put(b, "rejected"); return; }
        /* the state parsec_vpmap_init_from_file has when it calls parse_binding_parameter(v, nbth, binding) */
        parsec_nbvp = 1;
        parsec_vpmap = (vpmap_t*)malloc(sizeof(vpmap_t));
        parsec_vpmap[0].nbthreads = nbth;
        parsec_vpmap[0].threads = (vpmap_thread_t*)calloc((size_t)nbth, sizeof(vpmap_thread_t));
        parsec_vpmap[0].cpuset = NULL;
        parse_binding_parameter(0, nbth, s);
        sb_put(b, "ok");
        for(int t = 0; t < nbth; t++) show_thr(b, &parsec_vpmap[0].threads[t]);
        parsec_vpmap_fini();
        free(s);
        return;
    }
    if( 0 == strcmp(w[0], "init") && nw == 7 ) {
        if( strcmp(w[3], mysockets) ) { sb_put(b, "bad-topo"); return; }
        int nb = atoi(w[4]);
        char *spec = dec(w[5], &bad), *fc = dec(w[6], &bad);
        if( bad ) { sb_put(b, "bad-op"); return; }
        if( nb < 1 ) { sb_put(b, "rejected"); return; }
        put_file("vpmap.in", fc);
        parsec_runtime_singlify_bindings = atoi(w[2]);
        parsec_vpmap_init(spec, nb);
        show_map(b);
        parsec_vpmap_fini();
        return;
    }
    if( 0 == strcmp(w[0], "bmap") && nw == 7 ) {
        int allowed[1024], na = parse_list(w[2], allowed, 1024), n = atoi(w[3]), comm = atoi(w[4]);
        char *opt = dec(w[5], &bad), *fc = dec(w[6], &bad);
        if( bad || na < 0 || NULL == opt || n < 0 ) { sb_put(b, "bad-op"); return; }
        if( n > 4096 ) { sb_put(b, "rejected"); return; }
        put_file("bind.in", fc);
        parsec_context_t *ctx = mk_context(1, &n, allowed, na, comm);
        __parsec_temporary_thread_initialization_t *st = malloc((size_t)n * sizeof(*st));
        for(int i = 0; i < n; i++) { st[i].th_id = i; st[i].virtual_process = ctx->virtual_processes[0]; st[i].bindto = -1; st[i].bindto_ht = -1; }
        int rc = parsec_parse_binding_parameter(opt, ctx, st);
        if( PARSEC_ERR_NOT_FOUND == rc ) { sb_put(b, "notfound"); return; }
        sb_put(b, "ok comm=%d ", ctx->comm_th_core);
        show_binds(b, st, n, ctx->cpuset_used_mask);
        free(st); free(opt);
        return;
    }
    if( 0 == strcmp(w[0], "dflt") && nw == 8 ) {
        if( strcmp(w[4], mysockets) ) { sb_put(b, "bad-topo"); return; }
        int allowed[1024], na = parse_list(w[2], allowed, 1024), nb = atoi(w[5]);
        char *spec = dec(w[6], &bad), *fc = dec(w[7], &bad);
        if( bad || na < 0 ) { sb_put(b, "bad-op"); return; }
        if( nb < 1 ) { sb_put(b, "rejected"); return; }
        put_file("vpmap.in", fc);
        parsec_runtime_singlify_bindings = atoi(w[3]);
        parsec_vpmap_init(spec, nb);
        int nvp = parsec_vpmap_get_nb_vp();
        if( nvp < 0 ) { sb_put(b, "rejected"); return; }
        /* what parsec_init does with the map: one parsec_vp_t per VP, one startup slot per thread */
        int *nth = malloc((size_t)(nvp + 1) * sizeof(int)), total = 0;
        for(int p = 0; p < nvp; p++) { nth[p] = parsec_vpmap_get_vp_threads(p); total += nth[p]; }
        parsec_context_t *ctx = mk_context(nvp, nth, allowed, na, -1);
        __parsec_temporary_thread_initialization_t *st = malloc((size_t)total * sizeof(*st));
        for(int p = 0, k = 0; p < nvp; p++)
            for(int t = 0; t < nth[p]; t++, k++) {
                st[k].th_id = t; st[k].virtual_process = ctx->virtual_processes[p]; st[k].bindto = -1; st[k].bindto_ht = -1;
                parsec_vpmap_get_vp_thread_affinity(p, t, &st[k].bindto_ht);
            }
        parsec_parse_binding_parameter(NULL, ctx, st);
        sb_put(b, "ok ");
        show_binds(b, st, total, ctx->cpuset_used_mask);
        parsec_vpmap_fini();
        return;
    }
    sb_put(b, "bad-op");
}

/* Forget everything an operation left behind, as a fresh process would (statics of vpmap.c / parsec.c). */
static void reset_statics(void)
{
    parsec_vpmap = NULL; parsec_nbvp = -1; parsec_nbht = 1; parsec_nb_total_threads = 0; parsec_display_vpmap = 0;
    parsec_runtime_singlify_bindings = 0; parsec_report_bindings = 0; parsec_report_binding_issues = 128;
}

static void init_runtime(void)
{
    const char *aff = getenv("C40_AFFINITY");
    if( aff && atoi(aff) > 0 ) {
        cpu_set_t m; CPU_ZERO(&m);
        for(int i = 0; i < atoi(aff); i++) CPU_SET(i, &m);
        sched_setaffinity(0, sizeof m, &m);
    }
    parsec_hwloc_init();
    parsec_debug_colorize = 0;
    parsec_debug_rank = 0;      /* what parsec_debug_init() sets for a single-process run (it is -1 before) */
    topo();
}

/* A worker executes operations one after the other until one of them kills it.  Every operation ends with
 * parsec_vpmap_fini() and starts from reset statics, so a surviving worker is in the state of a fresh process. */
static void worker(int in, int out)
{
    int e = open("child.err", O_RDWR | O_CREAT | O_TRUNC, 0644);
    if( e >= 0 ) { dup2(e, 2); close(e); }
    int o = open("/dev/null", O_WRONLY); if( o >= 0 ) { dup2(o, 1); close(o); }   /* "No binding specified" printf */
    FILE *fi = fdopen(in, "r");
    static char line[1 << 16];
    while( fgets(line, sizeof line, fi) ) {
        line[strcspn(line, "\n")] = 0;
        if( ftruncate(2, 0) == 0 ) lseek(2, 0, SEEK_SET);
        reset_statics();
        sbuf_t b = { NULL, 0, 0 };
        run_op(line, &b);
        sb_put(&b, "\n");
        size_t off = 0;
        while( off < b.n ) { ssize_t k = write(out, b.p + off, b.n - off); if( k <= 0 ) _exit(3); off += (size_t)k; }
        free(b.p);
    }
    _exit(0);
}

static pid_t wpid = -1; static int wto = -1, wfrom = -1;
static void spawn(void)
{
    int a[2], b[2];
    if( pipe(a) || pipe(b) ) { perror("pipe"); exit(2); }
    wpid = fork();
    if( 0 == wpid ) { close(a[1]); close(b[0]); worker(a[0], b[1]); }
    close(a[0]); close(b[1]); wto = a[1]; wfrom = b[0];
}

int main(int argc, char **argv)
{
    init_runtime();            /* once, in the parent: workers are forked from the initialised process */
    if( argc > 1 && 0 == strcmp(argv[1], "topo") ) { printf("R %d sockets %s\n", myR, mysockets); return 0; }
    signal(SIGPIPE, SIG_IGN);
    static char line[1 << 16];
    while( fgets(line, sizeof line, stdin) ) {
        size_t len = strcspn(line, "\n"); line[len] = 0;
        if( line[0] == 0 ) continue;
        printf("%s => ", line); fflush(stdout);
        if( wpid < 0 ) spawn();
        line[len] = '\n';
        int timeout_ms = (0 == strncmp(line, "dflt", 4)) ? 10000 : 90000;
        sbuf_t r = { NULL, 0, 0 }; int done = 0, hung = 0;
        if( write(wto, line, len + 1) != (ssize_t)(len + 1) ) done = -1;
        while( 0 == done ) {
            struct pollfd pf = { wfrom, POLLIN, 0 };
            int pr = poll(&pf, 1, timeout_ms);
            if( pr == 0 ) { hung = 1; kill(wpid, SIGKILL); done = -1; break; }
            char tmp[4096]; ssize_t k = read(wfrom, tmp, sizeof tmp);
            if( k <= 0 ) { done = -1; break; }
            sb_add(&r, tmp, (size_t)k);
            if( r.p[r.n - 1] == '\n' ) done = 1;
        }
        if( done == 1 ) { fputs(r.p, stdout); }
        else {
            int status = 0; waitpid(wpid, &status, 0);
            close(wto); close(wfrom); wpid = -1;
            if( hung ) printf("hang\n");
            else if( WIFEXITED(status) && WEXITSTATUS(status) == 250 ) printf("fatal\n");
            else {
                printf("crash\n");
                /* first line of the sanitizer report, for the human reader */
                FILE *f = fopen("child.err", "r"); char l[512];
                if( f ) { int n = 0; while( n < 2 && fgets(l, sizeof l, f) ) if( n == 1 || strstr(l, "ERROR:") || strstr(l, "runtime error") ) { l[strcspn(l, "\n")] = 0; printf("#why %s\n", l); n++; } fclose(f); }
                if( WIFSIGNALED(status) ) printf("#why signal %d\n", WTERMSIG(status));
            }
        }
        fflush(stdout);
        free(r.p);
    }
    if( wpid > 0 ) { close(wto); waitpid(wpid, NULL, 0); }
    return 0;
}
