/* C13 harness: drives the REAL collective-activation code of parsec/remote_dep.c and remote_dep_mpi.c
 *   parsec_remote_dep_activate            (root side, and inside propagate on relays)
 *   parsec_remote_dep_propagate + parsec_gather_collective_pattern   (relay side: bitmaps / outgoing_mask rebuilt)
 *   remote_dep_dequeue_send -> remote_dep_nothread_send -> remote_dep_mpi_pack_dep   (per-peer payload selection)
 * without any hook: the fabricated context carries PARSEC_CONTEXT_FLAG_COMM_MT so the send is packed at once,
 * and parsec_ce.pack / pack_size / send_am (writable function pointers) are recording stubs.
 * The broadcast topology is chosen the way an application chooses it: MCA parameter runtime_comm_coll_bcast,
 * read by parsec_remote_dep_init() inside parsec_init() -> ONE topology per harness process.
 *
 * usage: C13 <star|chain|binomial> [raw-mca-value]      (ops on stdin, one per line; see lean/Driver/C13.lean)
 *   act T n root me dtd big sets...   messages of one participant          => mask=M [dst:k,k ...]
 *   bcast T n root dtd big sets...    whole collective, FIFO delivery       => [src>dst:k,k ...]
 */
#include "parsec/parsec_config.h"
#include "parsec/parsec_internal.h"
#include "parsec/runtime.h"
#include "parsec/execution_stream.h"
#include "parsec/mca/termdet/termdet.h"
#include "parsec/parsec_comm_engine.h"
#include "parsec/remote_dep.h"
#include "parsec/data_internal.h"
#include <mpi.h>
#include <unistd.h>
#include "pv.h"

extern int parsec_remote_dep_inited;   /* parsec/remote_dep.c */

#define MAXO 20            /* = MAX_PARAM_COUNT */
#define MAXN 4096
#define MAXMSG 65536

/* ---------------------------------------------------------------- the family under test */
static int F_n, F_root, F_dtd, F_no; static unsigned F_big;
static int F_key[MAXO]; static int F_len[MAXO]; static int F_rank[MAXO][MAXN];
static uint32_t F_mask;

/* ---------------------------------------------------------------- recorded sends */
typedef struct { int src, dst; uint32_t mask; int nkeys; int key[MAXO]; } msg_t;
static msg_t *Q; static int q_len;
static int cur_me;
static long n_inline, n_ondemand, n_msgs;

static unsigned char pattern_of(int k) { return (unsigned char)(0x40 + k); }
static int size_of_key(int k) { return (F_big >> k) & 1 ? 2048 + 8 * k : 8 * (k + 1); }
static int key_of_size(int s) { return s >= 2048 ? (s - 2048) / 8 : s / 8 - 1; }

static int stub_pack_size(parsec_comm_engine_t *ce, int incount, parsec_datatype_t type, int *size)
{ (void)ce; (void)type; *size = incount; return 0; }
static int stub_pack(parsec_comm_engine_t *ce, void *inbuf, int incount, parsec_datatype_t type, void *outbuf, int outsize, int *pos)
{
    (void)ce; (void)type;
    if( *pos + incount > outsize ) { printf("!viol C13 pack beyond the short buffer (%d+%d>%d)\n", *pos, incount, outsize); return -1; }
    memcpy((char*)outbuf + *pos, inbuf, incount); *pos += incount; return 0;
}
static int stub_send_am(parsec_comm_engine_t *ce, parsec_ce_tag_t tag, int remote, void *addr, size_t size)
{
    (void)ce;
    remote_dep_wire_activate_t hdr; memcpy(&hdr, addr, sizeof(hdr));
    uint32_t *ds = (uint32_t*)((char*)addr + sizeof(hdr));
    if( q_len >= MAXMSG ) return 0;
    msg_t *m = &Q[q_len++]; n_msgs++;
    m->src = cur_me; m->dst = remote; m->mask = (uint32_t)hdr.output_mask; m->nkeys = 0;
    if( tag != PARSEC_CE_REMOTE_DEP_ACTIVATE_TAG ) printf("!viol C13 activation sent with tag %ld\n", (long)tag);
    if( size < sizeof(hdr) + sizeof(uint32_t) || ds[0] > MAXO ) { printf("!viol C13 malformed activation message (size %zu)\n", size); return 0; }
    size_t off = sizeof(hdr) + (ds[0] + 1) * sizeof(uint32_t);
    for(uint32_t j = 0; j < ds[0]; j++) {
        int k = key_of_size((int)ds[1 + j]);
        m->key[m->nkeys++] = k;
        if( k < 0 || k >= MAXO || size_of_key(k) != (int)ds[1 + j] ) { printf("!viol C13 message to %d announces a payload of %u bytes that no output has\n", remote, ds[1 + j]); continue; }
        if( !((F_big >> k) & 1) && off + ds[1 + j] <= size ) {         /* short payload packed in line: must be intact */
            for(uint32_t b = 0; b < ds[1 + j]; b++)
                if( ((unsigned char*)addr)[off + b] != pattern_of(k) ) { printf("!viol C13 in-line payload of output %d to rank %d is corrupted\n", k, remote); break; }
            off += ds[1 + j]; n_inline++;
        } else n_ondemand++;
    }
    return 0;
}

/* ---------------------------------------------------------------- fabricated runtime objects */
static parsec_context_t ctx; static parsec_vp_t vp; static parsec_execution_stream_t es;
static parsec_termdet_module_t fake_td; static long flying;
static parsec_taskpool_t tp; static parsec_task_class_t tc; static parsec_task_t task, succ;
static parsec_flow_t flows[MAXO]; static parsec_dep_t depd[MAXO];
static parsec_data_copy_t *copies[MAXO]; static unsigned char *bufs[MAXO];

static int td_load(parsec_taskpool_t *t, int v) { (void)t; flying += v; return 0; }
static int td_out_start(parsec_taskpool_t *t, int dst, parsec_remote_deps_t *d) { (void)t; (void)dst; (void)d; return 1; }
static int td_out_pack(parsec_taskpool_t *t, int dst, char *b, int *p, int s) { (void)t; (void)dst; (void)b; (void)p; (void)s; return 0; }

/* the successors of the producer task: output F_key[i] goes to every rank of F_rank[i] (some of them through
 * two successor tasks, as a tile consumed twice on one process) */
static void it_succ(parsec_execution_stream_t *e, const parsec_task_t *t, uint32_t action_mask, parsec_ontask_function_t *ontask, void *arg)
{
    parsec_dep_data_description_t data; memset(&data, 0, sizeof(data));
    for(int i = 0; i < F_no; i++) {
        if( !(action_mask & (1U << depd[i].dep_index)) ) continue;
        for(int j = 0; j < F_len[i]; j++) {
            int r = F_rank[i][j], rep = ((r + F_key[i]) % 3 == 0) ? 2 : 1;
            while( rep-- ) ontask(e, &succ, t, &depd[i], &data, F_root, r, 0, NULL, 0, arg);
        }
    }
}

static void setup_family_objects(void)
{
    memset(&tc, 0, sizeof(tc)); tc.nb_locals = 0; tc.task_class_id = 0; tc.iterate_successors = it_succ;
    for(int i = 0; i < F_no; i++) {
        memset(&flows[i], 0, sizeof(flows[i])); memset(&depd[i], 0, sizeof(depd[i]));
        depd[i].dep_index = (uint8_t)i; depd[i].dep_datatype_index = (uint8_t)F_key[i];
        depd[i].belongs_to = &flows[i]; depd[i].flow = &flows[i];
        flows[i].flow_index = (uint8_t)i; flows[i].flow_datatype_mask = 1U << F_key[i];
        flows[i].dep_out[0] = &depd[i]; flows[i].dep_out[1] = NULL;
        tc.out[i] = &flows[i];
    }
    tc.out[F_no] = NULL;
    tp.taskpool_type = F_dtd ? PARSEC_TASKPOOL_TYPE_DTD : PARSEC_TASKPOOL_TYPE_PTG;
    memset(&task, 0, sizeof(task)); task.taskpool = &tp; task.task_class = &tc;
    memset(&succ, 0, sizeof(succ)); succ.taskpool = &tp; succ.task_class = &tc; succ.priority = 3;
    ctx.nb_nodes = F_n; ctx.remote_dep_fw_mask_sizeof = ((F_n + 31) / 32) * sizeof(uint32_t);
    if( (int)parsec_remote_dep_context.max_nodes_number != F_n || !parsec_remote_dep_inited ) {
        remote_deps_allocation_fini();
        remote_deps_allocation_init(F_n, MAX_PARAM_COUNT);
    }
}

static void give_data(parsec_remote_deps_t *d)
{
    for(int i = 0; i < F_no; i++) {
        int k = F_key[i];
        memset(&d->output[k].data, 0, sizeof(d->output[k].data));
        d->output[k].data.data = copies[k];
        copies[k]->readers = 1 << 20;
        d->output[k].data.remote.src_datatype = parsec_datatype_int8_t;
        d->output[k].data.remote.src_count = size_of_key(k);
        d->output[k].data.remote.src_displ = 0;
    }
}

static void reclaim(parsec_remote_deps_t *d)
{
    if( NULL == d->taskpool ) return;           /* the library already returned it to its free list */
    /* payloads announced "on demand" keep the structure alive until the (never coming) GET: drop it */
    if( d->pending_ack <= 0 ) printf("!viol C13 remote_deps still owned after activate with pending_ack=%d\n", d->pending_ack);
    d->pending_ack = 0; d->incoming_mask = 0; d->outgoing_mask = 0;
    flying--;                                   /* the decrement the last completion would have done */
    remote_deps_free(d);
}

/* root side: what parsec_release_dep_fct builds (bit of every remote successor, outgoing_mask = every output) */
static void activate_root(void)
{
    parsec_remote_deps_t *d = remote_deps_allocate(&parsec_remote_dep_context.freelist);
    d->root = F_root;
    for(int i = 0; i < F_no; i++) {
        int k = F_key[i];
        for(int j = 0; j < F_len[i]; j++) {
            uint32_t bank, bit; int r = F_rank[i][j];
            if( r == F_root ) continue;             /* local successor: released locally, never in the bitmap */
            remote_dep_rank_to_bit(r, &bank, &bit, F_root);
            if( !(d->output[k].rank_bits[bank] & (1U << bit)) ) { d->output[k].rank_bits[bank] |= 1U << bit; d->output[k].count_bits++; }
        }
        d->output[k].deps_mask |= 1U << i;
        d->outgoing_mask |= 1U << k;
    }
    give_data(d);
    ctx.my_rank = F_root; cur_me = F_root;
    parsec_remote_dep_activate(&es, &task, d, d->outgoing_mask);
    reclaim(d);
}

/* relay side: state of the remote_deps after remote_dep_release_incoming received everything, then the real propagate */
static void activate_relay(int me, uint32_t mask_received)
{
    parsec_remote_deps_t *d = remote_deps_allocate(&parsec_remote_dep_context.freelist);
    d->root = F_root; d->from = -1;
    memset(&d->msg, 0, sizeof(d->msg));
    d->msg.output_mask = mask_received; d->msg.taskpool_id = tp.taskpool_id;
    d->outgoing_mask = 0; d->incoming_mask = 0;
    give_data(d);
    ctx.my_rank = me; cur_me = me;
    parsec_remote_dep_propagate(&es, &task, d);
    reclaim(d);
}

/* ---------------------------------------------------------------- parsing / validation (same rule as the driver) */
static int parse_nat(const char *s, long *v)
{
    if( !*s ) return 0;
    for(const char *p = s; *p; p++) if( *p < '0' || *p > '9' ) return 0;
    *v = strlen(s) > 9 ? 1000000000L : atol(s);     /* huge values are only ever compared with small bounds */
    return 1;
}

/* syntax of one token K:r,r,...  (does not modify it) */
static int token_ok(const char *w)
{
    const char *c = strchr(w, ':');
    if( !c || c == w || strchr(c + 1, ':') ) return 0;
    for(const char *p = w; p < c; p++) if( *p < '0' || *p > '9' ) return 0;
    const char *p = c + 1;
    if( !*p ) return 0;
    for(int digits = 0; ; p++) {
        if( *p >= '0' && *p <= '9' ) { digits++; continue; }
        if( (*p == ',' || *p == 0) && digits > 0 ) { if( !*p ) return 1; digits = 0; continue; }
        return 0;
    }
}

/* returns 1 ok, 0 bad-op, -1 rejected */
static int parse_sets(char **w, int nw)
{
    F_no = 0; F_mask = 0;
    for(int i = 0; i < nw; i++) if( !token_ok(w[i]) ) return 0;
    if( nw == 0 || nw > MAXO ) return -1;           /* strictly increasing keys below 20: at most 20 outputs */
    for(int i = 0; i < nw; i++) {
        char *c = strchr(w[i], ':'); long v; int len = 0, nonroot = 0;
        *c = 0; parse_nat(w[i], &v);
        if( v >= MAXO || (i > 0 && v <= F_key[i - 1]) ) return -1;
        F_key[i] = (int)v;
        for(char *p = c + 1; p; ) {
            char *q = strchr(p, ','); if( q ) *q = 0;
            long r; parse_nat(p, &r);
            if( r >= F_n || len >= MAXN || (len > 0 && r <= F_rank[i][len - 1]) ) return -1;
            F_rank[i][len++] = (int)r;
            if( r != F_root ) nonroot = 1;
            p = q ? q + 1 : NULL;
        }
        if( !nonroot ) return -1;
        F_len[i] = len; F_mask |= 1U << v; F_no = i + 1;
    }
    return 1;
}

static void print_keys(const msg_t *m) { for(int j = 0; j < m->nkeys; j++) printf("%s%d", j ? "," : "", m->key[j]); }

int main(int argc, char **argv)
{
    static const char *names[3] = { "star", "chain", "binomial" };
    const char *topo = argc > 1 ? argv[1] : "chain";
    int t = -1, prov;
    for(int i = 0; i < 3; i++) if( 0 == strcmp(topo, names[i]) ) t = i;
    if( t < 0 ) { fprintf(stderr, "usage: C13 star|chain|binomial [raw]\n"); return 2; }
    { char v[32]; snprintf(v, sizeof v, "%s", argc > 2 ? argv[2] : (t == 0 ? "0" : t == 1 ? "1" : "2")); setenv("PARSEC_MCA_runtime_comm_coll_bcast", v, 1); }

    MPI_Init_thread(&argc, &argv, MPI_THREAD_SERIALIZED, &prov);
    int pargc = 1; char *pargv0[2] = { argv[0], NULL }; char **pargv = pargv0;
    parsec_context_t *pc = parsec_init(1, &pargc, &pargv);
    if( NULL == pc ) { fprintf(stderr, "parsec_init failed\n"); return 3; }

    memset(&ctx, 0, sizeof(ctx)); memset(&vp, 0, sizeof(vp)); memset(&es, 0, sizeof(es));
    ctx.flags = PARSEC_CONTEXT_FLAG_COMM_MT;                 /* pack and send from the calling thread */
    vp.parsec_context = &ctx; es.virtual_process = &vp;
    parsec_comm_es.virtual_process = &vp;
    parsec_ce.send_am = stub_send_am; parsec_ce.pack = stub_pack; parsec_ce.pack_size = stub_pack_size;
    memset(&fake_td, 0, sizeof(fake_td));
    fake_td.module.taskpool_addto_runtime_actions = td_load; fake_td.module.taskpool_addto_nb_tasks = td_load;
    fake_td.module.outgoing_message_start = td_out_start; fake_td.module.outgoing_message_pack = td_out_pack;
    fake_td.module.outgoing_message_piggyback_size = 0;
    memset(&tp, 0, sizeof(tp)); tp.taskpool_id = 7; tp.tdm.module = &fake_td.module;
    for(int k = 0; k < MAXO; k++) {
        copies[k] = PARSEC_OBJ_NEW(parsec_data_copy_t);
        copies[k]->super.super.obj_reference_count = 1 << 28;    /* never destroyed by the retain/release pairs under test */
        bufs[k] = malloc(4096); memset(bufs[k], pattern_of(k), 4096);
        copies[k]->device_private = bufs[k]; copies[k]->original = NULL;
    }
    Q = malloc(sizeof(msg_t) * MAXMSG);

    static char line[1 << 16]; static char *w[8192];
    while( fgets(line, sizeof line, stdin) ) {
        line[strcspn(line, "\n")] = 0;
        if( !line[0] ) continue;
        printf("%s => ", line);
        int nw = 0; for(char *p = strtok(line, " "); p && nw < 8192; p = strtok(NULL, " ")) w[nw++] = p;
        long n, root, me = 0, dtd, big; int is_act = nw > 0 && 0 == strcmp(w[0], "act"), is_b = nw > 0 && 0 == strcmp(w[0], "bcast");
        if( nw == 2 && 0 == strcmp(w[0], "case") ) { printf("ok\n"); continue; }
        int base = is_act ? 7 : 6;
        if( !(is_act || is_b) || nw < base ) { printf("bad-op\n"); continue; }
        int tt = -1; for(int i = 0; i < 3; i++) if( 0 == strcmp(w[1], names[i]) ) tt = i;
        int okp = tt >= 0 && parse_nat(w[2], &n) && parse_nat(w[3], &root);
        if( okp && is_act ) okp = parse_nat(w[4], &me);
        okp = okp && (0 == strcmp(w[base - 2], "0") || 0 == strcmp(w[base - 2], "1")) && parse_nat(w[base - 1], &big);
        if( !okp ) { printf("bad-op\n"); continue; }
        dtd = w[base - 2][0] == '1';
        F_n = (int)n; F_root = (int)root; F_dtd = (int)dtd; F_big = (unsigned)big;
        int ps = parse_sets(w + base, nw - base);
        if( ps == 0 ) { printf("bad-op\n"); continue; }
        if( ps < 0 || n < 2 || n > MAXN || root >= n || (is_act && (me >= n || (dtd && me != root))) ) { printf("rejected\n"); continue; }
        if( tt != t ) { printf("bad-op\n"); fprintf(stderr, "C13: op for topology %s sent to the %s process\n", w[1], topo); continue; }
        setup_family_objects();
        q_len = 0; long fly0 = flying;
        if( is_act ) {
            if( me == root ) activate_root(); else activate_relay((int)me, F_mask);
            if( q_len == 0 ) printf("mask=- [");
            else {
                printf("mask=%u [", Q[0].mask);
                for(int i = 1; i < q_len; i++) if( Q[i].mask != Q[0].mask ) { printf("]\n!viol C13 messages of one activate carry different masks\n"); break; }
            }
            for(int i = 0; i < q_len; i++) { printf("%s%d:", i ? " " : "", Q[i].dst); print_keys(&Q[i]); }
            printf("]\n");
        } else {
            activate_root();
            for(int head = 0; head < q_len && q_len < MAXMSG - MAXN; head++) {
                msg_t m = Q[head];
                if( m.dst < 0 || m.dst >= F_n ) { printf("!viol C13 message to rank %d outside the communicator\n", m.dst); continue; }
                /* remote_dep_release_incoming: only PTG taskpools propagate; the root never re-activates */
                if( !F_dtd && m.dst != F_root ) activate_relay(m.dst, m.mask);
                if( head > 4 * MAXN ) { printf("!viol C13 runaway collective (more than %d messages)\n", head); break; }
            }
            printf("[");
            for(int i = 0; i < q_len; i++) { printf("%s%d>%d:", i ? " " : "", Q[i].src, Q[i].dst); print_keys(&Q[i]); }
            printf("]\n");
        }
        if( flying != fly0 ) { printf("!viol C13 runtime-action counter unbalanced after the collective (%ld)\n", flying - fly0); flying = fly0; }
    }
    pv_stat("messages", n_msgs); pv_stat("payload_inline", n_inline); pv_stat("payload_on_demand", n_ondemand);
    fflush(stdout);
    _exit(0);
}
