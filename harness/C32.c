/* C32 harness: the REAL hash table of parsec/class/parsec_hash_table.c (libparsec built from the tree under
 * test) driven (a) sequentially with a structural dump after every operation, (b) under the cooperative
 * scheduler with a structural dump after every scheduler step, (c) free-running on up to 16 threads.
 *
 * stdin:
 *   case <id> seq <nb0> <hint> <maxb> <hmode>          then one operation per line:
 *        i <key> <item> | f <key> | r <key> | u <key> <item> | all | dump
 *   case <id> coop <nb0> <hint> <maxb> <hmode> [P <ops>] T <ops> T <ops> ... | <policy>
 *        ops: i<key>,<item>  f<key>  r<key>  u<key>,<item>     (P = prefix run by the main thread first)
 *        policy: rng SEED | pct SEED D | dfs MAX | replay t0 t1 ...
 *   stress <id> <seed> <threads> <nb0> <hint> <maxb> <hmode> <bursts> <ops> <print every> K <keys...>
 *   i = parsec_hash_table_insert; f = parsec_hash_table_find; r = parsec_hash_table_remove;
 *   u = lock_bucket_handle; nolock_find_handle; if NULL nolock_insert_handle; unlock_bucket_handle.
 *   hmode 0: parsec_hash_table_generic_key_fn (identity hash, key_equal NULL); 1: key_hash(k) = k >> 3 with a real key_equal.
 * Caller discipline (same rule as the model; a call outside it is not issued: `rej`): even keys: `i` only while no
 * earlier `i` of that key is outstanding (not yet followed by the return of an `r` that returned the item); odd keys:
 * `u` only; an item object is handed over only while it is not in the table.
 * stdout: `<line> => <result> | <dump>`; coop: `step <t> <blk> => <park point> | <dump>`, `rets`, `hist`, `final`.
 * dump: `top=<nb> w=<warning_issued> | <nb>:u<used_buckets>,n<next nb>[ <bucket>:<cur_len>:<item,item..>[L]] | ...`
 * (all tables in allocation order, newest first; buckets that are empty, unlocked and of length 0 are omitted).
 */
#include "parsec/parsec_config.h"
#include "parsec/class/parsec_hash_table.h"
#include "parsec/utils/mca_param.h"
#include "parsec/constants.h"
#include "pv.h"
#include "ctl_sched.h"
#include <pthread.h>
#include <inttypes.h>
#include <unistd.h>

/* layout of the (file-private) bucket structure of parsec_hash_table.c; verified by layout_selftest() */
typedef struct { parsec_atomic_lock_t lock; int32_t cur_len; parsec_hash_table_item_t *first_item; } bucket_view_t;

#define MAXI 4096
#define MAXOPS 64
typedef struct { uint64_t pad; parsec_hash_table_item_t hi; int id; } elt_t;
static elt_t items[MAXI + 1];
static parsec_hash_table_t ht;
static int mch_index = -1, mnb_index = -1;
static long key_equal_calls = 0;

enum { OP_INS, OP_FIND, OP_REM, OP_FOI };
typedef struct { int kind; uint64_t key; int id; } op_t;
typedef struct { int res; int inv, ret; } rec_t;   /* res: -1 ok, -2 rej, >= 0 item id (0 = NULL) */

static uint64_t hash_shift3(parsec_key_t k, void *d) { (void)d; return (uint64_t)k >> 3; }
static int equal_counted(parsec_key_t a, parsec_key_t b, void *d) { (void)d; __atomic_fetch_add(&key_equal_calls, 1, __ATOMIC_RELAXED); return a == b; }
static parsec_key_fn_t fn_custom = { .key_equal = equal_counted, .key_print = parsec_hash_table_generic_64bits_key_print, .key_hash = hash_shift3 };

static int idof(const void *user)
{
    if( NULL == user ) return 0;
    const elt_t *e = (const elt_t*)user;
    if( e >= &items[1] && e <= &items[MAXI] && ((const char*)e - (const char*)items) % sizeof(elt_t) == 0 ) return (int)(e - items);
    return -1;
}
static int idof_hi(const parsec_hash_table_item_t *hi) { return hi ? idof((const char*)hi - offsetof(elt_t, hi)) : 0; }

static void ht_setup(int nb0, int hint, int maxb, int hmode)
{
    parsec_mca_param_set_int(mch_index, hint);
    parsec_mca_param_set_int(mnb_index, maxb);
    memset(&ht, 0, sizeof ht);
    parsec_hash_table_init(&ht, offsetof(elt_t, hi), nb0, hmode ? fn_custom : parsec_hash_table_generic_key_fn, NULL);
    for(int i = 0; i <= MAXI; i++) { items[i].id = i; items[i].hi.next_item = NULL; }
}

static void collect_cb(void *item, void *data) { int *a = (int*)data; if( a[0] < MAXI + 8 ) a[++a[0]] = idof(item); else a[0]++; }

/* empties the table through the API, then fini */
static void ht_teardown(void)
{
    static int all[MAXI + 16];
    all[0] = 0;
    parsec_hash_table_for_all(&ht, collect_cb, all);
    for(int i = 1; i <= all[0] && i < MAXI + 8; i++)
        if( all[i] > 0 ) parsec_hash_table_nolock_remove(&ht, items[all[i]].hi.key);
    /* anything left (a broken table) is cut off so that fini's assertion does not hide the real report */
    for(parsec_hash_table_head_t *h = ht.rw_hash; h; h = h->next_to_free) {
        bucket_view_t *bv = (bucket_view_t*)h->buckets;
        for(size_t b = 0; b < (1ULL << h->nb_bits); b++) bv[b].first_item = NULL;
    }
    parsec_hash_table_fini(&ht);
}

static void print_dump(void)
{
    printf("top=%u w=%d", ht.rw_hash->nb_bits, ht.warning_issued);
    for(parsec_hash_table_head_t *h = ht.rw_hash; h; h = h->next_to_free) {
        bucket_view_t *bv = (bucket_view_t*)h->buckets;
        printf(" | %u:u%d,n%u", h->nb_bits, h->used_buckets, h->next ? h->next->nb_bits : 0);
        for(size_t b = 0; b < (1ULL << h->nb_bits); b++) {
            if( 0 == bv[b].lock && 0 == bv[b].cur_len && NULL == bv[b].first_item ) continue;
            printf(" %zu:%d:", b, bv[b].cur_len);
            int n = 0;
            for(parsec_hash_table_item_t *it = bv[b].first_item; it; it = it->next_item) {
                if( n > MAXI ) { printf(",cycle"); break; }
                int x = idof_hi(it);
                if( x <= 0 ) { printf("%s?", n ? "," : ""); break; }
                printf("%s%d", n ? "," : "", x);
                n++;
            }
            if( 0 == n ) printf("-");
            if( bv[b].lock ) printf("L");
        }
    }
}

static void layout_selftest(void)
{
    ht_setup(1, 100, 8, 0);
    items[1].hi.key = 0;
    parsec_hash_table_nolock_insert(&ht, &items[1].hi);
    bucket_view_t *bv = (bucket_view_t*)ht.rw_hash->buckets;
    int found = 0;
    for(int b = 0; b < 2; b++) if( bv[b].first_item == &items[1].hi && bv[b].cur_len == 1 && bv[b].lock == 0 ) found++;
    if( 1 != found || bv[0].cur_len + bv[1].cur_len != 1 ) {
        printf("!viol C32 harness: the private bucket layout of parsec_hash_table.c no longer matches the harness' view\n");
        exit(3);
    }
    parsec_hash_table_nolock_remove(&ht, 0);
    ht_teardown();
}

/* ---------------------------------------------------------------- caller bookkeeping (sequential and coop modes) */
#define MAXHELD (MAXI + 2)
static uint64_t kheld[MAXHELD]; static int nkheld;
static char iheld[MAXI + 1];
static int kheld_find(uint64_t k) { for(int i = 0; i < nkheld; i++) if( kheld[i] == k ) return i; return -1; }
static void held_reset(void) { nkheld = 0; memset(iheld, 0, sizeof iheld); }

/* one operation on the real table; returns the result code */
static int do_op(const op_t *o)
{
    switch( o->kind ) {
    case OP_INS:
        if( (o->key & 1) || kheld_find(o->key) >= 0 || o->id < 1 || o->id > MAXI || iheld[o->id] || nkheld >= MAXHELD ) return -2;
        kheld[nkheld++] = o->key; iheld[o->id] = 1;
        items[o->id].hi.key = (parsec_key_t)o->key;
        parsec_hash_table_insert(&ht, &items[o->id].hi);
        return -1;
    case OP_FIND: {
        int x = idof(parsec_hash_table_find(&ht, (parsec_key_t)o->key));
        return x < 0 ? 99999 : x;
    }
    case OP_REM: {
        int x = idof(parsec_hash_table_remove(&ht, (parsec_key_t)o->key));
        if( x > 0 ) {
            iheld[x] = 0;
            if( !(o->key & 1) ) { int j = kheld_find(o->key); if( j >= 0 ) kheld[j] = kheld[--nkheld]; }
        }
        return x < 0 ? 99999 : x;
    }
    case OP_FOI: {
        if( !(o->key & 1) || o->id < 1 || o->id > MAXI || iheld[o->id] ) return -2;
        parsec_key_handle_t kh;
        iheld[o->id] = 1;
        parsec_hash_table_lock_bucket_handle(&ht, (parsec_key_t)o->key, &kh);
        void *f = parsec_hash_table_nolock_find_handle(&ht, &kh);
        int x;
        if( NULL == f ) {
            items[o->id].hi.key = (parsec_key_t)o->key;
            parsec_hash_table_nolock_insert_handle(&ht, &kh, &items[o->id].hi);
            x = o->id;
        } else x = idof(f);
        parsec_hash_table_unlock_bucket_handle(&ht, &kh);
        if( x != o->id ) iheld[o->id] = 0;
        return x < 0 ? 99999 : x;
    }
    }
    return -2;
}
static void print_res(int r) { if( r == -1 ) printf("ok"); else if( r == -2 ) printf("rej"); else printf("%d", r); }
static void print_op(const op_t *o)
{
    static const char L[] = "ifru";
    printf("%c%" PRIu64, L[o->kind], o->key);
    if( o->kind == OP_INS || o->kind == OP_FOI ) printf(",%d", o->id);
}
static void print_all(void)
{
    static int all[MAXI + 16];
    all[0] = 0;
    parsec_hash_table_for_all(&ht, collect_cb, all);
    printf("[");
    for(int i = 1; i <= all[0] && i < MAXI + 8; i++) printf("%s%" PRIu64 ":%d", i > 1 ? " " : "", all[i] > 0 ? (uint64_t)items[all[i]].hi.key : 0, all[i]);
    printf("]");
}

static int parse_u64(const char *s, uint64_t *v)
{
    if( !*s || strspn(s, "0123456789") != strlen(s) || strlen(s) > 19 ) return 0;
    *v = strtoull(s, NULL, 10); return 1;
}
static int parse_int(const char *s, int lo, int hi, int *v)
{
    uint64_t x; const char *p = s; int neg = 0;
    if( *p == '-' ) { neg = 1; p++; }
    if( !parse_u64(p, &x) || x > 1000000000ULL ) return 0;
    long r = neg ? -(long)x : (long)x;
    if( r < lo || r > hi ) return 0;
    *v = (int)r; return 1;
}
/* i<key>,<id> f<key> r<key> u<key>,<id> */
static int parse_tok(const char *w, op_t *o)
{
    char buf[64]; memset(o, 0, sizeof *o);
    if( strlen(w) < 2 || strlen(w) > 40 ) return 0;
    switch( w[0] ) { case 'i': o->kind = OP_INS; break; case 'f': o->kind = OP_FIND; break; case 'r': o->kind = OP_REM; break; case 'u': o->kind = OP_FOI; break; default: return 0; }
    strcpy(buf, w + 1);
    char *c = strchr(buf, ',');
    if( o->kind == OP_INS || o->kind == OP_FOI ) {
        if( !c ) return 0;
        *c = 0;
        if( !parse_int(c + 1, 0, MAXI, &o->id) ) return 0;
    } else if( c ) return 0;
    return parse_u64(buf, &o->key);
}
static int parse_params(char **tok, int *nb0, int *hint, int *maxb, int *hmode)
{
    return parse_int(tok[0], 1, 8, nb0) && parse_int(tok[1], -1, 1000, hint) && parse_int(tok[2], 0, 12, maxb) && parse_int(tok[3], 0, 1, hmode);
}

/* ---------------------------------------------------------------- cooperative mode */
#define K_OPSTART 10
static int nthr;
static op_t prog[CTL_MAXT + 1][MAXOPS]; static int nops[CTL_MAXT + 1];
static rec_t rec[CTL_MAXT][MAXOPS];
static volatile int cur_step;
static volatile int stale[CTL_MAXT];
static int run_deadlock;

/* which word of the table is `addr`?  0 = none, 1 = bucket lock, 2 = used_buckets, 3 = next */
static int resolve(volatile void *addr, unsigned *T, size_t *b)
{
    for(parsec_hash_table_head_t *h = ht.rw_hash; h; h = h->next_to_free) {
        bucket_view_t *bv = (bucket_view_t*)h->buckets;
        if( (char*)addr >= (char*)bv && (char*)addr < (char*)(bv + (1ULL << h->nb_bits)) ) {
            *T = h->nb_bits; *b = (size_t)(((char*)addr - (char*)bv) / sizeof(bucket_view_t));
            return ((char*)addr - (char*)bv) % sizeof(bucket_view_t) == offsetof(bucket_view_t, lock) ? 1 : 0;
        }
        if( addr == (volatile void*)&h->used_buckets ) { *T = h->nb_bits; return 2; }
        if( addr == (volatile void*)&h->next ) { *T = h->nb_bits; return 3; }
    }
    return 0;
}
static int in_rwlock(volatile void *addr) { return (char*)addr >= (char*)&ht.rw_lock && (char*)addr < (char*)&ht.rw_lock + sizeof(ht.rw_lock); }

/* yield filter: park only at the synchronisation actions of the hash table itself, and where the rwlock makes us wait */
static void filter_cb(int kind, volatile void *addr)
{
    unsigned T; size_t b;
    if( ctl_me < 0 ) return;
    if( K_OPSTART == kind ) { ctl_yield_cb(kind, addr); return; }
    if( PARSEC_VERIF_K_FENCE == kind || NULL == addr ) return;
    if( in_rwlock(addr) ) { if( PARSEC_VERIF_K_SPIN == kind ) ctl_yield_cb(kind, addr); return; }
    if( resolve(addr, &T, &b) ) ctl_yield_cb(kind, addr);
}
static void body(int t, void *arg)
{
    (void)arg;
    parsec_verif_yield_cb = filter_cb;
    for(int i = 0; i < nops[t]; i++) {
        if( i > 0 ) filter_cb(K_OPSTART, NULL);
        rec[t][i].inv = cur_step;
        rec[t][i].res = do_op(&prog[t][i]);
        rec[t][i].ret = cur_step;
    }
}
static int is_rw_spin(int t) { return ctl_cur && ctl_cur->kind[t] == PARSEC_VERIF_K_SPIN && in_rwlock(ctl_cur->addr[t]); }
static void print_park(int t)
{
    int k = ctl_kind_of(t); unsigned T; size_t b;
    volatile void *a = ctl_cur ? ctl_cur->addr[t] : NULL;
    if( k == CTL_K_DONE || k == CTL_K_START || k == K_OPSTART ) { printf("idle"); return; }
    if( k == PARSEC_VERIF_K_SPIN && in_rwlock(a) ) { printf(a == (volatile void*)&ht.rw_lock.rin ? "rd" : "wr"); return; }
    switch( resolve(a, &T, &b) ) {
    case 1: if( T == ht.rw_hash->nb_bits ) printf("lt:%zu", b); else printf("lo:%u:%zu", T, b); return;
    case 2: printf("du:%u", T); return;
    case 3: printf("cn:%u", T); return;
    }
    printf("other");
}
static volatile void *prev_addr[CTL_MAXT]; static int prev_kind[CTL_MAXT];
static void observe(void *o, int step, int t)
{
    (void)o;
    int blk = is_rw_spin(t);
    printf("step %d %d => ", t, blk); print_park(t); printf(" | "); print_dump(); printf("\n");
    int stutter = blk && prev_kind[t] == PARSEC_VERIF_K_SPIN && prev_addr[t] == ctl_cur->addr[t];
    if( blk ) stale[t] = 1;
    if( !stutter ) for(int u = 0; u < nthr; u++) if( u != t ) stale[u] = 0;
    prev_kind[t] = ctl_cur->kind[t]; prev_addr[t] = ctl_cur->addr[t];
    cur_step = step + 1;
}
static int thread_can_move(int t)
{
    unsigned T; size_t b;
    if( stale[t] ) return 0;
    if( ctl_cur->kind[t] == PARSEC_VERIF_K_CAS && 1 == resolve(ctl_cur->addr[t], &T, &b) && *(volatile int32_t*)ctl_cur->addr[t] != 0 ) return 0;
    return 1;
}
static const char *cur_caseline = "";
static int g_sched[8192];
typedef struct { ctl_choose_t inner; void *ictx; } filt_t;
static int choose_filtered(void *cctx, int step, int ne, const int *enabled)
{
    filt_t *f = (filt_t*)cctx; int fe[CTL_MAXT], back[CTL_MAXT], nf = 0;
    for(int i = 0; i < ne; i++) if( thread_can_move(enabled[i]) ) { fe[nf] = enabled[i]; back[nf] = i; nf++; }
    if( 0 == nf ) {
        /* every unfinished thread waits for a lock whose holder cannot move: the real code is deadlocked; letting the
         * workers run freely would hang, so report and leave */
        const char *bar = strstr(cur_caseline, " | ");
        printf("!viol C32 deadlock: no thread can move (every unfinished thread waits for a bucket lock or for the rwlock) after %d steps; case: %.*s | replay",
               step, (int)(bar ? bar - cur_caseline : (long)strlen(cur_caseline)), cur_caseline);
        for(int i = 0; i < step && i < 8192; i++) printf(" %d", g_sched[i]);
        printf("\n");
        fflush(stdout);
        _exit(2);
    }
    int j = f->inner(f->ictx, step, nf, fe);
    return (j < 0 || j >= nf) ? -1 : back[j];
}
/* PCT-style chooser (as harness/C30.c) */
typedef struct { int prio[CTL_MAXT]; int ncp, cp[8], low; } pct_t;
static void pct_init(pct_t *p, pv_rng_t *r, int n, int depth, int ksteps)
{
    int perm[CTL_MAXT];
    for(int i = 0; i < n; i++) perm[i] = i;
    for(int i = n - 1; i > 0; i--) { int j = (int)pv_below(r, (uint64_t)i + 1), x = perm[i]; perm[i] = perm[j]; perm[j] = x; }
    for(int i = 0; i < n; i++) p->prio[perm[i]] = depth + i;
    p->ncp = depth - 1 > 8 ? 8 : (depth - 1 < 0 ? 0 : depth - 1);
    for(int i = 0; i < p->ncp; i++) p->cp[i] = (int)pv_below(r, (uint64_t)(ksteps > 0 ? ksteps : 1));
    p->low = depth - 1;
}
static int choose_pct(void *cctx, int step, int ne, const int *enabled)
{
    pct_t *p = (pct_t*)cctx; int best = 0;
    for(int i = 1; i < ne; i++) if( p->prio[enabled[i]] > p->prio[enabled[best]] ) best = i;
    for(int i = 0; i < p->ncp; i++) if( p->cp[i] == step ) {
        p->prio[enabled[best]] = p->low--;
        best = 0;
        for(int j = 1; j < ne; j++) if( p->prio[enabled[j]] > p->prio[enabled[best]] ) best = j;
    }
    return best;
}
static int c_nb0, c_hint, c_maxb, c_hmode;
static void one_run(const char *caseline, ctl_choose_t ch, void *cctx)
{
    int *sched = g_sched; int complete;
    filt_t f = { ch, cctx };
    ht_setup(c_nb0, c_hint, c_maxb, c_hmode);
    held_reset();
    cur_step = 0; run_deadlock = 0; cur_caseline = caseline;
    for(int t = 0; t < CTL_MAXT; t++) { stale[t] = 0; prev_kind[t] = CTL_K_START; prev_addr[t] = NULL; }
    for(int i = 0; i < nops[CTL_MAXT]; i++) do_op(&prog[CTL_MAXT][i]);          /* prefix, by the main thread */
    printf("%s => ok | ", caseline); print_dump(); printf("\n");
    ctl_run(nthr, body, NULL, choose_filtered, &f, observe, NULL, 6000, sched, &complete);
    if( run_deadlock ) printf("!viol C32 deadlock: no thread can move (every unfinished thread waits for a bucket lock or for the rwlock) in %s\n", caseline);
    if( !complete ) { pv_stat("incomplete_runs", 1); printf("rets => incomplete\n"); ht_teardown(); return; }
    printf("rets => [");
    for(int t = 0; t < nthr; t++) {
        if( t ) printf(" | ");
        for(int i = 0; i < nops[t]; i++) { if( i ) printf(" "); print_res(rec[t][i].res); }
    }
    printf("]\nhist =>");
    for(int i = 0; i < nops[CTL_MAXT]; i++) { printf(" P:"); print_op(&prog[CTL_MAXT][i]); }
    printf(" H");
    for(int t = 0; t < nthr; t++) for(int i = 0; i < nops[t]; i++) {
        printf(" %d:", t); print_op(&prog[t][i]); printf(":"); print_res(rec[t][i].res); printf(":%d:%d", rec[t][i].inv, rec[t][i].ret);
    }
    printf("\nfinal => "); print_dump(); printf(" all="); print_all(); printf("\n");
    pv_stat("tables_at_end", (long)(ht.rw_hash->nb_bits - (unsigned)c_nb0 + 1));
    ht_teardown();
}
static int parse_coop(char **tok, int nt)
{
    /* tok[3..6] = params; then [P ops] T ops T ops ... */
    int i = 7, cur = -1;
    nthr = 0;
    for(int t = 0; t <= CTL_MAXT; t++) nops[t] = 0;
    if( !parse_params(tok + 3, &c_nb0, &c_hint, &c_maxb, &c_hmode) ) return 0;
    if( i < nt && !strcmp(tok[i], "P") ) { cur = CTL_MAXT; i++; }
    for(; i < nt; i++) {
        if( !strcmp(tok[i], "T") ) { if( nthr >= 8 ) return 0; cur = nthr++; continue; }
        if( cur < 0 || nops[cur] >= MAXOPS || !parse_tok(tok[i], &prog[cur][nops[cur]]) ) return 0;
        nops[cur]++;
    }
    return nthr >= 1;
}

/* ---------------------------------------------------------------- free-running stress */
typedef struct { int kind, kidx, id, res; long inv, ret; } srec_t;
static pthread_barrier_t sbar;
static volatile long sclock;
static int s_threads, s_bursts, s_ops, s_nkeys, s_stop;
static uint64_t skeys[256];
static volatile int skheld[256];
static srec_t *srec[CTL_MAXT];
static pv_rng_t srng[CTL_MAXT];
static int *sfree[CTL_MAXT]; static int nsfree[CTL_MAXT];

static void *stress_worker(void *p)
{
    int t = (int)(intptr_t)p;
    for(int bq = 0; bq < s_bursts; bq++) {
        pthread_barrier_wait(&sbar);
        if( s_stop ) break;
        for(int i = 0; i < s_ops; i++) {
            srec_t *r = &srec[t][i];
            int kx = (int)pv_below(&srng[t], (uint64_t)s_nkeys);
            uint64_t key = skeys[kx];
            int c = (int)pv_below(&srng[t], 100);
            int kind, id = 0;
            if( !(key & 1) ) {
                if( c < 40 && nsfree[t] > 0 && __sync_bool_compare_and_swap(&skheld[kx], 0, 1) ) kind = OP_INS;
                else kind = (c < 70) ? OP_REM : OP_FIND;
            } else {
                if( c < 40 && nsfree[t] > 0 ) kind = OP_FOI; else kind = (c < 70) ? OP_REM : OP_FIND;
            }
            if( kind == OP_INS || kind == OP_FOI ) id = sfree[t][--nsfree[t]];
            r->kind = kind; r->kidx = kx; r->id = id;
            r->inv = __atomic_fetch_add(&sclock, 1, __ATOMIC_SEQ_CST);
            int x = 0;
            switch( kind ) {
            case OP_INS:
                items[id].hi.key = (parsec_key_t)key;
                parsec_hash_table_insert(&ht, &items[id].hi); x = -1; break;
            case OP_FIND: x = idof(parsec_hash_table_find(&ht, (parsec_key_t)key)); break;
            case OP_REM: x = idof(parsec_hash_table_remove(&ht, (parsec_key_t)key)); break;
            case OP_FOI: {
                parsec_key_handle_t kh;
                parsec_hash_table_lock_bucket_handle(&ht, (parsec_key_t)key, &kh);
                void *f = parsec_hash_table_nolock_find_handle(&ht, &kh);
                if( NULL == f ) { items[id].hi.key = (parsec_key_t)key; parsec_hash_table_nolock_insert_handle(&ht, &kh, &items[id].hi); x = id; }
                else x = idof(f);
                parsec_hash_table_unlock_bucket_handle(&ht, &kh);
                break; }
            }
            r->ret = __atomic_fetch_add(&sclock, 1, __ATOMIC_SEQ_CST);
            r->res = (kind != OP_INS && x < 0) ? 99999 : x;
            if( kind == OP_REM && x > 0 ) { sfree[t][nsfree[t]++] = x; if( !(key & 1) ) skheld[kx] = 0; }
            if( kind == OP_FOI && x != id ) sfree[t][nsfree[t]++] = id;
        }
        pthread_barrier_wait(&sbar);
        pthread_barrier_wait(&sbar);     /* the main thread audits in between */
    }
    return NULL;
}
static void stress(const char *line, uint64_t seed, int threads, int bursts, int ops, int every)
{
    pthread_t th[CTL_MAXT];
    static int all[MAXI + 16]; static short seen[MAXI + 1];
    int per = MAXI / threads; if( per > 64 ) per = 64;
    s_threads = threads; s_bursts = bursts; s_ops = ops; s_stop = 0; sclock = 0;
    ht_setup(c_nb0, c_hint, c_maxb, c_hmode);
    pv_rng_t base = { seed };
    for(int t = 0; t < threads; t++) {
        srec[t] = calloc((size_t)ops, sizeof(srec_t)); srng[t] = pv_fork(&base, (uint64_t)t);
        sfree[t] = calloc(MAXI + 1, sizeof(int)); nsfree[t] = 0;
        for(int j = 0; j < per; j++) sfree[t][nsfree[t]++] = 1 + t * per + j;
    }
    for(int k = 0; k < s_nkeys; k++) skheld[k] = 0;
    pthread_barrier_init(&sbar, NULL, (unsigned)threads + 1);
    for(int t = 0; t < threads; t++) pthread_create(&th[t], NULL, stress_worker, (void*)(intptr_t)t);
    printf("%s => ok\n", line);
    int done_bursts = 0; long maxtab = 0, migr = 0;
    for(int bq = 0; bq < bursts; bq++) {
        pthread_barrier_wait(&sbar);
        pthread_barrier_wait(&sbar);
        /* quiescent: every item object is in exactly one free list or visited exactly once by for_all, under its key */
        int bad = 0;
        all[0] = 0;
        parsec_hash_table_for_all(&ht, collect_cb, all);
        memset(seen, 0, sizeof seen);
        for(int i = 1; i <= all[0] && i < MAXI + 8; i++) { if( all[i] <= 0 ) bad = 1; else seen[all[i]]++; }
        for(int t = 0; t < threads; t++) for(int j = 0; j < nsfree[t]; j++) seen[sfree[t][j]] += 16;
        for(int x = 1; x <= threads * per; x++) if( seen[x] != 1 && seen[x] != 16 ) bad = 1;
        if( all[0] >= MAXI + 8 ) bad = 1;
        done_bursts++;
        long nt = (long)(ht.rw_hash->nb_bits - (unsigned)c_nb0 + 1); if( nt > maxtab ) maxtab = nt;
        for(parsec_hash_table_head_t *h = ht.rw_hash->next; h; h = h->next) migr++;
        if( bad || (every > 0 && 0 == bq % every) ) {
            printf("burst %d => H", bq);
            for(int t = 0; t < threads; t++) for(int i = 0; i < ops; i++) {
                srec_t *r = &srec[t][i];
                printf(" %d:%c:%" PRIu64 ":%d:", t, "ifru"[r->kind], skeys[r->kidx], r->id); print_res(r->res); printf(":%ld:%ld", r->inv, r->ret);
            }
            printf(" E");
            for(int i = 1; i <= all[0] && i < MAXI + 8; i++) printf(" %" PRIu64 ":%d", all[i] > 0 ? (uint64_t)items[all[i]].hi.key : 0, all[i]);
            printf("\n");
        }
        if( bad ) {
            printf("!viol C32 for_all/conservation (free-running, %d threads, seed %lu): after burst %d an item object is visited %s\n", threads, (unsigned long)seed, bq,
                   "twice, not at all while not held by a thread, or while held by a thread");
            s_stop = 1;
        }
        pthread_barrier_wait(&sbar);
        if( s_stop ) break;
    }
    if( s_stop && done_bursts < bursts ) pthread_barrier_wait(&sbar);
    for(int t = 0; t < threads; t++) pthread_join(th[t], NULL);
    pthread_barrier_destroy(&sbar);
    pv_stat("stress_bursts", done_bursts); pv_stat("stress_ops", (long)done_bursts * threads * ops);
    pv_stat("stress_max_tables", maxtab); pv_stat("stress_old_tables_linked_at_audit", migr);
    printf("stressdump => "); print_dump(); printf("\n");
    for(int t = 0; t < threads; t++) { free(srec[t]); free(sfree[t]); }
    ht_teardown();
}

/* ---------------------------------------------------------------- main */
int main(void)
{
    static char line[1 << 16], copy[1 << 16]; static char *tok[4096];
    int in_seq = 0;
    setvbuf(stdout, NULL, _IOLBF, 1 << 16);   /* a crash of the code under test must not lose the transcript */
    parsec_mca_param_init();
    parsec_hash_tables_init();
    mch_index = parsec_mca_param_find("parsec", NULL, "hash_table_max_collisions_hint");
    mnb_index = parsec_mca_param_find("parsec", NULL, "hash_table_max_table_nb_bits");
    if( mch_index < 0 || mnb_index < 0 ) { printf("!viol C32 harness: MCA parameters of the hash table not found\n"); return 3; }
    layout_selftest();
    while( fgets(line, sizeof line, stdin) ) {
        size_t L = strlen(line);
        while( L && (line[L - 1] == '\n' || line[L - 1] == '\r' || line[L - 1] == ' ') ) line[--L] = 0;
        if( 0 == L ) continue;
        strcpy(copy, line);
        int nt = 0;
        for(char *p = strtok(copy, " "); p && nt < 4096; p = strtok(NULL, " ")) tok[nt++] = p;
        if( 0 == nt ) continue;
        if( !strcmp(tok[0], "case") ) {
            if( in_seq ) { ht_teardown(); in_seq = 0; }
            if( nt == 7 && !strcmp(tok[2], "seq") && parse_params(tok + 3, &c_nb0, &c_hint, &c_maxb, &c_hmode) ) {
                ht_setup(c_nb0, c_hint, c_maxb, c_hmode); held_reset(); in_seq = 1;
                printf("%s => ok | ", line); print_dump(); printf("\n");
                continue;
            }
            if( nt >= 9 && !strcmp(tok[2], "coop") ) {
                int bar = -1;
                for(int i = 0; i < nt; i++) if( !strcmp(tok[i], "|") ) { bar = i; break; }
                if( bar < 0 || bar + 1 >= nt || !parse_coop(tok, bar) ) { printf("%s => bad-op\n", line); continue; }
                char **pol = tok + bar + 1; int np = nt - bar - 1;
                uint64_t sd; int d;
                if( !strcmp(pol[0], "rng") && np == 2 && parse_u64(pol[1], &sd) ) {
                    pv_rng_t r = { sd }; one_run(line, ctl_choose_rng, &r);
                } else if( !strcmp(pol[0], "pct") && np == 3 && parse_u64(pol[1], &sd) && parse_int(pol[2], 1, 9, &d) ) {
                    pv_rng_t r = { sd }; pct_t p; pct_init(&p, &r, nthr, d, 40 * nthr); one_run(line, choose_pct, &p);
                } else if( !strcmp(pol[0], "dfs") && np == 2 && parse_int(pol[1], 1, 100000000, &d) ) {
                    ctl_dfs_t dfs; ctl_dfs_init(&dfs); long n = 0; int exhausted = 0;
                    for(;;) { one_run(line, ctl_choose_dfs, &dfs); n++; if( !ctl_dfs_next(&dfs) ) { exhausted = 1; break; } if( n >= d ) break; }
                    pv_stat("dfs_schedules", n); if( exhausted ) pv_stat("dfs_exhausted_spaces", 1);
                } else if( !strcmp(pol[0], "replay") ) {
                    static int rs[8192]; int ok = 1;
                    for(int i = 1; i < np && ok; i++) ok = parse_int(pol[i], 0, CTL_MAXT - 1, &rs[i - 1]);
                    if( !ok ) { printf("%s => bad-op\n", line); continue; }
                    ctl_replay_t rp = { rs, np - 1 }; one_run(line, ctl_choose_replay, &rp);
                } else printf("%s => bad-op\n", line);
                continue;
            }
            printf("%s => bad-op\n", line);
            continue;
        }
        if( !strcmp(tok[0], "stress") ) {
            if( in_seq ) { ht_teardown(); in_seq = 0; }
            uint64_t seed; int threads, bursts, ops, every, ok;
            ok = nt >= 13 && parse_u64(tok[2], &seed) && parse_int(tok[3], 1, CTL_MAXT, &threads) && parse_params(tok + 4, &c_nb0, &c_hint, &c_maxb, &c_hmode)
                 && parse_int(tok[8], 1, 1000000, &bursts) && parse_int(tok[9], 1, 100000, &ops) && parse_int(tok[10], 0, 1000000, &every) && !strcmp(tok[11], "K");
            s_nkeys = 0;
            for(int i = 12; ok && i < nt; i++) { if( s_nkeys >= 256 || !parse_u64(tok[i], &skeys[s_nkeys]) ) ok = 0; else s_nkeys++; }
            if( !ok || 0 == s_nkeys ) { printf("%s => bad-op\n", line); continue; }
            stress(line, seed, threads, bursts, ops, every);
            continue;
        }
        if( !in_seq ) { printf("%s => bad-op\n", line); continue; }
        op_t o; memset(&o, 0, sizeof o); int ok = 0;
        if( !strcmp(tok[0], "all") && nt == 1 ) { printf("%s => ", line); print_all(); printf(" | "); print_dump(); printf("\n"); continue; }
        if( !strcmp(tok[0], "dump") && nt == 1 ) { printf("%s => - | ", line); print_dump(); printf("\n"); continue; }
        if( !strcmp(tok[0], "i") && nt == 3 ) { o.kind = OP_INS; ok = parse_u64(tok[1], &o.key) && parse_int(tok[2], 0, MAXI, &o.id); }
        else if( !strcmp(tok[0], "u") && nt == 3 ) { o.kind = OP_FOI; ok = parse_u64(tok[1], &o.key) && parse_int(tok[2], 0, MAXI, &o.id); }
        else if( !strcmp(tok[0], "f") && nt == 2 ) { o.kind = OP_FIND; ok = parse_u64(tok[1], &o.key); }
        else if( !strcmp(tok[0], "r") && nt == 2 ) { o.kind = OP_REM; ok = parse_u64(tok[1], &o.key); }
        if( !ok ) { printf("%s => bad-op\n", line); continue; }
        printf("%s => ", line); print_res(do_op(&o)); printf(" | "); print_dump(); printf("\n");
    }
    if( in_seq ) ht_teardown();
    pv_stat("key_equal_calls", key_equal_calls);
    return 0;
}
