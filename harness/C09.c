/* C09 harness: the shared scheduler driver (harness/common/sched_drv.h) restricted to the basic ops
 * (case / mod / sched / sel) on the real ap, ip and spq modules; see that header for the protocol. */
#include "sched_drv.h"
static int sched_drv_extra(char **w, int nw) { (void)w; (void)nw; return 0; }
static int sched_drv_topo(char *out, size_t len) { snprintf(out, len, "none"); return 0; }
int main(int argc, char **argv) { return sched_drv_main(argc, argv); }
