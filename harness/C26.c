/* C26 harness: executes an operation script (stdin) on the REAL
 *   parsec_data_start_transfer_ownership_to_copy / parsec_data_end_transfer_ownership_to_copy /
 *   parsec_data_transfer_ownership_to_copy
 * of libparsec (parsec/data.c) applied to a fabricated parsec_data_t with up to 8 device copies
 * (PARSEC_OBJ_NEW + parsec_data_copy_attach, as parsec_data_create does; no GPU needed), and prints
 * `op => ret | owner | copy0 copy1 ...` with copy = `-` (NULL) or `<I|O|E|S>:version:readers:transfer_status`.
 *
 *   case k | new n owner | attach d coh ver | setxs d x | start d m | end d m | xfer d m
 *   T d m b      one complete transfer: start; if a source r is returned copy[d].version = copy[r].version;
 *                end; if the mode has the WRITE bit the caller's bump: b=1 version++, b=2 newest valid version + 1
 *   xstart d m | xend d m     the same calls issued WITHOUT checking the asserts (probes of excluded states)
 *   sync d src | bump d       caller actions on the version field
 *
 * Precondition.  The asserts of the functions are compiled out of the library under test (NDEBUG).  A
 * call that would trip one is outside the API precondition and must not be issued: it is decided by
 * running a second compilation of the SAME source file (parsec/data.c of the tree under test, asserts
 * live, symbols renamed chk_*, built by checks/C26.py) on a scratch clone of the data item;
 * __assert_fail is interposed and longjmps back.  Such calls print `rejected`. */
#include "parsec/parsec_config.h"
#include "parsec/data_internal.h"
#include "parsec/mca/device/device.h"
#include "parsec/parsec_description_structures.h"
#include "pv.h"
#include <setjmp.h>
#include <stdint.h>

#define MAXDEV 8
extern int  chk_start(parsec_data_t *data, uint8_t device, uint8_t access_mode);
extern void chk_end(parsec_data_t *data, uint8_t device, uint8_t access_mode);
extern int  chk_xfer(parsec_data_t *data, uint8_t device, uint8_t access_mode);

static jmp_buf chk_jmp;
static volatile int chk_armed = 0;
void __assert_fail(const char *a, const char *f, unsigned int l, const char *fn)
{
    if( chk_armed ) longjmp(chk_jmp, 1);
    fprintf(stderr, "assert outside a precondition probe: %s (%s:%u %s)\n", a, f, l, fn);
    abort();
}

static parsec_data_t *data = NULL;
static int ndev = 0;

/* scratch clone for the precondition probe */
static union { parsec_data_t d; char room[sizeof(parsec_data_t) + MAXDEV * sizeof(void*)]; } sh;
static parsec_data_copy_t shc[MAXDEV];

static void clone_data(void)
{
    memset(&sh, 0, sizeof sh);
    sh.d.owner_device = data->owner_device;
    sh.d.preferred_device = data->preferred_device;
    parsec_atomic_lock_init(&sh.d.lock);
    for(int i = 0; i < ndev; i++) {
        if( NULL == data->device_copies[i] ) { sh.d.device_copies[i] = NULL; continue; }
        memcpy(&shc[i], data->device_copies[i], sizeof(parsec_data_copy_t));
        shc[i].original = &sh.d;
        sh.d.device_copies[i] = &shc[i];
    }
}

/* what: 0 start, 1 end, 2 xfer (library's combined function), 3 complete transfer (start; sync; end) */
static int pre_ok(int what, int d, int m)
{
    volatile int ok = 1;
    if( d < 0 || d >= ndev || NULL == data ) return 0;
    if( NULL == data->device_copies[d] ) return 0;       /* assert( NULL != copy ): would be a NULL dereference */
    clone_data();
    chk_armed = 1;
    if( 0 == setjmp(chk_jmp) ) {
        if( 0 == what ) (void)chk_start(&sh.d, (uint8_t)d, (uint8_t)m);
        else if( 1 == what ) chk_end(&sh.d, (uint8_t)d, (uint8_t)m);
        else if( 2 == what ) (void)chk_xfer(&sh.d, (uint8_t)d, (uint8_t)m);
        else {
            int r = chk_start(&sh.d, (uint8_t)d, (uint8_t)m);
            if( r >= 0 && r < ndev && NULL != sh.d.device_copies[r] ) sh.d.device_copies[d]->version = sh.d.device_copies[r]->version;
            chk_end(&sh.d, (uint8_t)d, (uint8_t)m);
        }
    } else ok = 0;
    chk_armed = 0;
    return ok;
}

static void reset(void)
{
    if( NULL != data ) {
        for(int i = 0; i < ndev; i++) {
            parsec_data_copy_t *c = data->device_copies[i];
            if( NULL == c ) continue;
            parsec_data_copy_detach(data, c, (uint8_t)i);
            PARSEC_OBJ_RELEASE(c);
        }
        parsec_nb_devices = 0;     /* the destructor must not consult the (absent) device registry */
        PARSEC_OBJ_RELEASE(data);
        data = NULL;
    }
    ndev = 0;
    parsec_nb_devices = 0;
}

static char letter(parsec_data_coherency_t c)
{
    return c == PARSEC_DATA_COHERENCY_INVALID ? 'I' : c == PARSEC_DATA_COHERENCY_OWNED ? 'O' :
           c == PARSEC_DATA_COHERENCY_EXCLUSIVE ? 'E' : c == PARSEC_DATA_COHERENCY_SHARED ? 'S' : '?';
}

static void show(void)
{
    printf("%d |", (int)data->owner_device);
    for(int i = 0; i < ndev; i++) {
        parsec_data_copy_t *c = data->device_copies[i];
        if( NULL == c ) printf(" -");
        else printf(" %c:%u:%d:%d", letter(c->coherency_state), (unsigned)c->version, (int)c->readers, (int)c->data_transfer_status);
    }
    printf("\n");
}

static uint32_t newest(void)
{
    uint32_t m = 0;
    for(int i = 0; i < ndev; i++) {
        parsec_data_copy_t *c = data->device_copies[i];
        if( NULL != c && PARSEC_DATA_COHERENCY_INVALID != c->coherency_state && c->version > m ) m = c->version;
    }
    return m;
}

static int has(int d) { return NULL != data && d >= 0 && d < ndev && NULL != data->device_copies[d]; }

int main(void)
{
    char line[256], tail[8];
    static int sized = 0;
    if( !sized ) { parsec_data_t_class.cls_sizeof += MAXDEV * sizeof(parsec_data_copy_t*); sized = 1; }
    while( fgets(line, sizeof line, stdin) ) {
        long a, b, c;
        line[strcspn(line, "\n")] = 0;
        if( line[0] == 0 ) continue;
        printf("%s => ", line);
        if( sscanf(line, "case %ld%1s", &a, tail) == 1 ) { reset(); printf("ok\n"); }
        else if( sscanf(line, "new %ld %ld%1s", &a, &b, tail) == 2 ) {
            if( a < 0 ) { printf("bad-op\n"); continue; }
            if( a < 1 || a > MAXDEV || b < -1 || b >= a ) { printf("rejected\n"); continue; }
            reset();
            ndev = (int)a;
            parsec_nb_devices = (uint32_t)ndev;
            data = PARSEC_OBJ_NEW(parsec_data_t);
            data->owner_device = (int8_t)b;
            show();
        } else if( sscanf(line, "attach %ld %ld %ld%1s", &a, &b, &c, tail) == 3 ) {
            if( a < 0 || b < 0 || c < 0 ) { printf("bad-op\n"); continue; }
            if( NULL == data || a >= ndev || NULL != data->device_copies[a] || c >= 2147483648L ||
                !(b == 0 || b == 1 || b == 2 || b == 4) ) { printf("rejected\n"); continue; }
            parsec_data_copy_t *cp = PARSEC_OBJ_NEW(parsec_data_copy_t);
            if( PARSEC_SUCCESS != parsec_data_copy_attach(data, cp, (uint8_t)a) ) { printf("attach-failed\n"); continue; }
            cp->coherency_state = (parsec_data_coherency_t)b;
            cp->version = (uint32_t)c;
            show();
        } else if( sscanf(line, "setxs %ld %ld%1s", &a, &b, tail) == 2 ) {
            if( a < 0 || b < 0 ) { printf("bad-op\n"); continue; }
            if( !has((int)a) || b > 2 ) { printf("rejected\n"); continue; }
            data->device_copies[a]->data_transfer_status = (parsec_data_status_t)b;
            show();
        } else if( sscanf(line, "start %ld %ld%1s", &a, &b, tail) == 2 ) {
            if( a < 0 || b < 0 ) { printf("bad-op\n"); continue; }
            if( b > 255 || !pre_ok(0, (int)a, (int)b) ) { printf("rejected\n"); continue; }
            int r = parsec_data_start_transfer_ownership_to_copy(data, (uint8_t)a, (uint8_t)b);
            printf("%d | ", r); show();
        } else if( sscanf(line, "xstart %ld %ld%1s", &a, &b, tail) == 2 ) {
            if( a < 0 || b < 0 ) { printf("bad-op\n"); continue; }
            if( b > 255 || !has((int)a) ) { printf("rejected\n"); continue; }
            int r = parsec_data_start_transfer_ownership_to_copy(data, (uint8_t)a, (uint8_t)b);
            printf("%d | ", r); show();
        } else if( sscanf(line, "end %ld %ld%1s", &a, &b, tail) == 2 ) {
            if( a < 0 || b < 0 ) { printf("bad-op\n"); continue; }
            if( b > 255 || !pre_ok(1, (int)a, (int)b) ) { printf("rejected\n"); continue; }
            parsec_data_end_transfer_ownership_to_copy(data, (uint8_t)a, (uint8_t)b);
            show();
        } else if( sscanf(line, "xend %ld %ld%1s", &a, &b, tail) == 2 ) {
            if( a < 0 || b < 0 ) { printf("bad-op\n"); continue; }
            if( b > 255 || !has((int)a) ) { printf("rejected\n"); continue; }
            parsec_data_end_transfer_ownership_to_copy(data, (uint8_t)a, (uint8_t)b);
            show();
        } else if( sscanf(line, "xfer %ld %ld%1s", &a, &b, tail) == 2 ) {
            if( a < 0 || b < 0 ) { printf("bad-op\n"); continue; }
            if( b > 255 || !pre_ok(2, (int)a, (int)b) ) { printf("rejected\n"); continue; }
            int r = parsec_data_transfer_ownership_to_copy(data, (uint8_t)a, (uint8_t)b);
            printf("%d | ", r); show();
        } else if( sscanf(line, "T %ld %ld %ld%1s", &a, &b, &c, tail) == 3 ) {
            if( a < 0 || b < 0 || c < 0 ) { printf("bad-op\n"); continue; }
            if( b > 255 || c > 2 || !pre_ok(3, (int)a, (int)b) ) { printf("rejected\n"); continue; }
            uint32_t nw = newest();
            int r = parsec_data_start_transfer_ownership_to_copy(data, (uint8_t)a, (uint8_t)b);
            if( r >= 0 && has(r) ) data->device_copies[a]->version = data->device_copies[r]->version;
            parsec_data_end_transfer_ownership_to_copy(data, (uint8_t)a, (uint8_t)b);
            if( PARSEC_FLOW_ACCESS_WRITE & b ) {
                if( 1 == c ) data->device_copies[a]->version++;
                else if( 2 == c ) data->device_copies[a]->version = nw + 1;
            }
            printf("%d | ", r); show();
        } else if( sscanf(line, "sync %ld %ld%1s", &a, &b, tail) == 2 ) {
            if( a < 0 || b < 0 ) { printf("bad-op\n"); continue; }
            if( !has((int)a) || !has((int)b) ) { printf("rejected\n"); continue; }
            data->device_copies[a]->version = data->device_copies[b]->version;
            show();
        } else if( sscanf(line, "bump %ld%1s", &a, tail) == 1 ) {
            if( a < 0 ) { printf("bad-op\n"); continue; }
            if( !has((int)a) ) { printf("rejected\n"); continue; }
            data->device_copies[a]->version++;
            show();
        } else printf("bad-op\n");
    }
    reset();
    return 0;
}
