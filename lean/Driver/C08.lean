import ParsecVerif.Base.Proto
import ParsecVerif.Model.Sched.All
open ParsecVerif ParsecVerif.Proto ParsecVerif.Sched ParsecVerif.C08

/-- driver state: the module under test with its machine state under next_task retention, or a module
    waiting for its topology line -/
structure DSt where
  st   : Option ((m : ModId) × VpSt m.module)
  wait : Option (ModId × Nat)

def DSt.empty : DSt := ⟨none, none⟩

def pendingIds (p : (m : ModId) × VpSt m.module) : List Nat :=
  ids ((vpModule p.1.module).pending p.2)

def mkState (m : ModId) (s0 : m.module.St) : DSt := ⟨some ⟨m, VpSt.init m.module s0⟩, none⟩

/-- direct module call: `module.schedule` (no retention) -/
def doSched (p : (m : ModId) × VpSt m.module) (a : SArg) : (m : ModId) × VpSt m.module :=
  ⟨p.1, { p.2 with inner := p.1.module.schedule p.2.inner a }⟩

def doSel (p : (m : ModId) × VpSt m.module) (es : Nat) : ((m : ModId) × VpSt m.module) × Option (Task × Int) :=
  (⟨p.1, { p.2 with inner := (p.1.module.select p.2.inner es).1 }⟩, (p.1.module.select p.2.inner es).2)

def doVps (p : (m : ModId) × VpSt m.module) (a : SArg) : (m : ModId) × VpSt m.module :=
  ⟨p.1, vpSchedule p.1.module p.2 a⟩

def doNext (p : (m : ModId) × VpSt m.module) (es : Nat) : ((m : ModId) × VpSt m.module) × Option (Task × Int) :=
  (⟨p.1, (vpNext p.1.module p.2 es).1⟩, (vpNext p.1.module p.2 es).2)

def nOf (p : (m : ModId) × VpSt m.module) : Nat := p.1.module.nstreams p.2.inner

def schedOp (s : DSt) (kind : String) (es d : String) (toks : List String) : DSt × String :=
  match s.st with
  | none => (s, "bad-op")
  | some p =>
    match nat? es, int? d with
    | some es, some d =>
      if toks.isEmpty then (s, "bad-op") else
      if es ≥ nOf p then (s, "rejected") else
      match ring? toks with
      | some ring =>
        if ringRejected (pendingIds p) ring then (s, "rejected")
        else
          let a : SArg := ⟨es, ring, d, kind == "schedh", []⟩
          if kind == "vps" then ({ s with st := some (doVps p a) }, "ok")
          else ({ s with st := some (doSched p a) }, "ok")
      | none => (s, "bad-op")
    | _, _ => (s, "bad-op")

def selOp (s : DSt) (kind : String) (es : String) : DSt × String :=
  match s.st with
  | none => (s, "bad-op")
  | some p =>
    match nat? es with
    | some es =>
      if es ≥ nOf p then (s, "rejected") else
      let r := if kind == "next" then doNext p es else doSel p es
      ({ s with st := some r.1 }, showSel r.2)
    | none => (s, "bad-op")

/-- `drain`: the retained tasks of streams 0..n-1, then selects stream by stream until a whole round
    returns nothing (the same loop as the harness) -/
def drainRetained (p : (m : ModId) × VpSt m.module) : List Nat → ((m : ModId) × VpSt m.module) × List Nat
  | [] => (p, [])
  | es :: rest =>
    match p.2.next.getD es none with
    | some t =>
      let r := drainRetained ⟨p.1, { p.2 with next := p.2.next.set es none }⟩ rest
      (r.1, t.id :: r.2)
    | none => drainRetained p rest

def drainStream (es : Nat) : Nat → ((m : ModId) × VpSt m.module) → ((m : ModId) × VpSt m.module) × List Nat
  | 0, p => (p, [])
  | f + 1, p =>
    match (doSel p es).2 with
    | some (t, _) =>
      let r := drainStream es f (doSel p es).1
      (r.1, t.id :: r.2)
    | none => ((doSel p es).1, [])

def drainRound (fuel : Nat) : List Nat → ((m : ModId) × VpSt m.module) → ((m : ModId) × VpSt m.module) × List Nat
  | [], p => (p, [])
  | es :: rest, p =>
    let r1 := drainStream es fuel p
    let r2 := drainRound fuel rest r1.1
    (r2.1, r1.2 ++ r2.2)

def drainAll (fuel : Nat) (streams : List Nat) : Nat → ((m : ModId) × VpSt m.module) → ((m : ModId) × VpSt m.module) × List Nat
  | 0, p => (p, [])
  | r + 1, p =>
    let r1 := drainRound fuel streams p
    if r1.2.isEmpty then (r1.1, []) else
      let r2 := drainAll fuel streams r r1.1
      (r2.1, r1.2 ++ r2.2)

def drainOp (p : (m : ModId) × VpSt m.module) : ((m : ModId) × VpSt m.module) × List Nat :=
  let streams := List.range (nOf p)
  let r0 := drainRetained p streams
  let fuel := (pendingIds r0.1).length + 1
  let r1 := drainAll fuel streams fuel r0.1
  (r1.1, r0.2 ++ r1.2)

def step (s : DSt) : List String → DSt × String
  | ["case", _] => (DSt.empty, "ok")
  | ["mod", name, n] =>
    match ModId.ofName name, nat? n with
    | some m, some n =>
      if n = 0 then (s, "bad-op") else
      if m.needsCfg then (⟨none, some (m, n)⟩, "ok")
      else match m.init0 n with
        | some s0 => (mkState m s0, "ok")
        | none => (s, "bad-op")
    | _, _ => (s, "bad-op")
  | "cfg" :: ws =>
    match s.wait with
    | none => (s, "bad-op")
    | some (m, n) =>
      match cfg? ws with
      | none => (s, "bad-op")
      | some cfg =>
        if cfg.hq.length ≠ n then (s, "bad-topology") else
        match m.initCfg cfg with
        | some s0 => (mkState m s0, "ok")
        | none => (s, "bad-topology")
  | "sched" :: es :: d :: toks => schedOp s "sched" es d toks
  | "schedh" :: es :: d :: toks => schedOp s "schedh" es d toks
  | "vps" :: es :: d :: toks => schedOp s "vps" es d toks
  | ["sel", es] => selOp s "sel" es
  | ["next", es] => selOp s "next" es
  | ["drain"] =>
    match s.st with
    | none => (s, "bad-op")
    | some p =>
      let r := drainOp p
      ({ s with st := some r.1 }, showList r.2)
  | ["stress", t, r, sd] =>
    match s.st, nat? t, nat? r, nat? sd with
    | some p, some t, some _, some _ =>
      if t = 0 ∨ t > nOf p ∨ !(pendingIds p).isEmpty then (s, "rejected") else (s, "ok")
    | _, _, _, _ => (s, "bad-op")
  | _ => (s, "bad-op")

def main : IO Unit := Proto.run DSt.empty step
