import ParsecVerif.Base.Proto
import ParsecVerif.Model.FourCounter
import Std.Data.HashMap
open ParsecVerif ParsecVerif.Proto ParsecVerif.FourCounter

def stCode : St → String
  | .notReady => "NR" | .busyWC => "BC" | .busyWP => "BP" | .idleWC => "IC" | .idleWP => "IP" | .term => "T"

def procLine (q : Nat) (p : Proc) : String :=
  s!"r{q} {stCode p.st} ms={p.ms} mr={p.mr} ncl={p.ncl} acc={p.accS}/{p.accR} last={p.lastS}/{p.lastR} nt={p.nt} npa={p.npa} opn={p.opn} cb={p.cbs}"

def pkStr (k : Packet) : String :=
  (match k.kind with
   | .up a b => s!"U{k.src}>{k.dst}:{a}:{b}"
   | .down r => s!"D{k.src}>{k.dst}:{if r then 1 else 0}"
   | .app => s!"A{k.src}>{k.dst}") ++ (if k.held then "h" else "")

/-- tabulate the process map (keeps look-ups O(1) over long scripts); history variables dropped -/
def norm (s : State) : State :=
  let a : Array Proc := Array.ofFn (n := s.n) (fun i => s.procs i.val)
  { s with procs := fun q => a.getD q {}, gh := fun _ => {}, trT := 0 }

def outcome (s s' : State) (q erased : Nat) : State × String :=
  let s'' := norm s'
  (s'', procLine q (s''.procs q) ++ " | " ++ showList ((s''.net.drop (s.net.length - erased)).map pkStr))

def act (s : State) (a : Action) (q erased : Nat) : State × String :=
  match FourCounter.step s a with
  | some s' => outcome s s' q erased
  | none => (s, "rejected")

/-- canonical key of the protocol-relevant part of a state (network as a multiset) -/
def stateKey (s : State) : String :=
  let ps := (List.range s.n).map fun q =>
    let p := s.procs q
    s!"{stCode p.st},{p.ncl},{p.accS},{p.accR},{p.lastS},{p.lastR},{p.ms},{p.mr}"
  let ns := (s.net.map pkStr).toArray.qsort (· < ·)
  ";".intercalate ps ++ "|" ++ " ".intercalate ns.toList

/-- exhaustive exploration (labelled exploration, not proof): all control-only runs from `s`,
    memoised on the state; returns (longest run, all maximal runs end with every process terminated) -/
partial def ctlRuns (s : State) : StateM (Std.HashMap String (Nat × Bool)) (Nat × Bool) := do
  let key := stateKey s
  match (← get).get? key with
  | some r => return r
  | none =>
    let ks := (List.range s.net.length).filter fun k =>
      match s.net[k]? with | some pk => !isApp pk && !pk.held | none => false
    let mut best : Nat := 0
    let mut ok : Bool := true
    if ks.isEmpty then
      ok := (List.range s.n).all fun q => (s.procs q).st == .term
    else
      for k in ks do
        match FourCounter.step s (.deliver k) with
        | some s' =>
          let r ← ctlRuns (norm s')
          best := max best (r.1 + 1)
          ok := ok && r.2
        | none => ok := false
    modify fun m => m.insert key (best, ok)
    return (best, ok)

def quiescent (s : State) : Bool :=
  (List.range s.n).all (fun q => (s.procs q).wl == 0 && (s.procs q).opn == 0 &&
      ((s.procs q).st == .idleWC || (s.procs q).st == .idleWP || (s.procs q).st == .term)) &&
  s.net.all (fun k => !isApp k)

def big (ws : List String) : Bool :=
  ws.any fun w => match int? w with | some v => v > 1000000 || v < -1000000 | none => false

def step1 (s : State) : List String → State × String
  | ["case", _] => (FourCounter.init 0, "ok")
  | ["init", n] =>
    match nat? n with
    | some n => if 1 ≤ n ∧ n ≤ 64 then (FourCounter.init n, "ok") else (s, "rejected")
    | none => (s, "bad-op")
  | ["ready", p] =>
    match nat? p with
    | some p =>
      match readyFull s p with
      | some s' => outcome s s' p (s.net.filter (heldFor p)).length
      | none => (s, "rejected")
    | none => (s, "bad-op")
  | ["sett", p, v] =>
    match nat? p, nat? v with
    | some p, some v => act s (.setT p v) p 0
    | _, _ => (s, "bad-op")
  | ["setpa", p, v] =>
    match nat? p, nat? v with
    | some p, some v => act s (.setPA p v) p 0
    | _, _ => (s, "bad-op")
  | ["addt", p, v] =>
    match nat? p, int? v with
    | some p, some v => act s (.addT p v) p 0
    | _, _ => (s, "bad-op")
  | ["addpa", p, v] =>
    match nat? p, int? v with
    | some p, some v => act s (.addPA p v) p 0
    | _, _ => (s, "bad-op")
  | ["send", p, q] =>
    match nat? p, nat? q with
    | some p, some q => act s (.send p q) p 0
    | _, _ => (s, "bad-op")
  | ["rstart", k] =>
    match nat? k with
    | some k =>
      match s.net[k]? with
      | some pk => act s (.rstart k) pk.dst 1
      | none => (s, "rejected")
    | none => (s, "bad-op")
  | ["rend", q] =>
    match nat? q with
    | some q => act s (.rend q) q 0
    | none => (s, "bad-op")
  | ["deliver", k] =>
    match nat? k with
    | some k =>
      match s.net[k]? with
      | some pk =>
        if pk.held ∨ isApp pk then (s, "rejected") else
        if pk.dst < s.n ∧ (s.procs pk.dst).st = .notReady then
          match FourCounter.step s (.deliver k) with
          | some s' => (norm s', "held")
          | none => (s, "rejected")
        else act s (.deliver k) pk.dst 1
      | none => (s, "rejected")
    | none => (s, "bad-op")
  | ["dump"] =>
    (s, (if s.n = 0 then "-" else " ".intercalate ((List.range s.n).map fun q => stCode (s.procs q).st)) ++ " | " ++ showList (s.net.map pkStr))
  | ["explore"] =>
    if quiescent s then
      let (r, memo) := (ctlRuns s).run {}
      (s, s!"longest={r.1} allterm={if r.2 then 1 else 0} states={memo.size}")
    else (s, "rejected")
  | _ => (s, "bad-op")

def step (s : State) (ws : List String) : State × String :=
  match ws with
  | "case" :: _ => step1 s ws
  | "init" :: _ => step1 s ws
  | _ =>
    let r := step1 s ws
    if r.2 != "bad-op" && big (ws.drop 1) then (s, "rejected") else r

def main : IO Unit := Proto.run (FourCounter.init 0) step
