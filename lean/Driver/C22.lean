import ParsecVerif.Base.Proto
import ParsecVerif.Model.MatrixOps
open ParsecVerif ParsecVerif.Proto ParsecVerif.MatrixOps

/-! Line-protocol driver for C22 (see harness/C22.c for the operations). -/

def insertSorted (x : Nat × Nat) : List (Nat × Nat) → List (Nat × Nat)
  | [] => [x]
  | y :: t => if x.1 < y.1 ∨ (x.1 = y.1 ∧ x.2 ≤ y.2) then x :: y :: t else y :: insertSorted x t

def sortPairs (l : List (Nat × Nat)) : List (Nat × Nat) := l.foldl (fun acc x => insertSorted x acc) []

/-- run-length groups of a sorted list -/
def groups : List (Nat × Nat) → List ((Nat × Nat) × Nat)
  | [] => []
  | x :: t =>
    match groups t with
    | (y, c) :: r => if x = y then (y, c + 1) :: r else (x, 1) :: (y, c) :: r
    | [] => [(x, 1)]

/-- `a.b:count,...` (or `b:count,...` when `single`), `-` for the empty multiset -/
def showMulti (single : Bool) (l : List (Nat × Nat)) : String :=
  if l.isEmpty then "-" else
  ",".intercalate ((groups (sortPairs l)).map fun (x, c) =>
    if single then s!"{x.2}:{c}" else s!"{x.1}.{x.2}:{c}")

def parsePair (s : String) : Option (Nat × Nat) :=
  match s.splitOn "." with
  | [a, b] => match a.toNat?, b.toNat? with
    | some a, some b => some (a, b)
    | _, _ => none
  | _ => none

def parseOrder (s : String) : Option (List (Nat × Nat)) :=
  if s = "-" then some [] else (s.splitOn ",").mapM parsePair

def intToNat? (i : Int) : Option Nat := if i < 0 then none else some i.toNat

/-! ### apply -/

def applyCell (calls : List (Int × Int × Int)) (m n : Int) : Char :=
  let args := (calls.filter fun c => c.1 == m && c.2.1 == n).map fun c => c.2.2
  match args with
  | [] => '.'
  | [u] => if u == FULL then 'F' else if u == UPPER then 'U' else if u == LOWER then 'L' else '?'
  | _ => if args.length > 9 then '9' else Char.ofNat (48 + args.length)

def applyLine (mt nt uplo : Int) : String :=
  if !validUplo uplo then "bad-param" else
  let calls := applyCalls mt nt uplo
  let rows := (irange 0 (mt - 1)).map fun m => String.ofList ((irange 0 (nt - 1)).map fun n => applyCell calls m n)
  let oob := (calls.filter fun c => !(decide (0 ≤ c.1 ∧ c.1 < mt ∧ 0 ≤ c.2.1 ∧ c.2.1 < nt))).length
  "/".intercalate rows ++ s!" oob={oob}"

/-! ### map -/

def parseLoc (s : String) : List (List Bool) := (s.splitOn "/").map fun r => r.toList.map (· == '1')

def locFn (rows : List (List Bool)) (m n : Nat) : Bool := ((rows[m]?).getD [])[n]?.getD false

def mapLine (mt nt cores : Nat) (loc : String) (order : String) : String :=
  match parseOrder order with
  | none => "bad-op"
  | some ord =>
    let cfg : MapCfg := ⟨mt, nt, cores, locFn (parseLoc loc)⟩
    -- index of the first event the model cannot accept
    let rec go (s : MapState) (k : Nat) : List (Nat × Nat) → Sum Nat MapState
      | [] => .inr s
      | (m, n) :: t => match acceptExec cfg s m n with
        | some s' => go s' (k + 1) t
        | none => .inl k
    match go (mapInit cfg) 0 ord with
    | .inl k => s!"reject@{k}"
    | .inr s =>
      let s := drain cfg (nt + s.chains.length + 2) s
      if s.chains.any (· != Chain.done) then "stuck" else
      let rows := (List.range mt).map fun m => String.ofList ((List.range nt).map fun n =>
        let c := s.log.count (m, n); if c > 9 then '9' else Char.ofNat (48 + c))
      "/".intercalate rows ++ s!" next={s.nextN}"

/-- free-running run on a matrix whose tiles are all local: by `map_exactly_once` every tile is visited
    once; `next_n` ends at its start-up value plus one claim per remaining column plus one final claim
    per chain -/
def mapWideLine (mt nt cores : Nat) : String :=
  let cfg : MapCfg := ⟨mt, nt, cores, fun _ _ => true⟩
  let s := mapInit cfg
  let k := s.chains.length
  let next := if nt ≤ s.nextN then s.nextN + k else (nt - 1) + k
  s!"ok tiles={mt * nt} next={next}"

/-! ### reduce.jdf -/

def srcDone (done : List (Nat × Nat)) : Src → Bool
  | .node l p => done.contains (l, p)
  | _ => true

/-- first position of `order` that is not an enabled, not yet executed task of the space -/
def redOrderBad (MT : Nat) : List (Nat × Nat) → List (Nat × Nat) → Nat → Option Nat
  | _, [], _ => none
  | done, (l, p) :: t, k =>
    if (redSpace MT).contains (l, p) && !done.contains (l, p) && srcDone done (redA l p) && srcDone done (redB MT l p)
    then redOrderBad MT ((l, p) :: done) t (k + 1) else some k

/-- data_of is called twice for every write-back to a data collection by the generated code -/
def WRITE_CALLS : Nat := 2

def reduceLine (MT : Nat) (order : String) : String :=
  match parseOrder order with
  | none => "bad-op"
  | some ord =>
    match redOrderBad MT [] ord 0 with
    | some k => s!"order-bad@{k}"
    | none =>
      let sp := redSpace MT
      if ord.length ≠ sp.length then s!"order-incomplete {ord.length}/{sp.length}" else
      let writes := (sp.filter fun t => match redOut MT t.1 t.2 with | .result _ => true | _ => false).flatMap
        fun t => match redOut MT t.1 t.2 with | .result p => List.replicate WRITE_CALLS (0, p) | _ => []
      s!"tasks={showMulti false sp} reads={showMulti true ((redReads MT).map fun m => (0, m))} rwrites={showMulti true writes}"

/-! ### reduce_col.jdf / reduce_row.jdf -/

def pairsToNat (l : List (Int × Int)) : List (Nat × Nat) := l.map fun t => (t.1.toNat, t.2.toNat)

def colRowLine (row : Bool) (d : Nat) (M N : Int) : String :=
  let ncols := (irange 0 N).length
  let tasks := (colSpace d).flatMap fun t => List.replicate ncols t
  let reads := if row then rowReads d 0 N else colInSpace 0 0 M N
  let dest := if d = 0 then [] else (irange 0 N).flatMap fun c => List.replicate WRITE_CALLS (0, c.toNat)
  -- the bodies of reduce_col / reduce_row (and of their leaf tasks) never call `operation`
  s!"tasks={showMulti false tasks} reads={showMulti false (pairsToNat reads)} dest={showMulti true dest} ops=0"

/-! ### task spaces for the JDF front end -/

def showSpace (l : List (List Int)) : String :=
  if l.isEmpty then "-" else " ".intercalate (l.map fun t => ",".intercalate (t.map toString))

def p2 (l : List (Int × Int)) : List (List Int) := l.map fun t => [t.1, t.2]
def n2 (l : List (Nat × Nat)) : List (List Int) := l.map fun t => [(t.1 : Int), (t.2 : Int)]

def spaceLine : List String → String
  | ["APPLY_L", mt, nt, u] => match int? mt, int? nt, int? u with
    | some mt, some nt, some u => showSpace (p2 (applyL mt nt u))
    | _, _, _ => "bad-op"
  | ["APPLY_U", mt, nt, u] => match int? mt, int? nt, int? u with
    | some mt, some nt, some u => showSpace (p2 (applyU mt nt u))
    | _, _, _ => "bad-op"
  | ["APPLY_DIAG", mt, nt, _] => match int? mt, int? nt with
    | some mt, some nt => showSpace ((applyDiag mt nt).map fun t => [t.1])
    | _, _ => "bad-op"
  | ["reduce", mt] => match nat? mt with
    | some mt => showSpace (n2 (redSpace mt))
    | none => "bad-op"
  | ["reduce_in_col", ia, ja, m, n] => match int? ia, int? ja, int? m, int? n with
    | some ia, some ja, some m, some n => showSpace (p2 (colInSpace ia ja m n))
    | _, _, _, _ => "bad-op"
  | ["reduce_col", d, ja, n] => match nat? d, int? ja, int? n with
    | some d, some ja, some n => showSpace ((colSpace d).flatMap fun t => (irange ja n).map fun c => [(t.1 : Int), (t.2 : Int), c])
    | _, _, _ => "bad-op"
  | ["reduce_in_row", d, ia, n] => match nat? d, int? ia, int? n with
    | some d, some ia, some n => showSpace (p2 (rowInSpace d ia n))
    | _, _, _ => "bad-op"
  | ["reduce_row", d, ia, n] => match nat? d, int? ia, int? n with
    | some d, some ia, some n => showSpace ((colSpace d).flatMap fun t => (irange ia n).map fun c => [(t.1 : Int), (t.2 : Int), c])
    | _, _, _ => "bad-op"
  | _ => "bad-op"

def showSrc : Src → String
  | .tile m => s!"descA({m},0)"
  | .node l p => s!"reduce({l},{p})"
  | .null => "NULL"

def showDst : Dst → String
  | .result p => s!"R({p},0)"
  | .flowA l p => s!"A:reduce({l},{p})"
  | .flowB l p => s!"B:reduce({l},{p})"

/-- dependency edges of reduce.jdf, one item per task -/
def depsLine (MT : Nat) : String :=
  " ".intercalate ((redSpace MT).map fun t =>
    s!"{t.1},{t.2}:A={showSrc (redA t.1 t.2)};B={showSrc (redB MT t.1 t.2)};C={showDst (redOut MT t.1 t.2)}")

def showSrcCol (leaf inner : String) : Src → String
  | .tile m => s!"{leaf}({m},0)"
  | .node l p => s!"{inner}({l},{p},0)"
  | .null => "NULL"

def showDstCol (inner : String) : Dst → String
  | .result _ => "dest(0)"
  | .flowA l p => s!"Rtop:{inner}({l},{p},0)"
  | .flowB l p => s!"Rbottom:{inner}({l},{p},0)"

/-- dependency edges of reduce_col.jdf / reduce_row.jdf for column 0 -/
def depsColLine (leaf inner : String) (d : Nat) : String :=
  " ".intercalate (((List.range (2 ^ d)).map fun r => s!"in{r}:{showDstCol inner (colLeafOut r)}") ++
    (colSpace d).map fun t =>
      s!"{t.1},{t.2}:Rbottom={showSrcCol leaf inner (colBottom t.1 t.2)};Rtop={showSrcCol leaf inner (colTop t.1 t.2)};out={"+".intercalate ((colOut d t.1 t.2).map (showDstCol inner))}")

def step (_ : Unit) : List String → Unit × String
  | ["apply", mt, nt, u] =>
    match int? mt, int? nt, int? u with
    | some mt, some nt, some u => ((), applyLine mt nt u)
    | _, _, _ => ((), "bad-op")
  | ["map", mt, nt, cores, loc, order] =>
    match nat? mt, nat? nt, nat? cores with
    | some mt, some nt, some cores => ((), mapLine mt nt cores loc order)
    | _, _, _ => ((), "bad-op")
  | ["mapwide", mt, nt, cores] =>
    match nat? mt, nat? nt, nat? cores with
    | some mt, some nt, some cores => if mt = 0 ∨ nt = 0 then ((), "bad-op") else ((), mapWideLine mt nt cores)
    | _, _, _ => ((), "bad-op")
  | ["reduce", mt, order] =>
    match nat? mt with
    | some mt => ((), reduceLine mt order)
    | none => ((), "bad-op")
  | ["redcol", d, _, m, n] =>
    match nat? d, int? m, int? n with
    | some d, some m, some n => ((), colRowLine false d m n)
    | _, _, _ => ((), "bad-op")
  | ["redrow", d, _, n] =>
    match nat? d, int? n with
    | some d, some n => ((), colRowLine true d 0 n)
    | _, _ => ((), "bad-op")
  | ["clog2", n] =>
    match nat? n with
    | some n => ((), toString (clog2 n))
    | none => ((), "bad-op")
  | "space" :: rest => ((), spaceLine rest)
  | ["deps", "reduce_col", d] =>
    match nat? d with
    | some d => ((), depsColLine "reduce_in_col" "reduce_col" d)
    | none => ((), "bad-op")
  | ["deps", "reduce_row", d] =>
    match nat? d with
    | some d => ((), depsColLine "reduce_in_row" "reduce_row" d)
    | none => ((), "bad-op")
  | ["deps", "reduce", mt] =>
    match nat? mt with
    | some mt => ((), depsLine mt)
    | none => ((), "bad-op")
  | _ => ((), "bad-op")

def main : IO Unit := Proto.run () step
