import ParsecVerif.Base.Proto
import ParsecVerif.Model.Dist
open ParsecVerif ParsecVerif.Proto ParsecVerif.Dist

/-!
ops (every number is a decimal `Nat` ≤ 1000000, `V` = number of virtual processes of the harness process):

  bc   S mb nb lm ln i j m n P Q kp kq ip jq V       S ∈ {T,L}  (tile / LAPACK storage)
  kv   S mb nb lm ln i j m n P Q vp vq ip jq V       origin with k = 1, view factors vp vq
  sym  U mb nb lm ln i j m n P Q V                   U ∈ {U,L}
  band mb nb lm ln P Q kp kq ip jq bP bQ bkp bkq bip bjq bs V
  tab  nodes mb nb lm ln i j m n V r_0 … r_{k-1} v_0 … v_{k-1}      k = lmt*lnt
  vec  D mb lm i m P Q V                             D ∈ {D,R,C}

result:  `H <sizes> | R <one entry per rank> | T <one entry per tile, m outer, n inner>`
tile entry `owner:key:km:kn:slot:datakey:offset:vpid` (slot … vpid in the owner's view).
-/

def join (l : List String) : String := " ".intercalate l
def colon (l : List String) : String := ":".intercalate l
def tilesOf (mt nt : Nat) (f : Nat → Nat → String) : String :=
  join ((List.range mt).flatMap fun m => (List.range nt).map fun n => f m n)
def ranksOf (n : Nat) (f : Nat → String) : String := join ((List.range n).map f)
def out3 (h r t : String) : String := "H " ++ h ++ " | R " ++ r ++ " | T " ++ t
def ns (l : List Nat) : String := join (l.map toString)

/-- one tile: head = [owner, key, km, kn], slot, then [datakey, offset], vpid.
    `parsec_data_create` returns the data already stored in the slot when there is one, so the
    data key and the pointer observed for a tile are those of the FIRST tile (in enumeration order)
    that the same owner mapped to the same slot. -/
structure Ent where
  own : String
  head : List String
  slot : String
  dk : List String
  vp : String

def Ent.render (all : List Ent) (e : Ent) : String :=
  if e.slot == "-" || e.slot == "diverge" then colon (e.head ++ [e.slot] ++ e.dk ++ [e.vp]) else
  match all.find? (fun f => f.own == e.own && f.slot == e.slot) with
  | some f => colon (e.head ++ [e.slot] ++ f.dk ++ [e.vp])
  | none => colon (e.head ++ [e.slot] ++ e.dk ++ [e.vp])

inductive Cell where
  | ent (e : Ent)
  | raw (s : String)

def renderCells (cs : List Cell) : String :=
  let ents := cs.filterMap fun c => match c with | .ent e => some e | .raw _ => none
  join (cs.map fun c => match c with | .ent e => e.render ents | .raw s => s)

def cellsOf (mt nt : Nat) (f : Nat → Nat → Cell) : List Cell :=
  (List.range mt).flatMap fun m => (List.range nt).map fun n => f m n

def small (l : List Nat) : Bool := l.all (· ≤ 1000000)

def tmPre (t : TM) : Bool :=
  t.mb ≥ 1 && t.nb ≥ 1 && t.m ≥ 1 && t.n ≥ 1 && t.i + t.m ≤ t.lm && t.j + t.n ≤ t.ln && t.mt * t.nt ≤ 4096
def gridPre (g : Grid) : Bool :=
  g.P ≥ 1 && g.Q ≥ 1 && g.kp ≥ 1 && g.kq ≥ 1 && g.ip < g.P && g.jq < g.Q && g.P * g.Q ≤ 64
def vPre (V : Nat) : Bool := V ≥ 1 && V ≤ 64

def bcTile (b : BC) (V m n : Nat) : Cell :=
  let own := b.rankOf m n
  let key := b.t.key m n
  .ent { own := toString own, head := [toString own, toString key, toString (b.t.keyM key), toString (b.t.keyN key)],
         slot := toString (b.position own m n), dk := [toString (b.dataKey m n), toString (b.offset own m n)],
         vp := toString (b.vpid V m n) }

def bcOut (b : BC) (V : Nat) : String :=
  out3 (ns [b.t.lmt, b.t.lnt, b.t.mt, b.t.nt])
    (ranksOf (b.g.P * b.g.Q) fun r => colon ([b.nbLocal r, b.nbR r, b.nbC r, b.llm r, b.lln r].map toString))
    (renderCells (cellsOf b.t.mt b.t.nt (bcTile b V)))

def kvTile (v : KV) (V m n : Nat) : Cell :=
  let key := v.o.t.key m n
  match v.sm m, v.sn n with
  | some sm, some sn =>
    let own := v.o.rankOf sm sn
    .ent { own := toString own, head := [toString own, toString key, toString (v.o.t.keyM key), toString (v.o.t.keyN key)],
           slot := toString (v.o.position own sm sn), dk := [toString (v.o.dataKey sm sn), toString (v.o.offset own sm sn)],
           vp := toString (v.o.vpid V sm sn) }
  | _, _ => .raw "diverge"

def kvOut (v : KV) (V : Nat) : String :=
  out3 (ns [v.o.t.lmt, v.o.t.lnt, v.o.t.mt, v.o.t.nt])
    (ranksOf (v.o.g.P * v.o.g.Q) fun r => colon ([v.o.nbLocal r, v.o.nbR r, v.o.nbC r, v.o.llm r, v.o.lln r].map toString))
    (renderCells (cellsOf v.o.t.mt v.o.t.nt (kvTile v V)))

def optS {α} [ToString α] : Option α → String
  | some x => toString x
  | none => "diverge"

def symTile (s : Sym) (V m n : Nat) : Cell :=
  if s.stored m n then
    let own := s.rankOf m n
    let key := s.t.key m n
    let pos := s.position own m n
    .ent { own := toString own, head := [toString own, toString key, toString (s.t.keyM key), toString (s.t.keyN key)],
           slot := optS pos, dk := [toString (s.dataKey m n), optS (pos.map (· * (s.t.bsiz : Int)))],
           vp := toString (s.vpid V m n) }
  else .raw "x"

def symOut (s : Sym) (V : Nat) : String :=
  out3 (ns [s.t.lmt, s.t.lnt, s.t.mt, s.t.nt])
    (ranksOf (s.P * s.Q) fun r => toString (s.nbLocal r))
    (renderCells (cellsOf s.t.mt s.t.nt (symTile s V)))

def bandTile (b : Band) (V m n : Nat) : Cell :=
  let own := b.rankOf m n
  let key := b.off.t.key m n
  let sl := b.slot own m n
  .ent { own := toString own, head := [toString own, toString key, toString (b.off.t.keyM key), toString (b.off.t.keyN key)],
         slot := toString sl.1 ++ "." ++ toString sl.2, dk := [toString (b.dataKey m n), toString (b.offset own m n)],
         vp := toString (b.vpid V m n) }

def bandOut (b : Band) (V : Nat) : String :=
  out3 (ns [b.off.t.lmt, b.off.t.lnt, b.off.t.mt, b.off.t.nt])
    (ranksOf (b.off.g.P * b.off.g.Q) fun r => colon [toString (b.off.nbLocal r), toString (b.band.nbLocal r)])
    (renderCells (cellsOf b.off.t.mt b.off.t.nt (bandTile b V)))

def tabTile (b : Tab) (m n : Nat) : Cell :=
  let own := b.rankOf m n
  let key := b.t.key m n
  .ent { own := toString own, head := [toString own, toString key, toString (b.t.keyM key), toString (b.t.keyN key)],
         slot := toString (b.position own m n), dk := [toString (b.idx m n), "-"], vp := toString (b.vpid m n) }

def tabOut (b : Tab) (nodes : Nat) : String :=
  out3 (ns [b.t.lmt, b.t.lnt, b.t.mt, b.t.nt])
    (ranksOf nodes fun r => toString (b.nbLocal r))
    (renderCells (cellsOf b.t.mt b.t.nt (tabTile b)))

def vecTile (v : Vec) (V m : Nat) : Cell :=
  let own := v.rankOf m
  let key := v.t.key m 0
  let hd := [toString own, toString key, toString (v.t.keyM key), toString (v.t.keyN key)]
  match v.nbLocal own with
  | none => .raw (colon (hd ++ ["-", "-", "-", "-"]))
  | some _ => .ent { own := toString own, head := hd, slot := toString (v.position m),
                     dk := [toString (v.gm m), toString (v.position m * v.mb)], vp := toString (v.vpid V m) }

def vecOut (v : Vec) (V : Nat) : String :=
  out3 (ns [v.t.lmt, v.t.mt])
    (ranksOf (v.P * v.Q) fun r => match v.nbLocal r with | none => "hang" | some k => toString k)
    (renderCells (cellsOf v.t.mt 1 (fun m _ => vecTile v V m)))

def storage? : String → Option Bool
  | "T" => some false
  | "L" => some true
  | _ => none

def uplo? : String → Option Bool
  | "U" => some true
  | "L" => some false
  | _ => none

def step (_ : Unit) : List String → Unit × String
  | "bc" :: s :: ws =>
    match storage? s, nats? ws with
    | some lap, some [mb, nb, lm, ln, i, j, m, n, P, Q, kp, kq, ip, jq, V] =>
      if !small [mb, nb, lm, ln, i, j, m, n, P, Q, kp, kq, ip, jq, V] then ((), "bad-op") else
      let t : TM := { mb, nb, lm, ln, i, j, m, n }
      let g : Grid := { P, Q, kp, kq, ip, jq }
      if tmPre t && gridPre g && vPre V then ((), bcOut { t, g, lapack := lap } V) else ((), "rejected")
    | _, _ => ((), "bad-op")
  | "kv" :: s :: ws =>
    match storage? s, nats? ws with
    | some lap, some [mb, nb, lm, ln, i, j, m, n, P, Q, vp, vq, ip, jq, V] =>
      if !small [mb, nb, lm, ln, i, j, m, n, P, Q, vp, vq, ip, jq, V] then ((), "bad-op") else
      let t : TM := { mb, nb, lm, ln, i, j, m, n }
      let g : Grid := { P, Q, kp := 1, kq := 1, ip, jq }
      if tmPre t && gridPre g && vPre V && vp ≥ 1 && vq ≥ 1 then
        ((), kvOut { o := { t, g, lapack := lap }, vp, vq } V) else ((), "rejected")
    | _, _ => ((), "bad-op")
  | "sym" :: u :: ws =>
    match uplo? u, nats? ws with
    | some up, some [mb, nb, lm, ln, i, j, m, n, P, Q, V] =>
      if !small [mb, nb, lm, ln, i, j, m, n, P, Q, V] then ((), "bad-op") else
      let t : TM := { mb, nb, lm, ln, i, j, m, n }
      if tmPre t && P ≥ 1 && Q ≥ 1 && P * Q ≤ 64 && vPre V && t.lmt == t.lnt then
        ((), symOut { t, P, Q, upper := up } V) else ((), "rejected")
    | _, _ => ((), "bad-op")
  | "band" :: ws =>
    match nats? ws with
    | some [mb, nb, lm, ln, P, Q, kp, kq, ip, jq, bP, bQ, bkp, bkq, bip, bjq, bs, V] =>
      if !small [mb, nb, lm, ln, P, Q, kp, kq, ip, jq, bP, bQ, bkp, bkq, bip, bjq, bs, V] then ((), "bad-op") else
      let t : TM := { mb, nb, lm, ln, i := 0, j := 0, m := lm, n := ln }
      let tb : TM := { mb, nb, lm := mb * (2 * bs - 1), ln, i := 0, j := 0, m := mb * (2 * bs - 1), n := ln }
      let g : Grid := { P, Q, kp, kq, ip, jq }
      let gb : Grid := { P := bP, Q := bQ, kp := bkp, kq := bkq, ip := bip, jq := bjq }
      if tmPre t && gridPre g && gridPre gb && vPre V && bs ≥ 1 && bs ≤ 1000 && P * Q == bP * bQ then
        ((), bandOut { off := { t, g, lapack := false }, band := { t := tb, g := gb, lapack := false }, bs } V)
      else ((), "rejected")
    | _ => ((), "bad-op")
  | "tab" :: ws =>
    match nats? ws with
    | some (nodes :: mb :: nb :: lm :: ln :: i :: j :: m :: n :: V :: rest) =>
      if !small ([nodes, mb, nb, lm, ln, i, j, m, n, V] ++ rest) then ((), "bad-op") else
      let t : TM := { mb, nb, lm, ln, i, j, m, n }
      if tmPre t && nodes ≥ 1 && nodes ≤ 64 && vPre V && t.lmt * t.lnt ≤ 4096 && rest.length == 2 * (t.lmt * t.lnt)
          && (rest.take (t.lmt * t.lnt)).all (· < nodes) && (rest.drop (t.lmt * t.lnt)).all (· < V) then
        ((), tabOut { t, ranks := rest.take (t.lmt * t.lnt), vpids := rest.drop (t.lmt * t.lnt) } nodes)
      else ((), "rejected")
    | _ => ((), "bad-op")
  | "vec" :: d :: ws =>
    let dd : Option VDist := match d with | "D" => some .diag | "R" => some .row | "C" => some .col | _ => none
    match dd, nats? ws with
    | some d, some [mb, lm, i, m, P, Q, V] =>
      if !small [mb, lm, i, m, P, Q, V] then ((), "bad-op") else
      let v : Vec := { mb, lm, i, m, P, Q, d }
      if tmPre v.t && P ≥ 1 && Q ≥ 1 && P * Q ≤ 64 && vPre V then ((), vecOut v V) else ((), "rejected")
    | _, _ => ((), "bad-op")
  | _ => ((), "bad-op")

def main : IO Unit := Proto.run () step
