import ParsecVerif.Base.Proto
import ParsecVerif.Model.JdfLimits
open ParsecVerif ParsecVerif.Proto ParsecVerif.JdfLimits

/-!
ops (state = the four build constants, set by `limits`):
  `limits P L I O`                       → `ok`
  `prog W <shape>`                       → canonical outcome of `decision` (W = 1: --Werror)
  `spec <shape>`                         → `counted=b runtime=b`  (the two `exceeds` predicates)
shape tokens:  `f NL LL` starts a task class (locals, local definitions inside locals),
               `fl A` a flow (A ∈ c r w x = CTL READ WRITE RW),
               `d O G a b c` a dependency (O ∈ i o, G ∈ u b t, local definitions of the
               dependency / of calltrue / of callfalse).
-/

def guard? : String → Option Guard
  | "u" => some .uncond | "b" => some .binary | "t" => some .ternary | _ => none
def acc? : String → Option Access
  | "c" => some .ctl | "r" => some .read | "w" => some .write | "x" => some .rw | _ => none
def dir? : String → Option Bool
  | "i" => some false | "o" => some true | _ => none

/-- Left-to-right construction; `none` on any malformed token. -/
def addTok : Option (List Func) → List String → Option (List Func)
  | acc, [] => acc.map (fun fs => (fs.map (fun f => { f with flows := (f.flows.map (fun fl => { fl with deps := fl.deps.reverse })).reverse })).reverse)
  | none, _ => none
  | some fs, "f" :: nl :: ll :: rest =>
    match nat? nl, nat? ll with
    | some nl, some ll => addTok (some (⟨nl, ll, []⟩ :: fs)) rest
    | _, _ => none
  | some (f :: fs), "fl" :: a :: rest =>
    match acc? a with
    | some a => addTok (some ({ f with flows := ⟨a, []⟩ :: f.flows } :: fs)) rest
    | none => none
  | some (f :: fs), "d" :: o :: g :: a :: b :: c :: rest =>
    match f.flows, dir? o, guard? g, nat? a, nat? b, nat? c with
    | fl :: fls, some o, some g, some a, some b, some c =>
      addTok (some ({ f with flows := { fl with deps := ⟨o, g, a, b, c⟩ :: fl.deps } :: fls } :: fs)) rest
    | _, _, _, _, _, _ => none
  | _, _ => none
termination_by _ ws => ws.length

def shape? (ws : List String) : Option Prog := (addTok (some []) ws).map Prog.mk

def b01 (b : Bool) : String := if b then "1" else "0"

def step (L : Limits) : List String → Limits × String
  | ["limits", p, l, i, o] =>
    match nat? p, nat? l, nat? i, nat? o with
    | some p, some l, some i, some o => (⟨p, l, i, o⟩, "ok")
    | _, _, _, _ => (L, "bad-op")
  | "prog" :: w :: ws =>
    match (if w = "0" then some false else if w = "1" then some true else none), shape? ws with
    | some w, some p => (L, (decision L ⟨w⟩ p).str)
    | _, _ => (L, "bad-op")
  | "spec" :: ws =>
    match shape? ws with
    | some p => (L, s!"counted={b01 (decide (exceedsCounted L p))} runtime={b01 (decide (exceedsRuntime L p))}")
    | none => (L, "bad-op")
  | _ => (L, "bad-op")

def main : IO Unit := Proto.run Limits.std step
