import ParsecVerif.Base.Proto
import ParsecVerif.Model.Object
open ParsecVerif ParsecVerif.Proto ParsecVerif.Object

/-- sequential mode: initialised class descriptors (by class id) and 4 object slots -/
structure SeqSt where
  classes : List (Nat × Cls)
  slots : List (Option Obj)

inductive Cur
  | none
  | seq (q : SeqSt)
  | conc (cfg : Cfg) (s : State)

/-- class id = its variant digits (each 1..4, 1 to 4 of them), base-most first -/
def parseClass (w : String) : Option (List Nat) :=
  let ds := w.toList.map fun c => c.toNat - '0'.toNat
  if 1 ≤ ds.length ∧ ds.length ≤ 4 ∧ w.toList.all (fun c => '1' ≤ c ∧ c ≤ '4') then some ds else none

def classId (ds : List Nat) : Nat := ds.foldl (fun a d => a * 10 + d) 0

def lookupCls (q : SeqSt) (id : Nat) : Cls :=
  match q.classes.find? (·.1 = id) with
  | some p => p.2
  | none => Cls.fresh

def storeCls (q : SeqSt) (id : Nat) (c : Cls) : SeqSt :=
  { q with classes := (id, c) :: q.classes.filter (·.1 ≠ id) }

def showCalls : Option (List Nat) → String
  | some l => showList l
  | none => "undefined"

def b01 (b : Bool) : String := if b then "1" else "0"

def seq0 : SeqSt := ⟨[], [none, none, none, none]⟩

def parseOp : List Char → Option (List Op)
  | [] => some []
  | 'R' :: r => (parseOp r).map (Op.retain :: ·)
  | 'L' :: r => (parseOp r).map (Op.release :: ·)
  | 'G' :: d :: r => if '0' ≤ d ∧ d ≤ '9' then (parseOp r).map (Op.give (d.toNat - '0'.toNat) :: ·) else none
  | _ => none

/-- thread spec `h:PROG` -/
def parseThread (w : String) : Option (Nat × List Op) :=
  match w.splitOn ":" with
  | [h, p] =>
    match nat? h, parseOp p.toList with
    | some h, some p => if h ≤ 9 then some (h, p) else none
    | _, _ => none
  | _ => none

def pcName : Pc → String
  | .start => "start" | .ready => "ready" | .dtor _ => "dtor" | .done => "done"

def dlog (tr : List Ev) : List Nat := tr.filterMap fun | .dtor _ id => some id | _ => none
def isFreed (tr : List Ev) : Bool := tr.any fun | .free _ => true | _ => false
def zerosOf (tr : List Ev) (t : Nat) : Nat := tr.countP fun | .release u v => u == t && v == 0 | _ => false
def cntStr (s : State) : String := if isFreed s.trace then "freed" else toString s.cnt

def seqStep (q : SeqSt) : List String → SeqSt × String
  | ["classinit", c] =>
    match parseClass c with
    | some ds =>
      let old := lookupCls q (classId ds)
      let c' := classInitialize (chainOf ds) old
      (storeCls q (classId ds) c',
        s!"init={b01 old.initialized} depth={c'.depth} ctors={showCalls (runCtors c')} dtors={showCalls (runDtors c')} off={c'.dtorAt}")
    | none => (q, "bad-op")
  | [verb, sl, c] =>
    if verb ≠ "new" ∧ verb ≠ "construct" then (q, "bad-op") else
    match nat? sl, parseClass c with
    | some sl, some ds =>
      match q.slots[sl]? with
      | some Option.none =>
        let old := lookupCls q (classId ds)
        let r := objCreate (if verb = "new" then .dyn else .sta) (chainOf ds) old
        ({ storeCls q (classId ds) r.1.cls with slots := q.slots.set sl (some r.1) },
          s!"init={b01 old.initialized} cnt={r.1.cnt} ctors={showCalls r.2}")
      | some (some _) => (q, "rejected")
      | Option.none => (q, "bad-op")
    | _, _ => (q, "bad-op")
  | [verb, sl] =>
    match nat? sl with
    | some sl =>
      match q.slots[sl]? with
      | Option.none => (q, "bad-op")
      | some Option.none => if verb = "retain" ∨ verb = "release" ∨ verb = "destruct" ∨ verb = "drop" then (q, "rejected") else (q, "bad-op")
      | some (some o) =>
        if verb = "retain" then
          let o' := objRetain o
          ({ q with slots := q.slots.set sl (some o') }, s!"cnt={o'.cnt}")
        else if verb = "release" then
          let r := objRelease o
          ({ q with slots := q.slots.set sl (if r.1.freed then Option.none else some r.1) },
            s!"cnt={if r.1.freed then "freed" else toString r.1.cnt} dtors={showCalls r.2.1} null={b01 r.2.2}")
        else if verb = "destruct" then
          if o.kind = .dyn then (q, "rejected") else (q, s!"dtors={showCalls (objDestruct o)}")
        else if verb = "drop" then
          if o.kind = .dyn then (q, "rejected") else ({ q with slots := q.slots.set sl Option.none }, "ok")
        else (q, "bad-op")
    | Option.none => (q, "bad-op")
  | _ => (q, "bad-op")

def step (c : Cur) : List String → Cur × String
  | ["case", _] => (.seq seq0, "ok")
  | "case" :: _ :: kind :: cls :: thr =>
    match (if kind = "dyn" then some Kind.dyn else if kind = "sta" then some Kind.sta else Option.none),
          parseClass cls, thr.mapM parseThread with
    | some k, some ds, some spec =>
      if spec.length < 1 ∨ spec.length > 8 then (c, "bad-op") else
      let c0 : Nat := max 1 (spec.map (·.1)).sum
      let s0 := init c0 spec
      if k = .dyn ∧ locallySafe s0.thr = false then (c, "rejected") else
      let r := objCreate k (chainOf ds) Cls.fresh
      (.conc ⟨k, (runDtors r.1.cls).getD []⟩ s0,
        s!"ok n={spec.length} cnt={c0} ctors={showCalls r.2} dtors={showCalls (runDtors r.1.cls)}")
    | _, _, _ => (c, "bad-op")
  | ["step", t] =>
    match nat? t, c with
    | some t, .conc cfg s =>
      let s' := Object.step cfg s t
      (.conc cfg s', s!"{(s'.thr[t]?.map (fun th => pcName th.pc)).getD "none"} cnt={cntStr s'} d={showList (dlog s'.trace)}")
    | _, _ => (c, "bad-op")
  | ["end"] =>
    match c with
    | .conc _ s =>
      (c, s!"zeros={showList ((List.range s.thr.length).map (zerosOf s.trace))} cnt={cntStr s}")
    | _ => (c, "bad-op")
  | ws =>
    match c with
    | .seq q => let r := seqStep q ws; (.seq r.1, r.2)
    | _ => (c, "bad-op")

def main : IO Unit := Proto.run Cur.none step
