import ParsecVerif.Base.Proto
import ParsecVerif.Model.HashTable
open ParsecVerif ParsecVerif.Proto ParsecVerif.HashTable

/-- decimal, at most 19 digits (as the harness) -/
def key? (s : String) : Option Nat :=
  if s.length = 0 ∨ s.length > 19 ∨ !s.all Char.isDigit then none else s.toNat?

def rng? (s : String) (lo hi : Int) : Option Int :=
  let body := if s.startsWith "-" then (s.drop 1).toString else s
  if body.length = 0 ∨ body.length > 19 ∨ !body.all Char.isDigit then none else
  match body.toNat? with
  | none => none
  | some n =>
    if n > 1000000000 then none else
    let v : Int := if s.startsWith "-" then -(n : Int) else n
    if lo ≤ v ∧ v ≤ hi then some v else none

def id? (s : String) : Option Nat := (rng? s 0 4096).map Int.toNat

def parseTok (w : String) : Option Op :=
  if w.length < 2 ∨ w.length > 40 then none else
  let rest := (w.drop 1).toString
  let parts := rest.splitOn ","
  match w.front, parts with
  | 'i', [k, i] => match key? k, id? i with | some k, some i => some (.ins k i) | _, _ => none
  | 'u', [k, i] => match key? k, id? i with | some k, some i => some (.foi k i) | _, _ => none
  | 'f', [k] => (key? k).map .find
  | 'r', [k] => (key? k).map .rem
  | _, _ => none

structure Params where
  nb0 : Nat
  hint : Int
  maxb : Int
  hmode : Nat

def parseParams (a b c d : String) : Option Params :=
  match rng? a 1 8, rng? b (-1) 1000, rng? c 0 12, rng? d 0 1 with
  | some nb0, some hint, some maxb, some hm => some ⟨nb0.toNat, hint, maxb, hm.toNat⟩
  | _, _, _, _ => none

def mkState (p : Params) (progs : List (List Op)) : State :=
  init (mkConfig p.hmode p.hint p.maxb p.nb0 progs)

/-- run thread `t` until it is idle with an empty program -/
def runThread : Nat → State → Nat → State
  | 0, s, _ => s
  | fuel + 1, s, t =>
    if (threadAt s t).pc == .idle && (threadAt s t).todo.isEmpty then s else runThread fuel (step s t) t

def showRes : Res → String
  | .unit => "ok" | .ptr x => toString x | .rejected => "rej"

def showBucket (b : Nat) (B : Bucket) : String :=
  if B.lock = 0 ∧ B.len = 0 ∧ B.items.isEmpty then "" else
  s!" {b}:{B.len}:" ++ (if B.items.isEmpty then "-" else ",".intercalate (B.items.map fun it => toString it.id))
    ++ (if B.lock = 0 then "" else "L")

def showTable (s : Store) (T : Nat) : String :=
  s!" | {T}:u{(s.tab T).used},n{(s.tab T).next}" ++ String.join ((List.range (2 ^ T)).map fun b => showBucket b (s.bk T b))

def dump (s0 : State) : String :=
  let s := s0.m
  s!"top={s.top} w={if s.warned then 1 else 0}" ++
    String.join ((List.range (s.top + 1 - s.nb0)).map fun i => showTable s (s.top - i))

def showPark (s : State) (t : Nat) : String :=
  let th := threadAt s t
  match th.pc with
  | .idle => "idle"
  | .rd => "rd"
  | .wr .. => "wr"
  | .lt => s!"lt:{tbk s.m th}"
  | .lo hd _ => s!"lo:{hd}:{s.m.hf th.op.key hd}"
  | .du hd _ _ => s!"du:{hd}"
  | .cn _ pv _ _ => s!"cn:{pv}"
  | _ => "run"

structure D where
  s : State
  nthr : Nat       -- worker threads (coop); the prefix thread is thread `nthr`
  seq : Bool

/-- split the words of a coop case into the prefix and the thread programs -/
def splitT : List String → List (List String) → List String → List (List String)
  | [], acc, cur => (cur :: acc).reverse
  | "T" :: r, acc, cur => splitT r (cur :: acc) []
  | w :: r, acc, cur => splitT r acc (cur ++ [w])

def policyOk (ws : List String) : Bool :=
  match ws with
  | ["rng", s] => (key? s).isSome
  | ["pct", s, d] => (key? s).isSome && (rng? d 1 9).isSome
  | ["dfs", d] => (rng? d 1 100000000).isSome
  | "replay" :: l => l.all fun w => (rng? w 0 15).isSome
  | _ => false

def parseCoop (ws : List String) (pol : List String) : Option D :=
  match ws with
  | a :: b :: c :: d :: rest =>
    match parseParams a b c d with
    | none => none
    | some p =>
      let (pre, rest') := match rest with
        | "P" :: r => (r.takeWhile (· ≠ "T"), r.dropWhile (· ≠ "T"))
        | r => ([], r)
      match rest' with
      | "T" :: r =>
        let groups := splitT r [] []
        match pre.mapM parseTok, groups.mapM (fun g => g.mapM parseTok) with
        | some pre, some progs =>
          if progs.length ≥ 1 ∧ progs.length ≤ 8 ∧ pre.length ≤ 64 ∧ progs.all (fun g => g.length ≤ 64) ∧ policyOk pol then
            let s := mkState p (progs ++ [pre])
            some ⟨runThread 100000 s progs.length, progs.length, false⟩
          else none
        | _, _ => none
      | _ => none
  | _ => none

def lastRes (s : State) (t : Nat) : String :=
  match (threadAt s t).hist.getLast? with
  | some r => showRes r.res
  | none => "?"

def seqOp (d : D) (op : Op) : Option D × String :=
  let s0 := { d.s with thr := d.s.thr.set 0 { threadAt d.s 0 with todo := [op] } }
  let s1 := runThread 100000 s0 0
  (some { d with s := s1 }, lastRes s1 0 ++ " | " ++ dump s1)

def stepLine (c : Option D) (ws0 : List String) : Option D × String :=
  let ws := ws0.takeWhile (· ≠ "|")
  let pol := (ws0.dropWhile (· ≠ "|")).drop 1
  match ws with
  | ["case", _, "seq", a, b, c', d] =>
    if pol ≠ [] ∨ ws0.contains "|" then (c, "bad-op") else
    match parseParams a b c' d with
    | some p => let s := mkState p [[]]; (some ⟨s, 1, true⟩, "ok | " ++ dump s)
    | none => (c, "bad-op")
  | "case" :: _ :: "coop" :: rest =>
    if ws0.length < 9 then (c, "bad-op") else
    match parseCoop rest pol with
    | some d => (some d, "ok | " ++ dump d.s)
    | none => (c, "bad-op")
  | "case" :: _ => (c, "bad-op")
  | _ =>
    if ws0.contains "|" then (c, "bad-op") else
    match c, ws with
    | some d, ["step", t, b] =>
      if d.seq then (c, "bad-op") else
      match nat? t, nat? b with
      | some t, some b =>
        let s' := macroStep d.s t (b != 0)
        (some { d with s := s' }, showPark s' t ++ " | " ++ dump s')
      | _, _ => (c, "bad-op")
    | some d, ["rets"] =>
      if d.seq then (c, "bad-op") else
      (c, "[" ++ " | ".intercalate ((d.s.thr.take d.nthr).map fun th => " ".intercalate (th.hist.map fun r => showRes r.res)) ++ "]")
    | some d, ["final"] =>
      if d.seq then (c, "bad-op") else
      (c, dump d.s ++ " all=" ++ showList ((forAll d.s.m).map fun it => s!"{it.key}:{it.id}"))
    | some d, ["all"] =>
      if !d.seq then (c, "bad-op") else (c, showList ((forAll d.s.m).map fun it => s!"{it.key}:{it.id}") ++ " | " ++ dump d.s)
    | some d, ["dump"] => if !d.seq then (c, "bad-op") else (c, "- | " ++ dump d.s)
    | some d, ["i", k, i] =>
      if !d.seq then (c, "bad-op") else
      match key? k, id? i with | some k, some i => seqOp d (.ins k i) | _, _ => (c, "bad-op")
    | some d, ["u", k, i] =>
      if !d.seq then (c, "bad-op") else
      match key? k, id? i with | some k, some i => seqOp d (.foi k i) | _, _ => (c, "bad-op")
    | some d, ["f", k] =>
      if !d.seq then (c, "bad-op") else
      match key? k with | some k => seqOp d (.find k) | none => (c, "bad-op")
    | some d, ["r", k] =>
      if !d.seq then (c, "bad-op") else
      match key? k with | some k => seqOp d (.rem k) | none => (c, "bad-op")
    | _, _ => (c, "bad-op")

def main : IO Unit := Proto.run (none : Option D) stepLine
