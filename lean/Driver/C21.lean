import ParsecVerif.Base.Proto
import ParsecVerif.Model.Redistribute
open ParsecVerif ParsecVerif.Proto ParsecVerif.Redistribute

/-!
ops (see harness/C21.c):
  case k
  redist np  kY mbY nbY lmY lnY aY bY cY  kT mbT nbT lmT lnT aT bT cT  sr sc diY djY diT djT
result:  ok path=g|r nc=<num_col> nt=<NT> T=<matrix> W=<matrix>   |   refused T=- W=-   |   bad-op
The matrices are produced by *executing the model's task space* (every Update / Receive instance, its block
copy, the pack/unpack path for a pseudo-random half of the tasks) on a sentinel-filled target.
-/

structure Spec where
  kind : String
  mb : Nat
  nb : Nat
  lm : Nat
  ln : Nat
  a : Nat
  b : Nat
  c : Nat

def sbcOk (np r : Nat) : Bool :=
  r ≥ 2 && r ≤ 64 && (np == r * (r - 1) / 2 || (r % 2 == 0 && np == r * r / 2))

def specOk (np : Nat) (s : Spec) : Bool :=
  if s.mb < 1 || s.nb < 1 || s.lm < 1 || s.ln < 1 || s.mb > 64 || s.nb > 64 || s.lm > 512 || s.ln > 512 then false
  else if s.kind == "bc" then s.a ≥ 1 && np % s.a == 0 && s.b ≥ 1 && s.c ≥ 1 && s.b ≤ 8 && s.c ≤ 8
  else if s.kind == "sym" then s.a ≥ 1 && np % s.a == 0
  else if s.kind == "tab" then true
  else if s.kind == "sbcL" || s.kind == "sbcU" then sbcOk np s.a
  else false

/-- `parsec_tiled_matrix_init`: `lmt = lm/mb (+1 if lm % mb)`; the kind as the wrapper sees it. -/
def toDesc (np : Nat) (s : Spec) : Desc :=
  let k : Kind :=
    if s.kind == "bc" then .bc (np / s.a) s.c
    else if s.kind == "tab" then .tab np
    else if s.kind == "sbcL" then .sbcLower s.a
    else if s.kind == "sbcU" then .sbcUpper s.a
    else .other
  ⟨k, s.mb, s.nb, (s.lm + s.mb - 1) / s.mb, (s.ln + s.nb - 1) / s.nb⟩

/-- runs of equal tags in one row: `[j0-j1]tag…` -/
def rowStr (cells : List (Option String)) : String :=
  let rec go (j : Nat) (cur : Option (Nat × String)) (acc : String) : List (Option String) → String
    | [] => match cur with
      | some (j0, t) => acc ++ s!"[{j0}-{j - 1}]{t}"
      | none => acc
    | c :: cs =>
      match cur, c with
      | some (j0, t), some t' =>
        if t = t' then go (j + 1) cur acc cs else go (j + 1) (some (j, t')) (acc ++ s!"[{j0}-{j - 1}]{t}") cs
      | some (j0, t), none => go (j + 1) none (acc ++ s!"[{j0}-{j - 1}]{t}") cs
      | none, some t' => go (j + 1) (some (j, t')) acc cs
      | none, none => go (j + 1) none acc cs
  go 0 none "" cells

/-- groups of equal consecutive non-empty rows: `i0-i1:row;…`, `-` when nothing is listed -/
def matStr (rows : List String) : String :=
  let rec go (i : Nat) (cur : Option (Nat × String)) (acc : List String) : List String → List String
    | [] => match cur with
      | some (i0, t) => acc ++ [s!"{i0}-{i - 1}:{t}"]
      | none => acc
    | r :: rs =>
      match cur with
      | some (i0, t) =>
        if r = t then go (i + 1) cur acc rs
        else go (i + 1) (if r = "" then none else some (i, r)) (acc ++ [s!"{i0}-{i - 1}:{t}"]) rs
      | none => go (i + 1) (if r = "" then none else some (i, r)) acc rs
  let parts := go 0 none [] rows
  if parts.isEmpty then "-" else ";".intercalate parts

def render (R C : Nat) (tag : Nat → Nat → Option String) : String :=
  matStr ((List.range R).map fun i => rowStr ((List.range C).map fun j => tag i j))

def redist (np : Nat) (sy st : Spec) (sr sc diY djY diT djT : Int) : String :=
  let dY := toDesc np sy
  let dT := toDesc np st
  match validate dY dT sr sc diY djY diT djT with
  | none => "refused T=- W=-"
  | some (p, path) =>
    let R := dT.lmt * dT.mb
    let C := dT.lnt * dT.nb
    let remote : Task → Bool := fun k => (k.mY + 2 * k.nY + 3 * k.mT + 5 * k.nT) % 2 == 1
    let copies := redistCopies p path remote (tasksOf p path)
    -- execute on arrays: value = source coordinates, count = number of writes
    let init : Array (Option (Nat × Nat)) × Array Nat := (Array.replicate (R * C) none, Array.replicate (R * C) 0)
    let (val, cnt) := copies.foldl (fun (s : Array (Option (Nat × Nat)) × Array Nat) c =>
        if c.ti < R ∧ c.tj < C then
          let g := c.tj * R + c.ti
          (s.1.set! g (some (c.si, c.sj)), s.2.set! g (s.2[g]! + 1))
        else s) init
    let tagT := fun i j => match val[j * R + i]! with
      | some (si, sj) => some s!"<{(si : Int) - i},{(sj : Int) - j}>"
      | none => none
    let tagW := fun i j => let c := cnt[j * R + i]!; if c = 0 then none else some s!"x{c}"
    let ps := match path with | .general => "g" | .reshuffle => "r"
    s!"ok path={ps} nc={p.numCol} nt={p.nt} T={render R C tagT} W={render R C tagW}"

def parseSpec (ws : List String) : Option Spec :=
  match ws with
  | [k, mb, nb, lm, ln, a, b, c] =>
    match nat? mb, nat? nb, nat? lm, nat? ln, nat? a, nat? b, nat? c with
    | some mb, some nb, some lm, some ln, some a, some b, some c => some ⟨k, mb, nb, lm, ln, a, b, c⟩
    | _, _, _, _, _, _, _ => none
  | _ => none

def step (_ : Unit) (ws : List String) : Unit × String :=
  match ws with
  | ["case", _] => ((), "ok")
  | "redist" :: np :: rest =>
    if rest.length ≠ 22 then ((), "bad-op") else
    match nat? np, parseSpec (rest.take 8), parseSpec ((rest.drop 8).take 8), ints? (rest.drop 16) with
    | some np, some sy, some st, some [sr, sc, diY, djY, diT, djT] =>
      if np ≥ 1 && specOk np sy && specOk np st && sy.a ≤ 100000 && st.a ≤ 100000 &&
         [sr, sc, diY, djY, diT, djT].all (fun x => -100000 ≤ x && x ≤ 100000) then
        ((), redist np sy st sr sc diY djY diT djT)
      else ((), "bad-op")
    | _, _, _, _ => ((), "bad-op")
  | _ => ((), "bad-op")

def main : IO Unit := Proto.run () step
