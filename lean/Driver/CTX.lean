import ParsecVerif.Base.Proto
import ParsecVerif.Model.Compound
open ParsecVerif ParsecVerif.Proto ParsecVerif.Context ParsecVerif.Compound

/-- Trace acceptor for C06 / C15: every observed event of a real run (harness/CTX.c) must be an
    enabled transition of the compound machine over the context machine.  Transitions that the
    harness cannot observe (a worker leaving the loop, the barrier, the return of a library-internal
    add_taskpool) are fired when the next observed event needs them. -/
structure CAcc where
  cs : CSt
  nthreads : Nat := 1
  decls : List Tp := []
  comps : List Comp := []
  arrs : List (Nat × Arr) := []     -- the array of every compound object, as parsec_compose builds it
  lastCall : Nat := 0          -- 1 = parsec_context_start called, 2 = parsec_context_wait called
  startFired : Bool := false
  tpWaitOk : Bool := false
  ok : Bool := true

def CAcc.fresh (k : Nat) : CAcc := { cs := cinit (k - 1) [] [], nthreads := k }

def rebuild (a : CAcc) : CAcc := { a with cs := cinit (a.nthreads - 1) a.decls a.comps }

def stName : TpSt → String
  | .notAdded => "notAdded" | .adding => "adding" | .earlyCb => "earlyCb" | .earlyDec => "earlyDec"
  | .added => "added" | .inCb => "inCb" | .inCbN => "inCbN" | .done => "done"

def describe (a : CAcc) (t : Nat) : String :=
  let s := a.cs.base
  s!"active={s.active} started={s.started} token={s.token} mm={repr s.mm} base[{t}]={repr (s.bases[t]?)} sub[{t}]={repr (s.subs[t]?)} tps={s.tps.map (fun p => stName p.st)}"

def fire (a : CAcc) (tr : CTr) : Option CAcc := (cstep? a.cs tr).map fun cs' => { a with cs := cs' }

def fireAll (a : CAcc) : List CTr → Option CAcc
  | [] => some a
  | tr :: rest => (fire a tr).bind (fun a' => fireAll a' rest)

def compIndexOfSelf (a : CAcc) (q : Nat) : Option Nat := a.cs.comps.findIdx? (fun c => c.self == q)

/-- finish a library-internal add_taskpool of thread `t` whose return is not observed -/
def finishInternal (a : CAcc) (t : Nat) : CAcc :=
  match a.cs.base.subs[t]? with
  | some (.startup _) => (fire a (.ctx (.addReturn t))).getD a
  | _ => a

def reject (a : CAcc) (why : String) (t : Nat) : CAcc × String :=
  ({ a with ok := false }, s!"reject {why}: {describe a t}")

def accept (r : Option CAcc) (a : CAcc) (why : String) (t : Nat) : CAcc × String :=
  match r with
  | some a' => (a', "ok")
  | none => reject a why t

/-- the atomic read-modify-write of `active_taskpools` by thread `t` -/
partial def rmw (a : CAcc) (t : Nat) : Option CAcc :=
  let s := a.cs.base
  match s.subs[t]? with
  | some (.adding q) =>
    match s.tps[q]? with
    | some tp =>
      match tp.st with
      | .adding => if tp.early then fireAll a [.ctx (.earlyCb t), .ctx (.earlyDec t)] else fire a (.ctx (.addInc t))
      | .earlyCb => fire a (.ctx (.earlyDec t))
      | .earlyDec => fire a (.ctx (.addInc t))
      | _ => none
    | none => none
  | some (.startup q) =>
    match compIndexOfSelf a q with
    | some c =>
      match fire a (.startup t c) with
      | some a' => fire a' (.ctx (.addInc t))
      | none => (fire a (.ctx (.addReturn t))).bind (fun a' => rmw a' t)
    | none => (fire a (.ctx (.addReturn t))).bind (fun a' => rmw a' t)
  | some .none =>
    if !((s.nests[t]?).getD []).isEmpty then fire a (.ctx (.nestDec t))   -- innermost nested termination first
    else
    match s.bases[t]? with
    | some (.cb _) => fire a (.ctx (.dec t))
    | some .idle =>
      if t = 0 ∧ s.mm = .starting then fire a (.ctx .startToken)
      else if t = 0 ∧ s.mm = .out ∧ s.started = true ∧ a.lastCall = 2 then fire a (.ctx .waitBegin)
      else none
    | _ => none
  | none => none

def workerLeaves (a : CAcc) : Option CAcc :=
  let ws := (List.range a.cs.base.wm.length).filter (fun w => a.cs.base.wm[w]? == some .looping)
  fireAll a (ws.map (fun w => CTr.ctx (.leave w)))

def slotOk (arr : Arr) (ms : List Nat) : Bool :=
  (List.range ms.length).all (fun i => arr.slots[i]? == (ms[i]?).map Slot.tp)

def stepD (a : CAcc) : List String → CAcc × String
  | ["case", _, k] =>
    match nat? k with
    | some k => if k ≥ 1 then (CAcc.fresh k, "ok") else (a, "bad-op")
    | none => (a, "bad-op")
  | ["decl", "tp", id, total] =>
    match nat? id, nat? total with
    | some id, some total =>
      if id = a.decls.length then (rebuild { a with decls := a.decls ++ [mkTp total false false] }, "ok") else (a, "bad-op")
    | _, _ => (a, "bad-op")
  | ["decl", "compose", rid, x, y] =>
    match nat? rid, nat? x, nat? y with
    | some rid, some x, some y =>
      let isComp := a.comps.any (fun c => c.self == x)
      if x ≥ a.decls.length ∨ y ≥ a.decls.length ∨ x = y then (a, "bad-op")
      else if isComp then
        if rid ≠ x then (a, "bad-op") else
        let comps' := a.comps.map (fun c => if c.self == x then { c with members := c.members ++ [y] } else c)
        let arrs' := a.arrs.map (fun e => if e.1 == x then (e.1, composeAppend e.2 y) else e)
        let a' := rebuild { a with comps := comps', arrs := arrs' }
        match arrs'.find? (fun e => e.1 == x) with
        | some (_, arr) =>
          (a', s!"kind=append n={arr.nb} term={if arr.slots[arr.nb]? == some Slot.null && !arr.oob then 1 else 0} members={",".intercalate ((arr.slots.take arr.nb).map (fun sl => match sl with | .tp i => toString i | _ => "-1"))}")
        | none => (a', "no-array")
      else
        if rid ≠ a.decls.length then (a, "bad-op") else
        let arr := composeNew x y
        let a' := rebuild { a with decls := a.decls ++ [mkTp 0 false true], comps := a.comps ++ [{ self := rid, members := [x, y] }],
                                   arrs := a.arrs ++ [(rid, arr)] }
        (a', s!"kind=new n={arr.nb} term={if arr.slots[arr.nb]? == some Slot.null && !arr.oob then 1 else 0} members={",".intercalate ((arr.slots.take arr.nb).map (fun sl => match sl with | .tp i => toString i | _ => "-1"))}")
    | _, _, _ => (a, "bad-op")
  | ["compose1", _] => (a, if (compose [0]).isNone then "same" else "different")
  | ["end"] =>
    let s := a.cs.base
    if a.ok && s.started == false && s.active == 0 && s.mm == .out && s.tps.all (fun p => p.st == .notAdded || p.st == .done) then (a, "quiescent")
    else (a, s!"not-quiescent ok={a.ok} {describe a 0}")
  | ["ev", kind, t, x, y] =>
    match nat? t, int? x, int? y with
    | some t, some x, some y =>
      let xn := x.toNat
      let s := a.cs.base
      match kind with
      | "startcall" =>
        if s.started then ({ a with lastCall := 1, startFired := false }, "ok")
        else accept ((fire a (.ctx .startBarrier)).map (fun a' => { a' with lastCall := 1, startFired := true })) a "start: barrier not enabled" t
      | "start" =>
        if x = 0 then
          if a.startFired && s.mm == .out && s.started && s.token then ({ a with lastCall := 0 }, "ok") else reject a "start returned 0 but the model did not start" t
        else if !a.startFired then ({ a with lastCall := 0 }, "ok") else reject a "start returned 1 but the model started" t
      | "waitcall" => ({ a with lastCall := 2 }, "ok")
      | "waitret" =>
        if x < 0 then
          if s.started == false then ({ a with lastCall := 0 }, "ok") else reject a "wait was refused on a started context" t
        else
          match fire a (.ctx .sawZero) with
          | none => reject a "wait returned but the master cannot have read 0" t
          | some a1 =>
            match workerLeaves a1 with
            | none => reject a1 "wait returned but a worker cannot have left the loop" t
            | some a2 => accept ((fireAll a2 [.ctx .barrier, .ctx .waitReturn]).map (fun a' => { a' with lastCall := 0 })) a2 "barrier/return not enabled" t
      | "tpwaitcall" =>
        match fire a (.ctx (.tpWaitBegin xn)) with
        | some a' => ({ a' with tpWaitOk := true }, "ok")
        | none => ({ a with tpWaitOk := false }, "ok")
      | "tpwaitret" =>
        if y < 0 then
          if !a.tpWaitOk then (a, "ok") else reject a "taskpool_wait was refused but the model accepted the call" t
        else if !a.tpWaitOk then reject a "taskpool_wait ran but the model refuses the call" t
        else accept (fire a (.ctx .tpWaitReturn)) a "taskpool_wait returned but the taskpool is not terminated" t
      | "test" => if (decide (s.active = 0)) == (x != 0) then (a, "ok") else reject a s!"test returned {x}" t
      | "active" => if s.active = x then (a, "ok") else reject a s!"active_taskpools observed {x}" t
      | "add" => accept (fire a (.ctx (.addCall t xn))) a s!"add {xn} not enabled" t
      | "addret" =>
        match a.cs.base.subs[t]? with
        | some (.startup _) => accept (fire a (.ctx (.addReturn t))) a "add return not enabled" t
        | _ => reject a "add returned before the increment" t
      | "rmw" => accept (rmw a t) a "no transition of this thread modifies active_taskpools now" t
      | "cb" =>
        if ((s.nests[t]?).getD []).head? == some xn then (a, "ok")     -- callback of a compound, nested in its last member's callback
        else
        match s.subs[t]?, (s.tps[xn]?).map (fun p => p.early) with
        | some (.adding q), some true =>
          if q = xn then accept (fire a (.ctx (.earlyCb t))) a "early callback not enabled" t else reject a "callback of another taskpool inside add" t
        | _, _ =>
          let a0 := finishInternal a t
          accept (fire a0 (.ctx (.detect t xn))) a0 s!"completion callback of {xn} not enabled" t
      | "cbe" =>
        if ((s.nests[t]?).getD []).head? == some xn then (a, "ok")
        else
        match s.bases[t]?, (s.tps[xn]?).map (fun p => p.st) with
        | some (.cb p), _ => if p = xn then (a, "ok") else reject a "end of the callback of another taskpool" t
        | _, some TpSt.earlyCb => (a, "ok")
        | _, _ => reject a "callback end but the thread is not in that callback" t
      | "mcb" =>
        match compIndexOfSelf a xn with
        | some c =>
          let a0 := finishInternal a t
          let comp := (a0.cs.comps[c]?).getD { self := 0, members := [] }
          -- the member that completed: a nested compound whose termination was just detected on this thread, or a leaf
          match (comp.members[comp.completed]?).bind (fun m => compIndexOfSelf a0 m) with
          | some c' => accept (fire a0 (.compCb t c c')) a0 s!"callback of the nested compound member not enabled" t
          | none =>
            let cand := comp.members.filter (fun m => match a0.cs.base.tps[m]? with
              | some p => p.st == .added && p.ended == p.total && p.pend == 0
              | none => false)
            match cand with
            | m :: _ => accept (fire a0 (.memberCb t c m)) a0 s!"member callback of {m} not enabled" t
            | [] => reject a0 "member callback but no member has all its tasks ended" t
        | none => reject a "member callback of an unknown compound" t
      | "tb" =>
        let a0 := finishInternal a t
        accept (fire a0 (.ctx (.taskBegin t xn))) a0 s!"task begin of {xn} not enabled" t
      | "te" =>
        match s.bases[t]? with
        | some (.task p) => if p = xn then accept (fire a (.ctx (.taskEnd t))) a "task end not enabled" t else reject a "task end of another taskpool" t
        | _ => reject a "task end but the thread is not in a task" t
      | _ => (a, "bad-op")
    | _, _, _ => (a, "bad-op")
  | _ => (a, "bad-op")

def main : IO Unit := Proto.run (CAcc.fresh 1) stepD
