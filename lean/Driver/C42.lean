import ParsecVerif.Base.Proto
import ParsecVerif.Model.Profile
/-
  C42 driver.  Replays the harness transcript:
  * the writer-side ops (`open`, `key`, `stream`, `sinfo`, `ev`, `write`, `close`) build the model
    trace of every process (what the harness asked the real library to write);
  * `file` / `hexbuf` carry the bytes of the real files;
  * the reader-side ops print what the model reader `decode` returns from those bytes, in the
    format the harness uses for the real dbpreader;
  * `check f` evaluates, on the real bytes: WellFormed of the decoded trace, decoded = written
    (timestamps ignored), and `layoutAtB` (the file is a placement of the model writer's buffers).
-/
open ParsecVerif ParsecVerif.Proto ParsecVerif.Profile

def hexVal (c : Char) : Option Nat :=
  if '0' ≤ c ∧ c ≤ '9' then some (c.toNat - 48)
  else if 'a' ≤ c ∧ c ≤ 'f' then some (c.toNat - 87)
  else if 'A' ≤ c ∧ c ≤ 'F' then some (c.toNat - 55)
  else none

def unhexGo : List Char → List Nat → Option (List Nat)
  | [], acc => some acc.reverse
  | [_], _ => none
  | a :: b :: r, acc =>
    match hexVal a, hexVal b with
    | some x, some y => unhexGo r ((16 * x + y) :: acc)
    | _, _ => none

def unhex (s : String) : Option Bytes := if s = "-" then some [] else unhexGo s.toList []

/-- a C string argument: no zero byte. -/
def unhexStr (s : String) : Option Bytes :=
  match unhex s with
  | some b => if b.all (· ≠ 0) then some b else none
  | none => none

def hexDigit (n : Nat) : Char := if n < 10 then Char.ofNat (48 + n) else Char.ofNat (87 + n)

def hex (b : Bytes) : String :=
  if b.isEmpty then "-" else String.ofList (b.foldr (fun x acc => hexDigit (x / 16) :: hexDigit (x % 16) :: acc) [])

structure PStream where
  hrid : Bytes
  infos : List Info      -- newest first (parsec_profiling_stream_add_information prepends)
  events : List Event    -- newest first
  infoBytes : Nat

structure Proc where
  rank : Nat
  B : Nat
  hrid : Bytes
  keys : List KeyDef
  streams : List PStream
  started : Bool

structure St where
  cur : Option Proc := none
  written : List Trace := []
  files : List (List Bytes) := []       -- per file: chunks, newest first
  reading : Bool := false
  bytes : List Bytes := []
  decoded : List (Option Trace) := []
  errs : List Int := []
  gdict : List KeyDef := []
  maps : List (List Nat) := []

/-- `parsec_profiling_add_dictionary_keyword`: a name already present returns its keys. -/
def findName (name : Bytes) : List KeyDef → Nat → Option Nat
  | [], _ => none
  | k :: ks, i => if k.name = name then some i else findName name ks (i + 1)

def traceOf (p : Proc) : Trace :=
  ⟨p.B, p.hrid, p.rank, p.keys,
   (p.streams.filter (fun s => p.started && !s.events.isEmpty)).map
     (fun s => ⟨s.hrid, s.infos, s.events.reverse⟩)⟩

def zeroTs (t : Trace) : Trace :=
  { t with streams := t.streams.map (fun s => { s with events := s.events.map (fun e => { e with ts := 0 }) }) }

def setAt {α : Type} (l : List α) (i : Nat) (f : α → α) : List α :=
  l.mapIdx (fun j x => if j = i then f x else x)

/-- the reader keeps `attributes + strlen(attributes) - 6` (for shorter attributes this points
    into the tail of the name field, which precedes it in the record). -/
def attr6 (k : KeyDef) : Bytes :=
  cstr ((fixstr 64 k.name ++ fixstr 128 k.attrs).drop (64 + (cstr (fixstr 128 k.attrs)).length - 6))

def showEvent (e : Event) : String :=
  s!"{e.key}.{e.flags}.{e.tp}.{e.id}." ++
    (if e.flags % 2 = 1 then (if e.info.isEmpty then "e" else hex e.info) else "-")

def mono : List Event → Nat → Bool
  | [], _ => true
  | e :: es, last => if e.ts < last then false else mono es e.ts

def fileOk (s : St) (f : Nat) : Option Trace :=
  if s.reading ∧ s.errs[f]? = some 0 then (s.decoded[f]?).join else none

def placeOf (f : Bytes) (t : Trace) : Option Place :=
  match decHeader f with
  | none => none
  | some h =>
    match readCounted decThr tyThread h.bufSize f (f.length + 1) h.thrOff h.nbThreads with
    | none => none
    | some thrs =>
      some ⟨followChain t.bufSize f (f.length + 1) h.dictOff, followChain t.bufSize f (f.length + 1) h.thrOff,
            thrs.map (fun th => followChain t.bufSize f (f.length + 1) th.firstOff)⟩

def b2n (b : Bool) : Nat := if b then 1 else 0

def layoutLine : String :=
  s!"bufhdr={bufHdrSize} ev={evBase} keyfixed={keyFixed} keytail={keyTail} thrfixed={thrFixed} infotail={infoTail} " ++
  s!"filehdr={fileHdrSize} hdr=8,40,48,52,180,184,192,200,208,212,216 buf=8,16,24 evf=0,2,4,8,16 " ++
  "keyf=0,64,192,196 thrf=0,8,16,144,152,156"

def doRead (s : St) : St × String :=
  let bytes := s.files.map (fun chunks => chunks.reverse.flatten)
  let dec := bytes.map decode
  match dec with
  | [] => (s, "rejected")
  | d0 :: _ =>
    let errs : List Int := dec.mapIdx (fun i d =>
      match d0, d with
      | some t0, some t => if i = 0 then 0 else if t.hrid ≠ t0.hrid then -5 else if t.bufSize ≠ t0.bufSize then -6 else 0
      | _, _ => -99)
    let (g, maps) := (dec.zip errs).foldl (fun (acc : List KeyDef × List (List Nat)) de =>
      match de with
      | (some t, 0) => let r := mergeDict acc.1 t.dict; (r.1, acc.2 ++ [r.2])
      | _ => (acc.1, acc.2 ++ [[]])) ([], [])
    ({ s with reading := true, bytes := bytes, decoded := dec, errs := errs, gdict := g, maps := maps },
     s!"nfiles={dec.length} errs={",".intercalate (errs.map toString)} gdict={g.length}")

def doSinfo (s : St) (checked : Bool) (si k v : String) : St × String :=
    match s.cur, int? si, unhexStr k, unhexStr v with
    | some p, some si, some k, some v =>
      if si < 0 ∨ si.toNat ≥ p.streams.length then (s, "rejected") else
      match p.streams[si.toNat]? with
      | none => (s, "rejected")
      | some st =>
        if checked ∧ st.infoBytes + 11 + k.length + v.length ≥ avail p.B then (s, "rejected") else
        ({ s with cur := some { p with streams := setAt p.streams si.toNat (fun st =>
            { st with infos := ⟨k, v⟩ :: st.infos, infoBytes := st.infoBytes + 11 + k.length + v.length }) } }, "ok")
    | _, _, _, _ => (s, "rejected")

def step (s : St) : List String → St × String
  | ["case", _] => ({}, "ok")
  | ["layout"] => (s, layoutLine)
  | ["open", rank, pages, hr] =>
    match int? rank, int? pages, unhexStr hr with
    | some r, some pg, some h =>
      if s.cur.isSome ∨ s.files.length ≥ 16 ∨ pg < 1 ∨ pg > 16 ∨ r < 0 then (s, "rejected") else
      let B := pg.toNat * 4096
      ({ s with cur := some ⟨r.toNat, B, h, [⟨[78, 47, 65], [102, 105, 108, 108, 58, 35, 48, 48, 48, 48, 48, 48], [], 0⟩], [], false⟩,
                files := s.files ++ [[]] }, s!"ok B={B}")
    | _, _, _ => (s, "rejected")
  | ["key", name, attrs, il, conv] =>
    match s.cur, unhexStr name, unhexStr attrs, int? il with
    | some p, some n, some a, some il =>
      match (if conv = "null" then some [] else unhexStr conv) with
      | none => (s, "rejected")
      | some c =>
        if il < 0 ∨ il ≥ 2147483648 ∨ 203 + c.length ≥ avail p.B ∨ p.keys.length ≥ 127 then (s, "rejected") else
        match findName n p.keys 0 with
        | some i => (s, s!"{2 * i} {2 * i + 1}")
        | none =>
          let i := p.keys.length
          ({ s with cur := some { p with keys := p.keys ++ [⟨n, a, c, il.toNat⟩] } }, s!"{2 * i} {2 * i + 1}")
    | _, _, _, _ => (s, "rejected")
  | ["ginfo", k, v] =>
    match s.cur, unhexStr k, unhexStr v with
    | some _, some _, some _ => (s, "ok")
    | _, _, _ => (s, "rejected")
  | ["stream", hr] =>
    match s.cur, unhexStr hr with
    | some p, some h =>
      if p.streams.length ≥ 64 then (s, "rejected") else
      ({ s with cur := some { p with streams := p.streams ++ [⟨h, [], [], 156⟩] } }, toString p.streams.length)
    | _, _ => (s, "rejected")
  | ["sinfo", si, k, v] => doSinfo s true si k v
  | ["sinfo!", si, k, v] => doSinfo s false si k v
  | ["ev", si, key, flags, tp, id, pl] =>
    match s.cur, int? si, int? key, int? flags, nat? tp, nat? id with
    | some p, some si, some key, some flags, some tp, some id =>
      if p.started ∨ si < 0 ∨ si.toNat ≥ p.streams.length ∨ key < 2 ∨ key.toNat ≥ 2 * p.keys.length ∨ flags < 0 ∨
         flags > 65535 ∨ flags % 2 = 1 ∨ tp > 4294967295 then (s, "rejected") else
      match p.keys[key.toNat / 2]? with
      | none => (s, "rejected")
      | some kd =>
        let has := pl ≠ "-"
        match (if pl = "e" ∨ pl = "-" then some [] else unhex pl) with
        | none => (s, "rejected")
        | some payload =>
          if has ∧ payload.length ≠ kd.infoLen then (s, "rejected") else
          if 24 + (if has then kd.infoLen else 0) ≥ avail p.B then (s, "rejected") else
          let e : Event := ⟨key.toNat, flags.toNat + (if has then 1 else 0), tp, id % 18446744073709551616, 0, payload⟩
          ({ s with cur := some { p with streams := setAt p.streams si.toNat (fun st => { st with events := e :: st.events }) } }, "ok")
    | _, _, _, _, _, _ => (s, "rejected")
  | ["write", n] =>
    match s.cur, int? n with
    | some p, some n =>
      if p.started ∨ n < 1 ∨ n > 16 then (s, "rejected") else
      ({ s with cur := some { p with started := true } },
       s!"ok events={(p.streams.map (fun st => st.events.length)).sum} errors=0")
    | _, _ => (s, "rejected")
  | ["close"] =>
    match s.cur with
    | some p => ({ s with cur := none, written := s.written ++ [traceOf p] }, "ok 0 0")
    | none => (s, "rejected")
  | ["file", _, _] => (s, "ok")
  | ["hexbuf", f, h, nz] =>
    match nat? f, unhex h, nat? nz with
    | some f, some b, some nz => ({ s with files := setAt s.files f (fun chunks => (b ++ zeros nz) :: chunks) }, "ok")
    | _, _, _ => (s, "bad-op")
  | ["read"] =>
    if s.cur.isSome ∨ s.reading ∨ s.files.isEmpty then (s, "rejected") else doRead s
  | ["rfile", f] =>
    match nat? f with
    | some f =>
      match fileOk s f with
      | some t => (s, s!"rank={t.rank} hrid={hex t.hrid} nthreads={t.streams.length} ndict={t.dict.length}")
      | none => (s, "rejected")
    | none => (s, "rejected")
  | ["rdict", f] =>
    match nat? f with
    | some f =>
      match fileOk s f, s.maps[f]? with
      | some _, some m =>
        (s, "[" ++ " ".intercalate (m.map (fun g =>
          match s.gdict[g]? with
          | some k => s!"g{g}:{hex k.name}:{hex (attr6 k)}:{k.infoLen}:{hex k.conv}"
          | none => s!"g{g}:?")) ++ "]")
      | _, _ => (s, "rejected")
    | none => (s, "rejected")
  | ["rthreads", f] =>
    match nat? f with
    | some f =>
      match fileOk s f with
      | some t =>
        (s, "[" ++ " ".intercalate (t.streams.map (fun st =>
          s!"{hex st.hrid}:{st.events.length}:" ++ ",".intercalate (st.infos.map (fun i => s!"{hex i.key}={hex i.value}")))) ++ "]")
      | none => (s, "rejected")
    | none => (s, "rejected")
  | ["revents", f, t] =>
    match nat? f, int? t with
    | some f, some ti =>
      match fileOk s f with
      | some t =>
        if ti < 0 then (s, "rejected") else
        match t.streams[ti.toNat]? with
        | some st =>
          (s, "[" ++ " ".intercalate (st.events.map showEvent) ++ s!"] n={st.events.length} mono={b2n (mono st.events 0)}")
        | none => (s, "rejected")
      | none => (s, "rejected")
    | _, _ => (s, "rejected")
  | ["check", f] =>
    match nat? f with
    | some f =>
      match fileOk s f, s.bytes[f]?, s.written[f]? with
      | some t, some fb, some w =>
        let wf := decide (WellFormed t) && decide (fb.length < 9223372036854775808)
        let same := decide (zeroTs t = w)
        let lay := match placeOf fb t with
          | some p => layoutAtB fb t p
          | none => false
        (s, s!"wf={b2n wf} same={b2n same} layout={b2n lay}")
      | _, _, _ => (s, "rejected")
    | none => (s, "rejected")
  | ["endread"] =>
    if s.reading then ({ s with reading := false }, "ok") else (s, "rejected")
  | _ => (s, "bad-op")

def main : IO Unit := Proto.run ({} : St) step
