import ParsecVerif.Base.Proto
import ParsecVerif.Model.CommEngine
open ParsecVerif ParsecVerif.Proto ParsecVerif.CommEngine

/-- Driver state: the engine, the indices of the open pass of the progress loop (all, and those still to be
    served), and the `next_tag` variables. -/
structure DS where
  s : St
  pend : List Loc := []
  todo : List Nat := []
  serving : Option Nat := none
  tagMax : Nat := 0
  tagVal : Nat := 0

def triples : List Nat → Option (List (Nat × Nat × Nat))
  | [] => some []
  | a :: b :: c :: rest => (triples rest).map (fun l => (a, b, c) :: l)
  | _ => none

def kindOf : String → Option DKind
  | "P" => some .putS | "G" => some .getR | "g" => some .getS | "p" => some .putR | _ => none

def step (d : DS) : List String → DS × String
  | "init" :: cap :: quota :: _nt :: rest =>
    match nat? cap, nat? quota, (nats? rest).bind triples with
    | some cap, some quota, some cfg =>
      if cfg.all (fun (_, n, t) => decide (1 ≤ t ∧ t ≤ n)) ∧ quota ≤ cap ∧ 1 ≤ quota then
        let s := init cap quota cfg
        ({ s := s }, s.show)
      else (d, "rejected")
    | _, _, _ => (d, "bad-op")
  | ["inst", k, id] =>
    match kindOf k, nat? id with
    | some k, some id =>
      if (⟨id, k⟩ : Dyn) ∈ d.s.issued then (d, "reject-dup") else
      let s := d.s.install { id := id, kind := k }
      ({ d with s := s }, s.show)
    | _, _ => (d, "bad-op")
  | "test" :: rest =>
    match nats? rest with
    | some c =>
      if d.pend ≠ [] ∨ d.serving.isSome then (d, "reject-open-pass")
      else if ¬ d.s.okTest c then (d, "reject")
      else if ¬ passOkB d.s (c.map d.s.locate) then (d, "reject-loc")
      else
        let descr := " ".intercalate (c.map (fun pos => ((d.s.slotAt pos).map Slot.showCb).getD "?"))
        ({ d with s := d.s.test c, pend := c.map d.s.locate, todo := c }, if c.isEmpty then "-" else descr)
    | none => (d, "bad-op")
  | ["serve", pos] =>
    match nat? pos with
    | some pos =>
      if d.todo.head? ≠ some pos ∨ d.serving.isSome then (d, "reject-order")
      else
        let s := d.s.serve pos
        ({ d with s := s, todo := d.todo.tail, serving := some pos }, s!"R={s.dyn.nrecv}")
    | none => (d, "bad-op")
  | ["done", pos] =>
    match nat? pos with
    | some pos =>
      if d.serving ≠ some pos then (d, "reject-order")
      else
        let r := match d.s.slotAt pos with
          | some sl => (match d.s.locate pos, sl.cb with
                        | .win _ _, .am tg r => s!"s{tg}:{r}"
                        | _, _ => "-")
          | none => "?"
        ({ d with s := d.s.done pos, serving := none }, r)
    | none => (d, "bad-op")
  | ["finish"] =>
    if d.todo ≠ [] ∨ d.serving.isSome then (d, "reject-unserved")
    else
      let s := d.s.finish d.pend
      ({ d with s := s, pend := [] }, s.show)
  | ["tagcfg", m, v] =>
    match nat? m, nat? v with
    | some m, some v => ({ d with tagMax := m, tagVal := v }, "ok")
    | _, _ => (d, "bad-op")
  | ["nexttag", k] =>
    match nat? k with
    | some k =>
      let r := nextTag d.tagMax d.tagVal k
      ({ d with tagVal := r.2 }, toString r.1)
    | none => (d, "bad-op")
  | _ => (d, "bad-op")

def main : IO Unit := Proto.run ({ s := init 0 0 [] } : DS) step
