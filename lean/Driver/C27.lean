import ParsecVerif.Base.Proto
import ParsecVerif.Model.Arena
open ParsecVerif ParsecVerif.Proto ParsecVerif.Arena

/-- `3,4,5` → [3,4,5]; `-` → [] -/
def parseList (s : String) : Option (List Nat) :=
  if s == "-" then some [] else
  (s.splitOn ",").mapM (fun w => if w.isEmpty then none else w.toNat?)

def kv? (key : String) (w : String) : Option String :=
  if w.startsWith (key ++ "=") then some (w.drop (key.length + 1)).toString else none

def parseOp (w : String) : Option Op :=
  let rest := (w.drop 1).toString
  match w.front, rest.toNat? with
  | 'a', some n => some (.alloc n)
  | 'r', some k => some (.release k)
  | _, _ => none

structure Cur where
  ok    : Bool
  cfg   : Cfg
  offs  : List Nat
  s     : State
  pool  : Pool.PState
  pitem : Nat

def Cur.empty : Cur := ⟨false, ⟨⟨1, 2, 0⟩, INF, INF, []⟩, [0], init [], Pool.pinit 0, 0⟩

def addrOf (c : Cur) (id : Nat) : Nat := 4096 + c.offs.getD (id % c.offs.length) 0

def showIds (l : List Chunk) : String := showList (l.map (·.id))

def showRes (c : Cur) : Res → String
  | .got req ch fresh =>
    let a := addrOf c ch.id
    s!"ok id={ch.id} n={req} {if fresh then "fresh" else "reused"} doff={dataAddr c.cfg.L a - a} sz={chunkSize c.cfg.L ch.count}"
  | .fail => "fail"
  | .cached ch => s!"cached id={ch.id}"
  | .freed ch => s!"freed id={ch.id}"
  | .rejected => "rejected"

def shared (s : State) : String := s!"u={s.used} r={s.released} c={showIds s.cache}"

def pcName (th : Thread) : String :=
  match th.pc with
  | .idle => if th.todo.isEmpty then "done" else "idle"
  | .a1 _ => "rel" | .r1 _ => "rel"
  | .a2 => "used" | .a3 => "used" | .b0 _ => "used" | .b1 _ => "used" | .f _ => "used"
  | .r2 _ => "push"

/-- the cooperative scheduler parks before the atomic operations on `used` / `released` and between
    operations; LIFO operations are not switch points (H-LIFO): a harness step from `r1` also pushes -/
def coarseStep (cfg : Cfg) (s : State) (t : Nat) : State :=
  let s1 := step cfg s t
  match s1.thr[t]? with
  | some th => match th.pc with
    | .r2 _ => step cfg s1 t
    | _ => s1
  | none => s1

def lastRes (c : Cur) (before after : State) (t : Nat) : String :=
  match before.thr[t]?, after.thr[t]? with
  | some b, some a => if a.out.length > b.out.length then (a.out.head?.map (showRes c)).getD "-" else "-"
  | _, _ => "-"

def showPools (p : Pool.PState) : String :=
  showList (p.pools.map fun l => showList (l.map (·.id))) ++ " nb=" ++ showList p.nbElt

def stepLine (c : Cur) : List String → Cur × String
  | "case" :: _ :: elem :: align :: maxmem :: maxcache :: n :: fail :: offs :: hdr :: [] =>
    match nat? elem, nat? align, nat? maxmem, nat? maxcache, nat? n,
          (kv? "fail" fail).bind parseList, (kv? "offs" offs).bind parseList, (kv? "hdr" hdr).bind nat? with
    | some elem, some align, some maxmem, some maxcache, some n, some fail, some offs, some hdr =>
      if n > 16 ∨ offs.isEmpty ∨ offs.any (fun o => o % 8 ≠ 0 ∨ o ≥ 4096) ∨ align > 4096 then ({ c with ok := false }, "bad-op") else
      match construct elem align maxmem maxcache with
      | none => ({ c with ok := false }, "err bad-param")
      | some (mu, mr) =>
        let cfg : Cfg := ⟨⟨elem, align, hdr⟩, mu, mr, fail⟩
        ({ c with ok := true, cfg := cfg, offs := offs, s := init (List.replicate n []) }, s!"ok maxused={mu} maxrel={mr}")
    | _, _, _, _, _, _, _, _ => ({ c with ok := false }, "bad-op")
  | ["seq", t, op] =>
    match c.ok, nat? t, parseOp op with
    | true, some t, some op =>
      match c.s.thr[t]? with
      | none => (c, "bad-op")
      | some th =>
        if th.pc != .idle ∨ !th.todo.isEmpty then (c, "bad-op") else
        let s0 := { c.s with thr := c.s.thr.set t { th with todo := [op] } }
        let s1 := doOp c.cfg s0 t
        ({ c with s := s1 }, s!"{lastRes c s0 s1 t} {shared s1}")
    | _, _, _ => (c, "bad-op")
  | "prog" :: t :: ops =>
    match c.ok, nat? t, ops.mapM parseOp with
    | true, some t, some ops =>
      match c.s.thr[t]? with
      | none => (c, "bad-op")
      | some th =>
        if th.pc != .idle ∨ ops.length > 64 then (c, "bad-op") else
        ({ c with s := { c.s with thr := c.s.thr.set t { th with todo := ops } } }, "ok")
    | _, _, _ => (c, "bad-op")
  | ["step", t] =>
    match c.ok, nat? t with
    | true, some t =>
      match c.s.thr[t]? with
      | none => (c, "bad-op")
      | some _ =>
        let s1 := coarseStep c.cfg c.s t
        let name := (s1.thr[t]?.map pcName).getD "none"
        ({ c with s := s1 }, s!"{name} {shared s1} res={lastRes c c.s s1 t}")
    | _, _ => (c, "bad-op")
  | ["end"] =>
    if !c.ok then (c, "bad-op") else
    (c, s!"{shared c.s} held={showList (c.s.thr.map fun th => showIds th.held)} mallocs={c.s.mallocs}")
  | ["pool", _, n, asked, item] =>
    match nat? n, nat? asked, (kv? "item" item).bind nat? with
    | some n, some asked, some item =>
      if n < 1 ∨ n > 16 then (c, "bad-op") else
      ({ c with pool := Pool.pinit n, pitem := item }, s!"ok eltsize={Pool.eltSize asked item}")
    | _, _, _ => (c, "bad-op")
  | ["pa", t] =>
    match nat? t with
    | some t =>
      match Pool.pstep c.pool (.alloc t) with
      | (p, .got e fresh) => ({ c with pool := p }, s!"ok id={e.id} owner={e.owner} {if fresh then "fresh" else "reused"}")
      | (_, _) => (c, "rejected")
    | none => (c, "bad-op")
  | ["pf", id] =>
    match nat? id with
    | some id =>
      match Pool.pstep c.pool (.free id) with
      | (p, .freed o) => ({ c with pool := p }, s!"ok owner={o}")
      | (_, _) => (c, "rejected")
    | none => (c, "bad-op")
  | ["pend"] => (c, showPools c.pool)
  | _ => (c, "bad-op")

def main : IO Unit := Proto.run Cur.empty stepLine
