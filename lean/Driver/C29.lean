import ParsecVerif.Base.Proto
import ParsecVerif.Model.Future
open ParsecVerif ParsecVerif.Proto ParsecVerif.Future

inductive Cur
  | none
  | base (countable : Bool) (s : BState)
  | dc (cfg : Cfg) (s : DState)

def splitProgs (ws : List String) : List (List String) :=
  ws.foldr (fun w acc => if w = "/" then [] :: acc else match acc with | p :: r => (w :: p) :: r | [] => [[w]]) [[]]

def parseBOp (countable : Bool) (w : String) : Option BOp :=
  if countable then
    match w with | "S" => some (.set 0) | "G" => some .get | "R" => some .ready | _ => none
  else
    match w with
    | "G" => some .get | "R" => some .ready
    | _ => if w.startsWith "S" then
             match (w.drop 1).toString.toNat? with
             | some v => if v ≤ 60 then some (.set v) else none
             | none => none
           else none

def parseDOp (w : String) : Option DOp :=
  if w = "F" then some .fulfil
  else if w.startsWith "T" then
    match (w.drop 1).toString.toNat? with
    | some r => if r ≤ 30 then some (.trig r) else none
    | none => none
  else none

def parseProgs {α} (f : String → Option α) (ws : List String) : Option (List (List α)) :=
  let ps := splitProgs ws
  if ps.length > 16 ∨ ps.any (fun p => p.length > 8) then none else ps.mapM (fun p => p.mapM f)

/-- same rule as `acceptable()` of the harness -/
def progOk (countable : Bool) (p : List BOp) : Bool :=
  let afterG := p.dropWhile (fun o => o != .get)
  afterG.all (fun o => match o with | .set _ => false | _ => true) &&
  (countable || p.all (fun o => o != .set 0))

def nSets (ps : List (List BOp)) : Nat := (ps.map fun p => p.countP fun o => match o with | .set _ => true | _ => false).sum
def nGets (ps : List (List BOp)) : Nat := (ps.map fun p => p.countP fun o => o == .get).sum

def acceptable (countable : Bool) (count : Int) (ps : List (List BOp)) : Bool :=
  ps.all (progOk countable) &&
  (nGets ps == 0 || (if countable then decide (1 ≤ count ∧ count ≤ (nSets ps : Int)) else decide (1 ≤ nSets ps)))

def b01 (b : Bool) : String := if b then "1" else "0"

def bpcName : BPc → String
  | .idle => "idle" | .cas _ => "cas" | .wmb _ => "fence" | .dec _ => "rmw" | .spin => "spin" | .rmb => "fence" | .done => "done"

def dpcName : DPc → String
  | .idle => "idle" | .lockTop f _ => s!"lock{f}" | .unlockTop _ _ => "fence" | .plock _ => "lock0"
  | .lockScan i _ => s!"lock{i + 1}" | .unlockScan _ _ => "fence" | .punlockRet _ _ => "fence" | .punlockNew _ _ => "fence"
  | .done => "done"

def bshared (countable : Bool) (s : BState) : String :=
  if countable then s!"c={s.sh.count} st={b01 s.sh.compl} cb={s.sh.cb}"
  else s!"d={s.sh.data} st={b01 s.sh.compl} cb={s.sh.cb}"

def futStr (fu : Fut) : String := s!"{fu.shape}:{b01 fu.trig}{b01 fu.compl}{b01 fu.lock}:{fu.data}:{fu.cb}"
def dshared (s : DState) : String := " ".intercalate (s.futs.map futStr) ++ s!" p={s.pending.length}"

def bopName : BOp → String | .set _ => "S" | .get => "G" | .ready => "R"
def dopName : DOp → String | .trig _ => "T" | .fulfil => "F"

def bret (th : BThread) : String :=
  "[" ++ " ".intercalate ((th.res.map fun p => match p.1 with | .set _ => "S" | o => s!"{bopName o}{p.2}") ++ th.todo.map fun o => bopName o ++ "?") ++ "]"
def dret (th : DThread) : String :=
  "[" ++ " ".intercalate ((th.res.map fun p => s!"{dopName p.1}{p.2}") ++ th.todo.map fun o => dopName o ++ "?") ++ "]"

/-- drain the deferred sets (what the harness does before it releases the futures) -/
def drain : Nat → DState → DState
  | 0, s => s
  | n + 1, s =>
    match s.pending with
    | [] => s
    | (f, v) :: rest => drain n (modFut { s with pending := rest } f fun fu => { fu with compl := true, data := v })

def step (c : Cur) : List String → Cur × String
  | "case" :: _ :: "base" :: ws =>
    match parseProgs (parseBOp false) ws with
    | some ps =>
      if acceptable false 0 ps then
        let s := binit 0 ps
        (.base false s, s!"ok n={ps.length} {bshared false s}")
      else (c, "rejected")
    | none => (c, "bad-op")
  | "case" :: _ :: "count" :: cnt :: ws =>
    match int? cnt, parseProgs (parseBOp true) ws with
    | some k, some ps =>
      if k < -5 ∨ k > 40 then (c, "bad-op")
      else if acceptable true k ps then
        let s := binit k ps
        (.base true s, s!"ok n={ps.length} {bshared true s}")
      else (c, "rejected")
    | _, _ => (c, "bad-op")
  | "case" :: _ :: "dc" :: b :: m :: am :: pre :: ws =>
    match nat? b, nat? m, nat? am, nat? pre, parseProgs parseDOp ws with
    | some b, some m, some am, some pre, some ps =>
      if b < 1 ∨ b > 30 ∨ m < 1 ∨ m > 8 ∨ pre > 1 then (c, "bad-op")
      else
        let cfg : Cfg := ⟨fun x => x % m, fun x => am.testBit x⟩
        let s := dinit b (pre == 1) ps
        (.dc cfg s, s!"ok n={ps.length} {dshared s}")
    | _, _, _, _, _ => (c, "bad-op")
  | ["step", t] =>
    match nat? t, c with
    | some t, .base k s =>
      let s' := bstep k s t
      (.base k s', s!"{(s'.thr[t]?.map fun th => bpcName th.pc).getD "none"} {bshared k s'}")
    | some t, .dc cfg s =>
      let s' := dstep cfg s t
      (.dc cfg s', s!"{(s'.thr[t]?.map fun th => dpcName th.pc).getD "none"} {dshared s'}")
    | _, _ => (c, "bad-op")
  | ["rets"] =>
    match c with
    | .base _ s => (c, " ".intercalate (s.thr.map bret))
    | .dc _ s => (c, " ".intercalate (s.thr.map dret))
    | .none => (c, "bad-op")
  | ["final"] =>
    match c with
    | .dc cfg s =>
      let s' := drain s.pending.length s
      (.dc cfg s', s!"nf={s'.futs.length} cb={showList (s'.futs.map (·.cb))}")
    | _ => (c, "bad-op")
  | _ => (c, "bad-op")

def main : IO Unit := Proto.run Cur.none step
