import ParsecVerif.Base.Proto
import ParsecVerif.Model.MaxHeap
import ParsecVerif.Model.HbBuffer
open ParsecVerif ParsecVerif.Proto
open ParsecVerif.MaxHeap (Task Tree Heap)

/-! line-protocol driver for C35: heap scripts (`case`, `hnew`, `hins`, `hrem`, `hsplit`) and buffer
    runs (`bcase … | policy`, `step t`, `rets`, `final`) -/

def NHEAPS : Nat := 8
def MAXID : Nat := 255

structure D where
  heap : MaxHeap.St
  buf : Option HbBuffer.State      -- the current `bcase`
  seq : Option HbBuffer.State      -- the current sequential buffer script (`bnew`), one thread

def showTask (x : Task) : String := s!"{x.prio}:{x.id}"

partial def showTree : Tree → String
  | .nil => "."
  | .node l x r => s!"({showTask x} {showTree l} {showTree r})"

def showHeap : Option Heap → String
  | none => "-"
  | some h => s!"{h.size} {h.prio} {showTree h.t}"

def inInt32 (p : Int) : Bool := decide (-2147483648 ≤ p ∧ p ≤ 2147483647)

def heapStep (d : D) (ws : List String) : D × String :=
  let s := d.heap
  match ws with
  | ["hnew", h] =>
    match nat? h with
    | some h => let r := MaxHeap.step s (.new h)
                ({ d with heap := r.1 }, if r.2 == .ok then "ok" else "rejected")
    | none => (d, "bad-op")
  | ["hins", h, p, i] =>
    match nat? h, int? p, nat? i with
    | some h, some p, some i =>
      if i > MAXID ∨ ¬ inInt32 p then (d, "bad-op") else
      let r := MaxHeap.step s (.ins h ⟨p, i⟩)
      ({ d with heap := r.1 }, if r.2 == .ok then "ok " ++ showHeap (MaxHeap.slot r.1 h) else "rejected")
    | _, _, _ => (d, "bad-op")
  | ["hrem", h] =>
    match nat? h with
    | some h =>
      let r := MaxHeap.step s (.rem h)
      ({ d with heap := r.1 },
        match r.2 with
        | .task x => showTask x ++ " " ++ showHeap (MaxHeap.slot r.1 h)
        | .null => "null"
        | _ => "rejected")
    | none => (d, "bad-op")
  | ["hsplit", h, g] =>
    match nat? h, nat? g with
    | some h, some g =>
      let r := MaxHeap.step s (.split h g)
      ({ d with heap := r.1 },
        match r.2 with
        | .task x => showTask x ++ " " ++ showHeap (MaxHeap.slot r.1 h) ++ " | " ++ showHeap (MaxHeap.slot r.1 g)
        | .null => "null"
        | _ => "rejected")
    | _, _ => (d, "bad-op")
  | _ => (d, "bad-op")

/-! ### buffer cases -/

def parseIds (s : String) : Option (List Nat) :=
  if s == "-" then some [] else
  (s.splitOn ",").mapM (fun w => if w.isEmpty then none else w.toNat?)

/-- split the words into groups at every `T` -/
def splitT : List String → List (List String) → List String → List (List String)
  | [], acc, cur => (cur :: acc).reverse
  | "T" :: r, acc, cur => splitT r (cur :: acc) []
  | w :: r, acc, cur => splitT r acc (cur ++ [w])

def taskOf (prios : List Int) (i : Nat) : Option Task :=
  if i = 0 then none else (prios[i - 1]?).map fun p => ⟨p, i⟩

def parseOp (prios : List Int) (w : String) : Option HbBuffer.Op :=
  match w.splitOn ":" with
  | ["o"] => some .pop
  | [k, d, ids] =>
    match d.toInt?, parseIds ids with
    | some d, some ids =>
      if ¬ inInt32 d ∨ d = -2147483648 ∨ ids.length > 16 then none else
      match ids.mapM (taskOf prios) with
      | some ring => if k == "a" then some (.pushAll ring d) else if k == "y" then some (.pushPrio ring d) else none
      | none => none
    | _, _ => none
  | _ => none

def parseThread (prios : List Int) (g : List String) : Option (List Task × List HbBuffer.Op) :=
  match g with
  | [] => none
  | o :: ops =>
    match parseIds o, ops.mapM (parseOp prios) with
    | some own, some ops =>
      match own.mapM (taskOf prios) with
      | some own => if ops.length ≤ 64 then some (own, ops) else none
      | none => none
    | _, _ => none

def policyOk (ws : List String) : Bool :=
  match ws.dropWhile (· ≠ "|") with
  | "|" :: "rng" :: _ :: _ => true
  | "|" :: "pct" :: s :: d :: _ =>
    match s.toNat?, d.toNat? with
    | some _, some d => decide (d ≥ 1)
    | _, _ => false
  | "|" :: "dfs" :: _ :: _ => true
  | "|" :: "replay" :: _ => true
  | _ => false

def parseB (ws : List String) : Option HbBuffer.State :=
  match ws with
  | "bcase" :: _ :: sz :: "P" :: rest =>
    match nat? sz with
    | none => none
    | some sz =>
      if sz < 1 ∨ sz > 16 then none else
      let pw := rest.takeWhile (· ≠ "S")
      match rest.dropWhile (· ≠ "S") with
      | "S" :: rest2 =>
        match splitT rest2 [] [] with
        | [] => none
        | sw :: groups =>
          match ints? pw, nats? sw with
          | some prios, some sl =>
            if prios.length < 1 ∨ prios.length > 63 ∨ ¬ prios.all inInt32 ∨ sl.length ≠ sz ∨ ¬ sl.all (· ≤ prios.length) then none else
            match groups.mapM (parseThread prios) with
            | some ths =>
              let used := sl.filter (· ≠ 0) ++ (ths.map (fun p => p.1.map (·.id))).flatten
              if groups.length ≥ 1 ∧ groups.length ≤ 16 ∧ used.Nodup then
                some (HbBuffer.init (sl.map (taskOf prios)) ths)
              else none
            | none => none
          | _, _ => none
      | _ => none
  | _ => none

def showSlots (l : List (Option Task)) : String :=
  showList (l.map fun o => match o with | none => 0 | some x => x.id)

def showIds (l : List Task) : String := ",".intercalate (l.map fun x => toString x.id)

def showRes : HbBuffer.Res → String
  | .unit => "ok" | .item none => "0" | .item (some x) => toString x.id | .rejected => "rej"

def kindOf (th : HbBuffer.Thread) : String :=
  if th.finished then "done" else if th.pc.isPark then "cas" else "run"

def sortIds (l : List Nat) : List Nat := l.mergeSort (· ≤ ·)

/-- run thread 0 until its program is finished -/
def runDone : Nat → HbBuffer.State → HbBuffer.State
  | 0, s => s
  | f + 1, s => if (HbBuffer.threadAt s 0).finished then s else runDone f (HbBuffer.step s 0)

def showCalls (l : List (Int × List Task)) : String :=
  " ".intercalate (l.map fun c => s!"{c.1}:{showIds c.2}")

/-- one API call of the sequential script -/
def seqOp (s : HbBuffer.State) (op : HbBuffer.Op) : HbBuffer.State × String :=
  let th := HbBuffer.threadAt s 0
  let s1 : HbBuffer.State := { s with thr := [{ th with todo := [op], rets := [] }] }
  let s2 := runDone 1000000 (HbBuffer.step s1 0)
  let up := showCalls (s2.mem.pcalls.drop s.mem.pcalls.length)
  match (HbBuffer.threadAt s2 0).rets.getLast? with
  | some .rejected => (s2, "rejected")
  | some .unit => (s2, s!"ok s={showSlots s2.mem.slots} up=[{up}]")
  | some (.item none) => (s2, s!"0 s={showSlots s2.mem.slots} up=[{up}]")
  | some (.item (some x)) => (s2, s!"{x.id} s={showSlots s2.mem.slots} up=[{up}]")
  | none => (s2, "stuck")

def seqStep (d : D) (ws : List String) : D × String :=
  match ws with
  | "bnew" :: sz :: "P" :: pw =>
    match nat? sz, ints? pw with
    | some sz, some prios =>
      if sz < 1 ∨ sz > 16 ∨ prios.length < 1 ∨ prios.length > 63 ∨ ¬ prios.all inInt32 then (d, "bad-op") else
      let all := (List.range prios.length).filterMap fun i => taskOf prios (i + 1)
      ({ d with seq := some (HbBuffer.init (List.replicate sz none) [(all, [])]) }, "ok")
    | _, _ => (d, "bad-op")
  | [k, dist, ids] =>
    match d.seq, dist.toInt?, parseIds ids with
    | some s, some dist, some ids =>
      if ¬ inInt32 dist ∨ dist = -2147483648 ∨ ids.length > 16 then (d, "bad-op") else
      let prios := ((HbBuffer.threadAt s 0).hand ++ s.mem.parent ++ s.mem.slots.filterMap id)
      -- the priority table is recovered from the tasks of the closed system
      match ids.mapM (fun i => prios.find? (·.id == i)) with
      | some ring =>
        if k == "ba" then let r := seqOp s (.pushAll ring dist); ({ d with seq := some r.1 }, r.2)
        else if k == "by" then let r := seqOp s (.pushPrio ring dist); ({ d with seq := some r.1 }, r.2)
        else (d, "bad-op")
      | none => (d, "bad-op")
    | _, _, _ => (d, "bad-op")
  | ["bo"] =>
    match d.seq with
    | some s => let r := seqOp s .pop; ({ d with seq := some r.1 }, r.2)
    | none => (d, "bad-op")
  | ["bt"] =>
    match d.seq with
    | some s =>
      let th := HbBuffer.threadAt s 0
      ({ d with seq := some { mem := { s.mem with parent := [], pcalls := [] }, thr := [{ th with hand := th.hand ++ s.mem.parent }] } }, "ok")
    | none => (d, "bad-op")
  | _ => (d, "bad-op")

def step (d : D) (ws0 : List String) : D × String :=
  let ws := ws0.takeWhile (· ≠ "|")
  match ws with
  | ["case", _] => (⟨MaxHeap.init NHEAPS, none, none⟩, "ok")
  | "bcase" :: _ =>
    match (if policyOk ws0 then parseB ws else none) with
    | some s => ({ d with buf := some s, seq := none }, "ok")
    | none => (d, "bad-op")
  | ["step", t] =>
    match nat? t, d.buf with
    | some t, some s =>
      let s' := HbBuffer.macroStep s t
      ({ d with buf := some s' }, s!"{kindOf (HbBuffer.threadAt s' t)} s={showSlots s'.mem.slots} pc={s'.mem.pcalls.length}")
    | _, _ => (d, "bad-op")
  | ["rets"] =>
    match d.buf with
    | some s => (d, "[" ++ " | ".intercalate (s.thr.map fun th => " ".intercalate (th.rets.map showRes)) ++ "]")
    | none => (d, "bad-op")
  | ["final"] =>
    match d.buf with
    | some s =>
      let pc := " ".intercalate (s.mem.pcalls.map fun c => s!"{c.1}:{showIds c.2}")
      let hands := " | ".intercalate (s.thr.map fun th => " ".intercalate ((sortIds (th.hand.map (·.id))).map toString))
      (d, s!"s={showSlots s.mem.slots} parent=[{pc}] hands=[{hands}]")
    | none => (d, "bad-op")
  | "hnew" :: _ | "hins" :: _ | "hrem" :: _ | "hsplit" :: _ => heapStep d ws
  | "bnew" :: _ | "ba" :: _ | "by" :: _ | "bo" :: _ | "bt" :: _ => seqStep d ws
  | _ => (d, "bad-op")

def main : IO Unit := Proto.run (⟨MaxHeap.init NHEAPS, none, none⟩ : D) step
