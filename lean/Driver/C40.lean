import ParsecVerif.Base.Proto
import ParsecVerif.Model.VpMap
open ParsecVerif ParsecVerif.Proto ParsecVerif.VpMap

/-- decode a token `=text` with %XX escapes -/
def hexNib (c : Char) : Option Nat := hexVal c

def pctDecode : List Char → Option (List Char)
  | [] => some []
  | '%' :: a :: b :: t =>
    match hexNib a, hexNib b, pctDecode t with
    | some x, some y, some r => some (Char.ofNat (16 * x + y) :: r)
    | _, _, _ => none
  | '%' :: _ => none
  | c :: t => (pctDecode t).map (c :: ·)

def strTok (w : String) : Option (List Char) :=
  match w.toList with
  | '=' :: t => pctDecode t
  | _ => none

/-- `NULL`/`-` = absent -/
def optTok (w : String) : Option (Option (List Char)) :=
  if w = "NULL" ∨ w = "-" then some none else (strTok w).map some

def natList? (w : String) : Option (List Nat) :=
  if w = "-" then some [] else (w.splitOn ",").mapM nat?

def showSet (c : CpuSet) : String :=
  "[" ++ " ".intercalate (c.bits.map toString ++ (match c.inf with | some k => [s!"{k}-"] | none => [])) ++ "]"

def showThr (t : Thr) : String :=
  s!"{t.nbcores}/{t.ht}/" ++ (match t.cpuset with | some c => showSet c | none => "null")

def showVp (v : Vp) : String := s!" | {v.length}:" ++ String.join (v.map fun t => " " ++ showThr t)

def showOutcome : Outcome → String
  | .ok vps total => s!"ok {vps.length} {total}" ++ String.join (vps.map showVp)
  | .negvp n t => s!"negvp {n} {t}"
  | .ub => "crash"
  | .fatal => "fatal"

def showBind : BindOut → String
  | .ok ts => "ok" ++ String.join (ts.map fun t => " " ++ showThr t)
  | .ub => "crash"
  | .fatal => "fatal"

def showBM : BMOut → String
  | .ok comm binds used => s!"ok comm={comm} bind={showList binds} used={showList used}"
  | .ub => "crash"

def fsOf (name : String) (content : Option (List Char)) : List Char → Option (List Char) :=
  fun p => if p = name.toList then content else none

def step (_ : Unit) : List String → Unit × String
  | ["case", _] => ((), "ok")
  | ["flat", r, sing, n] =>
    match nat? r, int? sing, int? n with
    | some r, some sing, some n =>
      if r = 0 then ((), "bad-op") else
      if n = -1 ∨ n ≥ 1 then ((), showOutcome (flat r sing n)) else ((), "rejected")
    | _, _, _ => ((), "bad-op")
  | ["hwloc", r, sing, socks, n] =>
    match nat? r, int? sing, natList? socks, int? n with
    | some r, some sing, some socks, some n =>
      if r = 0 then ((), "bad-op") else
      ((), showOutcome (hwlocInit ⟨r, sing, socks, fun _ => none⟩ n))
    | _, _, _, _ => ((), "bad-op")
  | ["bind", r, nbth, enc] =>
    match nat? r, nat? nbth, strTok enc with
    | some r, some nbth, some s =>
      if r = 0 then ((), "bad-op") else
      if nbth = 0 ∨ nbth > 4096 then ((), "rejected") else ((), showBind (parseBinding r nbth s))
    | _, _, _ => ((), "bad-op")
  | ["init", r, sing, socks, nb, spec, fc] =>
    match nat? r, int? sing, natList? socks, int? nb, optTok spec, optTok fc with
    | some r, some sing, some socks, some nb, some spec, some fc =>
      if r = 0 then ((), "bad-op") else
      if nb < 1 then ((), "rejected") else
      ((), showOutcome (vpmapInit ⟨r, sing, socks, fsOf "vpmap.in" fc⟩ spec nb))
    | _, _, _, _, _, _ => ((), "bad-op")
  | ["bmap", r, allowed, n, comm, enc, fc] =>
    match nat? r, natList? allowed, nat? n, int? comm, strTok enc, optTok fc with
    | some r, some allowed, some n, some comm, some s, some fc =>
      if r = 0 then ((), "bad-op") else
      if n > 4096 then ((), "rejected") else
      match parseBindMapTop r allowed n comm s (fsOf "bind.in" fc) with
      | .notfound => ((), "notfound")
      | .res o => ((), showBM o)
    | _, _, _, _, _, _ => ((), "bad-op")
  | ["dflt", r, allowed, sing, socks, nb, spec, fc] =>
    match nat? r, natList? allowed, int? sing, natList? socks, int? nb, optTok spec, optTok fc with
    | some r, some allowed, some sing, some socks, some nb, some spec, some fc =>
      if r = 0 then ((), "bad-op") else
      if nb < 1 then ((), "rejected") else
      match vpmapInit ⟨r, sing, socks, fsOf "vpmap.in" fc⟩ spec nb with
      | .ok vps _ =>
        match applyVpmap allowed vps with
        | .ok binds used => ((), s!"ok bind={showList binds} used={showList used}")
        | .hang => ((), "hang")
      | .negvp _ _ => ((), "rejected")
      | .ub => ((), "crash")
      | .fatal => ((), "fatal")
    | _, _, _, _, _, _, _ => ((), "bad-op")
  | _ => ((), "bad-op")

def main : IO Unit := Proto.run () step
