import ParsecVerif.Base.Proto
import ParsecVerif.Model.TermdetLocal
open ParsecVerif ParsecVerif.Proto ParsecVerif.TermdetLocal

/-- driver state: current machine state, number of steps executed, first out-of-protocol step -/
structure Cur where
  s : State
  n : Nat
  bad : Option Nat

def parseKind : Char → Option Kind
  | 'T' => some .T | 'A' => some .A | 'K' => some .K | _ => none

/-- op tokens: `R`  `T+3` `T-1`  `A+1` `A-2`  `ST4` `SA0`  `Q`  `pT2` `gA1` -/
def parseOp (w : String) : Option Op :=
  match w.toList with
  | ['R'] => some .ready
  | ['Q'] => some .state
  | 'S' :: 'T' :: r => (String.ofList r).toInt?.map .setT
  | 'S' :: 'A' :: r => (String.ofList r).toInt?.map .setA
  | 'T' :: '+' :: r => (String.ofList r).toNat?.map (fun n => .addT n)
  | 'T' :: '-' :: r => (String.ofList r).toNat?.map (fun n => .addT (-(n : Int)))
  | 'A' :: '+' :: r => (String.ofList r).toNat?.map (fun n => .addA n)
  | 'A' :: '-' :: r => (String.ofList r).toNat?.map (fun n => .addA (-(n : Int)))
  | 'p' :: c :: r => do let k ← parseKind c; let n ← (String.ofList r).toNat?; pure (.put k n)
  | 'g' :: c :: r => do let k ← parseKind c; let n ← (String.ofList r).toNat?; pure (.take k n)
  | _ => none

/-- split the words of the case line (after `case k`, before `|`) into scripts at `/` -/
def splitScripts (ws : List String) : List (List String) :=
  ws.foldr (fun w acc => if w = "/" then [] :: acc else match acc with
    | [] => [[w]]
    | a :: r => (w :: a) :: r) [[]]

def parkName (th : Thread) : String :=
  match th.pc with
  | .idle => if th.script.isEmpty then "done" else "idle"
  | .rCas1 => "cas:mon" | .rRetain => "rmw:rc"
  | .tFa _ => "rmw:nt" | .tInc _ => "rmw:npa" | .tDec _ => "rmw:npa" | .aFa _ => "rmw:npa"
  | .sCas _ _ => "cas:nt" | .aCas _ _ => "cas:npa"
  | .dCas2 _ => "cas:mon" | .dCas3 _ => "cas:mon" | .dRel _ => "rmw:rc"

def step' (c : Cur) : List String → Cur × String
  | "case" :: _ :: rest =>
    let body := rest.takeWhile (· ≠ "|")
    match (splitScripts body).mapM (fun sc => sc.mapM parseOp) with
    | some scripts =>
      if scripts.length ≥ 1 ∧ scripts.length ≤ 16 ∧ rest.contains "|" then
        (⟨init scripts, 0, none⟩, s!"ok n={scripts.length}")
      else (c, "bad-op")
    | none => (c, "bad-op")
  | ["step", t] =>
    match nat? t with
    | some t =>
      match c.s.ths[t]? with
      | some th0 =>
        if th0.done then (c, "bad-op") else
        let bad := if c.bad.isNone ∧ ¬ okStep c.s t then some c.n else c.bad
        let s' := step c.s t
        match s'.ths[t]? with
        | some th =>
          (⟨s', c.n + 1, bad⟩,
            s!"{parkName th} m={s'.sh.mon} nt={s'.sh.nt} npa={s'.sh.npa} cb={s'.sh.cb} rc={s'.sh.rc} ret={th.ret}")
        | none => (c, "bad-op")
      | none => (c, "bad-op")
    | none => (c, "bad-op")
  | ["end"] => (c, showList (c.s.ths.map parkName))
  | ["proto"] =>
    match c.bad with
    | none => (c, "inproto")
    | some i => (c, s!"oop {i}")
  | _ => (c, "bad-op")

def main : IO Unit := Proto.run (⟨init [], 0, none⟩ : Cur) step'
