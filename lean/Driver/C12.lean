import ParsecVerif.Base.Proto
import ParsecVerif.Model.UserTrigger
open ParsecVerif ParsecVerif.Proto ParsecVerif.UserTrigger

/-- ops:  `sends n root me`  → destinations of `me`'s notifications, in order
          `wave n root`      → sorted receipts of the whole run triggered at root -/
def step (_ : Unit) : List String → Unit × String
  | ["sends", n, root, me] =>
    match nat? n, nat? root, nat? me with
    | some n, some root, some me =>
      if root < n ∧ me < n then ((), showList (children n root me)) else ((), "bad-op")
    | _, _, _ => ((), "bad-op")
  | ["wave", n, root] =>
    match nat? n, nat? root with
    | some n, some root =>
      if root < n then ((), showList ((receipts n root).mergeSort (· ≤ ·))) else ((), "bad-op")
    | _, _ => ((), "bad-op")
  | _ => ((), "bad-op")

def main : IO Unit := Proto.run () step
