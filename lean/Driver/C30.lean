import ParsecVerif.Base.Proto
import ParsecVerif.Model.Lifo
open ParsecVerif ParsecVerif.Proto ParsecVerif.Lifo

/-- `3,4,5` → [3,4,5] (no empty fields, ids ≤ 100000) -/
def parseIds (s : String) (max : Nat) : Option (List Nat) :=
  if s.isEmpty then none else
  match (s.splitOn ",").mapM (fun w => if w.isEmpty then none else w.toNat?) with
  | some l => if l.length ≤ max ∧ l.all (· ≤ 100000) then some l else none
  | none => none

def parseOp (w : String) : Option Op :=
  let rest := (w.drop 1).toString
  match w.front with
  | 'p' => match parseIds rest 1 with | some [x] => some (.push [] x) | _ => none
  | 'c' => match parseIds rest 8 with
           | some l => match l.getLast? with | some tl => some (.push l.dropLast tl) | none => none
           | none => none
  | 'o' => if rest.isEmpty then some (.pop false) else none
  | 't' => if rest.isEmpty then some (.pop true) else none
  | 's' => match parseIds rest 2 with | some [x, v] => some (.setNext x v) | _ => none
  | _ => none

/-- split the words after `S ...` into thread groups at every `T` -/
def splitT : List String → List (List String) → List String → List (List String)
  | [], acc, cur => (cur :: acc).reverse
  | "T" :: r, acc, cur => splitT r (cur :: acc) []
  | w :: r, acc, cur => splitT r acc (cur ++ [w])

structure Parsed where
  n : Nat
  stack : List Nat
  owns : List (List Nat)
  progs : List (List Op)

def parseThread (g : List String) : Option (List Nat × List Op) :=
  match g with
  | [] => none
  | o :: ops =>
    let own := if o == "-" then some [] else parseIds o 64
    match own, ops.mapM parseOp with
    | some own, some ops => if ops.length ≤ 64 then some (own, ops) else none
    | _, _ => none

def parseCase (ws : List String) : Option Parsed :=
  match ws with
  | "case" :: _ :: n :: "S" :: rest =>
    match nat? n with
    | none => none
    | some n =>
      if n < 1 ∨ n > 64 then none else
      match splitT rest [] [] with
      | [] => none
      | sw :: groups =>
        match sw.mapM nat?, groups.mapM parseThread with
        | some stack, some ths =>
          let all := stack ++ (ths.map (·.1)).flatten
          if groups.length ≥ 1 ∧ groups.length ≤ 16 ∧ all.all (fun x => 1 ≤ x ∧ x ≤ n) ∧ all.Nodup then
            some ⟨n, stack, ths.map (·.1), ths.map (·.2)⟩
          else none
        | _, _ => none
  | _ => none

def ownerList (p : Parsed) : List Nat :=
  (List.range p.n).map fun i =>
    match (List.range p.owns.length).find? (fun t => (p.owns.getD t []).contains (i + 1)) with
    | some t => t
    | none => p.owns.length

def showRes : Res → String
  | .unit => "ok" | .item x => toString x | .rejected => "rej"

def kindOf (th : Thread) : String :=
  if th.finished then "done" else
  match th.pc with
  | .pushFence .. | .popFence .. | .popWmb .. => "fence"
  | .pushCas .. | .popCas .. => "cas"
  | _ => "run"

/-- follow `next` from the head: at most n+1 items, as the harness does -/
def walk (next : Nat → Nat) (n : Nat) : Nat → Nat → List Nat → Option (List Nat)
  | _, 0, acc => some acc.reverse
  | 0, _, _ => none
  | fuel + 1, p, acc => if acc.length > n then none else walk next n fuel (next p) (p :: acc)

def policyOk (ws : List String) : Bool :=
  match ws.dropWhile (· ≠ "|") with
  | "|" :: "rng" :: _ :: _ => true
  | "|" :: "pct" :: s :: d :: _ =>
    match s.toNat?, d.toNat? with
    | some _, some d => decide (d ≥ 1)
    | _, _ => false
  | "|" :: "dfs" :: _ :: _ => true
  | "|" :: "replay" :: _ => true
  | _ => false

def step (c : Option State) (ws0 : List String) : Option State × String :=
  let ws := ws0.takeWhile (· ≠ "|")
  match ws with
  | "case" :: _ =>
    match (if policyOk ws0 then parseCase ws else none) with
    | some p => (some (init (mkConfig p.n p.stack (ownerList p) p.progs)), "ok")
    | none => (c, "bad-op")
  | ["step", t] =>
    match nat? t, c with
    | some t, some s =>
      let s' := macroStep s t
      (some s', s!"{kindOf (threadAt s' t)} c={s'.mem.ctr} h={s'.mem.top}")
    | _, _ => (c, "bad-op")
  | ["rets"] =>
    match c with
    | some s => (c, "[" ++ " | ".intercalate (s.thr.map fun th => " ".intercalate (th.hist.map fun r => showRes r.res)) ++ "]")
    | none => (c, "bad-op")
  | ["final"] =>
    match c with
    | some s =>
      let st := match walk s.mem.next s.n (s.n + 3) s.mem.top [] with
        | some l => showList l | none => "broken"
      (c, s!"c={s.mem.ctr} stack={st} next={showList ((List.range s.n).map fun i => s.mem.next (i + 1))}")
    | none => (c, "bad-op")
  | _ => (c, "bad-op")

def main : IO Unit := Proto.run (none : Option State) step
