import ParsecVerif.Base.Proto
import ParsecVerif.Model.MatrixTypes
open ParsecVerif ParsecVerif.Proto ParsecVerif.MatrixTypes

/-!
ops (element units; `t` = index of the basic MPI type used by the harness, ignored by the model):
  `def  t uplo diag m n ld rsz`   → parsec_matrix_define_datatype        `rc lb extent size [runs]`
  `rep  c t uplo diag m n ld rsz` → `c` consecutive instances packed       `[runs]`
  `tri  t uplo diag m n ld`       → parsec_matrix_define_triangle (direct) `rc lb extent size [runs]` | `-4`
  `rect t m n ld rsz`             → parsec_matrix_define_rectangle (direct)
  `cont t nb rsz`                 → parsec_matrix_define_contiguous (direct)
  `tm <postfix program>`          → raw typemap semantics of parsec_type_create_* / MPI
       tokens: `e` | `c N` | `v C B S` | `i K b1 d1 … bK dK` | `r LB EXT`
       (`c`/`v`/`i` applied to a type of size 0 is outside the validated fragment: `rejected`)
runs = maximal runs `start+len` of consecutive offsets, in typemap order.
-/

def LIM : Nat := 2097152      -- elements: ld*n, resized, size of a `tm` type
def NTYPES : Nat := 5

def runsTR : List Nat → Nat → Nat → List (Nat × Nat) → List (Nat × Nat)
  | [], s, l, acc => ((s, l) :: acc).reverse
  | x :: xs, s, l, acc => if x = s + l then runsTR xs s (l + 1) acc else runsTR xs x 1 ((s, l) :: acc)

def showRuns (l : List Nat) : String :=
  match l with
  | [] => "[]"
  | x :: xs => "[" ++ " ".intercalate ((runsTR xs x 1 []).map (fun p => s!"{p.1}+{p.2}")) ++ "]"

def showType (t : DType) : String := s!"0 {t.lb} {t.extent} {t.size} {showRuns t.offs}"

def showRes : TriRes → String
  | .ok t => showType t
  | .badParam => "-4"
  | .undefinedRead => "undefined-read"

def okSizes (m n ld : Nat) (rsz : Int) : Bool :=
  decide (1 ≤ m ∧ 1 ≤ n ∧ m ≤ ld ∧ ld * n ≤ LIM ∧ rsz ≤ (LIM : Int) ∧ -(LIM : Int) ≤ rsz)

/-- stack machine for `tm`; `none` = malformed, `some (none)` = rejected (too large) -/
partial def evalTm : List String → List DType → Nat → Option (Option DType)
  | [], [t], _ => some (some t)
  | [], _, _ => none
  | "e" :: rest, st, k => if st.length ≥ 60 then none else evalTm rest (elem :: st) k
  | "c" :: n :: rest, t :: st, k =>
    match nat? n with
    | some n => if n > 4096 ∨ k ≥ 6 then none else
      if t.size = 0 ∨ n * t.size > LIM then some none else fin (contiguous n t) rest st k
    | none => none
  | "v" :: c :: b :: s :: rest, t :: st, k =>
    match nat? c, nat? b, nat? s with
    | some c, some b, some s => if c > 4096 ∨ b > 4096 ∨ s > 4096 ∨ k ≥ 6 then none else
      if t.size = 0 ∨ c * b * t.size > LIM then some none else fin (vector c b s t) rest st k
    | _, _, _ => none
  | "i" :: kk :: rest, t :: st, k =>
    match nat? kk with
    | some kk =>
      if kk > 16 ∨ k ≥ 6 ∨ rest.length < 2 * kk then none else
      match nats? (rest.take (2 * kk)) with
      | some nums =>
        if nums.any (· > 4096) then none else
        let rec pairs : List Nat → List (Nat × Nat)
          | b :: d :: r => (b, d) :: pairs r
          | _ => []
        let blocks := pairs nums
        if t.size = 0 ∨ (blocks.map (·.1)).sum * t.size > LIM then some none
        else fin (indexed blocks t) (rest.drop (2 * kk)) st k
      | none => none
    | none => none
  | "r" :: lb :: ext :: rest, t :: st, k =>
    match nat? lb, nat? ext with
    | some lb, some ext => if lb > 4096 ∨ ext > LIM ∨ k ≥ 6 then none else fin (resized t lb ext) rest st k
    | _, _ => none
  | _, _, _ => none
where
  fin (t : DType) (rest : List String) (st : List DType) (k : Nat) : Option (Option DType) :=
    if t.ub > 2 * LIM ∨ maxList (t.offs.map (· + 1)) > 2 * LIM then some none else evalTm rest (t :: st) (k + 1)

def step (_ : Unit) : List String → Unit × String
  | ["def", t, uplo, diag, m, n, ld, rsz] =>
    match nat? t, nat? uplo, int? diag, nat? m, nat? n, nat? ld, int? rsz with
    | some t, some uplo, some diag, some m, some n, some ld, some rsz =>
      if t ≥ NTYPES then ((), "bad-op")
      else if !okSizes m n ld rsz then ((), "rejected")
      else ((), showRes (defineDatatype uplo diag m n ld rsz))
    | _, _, _, _, _, _, _ => ((), "bad-op")
  | ["rep", c, t, uplo, diag, m, n, ld, rsz] =>
    match nat? c, nat? t, nat? uplo, int? diag, nat? m, nat? n, nat? ld, int? rsz with
    | some c, some t, some uplo, some diag, some m, some n, some ld, some rsz =>
      if t ≥ NTYPES ∨ c > 8 then ((), "bad-op")
      else if !okSizes m n ld rsz then ((), "rejected")
      else match defineDatatype uplo diag m n ld rsz with
        | .ok ty => ((), showRuns (contiguous c ty).offs)
        | r => ((), showRes r)
    | _, _, _, _, _, _, _, _ => ((), "bad-op")
  | ["tri", t, uplo, diag, m, n, ld] =>
    match nat? t, nat? uplo, int? diag, nat? m, nat? n, nat? ld with
    | some t, some uplo, some diag, some m, some n, some ld =>
      if t ≥ NTYPES then ((), "bad-op")
      else if !okSizes m n ld 0 then ((), "rejected")
      else ((), showRes (defineTriangle uplo diag m n ld))
    | _, _, _, _, _, _ => ((), "bad-op")
  | ["rect", t, m, n, ld, rsz] =>
    match nat? t, nat? m, nat? n, nat? ld, int? rsz with
    | some t, some m, some n, some ld, some rsz =>
      if t ≥ NTYPES then ((), "bad-op")
      else if !okSizes m n ld rsz then ((), "rejected")
      else ((), showType (defineRectangle m n ld rsz))
    | _, _, _, _, _ => ((), "bad-op")
  | ["cont", t, nb, rsz] =>
    match nat? t, nat? nb, int? rsz with
    | some t, some nb, some rsz =>
      if t ≥ NTYPES then ((), "bad-op")
      else if !okSizes 1 nb 1 rsz then ((), "rejected")
      else ((), showType (defineContiguous nb rsz))
    | _, _, _ => ((), "bad-op")
  | "tm" :: prog =>
    match evalTm prog [] 0 with
    | some (some t) => ((), s!"{t.lb} {t.extent} {t.size} {showRuns t.offs}")
    | some none => ((), "rejected")
    | none => ((), "bad-op")
  | _ => ((), "bad-op")

def main : IO Unit := Proto.run () step
