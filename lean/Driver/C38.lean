import ParsecVerif.Base.Proto
import ParsecVerif.Model.McaParam
open ParsecVerif ParsecVerif.Proto ParsecVerif.McaParam

/-- string tokens: `null`, or `=text` with `^` = space and `|` = tab -/
def decodeStr (tok : String) : Option (Option String) :=
  if tok = "null" then some none
  else match tok.toList with
    | '=' :: r => some (some (String.ofList (r.map (fun c => if c = '^' then ' ' else if c = '|' then '\t' else c))))
    | _ => none

def encodeStr : Option String → String
  | none => "null"
  | some s => "=" ++ String.ofList (s.toList.map (fun c => if c = ' ' then '^' else if c = '\t' then '|' else c))

def showVal : Val → String
  | .int i => toString i
  | .sizet n => toString n
  | .str s => encodeStr s

def showSrc : Source → String
  | .default => "default" | .env => "env" | .file => "file" | .override => "override"

def nameOk (n : String) : Bool :=
  n ≠ "" && n.toList.all (fun c => c.isAlphanum || c = '_' || c = '-' || c = '.')

def fileValOk (v : String) : Bool :=
  match v.toList with
  | [] => true
  | c :: _ =>
    c ≠ ' ' && c ≠ '\t' && v.toList.getLast? ≠ some ' ' && v.toList.getLast? ≠ some '\t' &&
    v.toList.all (fun c => c ≠ '#' && c ≠ '\n' && c ≠ '\x0c' && c ≠ '\x0b')

def optName? (w : String) : Option String := if w = "-" then none else some w

def int32? (w : String) : Option Int :=
  match int? w with
  | some i => if -(2:Int)^31 ≤ i ∧ i < (2:Int)^31 then some i else none
  | none => none

def u64? (w : String) : Option Nat :=
  match nat? w with
  | some n => if n < 2^64 then some n else none
  | none => none

/-- split `name=value` at the first '=' -/
def splitEq (w : String) : Option (String × String) :=
  match w.splitOn "=" with
  | n :: v :: rest => some (n, "=".intercalate (v :: rest))
  | _ => none

def parseEntries (ws : List String) : Option (List (String × String)) := ws.mapM splitEq

def fileIdx? (w : String) : Option String :=
  if w = "0" ∨ w = "1" ∨ w = "2" ∨ w = "3" then some ("F" ++ w) else none

def setFile (fs : Files) (n : String) (c : FileContent) : Files :=
  (fs.filter (fun e => e.1 ≠ n)) ++ [(n, c)]

def showFound (f : Found) : String :=
  s!"0 {showSrc f.src} {showVal f.val} f={f.file.getD "-"} w={if f.warn then 1 else 0}"

def step (s : St) : List String → St × String
  | ["case", _] => (McaParam.init, "ok")
  | ["home", v] =>
    match decodeStr v with
    | some h => if s.inited then (s, "rejected") else ({ s with homeEnv := h }, "ok")
    | none => (s, "bad-op")
  | "file" :: i :: ents =>
    match fileIdx? i, parseEntries ents with
    | some f, some es =>
      let es' := es.map (fun e => (e.1, (decodeStr ("=" ++ e.2)).getD none |>.getD ""))
      if es'.all (fun e => nameOk e.1 && fileValOk e.2 && !(e.1 = "mca_param_files" && e.2 = "")) then
        ({ s with files := setFile s.files f (es'.map (fun e => (e.1, if e.2 = "" then none else some e.2))) }, "ok")
      else (s, "rejected")
    | _, _ => (s, "bad-op")
  | ["rmfile", i] =>
    match fileIdx? i with
    | some f => ({ s with files := s.files.filter (fun e => e.1 ≠ f) }, "ok")
    | none => (s, "bad-op")
  | ["env", n, v] =>
    match decodeStr v with
    | some (some v) => ({ s with env := setenv s.env n v }, "ok")
    | _ => (s, "bad-op")
  | ["unenv", n] => ({ s with env := unsetenv s.env n }, "ok")
  | ["genv", n] =>
    match getenv s.env n with
    | some v => (s, encodeStr (some v))
    | none => (s, "unset")
  | ["init"] => (doInit s, "ok")
  | ["recache"] => if s.inited then (recache s, "ok") else (s, "rejected")
  | ["reg", t, tn, pn, ro, d, look] =>
    if !(nameOk pn) || !((optName? tn).all nameOk) then (s, "bad-op") else
    if s.params.length ≥ 255 then (s, "rejected") else
    let name := fullName (optName? tn) pn
    let ro := ro.toInt?.getD 0 ≠ 0
    let look := look.toInt?.getD 0 ≠ 0
    let fin (r : St × Int × Option Found) (showCur : Bool) : St × String :=
      (r.1, toString r.2.1 ++ (match r.2.2 with
        | some f => if showCur ∧ r.2.1 ≥ 0 then " " ++ showVal f.val else ""
        | none => ""))
    if t = "i" then
      match int32? d with
      | some d => fin (register s .int name ro (.int d) true) true
      | none => (s, "bad-op")
    else if t = "z" then
      match u64? d with
      | some d => fin (register s .sizet name ro (.sizet d) true) true
      | none => (s, "bad-op")
    else if t = "s" then
      match decodeStr d with
      | some d => fin (register s .str name ro (.str d) look) look
      | none => (s, "bad-op")
    else (s, "bad-op")
  | ["syn", i, tn, pn, _] =>
    if !(nameOk pn) || !((optName? tn).all nameOk) then (s, "bad-op") else
    match int? i with
    | some i =>
      if !s.inited ∨ i ≤ 0 ∨ i ≥ s.params.length then (s, "rejected") else
      match addSyn s i.toNat (fullName (optName? tn) pn) with
      | some s' => (s', "0")
      | none => (s, "rejected")
    | none => (s, "rejected")
  | ["set", i, v] =>
    match int? i with
    | some i =>
      if !s.inited ∨ i < 0 ∨ i ≥ s.params.length then (s, "rejected") else
      match s.params[i.toNat]? with
      | some p =>
        let val : Option Val := match p.ty with
          | .int => (int32? v).map Val.int
          | .sizet => (u64? v).map Val.sizet
          | .str => match decodeStr v with
            | some (some x) => some (.str (some x))
            | _ => none
        match val with
        | some val =>
          match setOverride s i.toNat val with
          | some s' => (s', "0")
          | none => (s, "rejected")
        | none => (s, "rejected")
      | none => (s, "rejected")
    | none => (s, "rejected")
  | ["unset", i] =>
    match int? i with
    | some i =>
      if !s.inited ∨ i < 0 ∨ i ≥ s.params.length then (s, "rejected") else
      match unsetOverride s i.toNat with
      | some s' => (s', "0")
      | none => (s, "rejected")
    | none => (s, "rejected")
  | ["get", i] =>
    match int? i with
    | some i =>
      if !s.inited ∨ i < 0 ∨ i ≥ s.params.length then (s, "rejected") else
      match lookup s i.toNat with
      | some (s', f) => (s', showFound f)
      | none => (s, "rejected")
    | none => (s, "rejected")
  | "args" :: toks =>
    match toks.mapM decodeStr with
    | some l =>
      if l.all (fun t => match t with
          | some x => !(x.toList.contains '=')
          | none => false) then
        let argv := l.map (fun t => t.getD "")
        let r := applyArgs s.env argv
        ({ s with env := r.1 }, if r.2 then "-1" else "0")
      else (s, "bad-op")
    | none => (s, "bad-op")
  | _ => (s, "bad-op")

def main : IO Unit := Proto.run McaParam.init step
