import ParsecVerif.Base.Proto
import ParsecVerif.Model.RwLock
open ParsecVerif ParsecVerif.Proto ParsecVerif.RwLock

/-- program of one thread: `-` (no lock cycle) or 1..4 letters `R`/`W` -/
def parseProg (w : String) : Option (List Kind) :=
  if w = "-" then some [] else
  let cs := w.toList
  if cs.length < 1 ∨ cs.length > 4 then none else
  cs.mapM fun c => if c = 'R' then some Kind.rd else if c = 'W' then some Kind.wr else none

/-- name of the park point of the cooperative scheduler: `<operation>.<kind of yield>[:<field>]` -/
def parkName : Pc → String
  | .idle => "start" | .done => "done"
  | .rAdd => "rl.rmw:rin" | .rSpin _ => "rl.spin:rin" | .rFence => "rl.fence" | .rIn => "r.cs"
  | .rWmb => "ru.fence" | .rOut => "ru.rmw:rout"
  | .wTick => "wl.rmw:win" | .wSpin1 _ => "wl.spin:wout" | .wAdd _ => "wl.rmw:rin" | .wSpin2 _ _ => "wl.spin:rout"
  | .wFence _ => "wl.fence" | .wIn _ => "w.cs" | .wWmb _ => "wu.fence" | .wAnd _ => "wu.rmw:rin"
  | .wLoad _ => "wu.plain-load" | .wStore _ _ => "wu.plain-store"

def showState (s : State) (t : Nat) : String :=
  s!"{parkName (pcOf s t)} rin={s.rin} rout={s.rout} win={s.win} wout={s.wout} in={readersIn s}/{writersIn s}"

/-- ops:
    `case k A B P0 P1 …`  lock counters start at rin=rout=A<<8, win=wout=B; thread i runs program Pi → `ok n=<threads>`
    `step t`              thread t runs to its next yield point → park point, the four fields, occupancy
    `end`                 → park points of all threads -/
def step (c : Option State) : List String → Option State × String
  | "case" :: _ :: a :: b :: ps =>
    match nat? a, nat? b, ps.mapM parseProg with
    | some a, some b, some progs =>
      if a < 16777216 ∧ b < 4294967296 ∧ 1 ≤ progs.length ∧ progs.length ≤ 8 then
        (some (init a b progs), s!"ok n={progs.length}")
      else (c, "bad-op")
    | _, _, _ => (c, "bad-op")
  | ["step", t] =>
    match nat? t, c with
    | some t, some s =>
      if t < s.th.length then
        let s' := macroStep M32 s t
        (some s', showState s' t)
      else (c, "bad-op")
    | _, _ => (c, "bad-op")
  | ["end"] =>
    match c with
    | some s => (c, showList (s.th.map fun th => parkName th.pc))
    | none => (c, "bad-op")
  | _ => (c, "bad-op")

def main : IO Unit := Proto.run (none : Option State) step
