import ParsecVerif.Base.Proto
import ParsecVerif.Model.RemoteDep
open ParsecVerif ParsecVerif.Proto ParsecVerif.RemoteDep

/-- ops (T ∈ star|chain|binomial, dtd ∈ 0|1, big = bitmask of outputs sent on demand (ignored by the
    model), sets = tokens `K:r1,r2,…` with strictly increasing K < 20 and strictly increasing ranks):
      act T n root me dtd big sets…   → `mask=M [dst:k,k …]`  messages of ONE activate, in send order
      bcast T n root dtd big sets…    → `[src>dst:k,k …]`     all messages of the collective, FIFO order
      dok T n root dtd sets…          → `ok=<DeliveryOK> xo=<exactly-once of the model's deliveries>` -/
def topo? : String → Option Topo
  | "star" => some .star | "chain" => some .chain | "binomial" => some .binomial | _ => none

def bool? : String → Option Bool
  | "0" => some false | "1" => some true | _ => none

def set? (tok : String) : Option Out :=
  match tok.splitOn ":" with
  | [k, rs] => match nat? k, nats? (rs.splitOn ",") with
    | some k, some rs => some (k, rs)
    | _, _ => none
  | _ => none

def ascending : List Nat → Bool
  | a :: b :: t => a < b && ascending (b :: t)
  | _ => true

/-- the API precondition, decided identically by the harness -/
def valid (n root : Nat) (outs : List Out) : Bool :=
  decide (2 ≤ n) && decide (n ≤ 4096) && decide (root < n) && !outs.isEmpty &&
  ascending (outs.map Prod.fst) && outs.all (fun o => decide (o.1 < 20) && ascending o.2 &&
    o.2.all (fun r => decide (r < n)) && o.2.any (fun r => r != root))

def showKeys (ks : List Nat) : String := ",".intercalate (ks.map toString)

def showMask (outs : List Out) : String := toString ((outs.map fun o => 2 ^ o.1).sum)

def step (_ : Unit) : List String → Unit × String
  | ["case", _] => ((), "ok")
  | "act" :: t :: n :: root :: me :: dtd :: big :: sets =>
    match topo? t, nat? n, nat? root, nat? me, bool? dtd, nat? big, sets.mapM set? with
    | some t, some n, some root, some me, some dtd, some _, some outs =>
      if !valid n root outs || me ≥ n || (dtd && me ≠ root) then ((), "rejected") else
      let c := mkCfg t dtd n root outs
      let ms := c.msgs me
      ((), (if ms.isEmpty then "mask=-" else "mask=" ++ showMask outs) ++ " [" ++
        " ".intercalate (ms.map fun m => s!"{m.dst}:{showKeys m.keys}") ++ "]")
    | _, _, _, _, _, _, _ => ((), "bad-op")
  | "bcast" :: t :: n :: root :: dtd :: big :: sets =>
    match topo? t, nat? n, nat? root, bool? dtd, nat? big, sets.mapM set? with
    | some t, some n, some root, some dtd, some _, some outs =>
      if !valid n root outs then ((), "rejected") else
      let c := mkCfg t dtd n root outs
      ((), "[" ++ " ".intercalate (c.messages.map fun m => s!"{m.src}>{m.dst}:{showKeys m.keys}") ++ "]")
    | _, _, _, _, _, _ => ((), "bad-op")
  | "dok" :: t :: n :: root :: dtd :: sets =>
    match topo? t, nat? n, nat? root, bool? dtd, sets.mapM set? with
    | some t, some n, some root, some dtd, some outs =>
      if !valid n root outs then ((), "rejected") else
      let c := mkCfg t dtd n root outs
      ((), s!"ok={c.deliveryOK} xo={c.exactlyOnceB c.deliveries}")
    | _, _, _, _, _ => ((), "bad-op")
  | _ => ((), "bad-op")

def main : IO Unit := Proto.run () step
