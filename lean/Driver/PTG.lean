import ParsecVerif.Base.Proto
import ParsecVerif.Model.Ptg
import ParsecVerif.Model.PtgParse
/-!
  Driver for the PTG language layer (exe `pv_PTG`), used by checks/C23.py and checks/C01.py.
  Line protocol (docs/notes/PTG.md).  Ops that also appear in a program's transcript (harness/ptg_rt.c):

    count <rank> <nodes>          -> number of local task instances internal_init announces
    key <cls> <locals..>          -> `<make_key value> <key_print string>`
    B <cls> <locals..> / ...      -> ok | bad:<reason>      (begin of a body; trace acceptor)
    E <cls> <locals..> / ...      -> ok | bad:<reason>      (end of a body)
    end                           -> complete | incomplete <missing>

  Query ops (issued by the Python side only):

    prog <serialisation>          -> ok <nclasses>      (resets the acceptor)
    globals <g..>                 -> ok                 (replaces the globals; resets the acceptor)
    space <cls>                   -> instances `l0 l1 .. ; l0 l1 ..`
    names <cls>                   -> the instances' names as the property wants them printed
    startup <cls>                 -> startup instances in creation order, or `diverges`
    wf                            -> true | false
    nooverflow <cls>              -> true | false   (hypothesis of C23's injectivity theorem)
    hyps <cls>                    -> `rap b noov b printhyp b fits b stepspos b`: the decidable hypotheses of the theorems
    keysdistinct <cls>            -> true | false   (executable form of C23's conclusion on this space)
    printok <cls>                 -> number of instances whose key prints as their name
    info <cls>                    -> `p min range` per local
    edges                         -> number of edges (out side) and (in side)
    stats                         -> shape statistics of the program
-/
open ParsecVerif ParsecVerif.Proto ParsecVerif.Ptg

structure St where
  prog : Option Program := none
  begun : List Instance := []
  ended : List Instance := []

def showInsts (l : List (List Int)) : String :=
  " ; ".intercalate (l.map fun a => " ".intercalate (a.map toString))

def splitAt (ws : List String) : List String := ws.takeWhile (· ≠ "/")

def evStep (s : St) (p : Program) (isBegin : Bool) (ws : List String) : St × String :=
  match ints? (splitAt ws) with
  | some (c :: env) =>
    if c < 0 then (s, "bad-op") else
    let t : Instance := ⟨c.toNat, env⟩
    if !(space p t.cls).contains env then (s, "bad:not-in-space") else
    if isBegin then
      if s.begun.contains t then (s, "bad:begun-twice") else
      let missing := (preds p t).filter fun (u, _) => !s.ended.contains u
      if !missing.isEmpty then (s, s!"bad:pred-not-ended {missing.length}") else
      ({ s with begun := t :: s.begun }, "ok")
    else
      if !s.begun.contains t then (s, "bad:end-without-begin") else
      if s.ended.contains t then (s, "bad:ended-twice") else
      ({ s with ended := t :: s.ended }, "ok")
  | _ => (s, "bad-op")

def step (s : St) : List String → St × String
  | "prog" :: ws =>
    match Parse.parseProgram ws with
    | some p => ({ prog := some p }, s!"ok {p.classes.length}")
    | none => (s, "bad-op")
  | ws =>
    match s.prog with
    | none => (s, "bad-op")
    | some p =>
      match ws with
      | "globals" :: gs =>
        match ints? gs with
        | some g => ({ prog := some { p with globals := g } }, "ok")
        | none => (s, "bad-op")
      | ["count", r, n] =>
        match nat? r, nat? n with
        | some r, some n => (s, toString (announcedNbTasks p r n))
        | _, _ => (s, "bad-op")
      | "key" :: rest =>
        match ints? rest with
        | some (c :: env) =>
          if c < 0 then (s, "bad-op") else
          let k := makeKey p c.toNat env
          (s, s!"{k} {keyPrint p c.toNat k}")
        | _ => (s, "bad-op")
      | "B" :: rest => evStep s p true rest
      | "E" :: rest => evStep s p false rest
      | ["end"] =>
        let all := allInstances p
        let missing := all.filter fun t => !s.ended.contains t
        (s, if missing.isEmpty && s.begun.length == s.ended.length then "complete" else s!"incomplete {missing.length}")
      | ["space", c] =>
        match nat? c with
        | some c => (s, showInsts (space p c))
        | none => (s, "bad-op")
      | ["names", c] =>
        match nat? c with
        | some c => (s, " ; ".intercalate ((space p c).map (instName p c)))
        | none => (s, "bad-op")
      | ["startup", c] =>
        match nat? c with
        | some c => (s, match startupEnum p c with | some l => showInsts l | none => "diverges")
        | none => (s, "bad-op")
      | ["wf"] => (s, toString (WellFormed p))
      | ["nooverflow", c] =>
        match nat? c with
        | some c => (s, match p.classes[c]? with
            | some cl => toString (decide (NoOverflow (classKeyInfo p.globals cl) (space p c)))
            | none => "bad-op")
        | none => (s, "bad-op")
      | ["hyps", c] =>
        -- the decidable hypotheses of C23_injective / C23_print_partial / C01_startup_partial on this class:
        -- RangesAreParams NoOverflow PrintHyp keyFits StepsPositive
        match nat? c with
        | some c => (s, match p.classes[c]? with
            | some cl =>
              let ds := cl.sems p.globals
              let is := classKeyInfo p.globals cl
              let b (x : Bool) : String := if x then "1" else "0"
              s!"rap {b (decide (RangesAreParams ds cl.isParam))} noov {b (decide (NoOverflow is (space p c)))} printhyp {b (decide (PrintHyp is ds))} fits {b ((space p c).all fun a => keyZ is a < two64)} stepspos {b (decide (StepsPositive ds []))}"
            | none => "bad-op")
        | none => (s, "bad-op")
      | ["keysdistinct", c] =>
        match nat? c with
        | some c => (s, toString (nodupB ((space p c).map (makeKey p c))))
        | none => (s, "bad-op")
      | ["printok", c] =>
        match nat? c with
        | some c => (s, toString ((space p c).filter fun a => keyPrint p c (makeKey p c a) == instName p c a).length)
        | none => (s, "bad-op")
      | ["info", c] =>
        match nat? c with
        | some c => (s, match p.classes[c]? with
            | some cl => " ; ".intercalate ((classKeyInfo p.globals cl).map fun k => s!"{if k.isParam then 1 else 0} {k.min} {k.range}")
            | none => "bad-op")
        | none => (s, "bad-op")
      | ["edges"] => (s, s!"{(allOutEdges p).length} {(allInEdges p).length}")
      | ["stats"] =>
        let nInst := (allInstances p).length
        let nDerivedParams := (p.classes.map fun cl =>
          ((List.zip cl.locals cl.isParam).filter fun (d, b) => b && (match d with | .expr _ => true | _ => false)).length).sum
        let nStartup := ((List.range p.classes.length).map fun c => match startupEnum p c with | some l => l.length | none => 0).sum
        (s, s!"classes {p.classes.length} instances {nInst} edges {(allOutEdges p).length} derivedParams {nDerivedParams} startup {nStartup}")
      | _ => (s, "bad-op")

def main : IO Unit := Proto.run ({} : St) step
