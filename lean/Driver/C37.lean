import ParsecVerif.Base.Proto
import ParsecVerif.Model.TpRegistry
open ParsecVerif ParsecVerif.Proto ParsecVerif.TpRegistry

/-- driver state: the processes of the current case (sequential cases have one), whether the one
    `fini` a process can perform was used (parsec_init cannot be called twice in a process — a limit of
    the harness, not of the registry), and the cooperative machine of a `coop` case. -/
structure D where
  ranks : List St
  finiUsed : Bool
  coop : Option (List (List Op) × CState)
  coopSt : St     -- registry of the process running cooperative cases (persists from run to run)

def D.init : D := ⟨[St.init], false, none, St.init⟩

def showOut : Out → String
  | .rid n => toString n
  | .reg n => toString n
  | .ok => "ok"
  | .tp h => s!"tp {h}"
  | .null => "null"
  | .junk => "junk"
  | .rejected => "rejected"
  | .crash => "crash"
  | .dead => "dead"
  | .bad => "bad-op"

def u32? (s : String) : Option Nat :=
  match nat? s with
  | some n => if n ≤ 4294967295 ∧ s.length ≤ 12 then some n else none
  | none => none

def parseOp : List String → Option Op
  | ["reserve", h] => (u32? h).map .reserve
  | ["setid", h, v] => match u32? h, u32? v with
                       | some h, some v => some (.setid h v)
                       | _, _ => none
  | ["register", h] => (u32? h).map .register
  | ["unregister", h] => (u32? h).map .unregister
  | ["lookup", i] => (u32? i).map .lookup
  | ["lookupown", h] => (u32? h).map .lookupOwn
  | ["fini"] => some .fini
  | _ => none

/-- apply an op to process `r` -/
def onRank (d : D) (r : Nat) (op : Op) : D × String :=
  match d.ranks[r]? with
  | none => (d, "rejected")
  | some s =>
    if op = .fini ∧ d.finiUsed ∧ ¬ s.dead then (d, "rejected") else
    ({ d with ranks := d.ranks.set r (step s op).1, finiUsed := d.finiUsed || (op == .fini && !s.dead) },
      showOut (step s op).2)

def parseProg (t : Nat) : List String → Option (List Op)
  | [] => some []
  | w :: ws =>
    let o : Option Op :=
      if w = "R" then some (.reserve t) else if w = "G" then some (.register t)
      else if w = "U" then some (.unregister t) else if w = "S" then some (.lookupOwn t)
      else if w.startsWith "L" then (u32? (w.drop 1).toString).map .lookup else none
    match o, parseProg t ws with
    | some o, some l => some (o :: l)
    | _, _ => none

/-- split the program words at "/" -/
def splitProgs (ws : List String) : List (List String) :=
  ws.foldr (fun w acc => if w = "/" then [] :: acc else match acc with
                                                   | [] => [[w]]
                                                   | a :: r => (w :: a) :: r) [[]]

def parseProgs (ps : List (List String)) (t : Nat) : Option (List (List Op)) :=
  match ps with
  | [] => some []
  | p :: r => match parseProg t p, parseProgs r (t + 1) with
              | some a, some b => some (a :: b)
              | _, _ => none

def pcName : Pc → String
  | .start => "start" | .atLock _ => "cas" | .inCS _ => "fence" | .done => "done"

def step' (d : D) : List String → D × String
  | "case" :: _ :: "coop" :: pre :: rest =>
    let ws := rest.takeWhile (· ≠ "|")
    match (if pre.startsWith "pre=" then nat? (pre.drop 4).toString else none), parseProgs (splitProgs ws) 0 with
    | some p, some progs =>
      if p > 64 ∨ progs.length > 15 ∨ progs.any (fun l => l.length > 8) then (d, "bad-op") else
      let s0 := runSt d.coopSt (List.replicate p (.reserve (NH - 1)))
      ({ d with coop := some (progs, cinit s0 progs.length), coopSt := s0 }, s!"ok n={progs.length}")
    | _, _ => (d, "bad-op")
  | ["fresh"] => ({ d with coop := none, coopSt := St.init }, "ok")
  | ["case", _] => ({ d with ranks := [St.init], finiUsed := false, coop := none }, "ok")
  | ["case", _, k] =>
    match nat? k with
    | some k => ({ d with ranks := List.replicate k St.init, finiUsed := false, coop := none }, s!"ok ranks={k}")
    | none => (d, "bad-op")
  | ["step", t] =>
    match nat? t, d.coop with
    | some t, some (progs, c) =>
      let c' := cstep progs c t
      ({ d with coop := some (progs, c'), coopSt := c'.st }, (c'.pcs[t]?.map pcName).getD "none")
    | _, _ => (d, "bad-op")
  | ["rets"] =>
    match d.coop with
    | some (progs, c) =>
      (d, "[" ++ " ; ".intercalate ((List.range progs.length).map (fun t => " ".intercalate ((outsOf c t).map showOut))) ++ "]")
    | none => (d, "bad-op")
  | ["sync"] =>
    let m := maxPos (d.ranks.map (·.reg))
    match d.ranks with
    | [] => (d, "bad-op")
    | s0 :: _ =>
      ({ d with ranks := d.ranks.map (fun s => (step s (.sync m)).1) }, showOut (step s0 (.sync m)).2)
  | ["finiall"] =>
    if d.finiUsed then (d, "rejected") else
    ({ d with ranks := d.ranks.map (fun s => (step s .fini).1), finiUsed := true }, "ok")
  | ["sync", k] =>
    match nat? k with
    | some k =>
      if k < 1 ∨ k > d.ranks.length ∨ k ≥ 64 then (d, "bad-op") else
      let m := maxPos ((d.ranks.take k).map (·.reg))
      ({ d with ranks := (d.ranks.take k).map (fun s => (step s (.sync m)).1) ++ d.ranks.drop k }, "ok")
    | none => (d, "bad-op")
  | w :: ws =>
    if w.startsWith "@" then
      match nat? (w.drop 1).toString, parseOp ws with
      | some r, some op => onRank d r op
      | _, _ => (d, "bad-op")
    else if (d.ranks[0]?.map (·.dead)).getD false then (d, "dead")
    else
      match parseOp (w :: ws) with
      | some op => onRank d 0 op
      | none => (d, "bad-op")
  | _ => (d, "bad-op")

def main : IO Unit := Proto.run D.init step'
