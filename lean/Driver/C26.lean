import ParsecVerif.Base.Proto
import ParsecVerif.Model.DataOwnership
open ParsecVerif ParsecVerif.Proto ParsecVerif.DataOwnership

def showCopy : Option Copy → String
  | none => "-"
  | some c => s!"{c.coh.letter}:{c.ver}:{c.readers}:{c.xs}"

def showSt (s : St) : String :=
  s!"{s.owner} | " ++ " ".intercalate (s.copies.map showCopy)

def rdBit (m : Nat) : Bool := m.testBit 2      -- PARSEC_FLOW_ACCESS_READ  = 1 << 2
def wrBit (m : Nat) : Bool := m.testBit 3      -- PARSEC_FLOW_ACCESS_WRITE = 1 << 3

def withRet (x : Option (St × Int)) (s : St) : St × String :=
  match x with
  | some (s', r) => (s', s!"{r} | {showSt s'}")
  | none => (s, "rejected")

/-- ops (device `d`, access mode `m` = the uint8 given to the C function):
    `case k` | `new n owner` | `attach d coh ver` | `setxs d x` | `start d m` | `end d m` | `xfer d m`
    | `T d m b` (complete transfer, bump kind b) | `xstart d m` / `xend d m` (asserts NOT checked)
    | `sync d src` | `bump d` -/
def step (s : St) : List String → St × String
  | ["case", _] => (init, "ok")
  | ["new", n, o] =>
    match nat? n, int? o with
    | some n, some o =>
      if 1 ≤ n ∧ n ≤ 8 ∧ -1 ≤ o ∧ o < n then (newData n o, showSt (newData n o)) else (s, "rejected")
    | _, _ => (s, "bad-op")
  | ["attach", d, k, v] =>
    match nat? d, nat? k, nat? v with
    | some d, some k, some v =>
      match Coh.ofCode? k with
      | some k =>
        if v < 2147483648 then
          match attach s d k v with
          | some s' => (s', showSt s')
          | none => (s, "rejected")
        else (s, "rejected")
      | none => (s, "rejected")
    | _, _, _ => (s, "bad-op")
  | ["setxs", d, x] =>
    match nat? d, nat? x with
    | some d, some x =>
      if x ≤ 2 ∧ (getC s.copies d).isSome then
        ({ s with copies := modCopy s.copies d (fun c => { c with xs := x }) },
         showSt { s with copies := modCopy s.copies d (fun c => { c with xs := x }) })
      else (s, "rejected")
    | _, _ => (s, "bad-op")
  | ["start", d, m] =>
    match nat? d, nat? m with
    | some d, some m => if m < 256 then withRet (start s d (rdBit m) (wrBit m)) s else (s, "rejected")
    | _, _ => (s, "bad-op")
  | ["xstart", d, m] =>
    match nat? d, nat? m with
    | some d, some m =>
      if m < 256 ∧ (getC s.copies d).isSome then withRet (some (startRaw s d (rdBit m) (wrBit m))) s
      else (s, "rejected")
    | _, _ => (s, "bad-op")
  | ["end", d, m] =>
    match nat? d, nat? m with
    | some d, some m =>
      if m < 256 then
        match endT s d (rdBit m) (wrBit m) with
        | some s' => (s', showSt s')
        | none => (s, "rejected")
      else (s, "rejected")
    | _, _ => (s, "bad-op")
  | ["xend", d, m] =>
    match nat? d, nat? m with
    | some d, some m =>
      if m < 256 ∧ (getC s.copies d).isSome then
        (endRaw s d (rdBit m) (wrBit m), showSt (endRaw s d (rdBit m) (wrBit m)))
      else (s, "rejected")
    | _, _ => (s, "bad-op")
  | ["xfer", d, m] =>
    match nat? d, nat? m with
    | some d, some m => if m < 256 then withRet (xfer s d (rdBit m) (wrBit m)) s else (s, "rejected")
    | _, _ => (s, "bad-op")
  | ["T", d, m, b] =>
    match nat? d, nat? m, nat? b with
    | some d, some m, some b =>
      if m < 256 ∧ b ≤ 2 then withRet (transfer s d (rdBit m) (wrBit m) b) s else (s, "rejected")
    | _, _, _ => (s, "bad-op")
  | ["safe", d, m, b] =>      -- driver only: do H1 and H2 of the C26 theorems hold at this step?
    match nat? d, nat? m, nat? b with
    | some d, some m, some b => (s, if safeStepD s d (rdBit m) (wrBit m) b then "1" else "0")
    | _, _, _ => (s, "bad-op")
  | ["sync", d, src] =>
    match nat? d, nat? src with
    | some d, some src =>
      if (getC s.copies d).isSome ∧ (getC s.copies src).isSome then
        ({ s with copies := syncFrom s.copies d src }, showSt { s with copies := syncFrom s.copies d src })
      else (s, "rejected")
    | _, _ => (s, "bad-op")
  | ["bump", d] =>
    match nat? d with
    | some d =>
      if (getC s.copies d).isSome then
        ({ s with copies := modCopy s.copies d (bumpVer 1 0) },
         showSt { s with copies := modCopy s.copies d (bumpVer 1 0) })
      else (s, "rejected")
    | none => (s, "bad-op")
  | _ => (s, "bad-op")

def main : IO Unit := Proto.run init step
