import ParsecVerif.Base.Proto
import ParsecVerif.Model.PList
open ParsecVerif ParsecVerif.Proto ParsecVerif.PList

/-- sequential driver state: two lists, two ring registers -/
structure SeqSt where
  l0 : List Item := []
  l1 : List Item := []
  r0 : List Item := []
  r1 : List Item := []

/-- concurrent driver state -/
structure Conc where
  progs : List (List LOp)
  st    : LState

inductive Cur
  | seq (s : SeqSt)
  | conc (c : Conc)

def maxId : Nat := 512
def pMax : Int := 1073741824

def showItem (x : Item) : String := s!"{x.prio}:{x.id}"
def showItems (l : List Item) : String := "[" ++ " ".intercalate (l.map showItem) ++ "]"
def showAll (s : SeqSt) : String :=
  s!" | L0={showItems s.l0} L1={showItems s.l1} R0={showItems s.r0} R1={showItems s.r1}"

def getL (s : SeqSt) (i : Nat) : List Item := if i = 0 then s.l0 else s.l1
def setL (s : SeqSt) (i : Nat) (l : List Item) : SeqSt := if i = 0 then { s with l0 := l } else { s with l1 := l }
def getR (s : SeqSt) (i : Nat) : List Item := if i = 0 then s.r0 else s.r1
def setR (s : SeqSt) (i : Nat) (l : List Item) : SeqSt := if i = 0 then { s with r0 := l } else { s with r1 := l }

def inUse (s : SeqSt) (id : Nat) : Bool :=
  contains s.l0 id || contains s.l1 id || contains s.r0 id || contains s.r1 id

/-- the harness' `fresh`: identity in the pool and free, priority within ±2^30 -/
def fresh (s : SeqSt) (id : Int) (p : Int) : Option Item :=
  if id < 0 ∨ id ≥ maxId ∨ inUse s id.toNat ∨ p > pMax ∨ p < -pMax then none else some ⟨p, id.toNat⟩

def idx? (w : String) : Option Nat :=
  match int? w with
  | some 0 => some 0
  | some 1 => some 1
  | _ => none

def flavourOk (set : String) (f : String) : Bool := f.length == 1 && (set.splitOn f).length > 1

def out (s : SeqSt) (r : String) : Cur × String := (.seq s, r ++ showAll s)

def showOpt : Option Item → String
  | some x => showItem x
  | none => "null"

def seqStep (s : SeqSt) : List String → Cur × String
  | [op, f, l, id, p] =>
    if op = "pf" ∨ op = "pb" ∨ op = "ps" then
      match idx? l, int? id, int? p with
      | some l, some id, some p =>
        if !flavourOk (if op = "pf" then "nkde" else if op = "pb" then "nkdefg" else "nk") f then (.seq s, "bad-op") else
        match fresh s id p with
        | none => (.seq s, "rejected")
        | some x =>
          out (setL s l (if op = "pf" then pushFront (getL s l) x else if op = "pb" then pushBack (getL s l) x
                         else pushSorted (getL s l) x)) "ok"
      | _, _, _ => (.seq s, "bad-op")
    else if op = "ab" then
      -- ab L pos id p
      match idx? f, int? id, int? p with
      | some li, some nid, some p =>
        let pos := l
        if pos = "g" then
          match fresh s nid p with
          | none => (.seq s, "rejected")
          | some x => match addBefore (getL s li) none x with
            | some l' => out (setL s li l') "ok"
            | none => (.seq s, "rejected")
        else match int? pos with
          | none => (.seq s, "bad-op")
          | some pid =>
            if pid < 0 ∨ pid ≥ maxId ∨ !contains (getL s li) pid.toNat then (.seq s, "rejected") else
            match fresh s nid p with
            | none => (.seq s, "rejected")
            | some x => match addBefore (getL s li) (some pid.toNat) x with
              | some l' => out (setL s li l') "ok"
              | none => (.seq s, "rejected")
      | _, _, _ => (.seq s, "bad-op")
    else (.seq s, "bad-op")
  | ["aa", f, l, pos, id, p] =>
    match idx? l, int? id, int? p with
    | some li, some nid, some p =>
      if !flavourOk "nk" f then (.seq s, "bad-op") else
      if pos = "g" then
        match fresh s nid p with
        | none => (.seq s, "rejected")
        | some x => match addAfter (getL s li) none x with
          | some l' => out (setL s li l') "ok"
          | none => (.seq s, "rejected")
      else match int? pos with
        | none => (.seq s, "bad-op")
        | some pid =>
          if pid < 0 ∨ pid ≥ maxId ∨ !contains (getL s li) pid.toNat then (.seq s, "rejected") else
          match fresh s nid p with
          | none => (.seq s, "rejected")
          | some x => match addAfter (getL s li) (some pid.toNat) x with
            | some l' => out (setL s li l') "ok"
            | none => (.seq s, "rejected")
    | _, _, _ => (.seq s, "bad-op")
  | [op, a, b, c] =>
    if op = "cf" ∨ op = "cb" ∨ op = "cs" then
      match idx? b, idx? c with
      | some l, some r =>
        if !flavourOk (if op = "cf" then "nkde" else if op = "cb" then "nkdefg" else "nk") a then (.seq s, "bad-op") else
        if op ≠ "cs" ∧ (getR s r).isEmpty then (.seq s, "rejected") else
        out (setR (setL s l (if op = "cf" then chainFront (getL s l) (getR s r)
                             else if op = "cb" then chainBack (getL s l) (getR s r)
                             else chainSorted (getL s l) (getR s r))) r []) "ok"
      | _, _ => (.seq s, "bad-op")
    else if op = "unchain" then
      match idx? b, idx? c with
      | some l, some r =>
        if !flavourOk "nk" a then (.seq s, "bad-op") else
        if !(getR s r).isEmpty then (.seq s, "rejected") else
        out (setL (setR s r (getL s l)) l []) (if (getL s l).isEmpty then "null" else "ring")
      | _, _ => (.seq s, "bad-op")
    else if op = "rpush" ∨ op = "rps" then
      match idx? a, int? b, int? c with
      | some r, some id, some p =>
        match fresh s id p with
        | none => (.seq s, "rejected")
        | some x => out (setR s r (if op = "rps" then ringPushSorted (getR s r) x else ringPush (getR s r) x)) "ok"
      | _, _, _ => (.seq s, "bad-op")
    else (.seq s, "bad-op")
  | [op, a, b] =>
    if op = "popf" ∨ op = "popb" then
      match idx? b with
      | some l =>
        if !flavourOk (if op = "popf" then "nkdefgtuv" else "nkdetu") a then (.seq s, "bad-op") else
        if op = "popf" then out (setL s l (popFront (getL s l)).2) (showOpt (popFront (getL s l)).1)
        else out (setL s l (popBack (getL s l)).2) (showOpt (popBack (getL s l)).1)
      | none => (.seq s, "bad-op")
    else if op = "sort" then
      match idx? b with
      | some l => if !flavourOk "nk" a then (.seq s, "bad-op") else out (setL s l (sortList (getL s l))) "ok"
      | none => (.seq s, "bad-op")
    else if op = "empty" then
      match idx? b with
      | some l => if !flavourOk "nkdefg" a then (.seq s, "bad-op") else out s (if (getL s l).isEmpty then "1" else "0")
      | none => (.seq s, "bad-op")
    else if op = "has" then
      match idx? a, int? b with
      | some l, some id =>
        if id < 0 ∨ id ≥ maxId then (.seq s, "rejected") else out s (if contains (getL s l) id.toNat then "1" else "0")
      | _, _ => (.seq s, "bad-op")
    else if op = "rm" then
      match idx? a, int? b with
      | some l, some id =>
        if id < 0 ∨ id ≥ maxId then (.seq s, "rejected") else
        match remove (getL s l) id.toNat with
        | none => (.seq s, "rejected")
        | some (pr, l') => out (setL s l l') (match pr with | some x => showItem x | none => "ghost")
      | _, _ => (.seq s, "bad-op")
    else if op = "rmerge" then
      match idx? a, idx? b with
      | some r, some r2 =>
        if r = r2 ∨ (getR s r).isEmpty ∨ (getR s r2).isEmpty then (.seq s, "rejected") else
        out (setR (setR s r (ringMerge (getR s r) (getR s r2))) r2 []) "ok"
      | _, _ => (.seq s, "bad-op")
    else (.seq s, "bad-op")
  | ["rchop", a] =>
    match idx? a with
    | some r =>
      match getR s r with
      | [] => (.seq s, "rejected")
      | h :: t => out (setR s r (ringChop (h :: t))) (showItem h)
    | none => (.seq s, "bad-op")
  | _ => (.seq s, "bad-op")

/-! concurrent configurations: `conc K init=items T=op,op T=op` then `step t` lines and `final` -/

def parseItem (w : String) : Option Item :=
  match w.splitOn ":" with
  | [p, id] => match int? p, nat? id with
    | some p, some id => if id < maxId ∧ p ≤ pMax ∧ -pMax ≤ p then some ⟨p, id⟩ else none
    | _, _ => none
  | _ => none

def parseItems (w : String) : Option (List Item) :=
  if w = "" then some [] else (w.splitOn "+").mapM parseItem

def parseOp (w : String) : Option LOp :=
  match w.splitOn ":" with
  | [name] =>
    if name = "sort" then some .sort else if name = "unchain" then some .unchain
    else if name = "empty" then some .isEmpty else if name = "popf" then some .popFront
    else if name = "popb" then some .popBack else if name = "tpopf" then some .tryPopFront
    else if name = "tpopb" then some .tryPopBack else none
  | name :: rest =>
    match parseItems (":".intercalate rest) with
    | some its =>
      if its.isEmpty ∨ its.length > 8 then none else
      match name, its with
      | "pf", [x] => some (.pushFront x)
      | "pb", [x] => some (.pushBack x)
      | "ps", [x] => some (.pushSorted x)
      | "cf", r => some (.chainFront r)
      | "cb", r => some (.chainBack r)
      | "cs", r => some (.chainSorted r)
      | _, _ => none
    | none => none
  | [] => none

def opItems : LOp → List Item
  | .pushFront x | .pushBack x | .pushSorted x => [x]
  | .chainFront r | .chainBack r | .chainSorted r => r
  | _ => []

def parseProg (w : String) : Option (List LOp) :=
  if w.startsWith "T=" then
    match ((w.drop 2).toString.splitOn ",").mapM parseOp with
    | some ops => if ops.isEmpty ∨ ops.length > 6 then none else some ops
    | none => none
  else none

def showRet : Ret → String
  | .unit => "ok"
  | .item o => showOpt o
  | .ring r => "ring" ++ showItems r
  | .bool b => if b then "1" else "0"

def retsOf (c : Conc) (t : Nat) : List String :=
  (c.st.hist.filter (fun e => e.tid == t)).map (fun e => showRet e.ret)

/-- results already returned to the caller: a call whose critical section is done but which is
    still parked before the unlock has not returned yet -/
def returned (c : Conc) (t : Nat) : List String :=
  match c.st.pcs[t]? with
  | some (.fence _) => (retsOf c t).dropLast
  | _ => retsOf c t

def pcName : Pc → String
  | .idle k => s!"idle{k}" | .cas k => s!"cas{k}" | .fence k => s!"fence{k}"

def showLock (b : Bool) : String := if b then "1" else "0"

def concStart (ws : List String) : Option Conc :=
  match ws with
  | _ :: _ :: ini :: ts =>
    if !ini.startsWith "init=" ∨ ts.isEmpty ∨ ts.length > 16 then none else
    match parseItems (ini.drop 5).toString, ts.mapM parseProg with
    | some l0, some progs =>
      let ids := (l0 ++ (progs.flatten.map opItems).flatten).map (·.id)
      if ids.eraseDups.length ≠ ids.length ∨ l0.length > 64 then none
      else some ⟨progs, linit l0 progs.length⟩
    | _, _ => none
  | _ => none

def step (c : Cur) : List String → Cur × String
  | ["case", k] => match int? k with
    | some _ => (.seq {}, "ok")
    | none => (c, "bad-op")
  | "conc" :: rest =>
    match concStart ("conc" :: rest) with
    | some cc => (.conc cc, s!"ok n={cc.progs.length} L={showItems cc.st.l}")
    | none => (c, "bad-op")
  | ["step", t] =>
    match nat? t, c with
    | some t, .conc cc =>
      let cc' : Conc := ⟨cc.progs, lstep cc.progs cc.st t⟩
      (.conc cc', s!"{(cc'.st.pcs[t]?.map pcName).getD "none"} lock={showLock cc'.st.lock} L={showItems cc'.st.l} rets={showList (returned cc' t)}")
    | _, _ => (c, "bad-op")
  | ["final"] =>
    match c with
    | .conc cc =>
      (c, s!"lock={showLock cc.st.lock} L={showItems cc.st.l}" ++
        String.join ((List.range cc.progs.length).map (fun t => s!" T{t}={showList (returned cc t)}")))
    | _ => (c, "bad-op")
  | ws =>
    match c with
    | .seq s => seqStep s ws
    | .conc _ => seqStep {} ws

def main : IO Unit := Proto.run (Cur.seq {}) step
