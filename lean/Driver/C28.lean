import ParsecVerif.Base.Proto
import ParsecVerif.Model.Zone
open ParsecVerif ParsecVerif.Proto ParsecVerif.Zone

/-- buffer cap of the harness (harness/C28.c BUF_CAP) -/
def bufCap : Nat := 4194304

def showSeg (e : Nat × Seg) : String :=
  s!" {e.1}:{e.2.status}:{e.2.units}:{e.2.prev}" ++ (if e.2.units = 0 then " stuck" else "")

def showFl (e : Nat × List Nat) : String :=
  s!" {e.1}:[" ++ " ".intercalate (e.2.map toString) ++ "]"

def dump (z : St) : String :=
  let w := walk z.segs (z.segs.length + 1) 0
  "segs" ++ String.join (w.map showSeg) ++ (if w.length > z.segs.length then " stuck" else "")
    ++ " | fl" ++ String.join (z.fl.map showFl)

def step (s : Option Sys) : List String → Option Sys × String
  | ["case", _] => (none, "ok")
  | ["init", n, u] =>
    match int? n, nat? u with
    | some n, some u =>
      if s.isSome ∨ n < 1 ∨ u < 1 ∨ n > bufCap ∨ u > bufCap ∨ n.toNat * u > bufCap then (s, "rejected")
      else (some (sysInit n.toNat u), "ok")
    | _, _ => (s, "bad-op")
  | ["malloc", sz] =>
    match nat? sz with
    | some sz =>
      if sz ≥ 2 ^ 64 then (s, "bad-op") else
      match s with
      | none => (s, "rejected")
      | some y =>
        match sysMalloc y sz with
        | (y', .ptr off) => (some y', s!"{off} use {zoneInUse y'.z}")
        | (y', .null) => (some y', s!"null use {zoneInUse y'.z}")
        | (_, _) => (s, "rejected")
    | none => (s, "bad-op")
  | ["free", off] =>
    match nat? off with
    | some off =>
      if off ≥ 2 ^ 64 then (s, "bad-op") else
      match s with
      | none => (s, "rejected")
      | some y =>
        match sysFree y off with
        | (y', .ok) => (some y', s!"ok use {zoneInUse y'.z}")
        | (y', .noop) => (some y', s!"noop use {zoneInUse y'.z}")
        | (_, _) => (s, "rejected")
    | none => (s, "bad-op")
  | ["freei", k] =>
    match nat? k with
    | some k =>
      if k ≥ 2 ^ 64 then (s, "bad-op") else
      match s with
      | none => (s, "rejected")
      | some y =>
        match y.live[k % y.live.length]? with
        | none => (s, "rejected")
        | some e =>
          match sysFree y (e.1 * y.z.unit) with
          | (y', .ok) => (some y', s!"ok {e.1 * y.z.unit} use {zoneInUse y'.z}")
          | (y', .noop) => (some y', s!"noop {e.1 * y.z.unit} use {zoneInUse y'.z}")
          | (_, _) => (s, "rejected")
    | none => (s, "bad-op")
  | ["dump"] =>
    match s with
    | none => (s, "rejected")
    | some y => (s, dump y.z)
  | _ => (s, "bad-op")

def main : IO Unit := Proto.run none step
