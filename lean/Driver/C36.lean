import ParsecVerif.Base.Proto
import ParsecVerif.Model.RbTree
open ParsecVerif ParsecVerif.Proto ParsecVerif.RbTree

structure St where
  t : Tree
  next : Nat

def init : St := ⟨Tree.nil, 0⟩

def showNode : Option (Int × Nat) → String
  | some (k, i) => s!"{k}:{i}"
  | none => "none"

def step (s : St) : List String → St × String
  | ["case", n] => match int? n with
    | some _ => (init, "ok")
    | none => (s, "bad-op")
  | ["ins", k] => match int? k with
    | some k =>
      let t' := insert s.t k s.next
      (⟨t', s.next + 1⟩, s!"{s.next} {showTree t'}")
    | none => (s, "bad-op")
  | ["rm", i] => match int? i with
    | some i =>
      if i < 0 || !hasId i.toNat s.t then (s, "rejected") else
      let t' := remove s.t i.toNat
      (⟨t', s.next⟩, showTree t')
    | none => (s, "bad-op")
  | ["upd", i, k] => match int? i, int? k with
    | some i, some k =>
      if i < 0 || !hasId i.toNat s.t then (s, "rejected") else
      match update s.t i.toNat k with
      | some t' => (⟨t', s.next⟩, "ok " ++ showTree t')
      | none => (s, "exists " ++ showTree s.t)
    | _, _ => (s, "bad-op")
  | ["find", k] => match int? k with
    | some k => (s, showNode (find k s.t))
    | none => (s, "bad-op")
  | ["fol", k] => match int? k with
    | some k => (s, showNode (findOrLarger k s.t))
    | none => (s, "bad-op")
  | ["min"] => match minNode s.t with
    | some m => (s, showNode (some m))
    | none => (s, "rejected")
  | ["each"] => (s, showList ((inorder s.t).map fun p => s!"{p.1}:{p.2}"))
  | _ => (s, "bad-op")

def main : IO Unit := Proto.run init step
