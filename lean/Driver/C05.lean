import ParsecVerif.Base.Proto
import ParsecVerif.Model.PtgParse
import ParsecVerif.Model.PtgDist
/-!
  Driver for C05 (exe `pv_C05`), used by checks/C05.py.  Line protocol:

    prog <serialisation>                         -> ok <instances> <edges>
    wf                                           -> `wf <bool> gwf <bool>`: Ptg.WellFormed and DGraph.WF of graphOfProg
    ref <nt>                                     -> reference interpreter: `c l.. : seen.. : wrote.. ; .. # tile0 tile1 ..`
    dok <topo> <nranks> <nt> <table..>           -> `true <collectives> <differing> <c13> <multi>` | `false <collectives> <differing> <c13> <multi> / <node..>`
                                                    dataOKAll for the configuration (the hypothesis of
                                                    C05_rank_invariance_partial), number of nodes with a remote
                                                    successor, number of those whose outputs have different rank sets,
                                                    number of nodes violating C13's DeliveryOK (control outputs included),
                                                    number of outputs with at least two destination ranks (relayed under chain / binomial),
                                                    and the offending nodes as instance positions
    starved <topo> <nranks> <nt> <table..>       -> instances (`c l..`, `;`-separated) that can never run when outputs are lost
    place <nranks> <nt> <table..>                -> owner rank of every instance
    sim <topo> <nranks> <nt> <short> <seed> <steps> <table..>
                                                 -> `terminated <bool> equal <bool> steps <n> msgs <n>`: one pseudo-random run of the
                                                    distributed abstract machine on the program's graph
-/
open ParsecVerif ParsecVerif.Proto ParsecVerif.Ptg ParsecVerif.PtgDist ParsecVerif.DistRt ParsecVerif.RemoteDep

structure DSt5 where
  prog : Option Program := none

def topoOf : Nat → Topo
  | 0 => .star
  | 2 => .binomial
  | _ => .chain

def showOpt (v : Option Int) : String := match v with | some x => toString x | none => "-"

def showRec (r : Rec) : String :=
  let a := " ".intercalate ((toString r.inst.cls) :: r.inst.env.map toString)
  s!"{a} : {" ".intercalate (r.seen.map showOpt)} : {" ".intercalate (r.wrote.map showOpt)}"

def showInst (t : Instance) : String := " ".intercalate ((toString t.cls) :: t.env.map toString)

def step5 (s : DSt5) : List String → DSt5 × String
  | "prog" :: ws =>
    match Parse.parseProgram ws with
    | some p => ({ prog := some p }, s!"ok {(allInstances p).length} {(graphOfProg p).E.length}")
    | none => (s, "bad-op")
  | ws =>
    match s.prog with
    | none => (s, "bad-op")
    | some p =>
      match ws with
      | ["wf"] => (s, s!"wf {WellFormed p} gwf {decide (graphOfProg p).WF && (graphOfProg p).E.length == (allOutEdges p).length}")
      | ["ref", nt] =>
        match nat? nt with
        | some nt =>
          let r := refRun p nt
          (s, " ; ".intercalate (r.recs.map showRec) ++ " # " ++ " ".intercalate (r.tiles.map toString))
        | none => (s, "bad-op")
      | "dok" :: t :: n :: nt :: tab =>
        match nat? t, nat? n, nat? nt, nats? tab with
        | some t, some n, some nt, some tab =>
          if n == 0 then (s, "bad-op") else
          let g := graphOfProg p
          let cf := confOf p nt tab (topoOf t) n 0
          let colls := (List.range g.n).filter fun a => !(outsOf g cf a).isEmpty
          let differing := colls.filter fun a =>
            match outsOf g cf a with
            | o :: os => os.any fun o' => !(o'.2.all o.2.contains && o.2.all o'.2.contains)
            | [] => false
          let bad := notOK g cf
          let c13 := (notDeliveryOK g cf).length
          -- outputs sent to at least two other ranks (chain and binomial need a relay for them)
          let multi := ((List.range g.n).map fun a => ((outsOf g cf a).filter fun o => 2 ≤ o.2.eraseDups.length).length).sum
          if bad.isEmpty then (s, s!"true {colls.length} {differing.length} {c13} {multi}")
          else (s, s!"false {colls.length} {differing.length} {c13} {multi} / {" ".intercalate (bad.map toString)}")
        | _, _, _, _ => (s, "bad-op")
      | "starved" :: t :: n :: nt :: tab =>
        match nat? t, nat? n, nat? nt, nats? tab with
        | some t, some n, some nt, some tab =>
          if n == 0 then (s, "bad-op") else
          let g := graphOfProg p
          let cf := confOf p nt tab (topoOf t) n 0
          let insts := allInstances p
          (s, " ; ".intercalate ((starved g cf).reverse.filterMap fun i => (insts[i]?).map showInst))
        | _, _, _, _ => (s, "bad-op")
      | "place" :: n :: nt :: tab =>
        match nat? n, nat? nt, nats? tab with
        | some n, some nt, some tab =>
          if n == 0 then (s, "bad-op") else
          (s, " ".intercalate ((List.range (allInstances p).length).map fun i => toString (placeOfProg p nt tab n i)))
        | _, _, _ => (s, "bad-op")
      | "sim" :: t :: n :: nt :: sh :: seed :: steps :: tab =>
        match nat? t, nat? n, nat? nt, nat? sh, nat? seed, nat? steps, nats? tab with
        | some t, some n, some nt, some sh, some seed, some steps, some tab =>
          if n == 0 then (s, "bad-op") else
          let g := graphOfProg p
          let cf := confOf p nt tab (topoOf t) n sh
          let (fin, trace) := schedule g cf simF (choices steps seed) (dinit g []) []
          let stuck := (pick g cf fin false 0).isNone
          let term := stuck && fin.core.pending.isEmpty && fin.core.status.all (· == Dataflow.Status.ended) &&
            (List.range g.n).all (fun a => (inflightOf fin a).isEmpty) && fin.xfer.isEmpty
          let eq := (List.range g.n).all fun i => fin.core.val[i]? == (seqRun g.graph simF)[i]?
          let msgs := (trace.filter fun tr => match tr with | .recvAct .. => true | _ => false).length
          (s, s!"terminated {term} equal {eq} stuck {stuck} steps {trace.length} msgs {msgs}")
        | _, _, _, _, _, _, _ => (s, "bad-op")
      | _ => (s, "bad-op")

def main : IO Unit := Proto.run ({} : DSt5) step5
