import ParsecVerif.Base.Proto
import ParsecVerif.Model.Argv
import ParsecVerif.Model.CmdLine
open ParsecVerif ParsecVerif.Proto ParsecVerif.Argv ParsecVerif.CmdLine

/-! Line-protocol driver for C39 (see harness/C39.c for the op grammar). -/

structure St where
  v : Vec
  c : Int
  h : Option Handle := none

def init : St := ⟨none, 0, none⟩

def safeByte (b : Nat) : Bool :=
  (48 ≤ b && b ≤ 57) || (65 ≤ b && b ≤ 90) || (97 ≤ b && b ≤ 122) ||
    [44, 46, 58, 59, 95, 61, 43, 47, 45].contains b

def hexDigit (n : Nat) : Char := if n < 10 then Char.ofNat (48 + n) else Char.ofNat (87 + n)

def encWord (s : Str) : String :=
  if s ≠ [] ∧ s.all safeByte then "'" ++ String.ofList (s.map Char.ofNat)
  else "x" ++ String.ofList (s.flatMap (fun b => [hexDigit (b / 16), hexDigit (b % 16)]))

def encVec : Vec → String
  | none => "NULL"
  | some l => "[" ++ " ".intercalate (l.map encWord) ++ "]"

def encState (s : St) : String := s!"argc={s.c} v={encVec s.v}"

inductive W where
  | ok (s : Str) | malformed | hasNul | null

def hexVal (c : Char) : Option Nat :=
  if '0' ≤ c ∧ c ≤ '9' then some (c.toNat - 48)
  else if 'a' ≤ c ∧ c ≤ 'f' then some (c.toNat - 87) else none

def decHex : List Char → Option (List Nat)
  | [] => some []
  | [_] => none
  | a :: b :: r =>
    match hexVal a, hexVal b, decHex r with
    | some x, some y, some t => some ((16 * x + y) :: t)
    | _, _, _ => none

def decWord (w : String) : W :=
  if w = "NULL" then .null else
  match w.toList with
  | '\'' :: _ => .ok ((w.toUTF8.toList.map (·.toNat)).drop 1)
  | 'x' :: r =>
    match decHex r with
    | none => .malformed
    | some bs => if bs.contains 0 then .hasNul else .ok bs
  | _ => .malformed

def decInt (w : String) : Option Int :=
  match w.toList with
  | '-' :: r => if r ≠ [] ∧ r.all Char.isDigit then (String.ofList r).toNat?.map (fun n => -(n : Int)) else none
  | r => if r ≠ [] ∧ r.all Char.isDigit then (String.ofList r).toNat?.map (fun n => (n : Int)) else none

/-- decode a list of words; `Except` carries `true` for malformed (bad-op), `false` for rejected -/
def decVec : List String → Except Bool (List Str)
  | [] => .ok []
  | w :: ws =>
    match decWord w with
    | .ok s => (decVec ws).map (s :: ·)
    | .hasNul => .error false
    | _ => .error true

def failWord (malformed : Bool) : String := if malformed then "bad-op" else "rejected"

def BIG : Int := 1000000
def big (a : Int) : Bool := a < -BIG || a > BIG

def doSplit (withEmpty : Bool) (ws : List String) : String :=
  match ws with
  | [w, d] =>
    match decInt d with
    | none => "bad-op"
    | some d =>
      match decWord w with
      | .ok s =>
        if d < 1 ∨ d > 127 then "rejected" else
        let r := if withEmpty then splitWithEmpty s d.toNat else split s d.toNat
        s!"{encVec r} j={encWord (join r d.toNat)}"
      | .hasNul => "rejected"
      | _ => "bad-op"
  | _ => "bad-op"

/-- decode the option table: `Except true` = bad-op; otherwise (options, rejectedFlag) -/
def decOpts : Nat → List String → Except Bool (List Opt × Bool × List String)
  | 0, ws => .ok ([], false, ws)
  | n + 1, sh :: sd :: lg :: np :: ws =>
    match decInt sh, decInt np with
    | some sh, some np =>
      let rej0 := sh < 0 || sh > 127 || big np
      match decWord sd with
      | .malformed => .error true
      | wsd =>
        match decWord lg with
        | .malformed => .error true
        | wlg =>
          let nm : W → Option Str × Bool := fun w => match w with
            | .ok s => (some s, false) | .hasNul => (none, true) | _ => (none, false)
          match decOpts n ws with
          | .error e => .error e
          | .ok (os, rej, rest) =>
            .ok (⟨if sh = 0 then none else some sh.toNat, (nm wsd).1, (nm wlg).1, np⟩ :: os,
                 rej0 || (nm wsd).2 || (nm wlg).2 || rej, rest)
    | _, _ => .error true
  | _, _ => .error true

def encQueryH (h : Handle) (k : Nat) (form : String) (name : Str) : String :=
  let n := h.ninsts name
  let np : Nat := match find h.opts name with | some (_, o) => o.nparams.toNat | none => 0
  let insts := (List.range n).map (fun inst =>
    let ps := ((List.range (np + 1)).map (fun idx => h.getParam name inst idx)).takeWhile Option.isSome
    " (" ++ String.join (ps.filterMap id |>.map (fun p => " " ++ encWord p)) ++ " )")
  s!" {k}{form}:{n}" ++ String.join insts

/-- the dump the harness prints through get_argc/get_argv, get_tail and get_ninsts/get_param -/
def dumpH (h : Handle) : String :=
  let args := (List.range h.argc.toNat).map (fun (i : Nat) => match h.getArgv (i : Int) with | some a => encWord a | none => "NULL")
  let cnt := (count h.argv)
  let qs := (List.range h.opts.length).zip h.opts |>.map (fun (k, o) =>
    (match o.short with | some c => encQueryH h k "s" [c] | none => "") ++
    (match o.sd with | some s => encQueryH h k "d" s | none => "") ++
    (match o.long with | some s => encQueryH h k "l" s | none => ""))
  s!"argv={h.argc}:[{" ".intercalate args}]" ++ (if h.argc ≠ cnt then s!"!count={cnt}" else "") ++
    s!" tail={h.getTail.1}:{encVec h.getTail.2} q=" ++ String.join qs

/-- add table entries until one is refused (`parsec_cmd_line_create` / the harness loop) -/
def addAll (h : Handle) : List Opt → Int × Handle
  | [] => (SUCCESS, h)
  | e :: t => if (h.addOpt e).1 ≠ SUCCESS then h.addOpt e else addAll (h.addOpt e).2 t

def doParse (ws : List String) : String :=
  match ws with
  | ign :: nopt :: rest =>
    match decInt ign, decInt nopt with
    | some ign, some nopt =>
      if nopt < 0 ∨ (ign ≠ 0 ∧ ign ≠ 1) then "bad-op"
      else if nopt > 32 then "rejected"
      else if (rest.length : Int) < 4 * nopt then "bad-op"
      else match decOpts nopt.toNat rest with
        | .error _ => "bad-op"
        | .ok (table, rej, avw) =>
          match decVec avw with
          | .error true => "bad-op"
          | .error false => "rejected"
          | .ok av =>
            if rej then "rejected" else
            let (crc, h) := addAll Handle.new table
            if crc ≠ SUCCESS then s!"create={crc}" else
            if (parse h.opts (ign = 1) av).outOfFuel then "model-out-of-fuel" else
            let r := h.parse (ign = 1) av
            s!"rc={r.1} " ++ dumpH r.2
    | _, _ => "bad-op"
  | _ => "bad-op"

def doHnew (s : St) (ws : List String) : St × String :=
  match ws with
  | nopt :: rest =>
    match decInt nopt with
    | some nopt =>
      if nopt < 0 then (s, "bad-op")
      else if nopt > 32 then (s, "rejected")
      else if (rest.length : Int) < 4 * nopt then (s, "bad-op")
      else match decOpts nopt.toNat rest with
        | .error _ => (s, "bad-op")
        | .ok (table, rej, extra) =>
          if extra ≠ [] then (s, "bad-op")
          else if rej then (s, "rejected")
          else
            let (crc, h) := addAll Handle.new table
            ({ s with h := some h }, s!"hrc={crc} nopts={h.opts.length}")
    | none => (s, "bad-op")
  | _ => (s, "bad-op")

def doHop (s : St) (h : Handle) : List String → St × String
  | ["haddopt", sh, sd, lg, np] =>
    match decOpts 1 [sh, sd, lg, np] with
    | .error _ => (s, "bad-op")
    | .ok (table, rej, _) =>
      if rej then (s, "rejected")
      else if h.opts.length ≥ 32 then (s, "rejected")
      else match table with
        | [e] => let r := h.addOpt e; ({ s with h := some r.2 }, s!"{r.1} nopts={r.2.opts.length}")
        | _ => (s, "bad-op")
  | "hparse" :: ign :: ws =>
    match decInt ign with
    | some ign =>
      if ign ≠ 0 ∧ ign ≠ 1 then (s, "bad-op") else
      match decVec ws with
      | .error e => (s, failWord e)
      | .ok av =>
        if (parse h.opts (ign = 1) av).outOfFuel then (s, "model-out-of-fuel") else
        let r := h.parse (ign = 1) av
        ({ s with h := some r.2 }, s!"rc={r.1} " ++ dumpH r.2)
    | none => (s, "bad-op")
  | ["hdump"] => (s, dumpH h)
  | ["htail"] => (s, s!"{h.getTail.1}:{encVec h.getTail.2}")
  | ["hninsts", w] =>
    match decWord w with
    | .ok x => (s, toString (h.ninsts x))
    | .hasNul => (s, "rejected")
    | _ => (s, "bad-op")
  | ["hparam", w, inst, idx] =>
    match decInt inst, decInt idx with
    | some a, some b =>
      match decWord w with
      | .ok x =>
        if a < 0 ∨ b < 0 ∨ a > BIG ∨ b > BIG then (s, "rejected")
        else (s, match h.getParam x a.toNat b.toNat with | some p => encWord p | none => "NULL")
      | .hasNul => (s, "rejected")
      | _ => (s, "bad-op")
    | _, _ => (s, "bad-op")
  | ["hargv", i] =>
    match decInt i with
    | some a => if big a then (s, "rejected") else (s, match h.getArgv a with | some p => encWord p | none => "NULL")
    | none => (s, "bad-op")
  | _ => (s, "bad-op")

def withWord (w : String) (k : Str → St × String) (s : St) : St × String :=
  match decWord w with
  | .ok x => k x
  | .hasNul => (s, "rejected")
  | _ => (s, "bad-op")

def step (s : St) : List String → St × String
  | ["case", _] => (init, "ok")
  | ["null"] => ({ s with v := none, c := 0 }, encState init)
  | "setv" :: ws =>
    match decVec ws with
    | .ok l => let s' : St := { s with v := some l, c := l.length }; (s', encState s')
    | .error e => (s, failWord e)
  | ["append", w] => withWord w (fun x =>
      let r := append s.v x; let s' : St := { s with v := r.2, c := r.1 }; (s', s!"0 {encState s'}")) s
  | ["appendn", w] => withWord w (fun x =>
      let s' : St := { s with v := appendNosize s.v x }; (s', s!"0 {encState s'}")) s
  | ["prepend", w] => withWord w (fun x =>
      let s' : St := { s with v := prependNosize s.v x }; (s', s!"0 {encState s'}")) s
  | ["appendu", w, ow] =>
    match decInt ow with
    | some ow =>
      if ow ≠ 0 ∧ ow ≠ 1 then (s, "bad-op") else
      withWord w (fun x =>
        let s' : St := { s with v := appendUniqueNosize s.v x (ow = 1) }; (s', s!"0 {encState s'}")) s
    | none => (s, "bad-op")
  | "insert" :: st :: ws =>
    match decInt st with
    | none => (s, "bad-op")
    | some a =>
      if ws = ["NULL"] then
        if big a then (s, "rejected") else
        let r := insert s.v a none; let s' : St := { s with v := r.2 }; (s', s!"{r.1} {encState s'}")
      else match decVec ws with
        | .error e => (s, failWord e)
        | .ok src =>
          if big a then (s, "rejected") else
          let r := insert s.v a (some src); let s' : St := { s with v := r.2 }; (s', s!"{r.1} {encState s'}")
  | ["inselt", loc, w] =>
    match decInt loc with
    | none => (s, "bad-op")
    | some a =>
      match decWord w with
      | .malformed => (s, "bad-op")
      | .hasNul => (s, "rejected")
      | wd =>
        if big a then (s, "rejected") else
        let src : Option Str := match wd with | .ok x => some x | _ => none
        let r := insertElement s.v a src; let s' : St := { s with v := r.2 }; (s', s!"{r.1} {encState s'}")
  | ["delete", st, num] =>
    match decInt st, decInt num with
    | some a, some b =>
      if big a || big b then (s, "rejected") else
      let r := delete s.c s.v a b; let s' : St := { s with v := r.2.2, c := r.2.1 }; (s', s!"{r.1} {encState s'}")
    | _, _ => (s, "bad-op")
  | ["count"] => (s, toString (count s.v))
  | ["len"] => (s, toString (len s.v))
  | ["copy"] => (s, encVec (copy s.v))
  | ["join", d] =>
    match decInt d with
    | some d => if d < 1 ∨ d > 127 then (s, "rejected") else (s, encWord (join s.v d.toNat))
    | none => (s, "bad-op")
  | ["joinr", a, b, d] =>
    match decInt a, decInt b, decInt d with
    | some a, some b, some d =>
      if d < 1 ∨ d > 127 ∨ a < 0 ∨ b < 0 ∨ a > BIG ∨ b > BIG then (s, "rejected")
      else (s, encWord (joinRange s.v a.toNat b.toNat d.toNat))
    | _, _, _ => (s, "bad-op")
  | "split" :: ws => (s, doSplit false ws)
  | "splite" :: ws => (s, doSplit true ws)
  | "parse" :: ws => (s, doParse ws)
  | "hnew" :: ws => doHnew s ws
  | w :: ws =>
    if w.startsWith "h" then
      match s.h with
      | none => (s, "rejected")
      | some h => doHop s h (w :: ws)
    else (s, "bad-op")
  | _ => (s, "bad-op")

def main : IO Unit := Proto.run init step
