import ParsecVerif.Base.Proto
import ParsecVerif.Model.Dtd
open ParsecVerif ParsecVerif.Proto ParsecVerif.Dtd

/-!
  Driver `pv_DTD` (shared by the checks C03, C04, C17): reads the same insertion script as harness/DTD.c and prints
  what the model predicts.
    case k D=<n> W=<w|def> T=<t|def> R=<ranks>   → ok
    t <tid> <rN|aJ> b<body> d:M ...               → ok        (appends a user task)
    c <parent> <tid> <rN|aJ> b<body> d:M ...      → ok        (same; inserted by a running task: same insertion order)
    wait                                          → ok
    flush d / flushall                            → ok        (appends the flush task(s): RW access placed on the owner)
    run                                           → done tasks=<n>
    obs <tid>                                     → values read by the task in `seqExec`
    val <d>                                       → final value of d in `seqExec`
    trace s<tid> f<tid> ...                       → accepted | rejected <event> <why>   (trace acceptor: the real begin/end
                                                    events must be enabled moves of the abstract machine, single rank)
-/

structure Cur where
  active : Bool := false
  ran : Bool := false
  nd : Nat := 0
  nranks : Nat := 1
  prog : Array Task := #[]
  nuser : Nat := 0
  pos : Array Nat := #[]          -- uid → position in `prog`
  flushed : List Nat := []        -- data flushed since the last wait (their tiles are gone until the wait)
  seqObs : Array (List Nat) := #[]
  final : List Nat := []

def parseMode : String → Option Mode
  | "R" => some .r | "W" => some .w | "RW" => some .rw | _ => none

def parseArg (nd : Nat) (s : String) : Option (Nat × Mode) :=
  match s.splitOn ":" with
  | [d, m] => match nat? d, parseMode m with
    | some d, some m => if d < nd then some (d, m) else none
    | _, _ => none
  | _ => none

def prefixedNat (c : Char) (s : String) : Option Nat :=
  if s.length ≥ 2 && s.front == c then (s.drop 1).toString.toNat? else none

/-- `<rN|aJ> b<body> args…` → task -/
def parseTask (c : Cur) (uid : Nat) (ws : List String) : Option Task :=
  match ws with
  | aff :: b :: args =>
    match prefixedNat 'b' b, args.mapM (parseArg c.nd) with
    | some body, some as =>
      if as.length > 6 then none else
      match prefixedNat 'r' aff, prefixedNat 'a' aff with
      | some r, _ => some { uid := uid, args := as, rank := r % c.nranks, kind := .user body }
      | none, some j => match as[j]? with
        | some a => some { uid := uid, args := as, rank := owner c.nranks a.1, kind := .user body }
        | none => none
      | none, none => none
    | _, _ => none
  | _ => none

def defOrNat (s : String) (minv : Nat) : Bool :=
  s == "def" || (match s.toNat? with | some n => n ≥ minv | none => false)

def showObs (l : List Nat) : String := "[" ++ " ".intercalate (l.map toString) ++ "]"

/-- rebuild the function-valued fields as tables (same values on the data of the case) -/
def compact (nd : Nat) (s : St) : St :=
  let r := (List.range nd).map s.readers
  let m := (List.range nd).map s.mem
  let lw := (List.range nd).map s.lastWriter
  { s with readers := fun d => r.getD d (s.readers d), mem := fun d => m.getD d (s.mem d),
           lastWriter := fun d => lw.getD d (s.lastWriter d) }

def NW : Nat := 1000000

def isFlush (t : Task) : Bool := t.kind == .flush

/-- run to completion the flush tasks before position `lim` that touch a datum of `tk` (all flush tasks if `tk` is none) -/
def drainFlush (p : Prog) (nd : Nat) (s : St) (lim : Nat) (tk : Option Task) : Except String St :=
  (List.range lim).foldlM (fun s f =>
    match p[f]? with
    | some ft =>
      if isFlush ft && !isDone s f && (match tk with | none => true | some t => ft.args.any (fun a => usesD t a.1)) then
        if enabled p NW s (.start f) then
          pure (compact nd (step p (step p s (.start f)) (.finish f)))
        else throw s!"flush-of-{(ft.args.map (·.1)).headD 0}-not-enabled"
      else pure s
    | none => pure s) s

def acceptEvents (c : Cur) (evs : List String) : String :=
  let p := c.prog.toList
  let s0 := compact c.nd (run p init (List.replicate p.length .ins))
  let r : Except String St := evs.foldlM (fun s ev =>
    match prefixedNat 's' ev, prefixedNat 'f' ev with
    | some uid, _ =>
      match c.pos[uid]? with
      | some pos => do
        let s ← (drainFlush p c.nd s pos p[pos]?).mapError (fun e => s!"rejected {ev} {e}")
        if enabled p NW s (.start pos) then pure (compact c.nd (step p s (.start pos)))
        else throw s!"rejected {ev} {if !isWaiting s pos then "not-waiting" else if !ready s pos then "not-ready" else "blocked"}"
      | none => throw s!"rejected {ev} unknown-task"
    | none, some uid =>
      match c.pos[uid]? with
      | some pos =>
        if enabled p NW s (.finish pos) then pure (compact c.nd (step p s (.finish pos)))
        else throw s!"rejected {ev} not-running"
      | none => throw s!"rejected {ev} unknown-task"
    | none, none => throw s!"rejected {ev} bad-event") s0
  match r with
  | .error e => e
  | .ok s =>
    match drainFlush p c.nd s p.length none with
    | .error e => s!"rejected end {e}"
    | .ok s => if (List.range p.length).all (isDone s) then "accepted" else "rejected end incomplete"

def addFlush (c : Cur) (d : Nat) : Cur :=
  { c with prog := c.prog.push (flushTask c.nranks d), flushed := d :: c.flushed }

def step' (c : Cur) : List String → Cur × String
  | ["case", _, d, w, t, r] =>
    if d.startsWith "D=" && w.startsWith "W=" && t.startsWith "T=" && r.startsWith "R=" then
      match (d.drop 2).toString.toNat?, (r.drop 2).toString.toNat? with
      | some nd, some nr =>
        if nd ≥ 1 && nd ≤ 16 && nr ≥ 1 && defOrNat (w.drop 2).toString 1 && defOrNat (t.drop 2).toString 0 then
          ({ active := true, nd := nd, nranks := nr }, "ok")
        else ({}, "bad-op")
      | _, _ => ({}, "bad-op")
    else ({}, "bad-op")
  | "t" :: tid :: rest =>
    if c.active && !c.ran && rest.length ≥ 2 then
      match nat? tid with
      | some uid =>
        if uid == c.nuser && uid < 2048 then
          match parseTask c uid rest with
          | some tk => ({ c with prog := c.prog.push tk, pos := c.pos.push c.prog.size, nuser := c.nuser + 1 }, "ok")
          | none => (c, "bad-op")
        else (c, "bad-op")
      | none => (c, "bad-op")
    else (c, "bad-op")
  | "c" :: par :: tid :: rest =>
    if c.active && !c.ran && rest.length ≥ 2 then
      match nat? par, nat? tid with
      | some pr, some uid =>
        if pr < c.nuser && uid == c.nuser && uid < 2048 then
          match parseTask c uid rest with
          | some tk => ({ c with prog := c.prog.push tk, pos := c.pos.push c.prog.size, nuser := c.nuser + 1 }, "ok")
          | none => (c, "bad-op")
        else (c, "bad-op")
      | _, _ => (c, "bad-op")
    else (c, "bad-op")
  | ["wait"] => if c.active && !c.ran then ({ c with flushed := [] }, "ok") else (c, "bad-op")
  | ["flush", d] =>
    match nat? d with
    | some d => if c.active && !c.ran && d < c.nd then (addFlush c d, "ok") else (c, "bad-op")
    | none => (c, "bad-op")
  | ["flushall"] =>
    if c.active && !c.ran then
      (((List.range c.nd).filter (fun d => !c.flushed.contains d)).foldl addFlush c, "ok")
    else (c, "bad-op")
  | ["run"] =>
    if c.active && !c.ran then
      -- the harness always ends with a flush of everything still live
      let c := ((List.range c.nd).filter (fun d => !c.flushed.contains d)).foldl addFlush c
      let r := seqExec c.prog.toList
      ({ c with ran := true, seqObs := r.obs.toArray, final := (List.range c.nd).map r.final },
       s!"done tasks={c.nuser}")
    else (c, "bad-op")
  | ["obs", tid] =>
    match nat? tid with
    | some uid =>
      if c.active && c.ran && uid < c.nuser then
        match c.pos[uid]? with
        | some pos => (c, showObs (c.seqObs[pos]?.getD []))
        | none => (c, "bad-op")
      else (c, "bad-op")
    | none => (c, "bad-op")
  | ["val", d] =>
    match nat? d with
    | some d => if c.active && c.ran && d < c.nd then (c, toString (c.final.getD d 0)) else (c, "bad-op")
    | none => (c, "bad-op")
  | "trace" :: evs =>
    if c.active && c.ran then
      if c.nranks > 1 then (c, "skipped") else (c, acceptEvents c evs)
    else (c, "bad-op")
  | _ => (c, "bad-op")

def main : IO Unit := Proto.run ({} : Cur) step'
