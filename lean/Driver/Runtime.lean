import ParsecVerif.Base.Proto
import ParsecVerif.Model.Dataflow
open ParsecVerif ParsecVerif.Proto ParsecVerif.Dataflow

/-- Trace acceptor over the generic dataflow machine.  Releases are not observable in real traces:
    before every observed event all enabled releases are performed (they only enable more). -/
structure Acceptor where
  g : Graph
  s : St
  ok : Bool

def sumF : Nat → List (Option Nat) → Nat := fun i ins => (i + 1 + (ins.map (·.getD 0)).sum) % 1000000007

def saturate (g : Graph) (s : St) : St :=
  g.E.foldl (fun s e => if enabled s (.release e.1 e.2) then step g sumF s (.release e.1 e.2) else s) s

def pairs : List Nat → List (Nat × Nat)
  | a :: b :: t => (a, b) :: pairs t
  | _ => []

def stName : Status → String
  | .waiting => "W" | .ready => "R" | .running => "X" | .ended => "E"

/-- ops: `graph n again... | s d s d ...`   `ev s|a|e i`   `done`   `val i` -/
def stepD (a : Acceptor) : List String → Acceptor × String
  | "graph" :: n :: rest =>
    let ag := rest.takeWhile (· ≠ "|")
    let es := (rest.dropWhile (· ≠ "|")).drop 1
    match nat? n, nats? ag, nats? es with
    | some n, some ag, some es =>
      let g : Graph := ⟨n, pairs es⟩
      if es.length % 2 ≠ 0 ∨ (pairs es).any (fun e => e.1 ≥ n ∨ e.2 ≥ n) then (a, "bad-op")
      else ({ g := g, s := init g (ag ++ List.replicate (n - ag.length) 0), ok := true }, "ok")
    | _, _, _ => (a, "bad-op")
  | ["ev", k, i] =>
    match nat? i with
    | none => (a, "bad-op")
    | some i =>
      let t : Option Tr := match k with
        | "s" => some (.start i) | "a" => some (.again i) | "e" => some (.finish i) | _ => none
      match t with
      | none => (a, "bad-op")
      | some t =>
        let s1 := saturate a.g a.s
        if enabled s1 t then ({ a with s := step a.g sumF s1 t }, "ok")
        else ({ a with s := s1, ok := false },
              s!"reject status={(s1.status[i]?.map stName).getD "none"} againLeft={(s1.again[i]?).getD 0}")
  | ["done"] =>
    let s1 := saturate a.g a.s
    let q := s1.pending.isEmpty && s1.status.all (· == .ended)
    ({ a with s := s1 }, if q && a.ok then "quiescent" else s!"not-quiescent pending={s1.pending.length} status={String.join (s1.status.map stName)}")
  | ["val", i] =>
    match nat? i with
    | some i => (a, toString ((a.s.val[i]?).getD none |>.getD 0))
    | none => (a, "bad-op")
  | _ => (a, "bad-op")

def main : IO Unit := Proto.run ({ g := ⟨0, []⟩, s := init ⟨0, []⟩ [], ok := true } : Acceptor) stepD
