import ParsecVerif.Base.Proto
import ParsecVerif.Model.PtgParse
import ParsecVerif.Model.PtgRt
import ParsecVerif.Model.PtgStartup
/-!
  Driver for the runtime-level PTG properties C01 (second half), C02, C16 (exe `pv_PTGRT`).
  The trace acceptor is the dataflow machine of `Model/Dataflow.lean` on `PtgRt.graphOf p`; releases are not observable
  in real traces, so all enabled releases are performed before every observed event (they only enable more).
  The data side is `PtgRt.heapOfLog`: the body of a node acts on the heap when its completion is observed.

    prog <serialisation>          -> ok <nclasses>          (docs/notes/PTG.md; resets everything)
    cfg <tiles> <iter> <chunk>    -> ok                     (collection size, task_startup_iter, task_startup_chunk)
    graph                         -> <nodes> <edges>
    valid                         -> wf <b> racefree <b> asyncsafe <b> singlesrc <b> named <b>
    again <k> <cls> <locals..>    -> ok | bad:not-in-space  (the body of that instance answers AGAIN k times; default 0)
    go                            -> ok                     (starts the acceptor with the AGAIN answers given so far)
    B <cls> <locals..>            -> ok | bad:<reason>      (a body begins)
    A <cls> <locals..>            -> ok | bad:<reason>      (the body answered AGAIN)
    E <cls> <locals..>            -> ok in <v|-..> out <v|-..> | bad:<reason>   (the body ended: values seen / written per flow)
    end                           -> complete | incomplete pending=<n> status=<..>
    final                         -> contents of the tiles after the trace (heapOfLog)
    seqfinal                      -> contents of the tiles after the reference sequential interpreter (seqRun)
    seqin <cls> <locals..>        -> in <v|-..> out <v|-..> of that instance in the sequential interpreter
    nbatches <cls>                -> number of rings the startup function of the class schedules (all invocations)
    ninvocations <cls>            -> number of invocations of the startup function (AGAIN answers + 1) | diverges
    batch <cls> <k>               -> the instances of the k-th ring, creation order: `l0 l1 ; l0 l1 ..`
-/
open ParsecVerif ParsecVerif.Proto ParsecVerif.Ptg ParsecVerif.PtgRt ParsecVerif.PtgStartup

def mixH (h : Nat) (x : Int) : Nat := (h * 31 + (x % 4294967296).toNat) % 1000003

/-- the body function of harness/ptg_rt.c (`ptg_task_end`) -/
def bodyH : BodyFn := fun cls f env ins =>
  let h := mixH (mixH 17 cls) f
  let h := env.foldl mixH h
  ins.foldl (fun h (v : Nat) => mixH h (v : Int)) h

structure RtSt where
  prog : Option Program := none
  cfg : Cfg := {}
  insts : List Instance := []
  g : Dataflow.Graph := ⟨0, []⟩
  fls : List (List FlowD) := []
  ds : List NodeD := []
  m : Option Dataflow.St := none
  ok : Bool := true
  heap : LHeap := []
  seq : Option LHeap := none
  agl : List (Nat × Nat) := []

def setup (p : Program) (cfg : Cfg) : RtSt :=
  { prog := some p, cfg := cfg, insts := allInstances p, g := graphOf p cfg, fls := nodeFlows p cfg, ds := nodeDs p cfg bodyH }

def dummyF : Nat → List (Option Nat) → Nat := fun _ _ => 0

def saturate (g : Dataflow.Graph) (s : Dataflow.St) : Dataflow.St :=
  g.E.foldl (fun s e => if Dataflow.enabled s (.release e.1 e.2) then Dataflow.step g dummyF s (.release e.1 e.2) else s) s

def stName : Dataflow.Status → String
  | .waiting => "W" | .ready => "R" | .running => "X" | .ended => "E"

def splitAt (ws : List String) : List String := ws.takeWhile (· ≠ "/")

/-- `in .. out ..` of node j read from a heap in which the body of j has run -/
def showIO (s : RtSt) (l : LHeap) (j : Nat) : String :=
  let h := l.get
  match s.insts[j]?, s.fls[j]? with
  | some t, some fl =>
    let efl := enumFrom 0 fl
    let ins : List Nat := (efl.filter fun x => x.2.reads || x.2.writes).map fun x => h (.obs j x.1)
    let sin := efl.map fun x => if x.2.reads && x.2.copy.isSome then toString (h (.obs j x.1)) else "-"
    let sout := efl.map fun x => if x.2.writes && x.2.copy.isSome then toString (bodyH t.cls x.1 t.env ins) else "-"
    "in " ++ " ".intercalate sin ++ " out " ++ " ".intercalate sout
  | _, _ => "bad-node"

/-- the tiles whose content differs from the initial one, `t:v`, by increasing tile -/
def showTiles (l : LHeap) : String :=
  let ks := ((l.filterMap fun w => match w.1 with | .tile k => some k | _ => none).eraseDups).mergeSort
  " ".intercalate ((ks.filter fun k => l.get (.tile k) != 1000 + k).map fun k => s!"{k}:{l.get (.tile k)}")

def evStep (s : RtSt) (kind : String) (ws : List String) : RtSt × String :=
  match s.m, ints? (splitAt ws) with
  | some m, some (c :: env) =>
    if c < 0 then (s, "bad-op") else
    match ixOf s.insts ⟨c.toNat, env⟩ with
    | none => ({ s with ok := false }, "bad:not-in-space")
    | some j =>
      let m1 := saturate s.g m
      let tr : Dataflow.Tr := if kind == "B" then .start j else if kind == "A" then .again j else .finish j
      if !Dataflow.enabled m1 tr then
        ({ s with m := some m1, ok := false },
         s!"bad:not-enabled status={(m1.status[j]?.map stName).getD "none"} againLeft={(m1.again[j]?).getD 0}")
      else
        let m2 := Dataflow.step s.g dummyF m1 tr
        if kind == "E" then
          let h := match s.ds[j]? with | some d => d.execL s.heap | none => s.heap
          ({ s with m := some m2, heap := h }, "ok " ++ showIO s h j)
        else ({ s with m := some m2 }, "ok")
  | none, _ => (s, "bad:no-go")
  | _, _ => (s, "bad-op")

def batchesOf (s : RtSt) (p : Program) (c : Nat) : Option (List (List (List Int))) :=
  (startupChunks p c s.cfg.startupIter s.cfg.startupChunk).map (·.flatten)

def showInsts (l : List (List Int)) : String :=
  " ; ".intercalate (l.map fun a => " ".intercalate (a.map toString))

def step (s : RtSt) : List String → RtSt × String
  | "prog" :: ws =>
    match Parse.parseProgram ws with
    | some p => (setup p s.cfg, s!"ok {p.classes.length}")
    | none => (s, "bad-op")
  | ws =>
    match s.prog with
    | none => (s, "bad-op")
    | some p =>
      match ws with
      | ["cfg", t, i, c] =>
        match nat? t, nat? i, nat? c with
        | some t, some i, some c => (setup p { tiles := t, startupIter := i, startupChunk := c }, "ok")
        | _, _, _ => (s, "bad-op")
      | ["graph"] => (s, s!"{s.g.n} {s.g.E.length}")
      | ["valid"] =>
        let b (x : Bool) : String := if x then "true" else "false"
        let single := (enumFrom 0 s.insts).all fun x =>
          match p.classes[x.2.cls]? with
          | some cl => cl.flows.all fun f => f.access == .ctl ||
              ((f.ins.filterMap (activeTarget p.globals x.2.env)).filter Target.isTask).length ≤ 1
          | none => false
        (s, s!"wf {b (WellFormed p)} racefree {b (raceFreeB s.g s.ds)} asyncsafe {b (asyncSafeB s.g s.fls)} singlesrc {b single} named {b (namedOKB p s.cfg bodyH)}")
      | "again" :: k :: rest =>
        match nat? k, ints? rest with
        | some k, some (c :: env) =>
          if c < 0 then (s, "bad-op") else
          match ixOf s.insts ⟨c.toNat, env⟩ with
          | none => (s, "bad:not-in-space")
          | some j => ({ s with agl := (j, k) :: s.agl }, "ok")
        | _, _ => (s, "bad-op")
      | ["go"] =>
        let ag := (List.range s.g.n).map fun j => ((s.agl.find? fun x => x.1 == j).map (·.2)).getD 0
        ({ s with m := some (Dataflow.init s.g ag), ok := true, heap := [] }, "ok")
      | "B" :: rest => evStep s "B" rest
      | "A" :: rest => evStep s "A" rest
      | "E" :: rest => evStep s "E" rest
      | ["end"] =>
        match s.m with
        | none => (s, "bad:no-go")
        | some m =>
          let m1 := saturate s.g m
          let q := m1.pending.isEmpty && m1.status.all (· == .ended)
          ({ s with m := some m1 }, if q && s.ok then "complete"
             else s!"incomplete pending={m1.pending.length} status={String.join (m1.status.map stName)}")
      | ["final"] => (s, showTiles s.heap)
      | ["seqfinal"] =>
        let h := match s.seq with | some h => h | none => runOrderL s.ds (List.range s.insts.length) []
        ({ s with seq := some h }, showTiles h)
      | "seqin" :: rest =>
        match ints? rest with
        | some (c :: env) =>
          if c < 0 then (s, "bad-op") else
          match ixOf s.insts ⟨c.toNat, env⟩ with
          | none => (s, "bad:not-in-space")
          | some j =>
            let h := match s.seq with | some h => h | none => runOrderL s.ds (List.range s.insts.length) []
            ({ s with seq := some h }, showIO s h j)
        | _ => (s, "bad-op")
      | ["nbatches", c] =>
        match nat? c with
        | some c => (s, match batchesOf s p c with | some l => toString l.length | none => "diverges")
        | none => (s, "bad-op")
      | ["ninvocations", c] =>
        match nat? c with
        | some c => (s, match startupChunks p c s.cfg.startupIter s.cfg.startupChunk with | some l => toString l.length | none => "diverges")
        | none => (s, "bad-op")
      | ["batch", c, k] =>
        match nat? c, nat? k with
        | some c, some k => (s, match batchesOf s p c with
            | some l => (match l[k]? with | some b => showInsts b | none => "none")
            | none => "diverges")
        | _, _ => (s, "bad-op")
      | _ => (s, "bad-op")

def main : IO Unit := Proto.run ({} : RtSt) step
