import ParsecVerif.Base.Proto
import ParsecVerif.Model.Sched.Proto
import ParsecVerif.Model.Sched.Prio
open ParsecVerif ParsecVerif.Proto ParsecVerif.Sched

inductive MSt
  | none
  | ap (s : LSt)
  | ip (s : LSt)
  | spq (s : SpqSt)

structure DSt where
  n : Nat
  m : MSt

def pendingIds : MSt → List Nat
  | .none => []
  | .ap s => s.list.map (·.id)
  | .ip s => s.list.map (·.id)
  | .spq s => s.pls.flatMap (fun p => p.2.map (·.id))

def doSched (s : DSt) (ring : List Task) (d : Int) : DSt :=
  match s.m with
  | .none => s
  | .ap x => { s with m := .ap (apSchedule x ring d) }
  | .ip x => { s with m := .ip (ipSchedule x ring d) }
  | .spq x => { s with m := .spq (spqSchedule x ring d) }

def doSel (s : DSt) : DSt × Option (Task × Int) :=
  match s.m with
  | .none => (s, none)
  | .ap x => ({ s with m := .ap (apSelect x).1 }, (apSelect x).2)
  | .ip x => ({ s with m := .ip (ipSelect x).1 }, (ipSelect x).2)
  | .spq x => ({ s with m := .spq (spqSelect x).1 }, (spqSelect x).2)

def isNone : MSt → Bool
  | .none => true
  | _ => false

def step (s : DSt) : List String → DSt × String
  | ["case", _] => (⟨0, .none⟩, "ok")
  | ["mod", name, n] =>
    match nat? n with
    | some n =>
      if n = 0 then (s, "bad-op") else
      match name with
      | "ap" => (⟨n, .ap LSt.init⟩, "ok")
      | "ip" => (⟨n, .ip LSt.init⟩, "ok")
      | "spq" => (⟨n, .spq SpqSt.init⟩, "ok")
      | _ => (s, "bad-op")
    | none => (s, "bad-op")
  | "sched" :: es :: d :: toks =>
    if isNone s.m then (s, "bad-op") else
    match nat? es, int? d with
    | some es, some d =>
      if toks.isEmpty then (s, "bad-op") else
      if es ≥ s.n then (s, "rejected") else
      match ring? toks with
      | some ring =>
        if ringRejected (pendingIds s.m) ring then (s, "rejected")
        else (doSched s ring d, "ok")
      | none => (s, "bad-op")
    | _, _ => (s, "bad-op")
  | ["sel", es] =>
    if isNone s.m then (s, "bad-op") else
    match nat? es with
    | some es =>
      if es ≥ s.n then (s, "rejected") else
      let r := doSel s
      (r.1, showSel r.2)
    | none => (s, "bad-op")
  | _ => (s, "bad-op")

def main : IO Unit := Proto.run ⟨0, .none⟩ step
