import ParsecVerif.Base.Proto
import ParsecVerif.Model.DepWord
open ParsecVerif ParsecVerif.Proto ParsecVerif.DepWord

/-- driver state: the current case -/
inductive Cur
  | none
  | counter (goal : Int) (s : CState)
  | mask (im g : Nat) (bits : List Nat) (s : MState)

def parseGuard : Char → Option Guard
  | 'n' => some .none | 't' => some .t | 'f' => some .f | _ => none

/-- `X:tT,nL`  data flow, deps (guard n|t|f)(source T = task | L = collection)
    `K:f0,n3`  control flow, deps (guard)(0 = plain | k+1 = gather of k) -/
def parseDataDep (w : String) : Option (Guard × Bool) :=
  match w.toList with
  | [g, 'T'] => (parseGuard g).map (·, false)
  | [g, 'L'] => (parseGuard g).map (·, true)
  | _ => none
def parseCtlDep (w : String) : Option (Guard × Nat) :=
  match w.toList with
  | g :: rest => match parseGuard g, (String.ofList rest).toNat? with
    | some g, some v => some (g, v)
    | _, _ => none
  | _ => none

def parseFlow : String → Option FlowKind
  | "D" => some .data | "L" => some .localData | "C1" => some .ctl1 | "CN" => some .ctlNone | "W" => some .writeOnly
  | s =>
    if s.startsWith "G" then (s.drop 1).toString.toNat?.map .ctl
    else if s.startsWith "X:" then (((s.drop 2).toString.splitOn ",").mapM parseDataDep).map .dataDeps
    else if s.startsWith "K:" then (((s.drop 2).toString.splitOn ",").mapM parseCtlDep).map .ctlDeps
    else none

def pcName : Pc → String
  | .start => "start" | .cas => "cas" | .dec => "rmw" | .done b => if b then "done1" else "done0"
def mpcName : MPc → String
  | .start => "start" | .orr _ => "rmw" | .done b => if b then "done1" else "done0"

/-- ops:
    `case k counter F..`  flows; n threads = goalCounter   → `ok n=<threads> goal=<goal>`
    `case k mask F..`     → `ok n=<threads> goal=<mask> in=<inmask>`
    `step t`              → `<pc of t after the step> w=<word>`
    `rets`                → list of pcs -/
def step (c : Cur) : List String → Cur × String
  | "case" :: _ :: "counter" :: fl =>
    match fl.mapM parseFlow with
    | some flows =>
      let g := goalCounter flows
      (.counter g (cinit g), s!"ok n={g} goal={g}")
    | none => (c, "bad-op")
  | "case" :: _ :: "mask" :: fl =>
    match fl.mapM parseFlow with
    | some flows =>
      let bits := releaseBits flows
      (.mask (inMask flows) (goalMask flows) bits (minit bits.length),
        s!"ok n={bits.length} goal={goalMask flows}")
    | none => (c, "bad-op")
  | ["step", t] =>
    match nat? t, c with
    | some t, .counter g s =>
      let s' := cstep g s t
      (.counter g s', s!"{(s'.pcs[t]?.map pcName).getD "none"} w={s'.w}")
    | some t, .mask im g bits s =>
      let s' := mstep im g bits s t
      (.mask im g bits s', s!"{(s'.pcs[t]?.map mpcName).getD "none"} w={s'.w}")
    | _, _ => (c, "bad-op")
  | ["rets"] =>
    match c with
    | .counter _ s => (c, showList (s.pcs.map pcName))
    | .mask _ _ _ s => (c, showList (s.pcs.map mpcName))
    | .none => (c, "bad-op")
  | _ => (c, "bad-op")

def main : IO Unit := Proto.run Cur.none step
