import ParsecVerif.Base.Proto
import ParsecVerif.Model.Info
open ParsecVerif ParsecVerif.Proto ParsecVerif.Info

def step (s : St) : List String → St × String
  | ["case", _] => (init, "ok")
  | ["reg", name, c, d, v] =>
    match nat? c, nat? d, nat? v with
    | some c, some d, some v =>
      let (s', r) := register s name (if c ≠ 0 then some v else none) (d ≠ 0)
      (s', s!"{r} @{fpListSection}")
    | _, _, _ => (s, "bad-op")
  | ["unreg", iid] =>
    match int? iid with
    | some i =>
      if i < 0 then (s, s!"-1 [] @{fpListSection}") else
      let (s', r, ds) := unregister s i.toNat
      (s', s!"{r} {showList ds} @{fpUnregister s i.toNat}")
    | none => (s, "bad-op")
  | ["lookup", name] => (s, s!"{lookup s name} @{fpListSection}")
  | ["oanew"] =>
    if s.oas.length ≥ 64 then (s, "rejected") else
    let (s', k) := oaNew s
    (s', s!"{k} @{fpListSection}")
  | ["set", a, iid, v] =>
    match int? a, int? iid, nat? v with
    | some a, some iid, some v =>
      if a < 0 ∨ iid < 0 then (s, "rejected") else
      match set s a.toNat iid.toNat v with
      | some (s', r) => (s', s!"{r} @{fpSet s a.toNat iid.toNat}")
      | none => (s, "rejected")
    | _, _, _ => (s, "bad-op")
  | ["get", a, iid] =>
    match int? a, int? iid with
    | some a, some iid =>
      if a < 0 ∨ iid < 0 then (s, "rejected") else
      match get s a.toNat iid.toNat with
      | some (s', r) => (s', s!"{r} @{fpGet s a.toNat iid.toNat}")
      | none => (s, "rejected")
    | _, _ => (s, "bad-op")
  | ["tas", a, iid, v, w] =>
    match int? a, int? iid, nat? v, nat? w with
    | some a, some iid, some v, some w =>
      if a < 0 ∨ iid < 0 then (s, "rejected") else
      match tas s a.toNat iid.toNat v w with
      | some (s', r) => (s', s!"{r} @{fpTas s a.toNat iid.toNat}")
      | none => (s, "rejected")
    | _, _, _, _ => (s, "bad-op")
  | ["maxid"] => (s, toString s.maxId)
  | _ => (s, "bad-op")

def main : IO Unit := Proto.run init step
