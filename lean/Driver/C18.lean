import ParsecVerif.Base.Proto
import ParsecVerif.Model.Reshape
open ParsecVerif ParsecVerif.Proto ParsecVerif.Reshape ParsecVerif.MatrixTypes

/-!
ops
  `prog P mb nb ld nt pt ptd nc (C ot or it ir fan shift)*`   (types: ids 0..6, -1 = none)  → `ok` | `bad-op`
  `cfg W short`                 → `ok clean` | `ok` + tags among `trunc mixed shortmulti shortsize packedmulti diffsets`
  `prod k`                      → `r<rank> d<type> : <footprint of what the producer received>`
  `view c k t`                  → `r<rank> d<type> s<checksum declared region> u<checksum rest> : <footprint>`
  `doc c k t`                   → the same under the documented semantics (own output type), local consumers only
  `share k r`                   → sharing partition of PROD(k)'s copies on rank r
  `final k`                     → `r<rank> : <collection tile after the run>`
  `guard r` → `ok`      `end r` → `complete`
  `rs su sdg du ddg m n ld`     → direct conversion: source tile `prodVal 0`, fresh copy POISON   `ok : <footprint>` | `rejected`
-/

structure St where
  p : Option Prog
  w : Nat
  short : Bool

def optTy (i : Int) : Option (Option Nat) :=
  if i = -1 then some none else if 0 ≤ i ∧ i < 7 then some (some i.toNat) else none

def parseCons : Nat → List Int → Option (List Cons)
  | 0, [] => some []
  | 0, _ => none
  | n + 1, a :: b :: c :: d :: fan :: shift :: rest =>
    match optTy a, optTy b, optTy c, optTy d, parseCons n rest with
    | some a, some b, some c, some d, some cs =>
      if 0 ≤ fan ∧ 0 ≤ shift then some (⟨a, b, c, d, fan.toNat, shift.toNat⟩ :: cs) else none
    | _, _, _, _, _ => none
  | _, _ => none

def parseProg (ws : List String) : Option Prog :=
  match ws with
  | "P" :: rest =>
    match ints? (rest.filter (· ≠ "C")) with
    | some (mb :: nb :: ld :: nt :: pt :: ptd :: nc :: cs) =>
      if mb < 0 ∨ nb < 0 ∨ ld < 0 ∨ nt < 0 ∨ nc < 0 then none else
      match optTy pt, optTy ptd, parseCons nc.toNat cs with
      | some pt, some ptd, some cons =>
        let p : Prog := ⟨mb.toNat, nb.toNat, ld.toNat, nt.toNat, pt, ptd, cons⟩
        if wellFormed p then some p else none
      | _, _, _ => none
    | _ => none
  | _ => none

def tags (p : Prog) (w : Nat) (short : Bool) : String :=
  let t := (if noTrunc p w then [] else ["trunc"]) ++ (if mixedLocal p w then ["mixed"] else []) ++
    (if short && shortMulti p w then ["shortmulti"] else []) ++ (if short && shortSize p w then ["shortsize"] else []) ++
    (if !short && packedMulti p w then ["packedmulti"] else []) ++ (if diffSets p w then ["diffsets"] else [])
  if t.isEmpty then "ok clean" else "ok " ++ " ".intercalate t

def shapeArg (u : Nat) (d : Int) : Option Shape :=
  if u = UPPER ∨ u = LOWER ∨ u = FULL then some ⟨u, d⟩ else none

def step (s : St) (ws : List String) : St × String :=
  match ws with
  | "prog" :: rest =>
    match parseProg rest with
    | some p => ({ s with p := some p }, "ok")
    | none => ({ s with p := none }, "bad-op")
  | ["cfg", w, sh] =>
    match s.p, nat? w, nat? sh with
    | some p, some w, some sh => if w = 0 ∨ w > 64 then (s, "bad-op") else ({ s with w := w, short := sh ≠ 0 }, tags p w (sh ≠ 0))
    | _, _, _ => (s, "bad-op")
  | ["prod", k] =>
    match s.p, nat? k with
    | some p, some k => if k < p.nt then (s, showProd p s.w k) else (s, "bad-op")
    | _, _ => (s, "bad-op")
  | ["view", c, k, t] =>
    match s.p, nat? c, nat? k, nat? t with
    | some p, some c, some k, some t =>
      match p.cons[c]? with
      | some cc => if k < p.nt ∧ t < cc.fan then (s, showView p s.w k c cc) else (s, "bad-op")
      | none => (s, "bad-op")
    | _, _, _, _ => (s, "bad-op")
  | ["doc", c, k, t] =>
    match s.p, nat? c, nat? k, nat? t with
    | some p, some c, some k, some t =>
      match p.cons[c]? with
      | some cc =>
        if k < p.nt ∧ t < cc.fan ∧ isLocal s.w k cc then
          let v := (localViewDoc p k cc).1
          (s, s!"d{tyName v.dtt} : {showMem p v.mem}")
        else (s, "bad-op")
      | none => (s, "bad-op")
    | _, _, _, _ => (s, "bad-op")
  | ["share", k, r] =>
    match s.p, nat? k, nat? r with
    | some p, some k, some r => if k < p.nt ∧ r < s.w then (s, showShare p s.w k r) else (s, "bad-op")
    | _, _, _ => (s, "bad-op")
  | ["final", k] =>
    match s.p, nat? k with
    | some p, some k => if k < p.nt then (s, showFinal p s.w k) else (s, "bad-op")
    | _, _ => (s, "bad-op")
  | ["guard", _] => (s, "ok")
  | ["end", _] => (s, "complete")
  | ["rs", su, sdg, du, ddg, m, n, ld] =>
    match nat? su, int? sdg, nat? du, int? ddg, nat? m, nat? n, nat? ld with
    | some su, some sdg, some du, some ddg, some m, some n, some ld =>
      match shapeArg su sdg, shapeArg du ddg with
      | some ss, some ds =>
        if 1 ≤ m ∧ 1 ≤ n ∧ m ≤ ld ∧ ld * n ≤ 4096 then
          if (typeOffs ss m n ld).length ≤ (typeOffs ds m n ld).length then
            let src : Mem := (List.range (ld * n)).map (prodVal 0)
            let r := reshape ss ds m n ld src (List.replicate (ld * n) POISON)
            (s, "ok : " ++ showInts (r.take (footprint m n ld)))
          else (s, "rejected")
        else (s, "bad-op")
      | _, _ => (s, "bad-op")
    | _, _, _, _, _, _, _ => (s, "bad-op")
  | _ => (s, "bad-op")

def main : IO Unit := Proto.run (⟨none, 1, false⟩ : St) step
