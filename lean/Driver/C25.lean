import ParsecVerif.Base.Proto
import ParsecVerif.Model.DataRepo
open ParsecVerif ParsecVerif.Proto ParsecVerif.DataRepo

/-- driver state: the machine and the (sorted, distinct) keys of the current case -/
structure Cur where
  s    : State
  keys : List Nat

def parseSpec (w : String) : Option (Bool × Nat × Nat) :=
  if w.startsWith "u" then (w.drop 1).toString.toNat?.map fun k => (true, k, 0)
  else if w.startsWith "c" then
    match (w.drop 1).toString.splitOn ":" with
    | [k, n] => match k.toNat?, n.toNat? with
      | some k, some n => some (false, k, n)
      | _, _ => none
    | _ => none
  else none

def insertSorted (k : Nat) : List Nat → List Nat
  | [] => [k]
  | x :: xs => if k < x then k :: x :: xs else if k = x then x :: xs else x :: insertSorted k xs

def phase : Pc → Nat
  | .c0 => 0 | .c1 => 0 | .hold => 1 | .done => 2 | .u0 => 0 | .udone => 1

def cellStr (s : State) (k : Nat) : String :=
  match (s.cell k).ent with
  | some e => s!"k={k} p=1 cnt={e.cnt} lmt={e.lmt} ret={e.ret}"
  | none => s!"k={k} p=0 cnt=0 lmt=0 ret=0"

def liveOf (c : Cur) : Int :=
  (c.keys.map fun k => ((s_al k : Int) - (s_di k : Int) - (s_rc k : Int))).foldl (· + ·) 0
where
  s_al (k : Nat) : Nat := (c.s.cell k).al
  s_di (k : Nat) : Nat := (c.s.cell k).di
  s_rc (k : Nat) : Nat := (c.s.cell k).rc

def endStr (c : Cur) : String :=
  let cells := c.keys.map fun k =>
    match (c.s.cell k).ent with
    | some e => s!"{k}:1/{e.cnt}/{e.lmt}/{e.ret}"
    | none => s!"{k}:0/0/0/0"
  let tsize := (c.keys.filter fun k => present c.s k).length
  s!"{showList cells} live={liveOf c} tsize={tsize}"

def withPh (c : Cur) (t : Nat) (key : Nat) : String :=
  s!"{cellStr c.s key} ph={((c.s.thr[t]?).map fun th => phase th.pc).getD 0}"

/-- ops (see harness/C25.c):
    `case K mode [opts] spec..`  → `ok n=<threads>`
    `cs t` / `fcs t`   next critical section of thread t (guarded machine)
    `create t` `announce t` `use t`   whole API calls (sequential mode)
    `fuse t`   used_once outside the budget clause of the protocol (entry must exist)
    `lookup k` `live` `end` -/
def step (c : Cur) : List String → Cur × String
  | "case" :: _ :: _ :: rest =>
    let specs := rest.filter fun w => !(w.contains '=')
    match specs.mapM parseSpec with
    | some ds =>
      let keys := ds.foldl (fun acc d => insertSorted d.2.1 acc) []
      ({ s := init ds, keys := keys }, s!"ok n={ds.length}")
    | none => (c, "bad-op")
  | [op, a] =>
    match nat? a with
    | none => (c, "bad-op")
    | some t =>
      match op with
      | "cs" | "fcs" =>
        match c.s.thr[t]? with
        | some th =>
          if enabled c.s t then
            let c' := { c with s := DataRepo.step c.s t }
            (c', if op == "cs" then withPh c' t th.key else cellStr c'.s th.key)
          else (c, "rejected")
        | none => (c, "rejected")
      | "create" =>
        match c.s.thr[t]? with
        | some th =>
          if th.pc = .c0 then
            let s1 := DataRepo.step c.s t
            let s2 := if (s1.thr[t]?.map fun x => x.pc) = some .c1 then DataRepo.step s1 t else s1
            let c' := { c with s := s2 }
            (c', withPh c' t th.key)
          else (c, "rejected")
        | none => (c, "rejected")
      | "announce" =>
        match c.s.thr[t]? with
        | some th =>
          if th.pc = .hold then
            let c' := { c with s := DataRepo.step c.s t }
            (c', withPh c' t th.key)
          else (c, "rejected")
        | none => (c, "rejected")
      | "use" =>
        match c.s.thr[t]? with
        | some th =>
          if th.pc = .u0 && useOk c.s th.key then
            let c' := { c with s := DataRepo.step c.s t }
            (c', withPh c' t th.key)
          else (c, "rejected")
        | none => (c, "rejected")
      | "fuse" =>
        match c.s.thr[t]? with
        | some th =>
          if th.pc = .u0 && present c.s th.key then
            let c' := { c with s := DataRepo.stepRaw c.s t }
            (c', withPh c' t th.key)
          else (c, "rejected")
        | none => (c, "rejected")
      | "lookup" => (c, if present c.s t then "1" else "0")
      | _ => (c, "bad-op")
  | ["live"] => (c, toString (liveOf c))
  | ["end"] => (c, endStr c)
  | _ => (c, "bad-op")

def main : IO Unit := Proto.run ({ s := init [], keys := [] } : Cur) step
