/-
  C19 — matrix datatypes (parsec/data_dist/matrix/matrixtypes.c, parsec/datatype/datatype_mpi.c).

  Part 1 (trusted, validated against the real MPI library on every run with `MPI_Pack`, op `tm`):
  the MPI-standard typemap semantics of `MPI_Type_contiguous / vector / indexed / create_resized`,
  restricted to non-negative displacements and strides (everything matrixtypes.c builds), in units
  of the extent of one basic element.

  Part 2: `parsec_matrix_define_contiguous / _rectangle / _triangle / _datatype` exactly as coded:
  the `diag` inversion, `nmax`, the partially initialised `blocklens` / `indices` arrays and the
  `blocklens+diag` pointer shift, the `m == ld` short-cuts, the optional resize.

  No Mathlib.  Everything is executable (driver `pv_C19`).
-/
namespace ParsecVerif.MatrixTypes

/-! ## Part 1 — MPI typemaps (element units) -/

/-- A datatype: the displacement of every basic element in typemap order, and the lower / upper
    bound markers.  `extent = ub - lb`. -/
structure DType where
  offs : List Nat
  lb : Nat
  ub : Nat
deriving Repr, DecidableEq

def DType.extent (t : DType) : Nat := t.ub - t.lb
def DType.size (t : DType) : Nat := t.offs.length

/-- One basic element (`MPI_INT`, `MPI_DOUBLE`, …): typemap {(elem, 0)}, lb 0, ub 1. -/
def elem : DType := ⟨[0], 0, 1⟩

def maxList (l : List Nat) : Nat := l.foldl max 0
def minList : List Nat → Nat
  | [] => 0
  | a :: t => t.foldl min a

/-- Copies of `t` placed at the displacements `ps` (typemap order = order of `ps`).
    MPI: lb = min over copies of (p + lb t), ub = max over copies of (p + ub t); an empty typemap
    has lb = ub = 0. -/
def place (t : DType) (ps : List Nat) : DType :=
  { offs := ps.flatMap (fun p => t.offs.map (fun d => p + d)),
    lb := minList (ps.map (fun p => p + t.lb)),
    ub := maxList (ps.map (fun p => p + t.ub)) }

/-- `MPI_Type_contiguous(count, t)`. -/
def contiguous (count : Nat) (t : DType) : DType :=
  place t ((List.range count).map (fun k => k * t.extent))

/-- `MPI_Type_vector(count, blocklength, stride, t)`, stride ≥ 0 in units of `extent t`. -/
def vector (count blocklen stride : Nat) (t : DType) : DType :=
  place t ((List.range count).flatMap (fun j => (List.range blocklen).map (fun k => (j * stride + k) * t.extent)))

/-- `MPI_Type_indexed(count, blocklens, displs, t)`: `blocks` = the `count` pairs (blocklen, displ). -/
def indexed (blocks : List (Nat × Nat)) (t : DType) : DType :=
  place t (blocks.flatMap (fun b => (List.range b.1).map (fun k => (b.2 + k) * t.extent)))

/-- `MPI_Type_create_resized(t, lb, extent)`. -/
def resized (t : DType) (lb extent : Nat) : DType := { offs := t.offs, lb := lb, ub := lb + extent }

/-! ## Part 2 — matrixtypes.c -/

/-- `PARSEC_MATRIX_UPPER / LOWER / FULL` -/
def UPPER : Nat := 121
def LOWER : Nat := 122
def FULL : Nat := 123

/-- Return codes. -/
def ERR_BAD_PARAM : Int := -4

/-- The optional `parsec_type_create_resized(tmp, 0, resized*oldsize, newtype)` (`resized >= 0`). -/
def maybeResize (t : DType) (rsz : Int) : DType :=
  if 0 ≤ rsz then resized t 0 rsz.toNat else t

/-- `parsec_matrix_define_contiguous(oldtype, nb_elem, resized, &newtype)` -/
def defineContiguous (nbElem : Nat) (rsz : Int) : DType :=
  maybeResize (contiguous nbElem elem) rsz

/-- `parsec_matrix_define_rectangle(oldtype, mb, nb, ld, resized, &newtype)` -/
def defineRectangle (mb nb ld : Nat) (rsz : Int) : DType :=
  if mb = ld then defineContiguous (ld * nb) rsz
  else maybeResize (vector nb mb ld elem) rsz

/-- A `malloc`ed `int` array of `size` cells of which only some have been written:
    `get i = none` for a cell that was never written. -/
structure CArr where
  size : Nat
  get : Nat → Option Nat

/-- Read cell `i`; `none` = out of bounds or uninitialised (undefined behaviour in C). -/
def CArr.read (a : CArr) (i : Nat) : Option Nat := if i < a.size then a.get i else none

/-- `for (i = lo; i < hi; i++) a[i] = f i` on a fresh array of `size` cells. -/
def CArr.fill (size lo hi : Nat) (f : Nat → Nat) : CArr :=
  ⟨size, fun i => if lo ≤ i ∧ i < hi then some (f i) else none⟩

/-- The `count` (blocklen, displacement) pairs that `MPI_Type_indexed(count, bl+shift, ix+shift, …)`
    reads; `none` if any cell read is out of bounds or was never written. -/
def readBlocks (bl ix : CArr) (shift count : Nat) : Option (List (Nat × Nat)) :=
  (List.range count).mapM (fun k =>
    match bl.read (shift + k), ix.read (shift + k) with
    | some b, some d => some (b, d)
    | _, _ => none)

/-- The flipped flag computed by `diag = (diag == 0) ? 1 : 0;` : 1 = leave the diagonal out. -/
def flip (diag : Int) : Nat := if diag = 0 then 1 else 0

/-- Outcome of `parsec_matrix_define_triangle`. -/
inductive TriRes where
  | ok (t : DType)
  | badParam            -- return PARSEC_ERR_BAD_PARAM
  | undefinedRead       -- the code would read a cell it never wrote / out of bounds
deriving Repr, DecidableEq

/-- UPPER: `for(i = diag; i < n; i++) { mm = i+1-diag; blocklens[i] = mm < m ? mm : m; indices[i] = i*ld; }` -/
def upperBl (diag : Int) (m n : Nat) : CArr :=
  CArr.fill n (flip diag) n (fun i => if i + 1 - flip diag < m then i + 1 - flip diag else m)
def upperIx (diag : Int) (n ld : Nat) : CArr :=
  CArr.fill n (flip diag) n (fun i => i * ld)

/-- LOWER: `nmax = n >= (m-diag) ? m-diag : n;` -/
def lowerNmax (diag : Int) (m n : Nat) : Nat := if n ≥ m - flip diag then m - flip diag else n
/-- LOWER: `for(i = 0; i < nmax; i++) { blocklens[i] = m-i-diag; indices[i] = i*ld+i+diag; }` -/
def lowerBl (diag : Int) (m n : Nat) : CArr :=
  CArr.fill n 0 (lowerNmax diag m n) (fun i => m - i - flip diag)
def lowerIx (diag : Int) (m n ld : Nat) : CArr :=
  CArr.fill n 0 (lowerNmax diag m n) (fun i => i * ld + i + flip diag)

/-- The tail common to both branches: `parsec_type_create_indexed(nmax, blocklens+diag, indices+diag, oldtype, &tmp);
    parsec_type_create_resized(tmp, 0, ld*n*oldsize, newtype);` -/
def finishTriangle (bl ix : CArr) (shift nmax n ld : Nat) : TriRes :=
  match readBlocks bl ix shift nmax with
  | some blocks => .ok (resized (indexed blocks elem) 0 (ld * n))
  | none => .undefinedRead

/-- `parsec_matrix_define_triangle(oldtype, uplo, diag, m, n, ld, &newtype)`.
    Precondition of the C code (unsigned arithmetic): `1 ≤ m`, `1 ≤ n`.
    UPPER: `nmax = n-diag`, arrays shifted by the flipped `diag`; LOWER: `diag = 0` before the shift. -/
def defineTriangle (uplo : Nat) (diag : Int) (m n ld : Nat) : TriRes :=
  if uplo = UPPER then
    finishTriangle (upperBl diag m n) (upperIx diag n ld) (flip diag) (n - flip diag) n ld
  else if uplo = LOWER then
    finishTriangle (lowerBl diag m n) (lowerIx diag m n ld) 0 (lowerNmax diag m n) n ld
  else .badParam

/-- `parsec_matrix_define_datatype(&newtype, oldtype, uplo, diag, m, n, ld, resized, &extent)`:
    the `switch(uplo)` with its `default:` falling into the FULL case. -/
def defineDatatype (uplo : Nat) (diag : Int) (m n ld : Nat) (rsz : Int) : TriRes :=
  if uplo = LOWER ∨ uplo = UPPER then defineTriangle uplo diag m n ld
  else if m = ld then .ok (defineContiguous (ld * n) rsz)
  else .ok (defineRectangle m n ld rsz)

/-- API precondition used by the tie (calls outside it are not issued). -/
def Pre (m n ld : Nat) : Prop := 1 ≤ m ∧ 1 ≤ n ∧ m ≤ ld
instance (m n ld : Nat) : Decidable (Pre m n ld) := by unfold Pre; infer_instance

/-! ## The mathematical region (specification side) -/

/-- Is element (row `i`, column `j`) part of the requested region?  `withDiag` = the caller's
    `diag ≠ 0` ("with the diagonal"). -/
def inRegion (uplo : Nat) (withDiag : Bool) (i j : Nat) : Bool :=
  if uplo = UPPER then (if withDiag then decide (i ≤ j) else decide (i < j))
  else if uplo = LOWER then (if withDiag then decide (j ≤ i) else decide (j < i))
  else true

/-- `[ j*ld + i | j < n, i < m, (i,j) in the region ]`, column by column, rows increasing. -/
def regionOffsets (uplo : Nat) (withDiag : Bool) (m n ld : Nat) : List Nat :=
  (List.range n).flatMap (fun j => ((List.range m).filter (fun i => inRegion uplo withDiag i j)).map (fun i => j * ld + i))

end ParsecVerif.MatrixTypes
