/-
  Language-level model of dynamic task discovery (parsec/interfaces/dtd): insertion sequences,
  their sequential reference semantics (`seqExec`), and the abstract concurrent runtime machine
  (per-datum access chains built at insertion, activation by the completing writer or by the
  inserting thread, reader count on the shared copy, the writer's retry while readers are
  outstanding, any number of workers).  Mathlib-free: the driver `pv_DTD` links these definitions.

  Correspondence with the code (parsec/interfaces/dtd):
    `Acc.parent`        PARENT_OF(task, flow)            = tile->last_writer read under the tile lock at insertion
    `St.lastWriter d`   tile->last_writer                (parsec_insert_dtd_task)
    `Acc.act`           the flow has been satisfied: the predecessor's walk (parsec_dtd_ordering_correctly →
                        dtd_release_dep_fct decrements flow_count) or, when the chain was already walked
                        (last_user.alive == TASK_IS_NOT_ALIVE), the inserting thread did it
    `St.readers d`      parsec_data_copy_t.readers of the shared copy of datum d
    `Move.again`        data_lookup_of_dtd_task returns PARSEC_HOOK_RETURN_AGAIN (readers > 0 on a written flow)
    `Move.finish`       body end + complete_hook_of_dtd → release_deps → walk of every flow
  One access record per (task, datum): a datum used in several parameters of one task is one node of the
  chain, writing if any of the parameters writes (the effect the special-case code of the runtime aims at).
  A first reader of a datum is satisfied from the collection's copy (the runtime interposes a no-op
  "Fake_FIRST_OUT" writer task; it is not a separate task here).
-/
namespace ParsecVerif.Dtd

/-! ## Insertion sequences -/

inductive Mode | r | w | rw
deriving DecidableEq, Repr, Inhabited

def Mode.reads : Mode → Bool
  | .w => false | _ => true
def Mode.writes : Mode → Bool
  | .r => false | _ => true

/-- `user b`: a body computing `H(task id, b, values read)`; `flush`: the data-flush task, which
    writes back the value it received (parsec_dtd_data_flush_sndrcv). -/
inductive Kind | user (body : Nat) | flush
deriving DecidableEq, Repr, Inhabited

structure Task where
  uid : Nat                  -- the task's own identifier (an input of its body)
  args : List (Nat × Mode)   -- (data id, access mode); the same datum may occur several times
  rank : Nat                 -- affinity
  kind : Kind
deriving DecidableEq, Repr, Inhabited

abbrev Prog := List Task
abbrev Store := Nat → Nat

def upd (s : Store) (d v : Nat) : Store := fun x => if x = d then v else s x

/-! ## Task bodies: deterministic functions of the values read (same 64-bit mix as harness/DTD.c) -/

def M64 : Nat := 2 ^ 64

def mix64 (x0 : Nat) : Nat :=
  let x := x0 % M64
  let x := x ^^^ (x >>> 30)
  let x := (x * 0xBF58476D1CE4E5B9) % M64
  let x := x ^^^ (x >>> 27)
  let x := (x * 0x94D049BB133111EB) % M64
  x ^^^ (x >>> 31)

def initVal (d : Nat) : Nat := mix64 (0x1234567 + d)
def hStart (tid body : Nat) : Nat := mix64 ((tid * 0x9E3779B97F4A7C15 + body + 1) % M64)
def hIn (h v : Nat) : Nat := (mix64 (h ^^^ v) + 0x632BE59BD9B4E019) % M64
def hOut (h j : Nat) : Nat := mix64 ((h + j + 1) % M64)

def initStore : Store := initVal

/-- data read by the task, in parameter order (R and RW parameters) -/
def readArgs (t : Task) : List Nat := (t.args.filter (fun a => a.2.reads)).map (·.1)
def readsOf (t : Task) (s : Store) : List Nat := (readArgs t).map s

/-- value written through parameter `j` -/
def outVal (t : Task) (ins : List Nat) (j : Nat) : Nat :=
  match t.kind with
  | .user b => hOut (ins.foldl hIn (hStart t.uid b)) j
  | .flush => ins.headD 0

def writeArgs (f : Nat → Nat) : List (Nat × Mode) → Nat → Store → Store
  | [], _, s => s
  | a :: as, j, s => writeArgs f as (j + 1) (if a.2.writes then upd s a.1 (f j) else s)

/-- effect of the body of task `t` on the data, given the values it read -/
def exec (t : Task) (ins : List Nat) (s : Store) : Store :=
  writeArgs (outVal t ins) t.args 0 s

/-! ## Sequential reference: the tasks one at a time, in insertion order -/

/-- the data after the first `k` tasks of `p` -/
def seqStore (p : Prog) : Nat → Store
  | 0 => initStore
  | k + 1 =>
    match p[k]? with
    | some t => exec t (readsOf t (seqStore p k)) (seqStore p k)
    | none => seqStore p k

/-- what task `k` reads in the sequential execution -/
def seqObs (p : Prog) (k : Nat) : List Nat :=
  match p[k]? with
  | some t => readsOf t (seqStore p k)
  | none => []

/-- the same thing as a left-to-right run -/
def seqRun : List Task → Store → List (List Nat) × Store
  | [], s => ([], s)
  | t :: ts, s =>
    ((readsOf t s) :: (seqRun ts (exec t (readsOf t s) s)).1, (seqRun ts (exec t (readsOf t s) s)).2)

structure SeqResult where
  obs : List (List Nat)
  final : Store

def seqExec (p : Prog) : SeqResult := ⟨(seqRun p initStore).1, (seqRun p initStore).2⟩

/-! ## Static access structure of a program -/

def usesD (t : Task) (d : Nat) : Bool := t.args.any (fun a => a.1 == d)
def writesD (t : Task) (d : Nat) : Bool := t.args.any (fun a => a.1 == d && a.2.writes)

def usesAt (p : Prog) (u d : Nat) : Bool :=
  match p[u]? with | some t => usesD t d | none => false
def writesAt (p : Prog) (u d : Nat) : Bool :=
  match p[u]? with | some t => writesD t d | none => false

/-- two tasks conflict on `d`: both use it and at least one writes it -/
def conflict (p : Prog) (t u d : Nat) : Bool :=
  usesAt p t d && usesAt p u d && (writesAt p t d || writesAt p u d)

/-- the last task before `t` that writes `d` -/
def prevWriter (p : Prog) : Nat → Nat → Option Nat
  | 0, _ => none
  | t + 1, d => if writesAt p t d then some t else prevWriter p t d

/-- keep the first occurrence of every element -/
def dedup : List Nat → List Nat
  | [] => []
  | x :: xs => x :: (dedup xs).filter (fun y => y != x)

/-- the distinct data of a task, in order of first use -/
def dataOf (t : Task) : List Nat := dedup (t.args.map (·.1))

/-! ## The abstract runtime machine -/

inductive Status | waiting | running | done
deriving DecidableEq, Repr, Inhabited

/-- one node of a per-datum access chain -/
structure Acc where
  t : Nat                 -- task (position in the insertion order)
  d : Nat                 -- datum
  wr : Bool               -- writes (any parameter on `d` is W or RW)
  parent : Option Nat     -- last writer of `d` when the task was inserted
  act : Bool              -- satisfied
deriving DecidableEq, Repr, Inhabited

structure St where
  accs : List Acc
  status : List Status            -- one entry per inserted task
  obs : List (List Nat)           -- values read, recorded when the body starts
  lastWriter : Nat → Option Nat   -- per datum
  readers : Nat → Nat             -- per datum: readers of the shared copy
  mem : Store
  again : Nat                     -- number of AGAIN answers so far

def init : St :=
  { accs := [], status := [], obs := [], lastWriter := fun _ => none, readers := fun _ => 0,
    mem := initStore, again := 0 }

def isDone (s : St) (t : Nat) : Bool := s.status[t]? == some .done
def isRunning (s : St) (t : Nat) : Bool := s.status[t]? == some .running
def isWaiting (s : St) (t : Nat) : Bool := s.status[t]? == some .waiting
def started (s : St) (t : Nat) : Bool := isRunning s t || isDone s t

def parentDone (s : St) : Option Nat → Bool
  | none => true
  | some w => isDone s w

/-- all flows of `t` are satisfied (flow_count reached 0: the task is in a scheduler queue) -/
def ready (s : St) (t : Nat) : Bool := s.accs.all (fun a => a.t != t || a.act)

/-- a flow written by `t` still has readers on its copy: prepare_input answers AGAIN -/
def blocked (s : St) (t : Nat) : Bool := s.accs.any (fun a => a.t == t && a.wr && s.readers a.d != 0)

def runningCount (s : St) : Nat := s.status.count .running

inductive Move
  | ins                 -- parsec_dtd_insert_task of the next task of the sequence
  | start (t : Nat)     -- a worker selected `t`, prepare_input succeeded, the body begins (reads its inputs)
  | again (t : Nat)     -- a worker selected `t`, prepare_input answered AGAIN, `t` is rescheduled
  | finish (t : Nat)    -- the body ends (writes its outputs) and the task releases its successors
deriving DecidableEq, Repr

/-- chain node created for datum `d` when task number `n` (= `tk`) is inserted -/
def mkAcc (s : St) (n : Nat) (tk : Task) (d : Nat) : Acc :=
  { t := n, d := d, wr := writesD tk d, parent := s.lastWriter d, act := parentDone s (s.lastWriter d) }

def newAccs (s : St) (n : Nat) (tk : Task) : List Acc := (dataOf tk).map (mkAcc s n tk)

def stepIns (s : St) (tk : Task) : St :=
  { s with
    accs := s.accs ++ newAccs s s.status.length tk
    status := s.status ++ [.waiting]
    obs := s.obs ++ [[]]
    lastWriter := fun d => if writesD tk d then some s.status.length else s.lastWriter d
    readers := fun d => s.readers d +
      (newAccs s s.status.length tk).countP (fun a => a.d == d && !a.wr && a.act) }

def stepStart (s : St) (t : Nat) (tk : Task) : St :=
  { s with status := s.status.set t .running, obs := s.obs.set t (readsOf tk s.mem) }

/-- the completing task's walk: every chain node whose parent is `t` becomes satisfied -/
def walk (t : Nat) (a : Acc) : Acc := if a.parent == some t then { a with act := true } else a

def stepFinish (s : St) (t : Nat) (tk : Task) : St :=
  { s with
    mem := exec tk (s.obs.getD t []) s.mem
    status := s.status.set t .done
    accs := s.accs.map (walk t)
    readers := fun d => s.readers d
      - s.accs.countP (fun a => a.t == t && a.d == d && !a.wr)
      + s.accs.countP (fun a => a.parent == some t && a.d == d && !a.wr && !a.act) }

def enabled (p : Prog) (nw : Nat) (s : St) : Move → Bool
  | .ins => s.status.length < p.length
  | .start t => isWaiting s t && ready s t && !blocked s t && runningCount s < nw
  | .again t => isWaiting s t && ready s t && blocked s t
  | .finish t => isRunning s t

def step (p : Prog) (s : St) : Move → St
  | .ins => match p[s.status.length]? with
    | some tk => stepIns s tk
    | none => s
  | .start t => match p[t]? with
    | some tk => stepStart s t tk
    | none => s
  | .again _ => { s with again := s.again + 1 }
  | .finish t => match p[t]? with
    | some tk => stepFinish s t tk
    | none => s

def run (p : Prog) (s : St) (ms : List Move) : St := ms.foldl (step p) s

/-- every move of the list is enabled when it is taken -/
def ValidFrom (p : Prog) (nw : Nat) : St → List Move → Prop
  | _, [] => True
  | s, m :: ms => enabled p nw s m = true ∧ ValidFrom p nw (step p s m) ms

def Valid (p : Prog) (nw : Nat) (ms : List Move) : Prop := ValidFrom p nw init ms

/-- executable form of `ValidFrom`, used by the driver as trace acceptor: index of the first move
    that is not enabled -/
def firstBad (p : Prog) (nw : Nat) : St → List Move → Nat → Option Nat
  | _, [], _ => none
  | s, m :: ms, i => if enabled p nw s m then firstBad p nw (step p s m) ms (i + 1) else some i

/-- all tasks inserted and completed -/
def Complete (p : Prog) (s : St) : Prop :=
  s.status.length = p.length ∧ ∀ t, t < p.length → isDone s t = true

/-! ## Flush -/

def owner (nranks d : Nat) : Nat := d % nranks

/-- the data-flush task of datum `d`: an inserted RW access placed on the owner of `d` -/
def flushTask (nranks d : Nat) : Task := { uid := 0, args := [(d, .rw)], rank := owner nranks d, kind := .flush }

end ParsecVerif.Dtd
