/-
  Model of PaRSEC futures (parsec/class/parsec_future.c, parsec/class/parsec_datacopy_future.c) at the
  granularity of the real code's atomic operations.  A step of thread `t` = run from its park point
  (thread start, the pause between two operations, or just before an atomic primitive / fence / spin
  re-check) up to the next park point.  Plain accesses are not park points.

  * base future      : `set` = CAS(tracked_data, NULL → v); if won: wmb, status |= COMPLETED, callback.
                       `get` = spin on the status bit, rmb, read tracked_data.
  * countable future : `set` = fetch-dec of the count; the call that reads 1 sets the status bit and
                       runs the callback.  `get` as for the base future (tracked_data is never written).
  * data-copy future : `get_or_trigger(spec)`: completed check outside the lock, trigger under the
                       future's lock; a non matching spec scans the nested list under the parent's lock
                       (triggering every nested future it meets) and appends a new nested future when
                       every nested future is completed and none matches.
-/
namespace ParsecVerif.Future

/-! ## Base and countable futures -/

inductive BOp
  | set (v : Nat)     -- parsec_future_set(f, v); v = 0 models NULL
  | get               -- parsec_future_get(f)  (blocking)
  | ready             -- parsec_future_is_ready(f)
deriving Repr, DecidableEq

inductive BPc
  | idle              -- thread start / pause between two operations
  | cas (v : Nat)     -- base set: about to CAS(tracked_data, NULL → v)
  | wmb (v : Nat)     -- base set: won the CAS, about to fence, set the status bit, run the callback
  | dec (v : Nat)     -- countable set: about to fetch-dec the count
  | spin              -- get: status bit was clear, parked in the spin loop
  | rmb               -- get: status bit seen, about to fence and read tracked_data
  | done
deriving Repr, DecidableEq

structure BThread where
  pc   : BPc
  todo : List BOp              -- head = operation in progress (or next one when idle)
  res  : List (BOp × Nat)      -- finished operations with their results
  prog : List BOp              -- ghost: the thread's whole program (never changes)
deriving Repr

/-- shared state; `wins` and `ndec` are ghost counters (successful CAS, executed fetch-decs) -/
structure BShared where
  data  : Nat
  compl : Bool
  cb    : Nat
  count : Int
  wins  : Nat
  ndec  : Nat
deriving Repr

structure BState where
  sh  : BShared
  thr : List BThread
deriving Repr

/-- the operation in progress returns `v`: the thread pauses (or ends after its last operation) -/
def bfin (th : BThread) (op : BOp) (v : Nat) : BThread :=
  { th with pc := (match th.todo.tail with | [] => .done | _ :: _ => .idle),
            todo := th.todo.tail, res := th.res ++ [(op, v)] }

def bset (s : BState) (t : Nat) (sh : BShared) (th : BThread) : BState := ⟨sh, s.thr.set t th⟩

/-- start of the next operation; `count` selects the countable future's `set` -/
def bidle (countable : Bool) (s : BState) (t : Nat) (th : BThread) : BState :=
  match th.todo with
  | [] => bset s t s.sh { th with pc := .done }
  | .set v :: _ => bset s t s.sh { th with pc := if countable then .dec v else .cas v }
  | .get :: _ => bset s t s.sh { th with pc := if s.sh.compl then .rmb else .spin }
  | .ready :: _ => bset s t s.sh (bfin th .ready (if s.sh.compl then 1 else 0))

def bstep (countable : Bool) (s : BState) (t : Nat) : BState :=
  match s.thr[t]? with
  | none => s
  | some th =>
    match th.pc with
    | .idle => bidle countable s t th
    | .cas v =>
      if s.sh.data = 0 then bset s t { s.sh with data := v, wins := s.sh.wins + 1 } { th with pc := .wmb v }
      else bset s t s.sh (bfin th (.set v) 0)
    | .wmb v => bset s t { s.sh with compl := true, cb := s.sh.cb + 1 } (bfin th (.set v) 1)
    | .dec v =>
      if s.sh.count - 1 = 0 then
        bset s t { s.sh with count := s.sh.count - 1, ndec := s.sh.ndec + 1, compl := true, cb := s.sh.cb + 1 } (bfin th (.set v) 1)
      else bset s t { s.sh with count := s.sh.count - 1, ndec := s.sh.ndec + 1 } (bfin th (.set v) 0)
    | .spin => bset s t s.sh { th with pc := if s.sh.compl then .rmb else .spin }
    | .rmb => bset s t s.sh (bfin th .get s.sh.data)
    | .done => s

def binit (count : Int) (progs : List (List BOp)) : BState :=
  ⟨⟨0, false, 0, count, 0, 0⟩, progs.map fun p => ⟨.idle, p, [], p⟩⟩

def brun (countable : Bool) (count : Int) (progs : List (List BOp)) (sched : List Nat) : BState :=
  sched.foldl (bstep countable) (binit count progs)

/-! ## Data-copy futures -/

structure Fut where
  shape : Nat      -- cb_match_data_in (the specification this future was created for)
  trig  : Bool     -- PARSEC_DATA_FUTURE_STATUS_TRIGGERED
  compl : Bool     -- PARSEC_DATA_FUTURE_STATUS_COMPLETED
  data  : Nat      -- tracked_data (0 = NULL)
  cb    : Nat      -- number of calls of the fulfilment callback
  lock  : Bool     -- future_lock
deriving Repr, DecidableEq

/-- `cls`: the match callback is `cls a = cls b`; `async s`: the fulfilment callback of a future of shape `s`
    defers the `set` (a later `fulfil` operation performs it) instead of setting inside the callback -/
structure Cfg where
  cls   : Nat → Nat
  async : Nat → Bool

inductive DOp
  | trig (r : Nat)   -- parsec_future_get_or_trigger(base, cb_nested, spec r, ...); r = 0 models a NULL spec
  | fulfil           -- perform one deferred parsec_future_set, if any is pending
deriving Repr, DecidableEq

inductive DPc
  | idle
  | lockTop (f r : Nat)       -- get_or_trigger_internal(f), not under the parent's lock: about to CAS f's lock
  | unlockTop (f r : Nat)     -- ... holding f's lock, about to fence/unlock, re-check and return
  | plock (r : Nat)           -- spec does not match the base: about to CAS the base future's lock
  | lockScan (i r : Nat)      -- holding the base lock, scanning nested future i (future id i+1): about to CAS its lock
  | unlockScan (i r : Nat)    -- ... holding both locks, about to fence/unlock the nested one
  | punlockRet (v r : Nat)    -- holding the base lock, about to fence/unlock it and return v
  | punlockNew (j r : Nat)    -- created nested future j under the base lock, about to fence/unlock the base lock
  | done
deriving Repr, DecidableEq

structure DThread where
  pc   : DPc
  todo : List DOp
  res  : List (DOp × Nat)
deriving Repr

structure DState where
  futs    : List Fut            -- id 0 = base future, id i+1 = i-th nested future (creation order)
  pending : List (Nat × Nat)    -- deferred sets: (future id, value)
  thr     : List DThread
deriving Repr

def dfin (th : DThread) (op : DOp) (v : Nat) : DThread :=
  { pc := match th.todo.tail with | [] => .done | _ :: _ => .idle,
    todo := th.todo.tail, res := th.res ++ [(op, v)] }

def setThr (s : DState) (t : Nat) (th : DThread) : DState := { s with thr := s.thr.set t th }

def modFut (s : DState) (f : Nat) (g : Fut → Fut) : DState :=
  match s.futs[f]? with
  | some fu => { s with futs := s.futs.set f (g fu) }
  | none => s

/-- value returned by `get_or_trigger_internal` when it does not (or no longer) hold the lock -/
def readFut (s : DState) (f : Nat) : Nat :=
  match s.futs[f]? with
  | some fu => if fu.compl then fu.data else 0
  | none => 0

def complOf (s : DState) (f : Nat) : Bool :=
  match s.futs[f]? with
  | some fu => fu.compl
  | none => false

def lockedOf (s : DState) (f : Nat) : Bool :=
  match s.futs[f]? with
  | some fu => fu.lock
  | none => false

/-- value produced by the `n`-th fulfilment of a future of shape `sh` -/
def valOf (n sh : Nat) : Nat := 100 * n + sh

def unlockF (fu : Fut) : Fut := { fu with lock := false }
def lockF (fu : Fut) : Fut := { fu with lock := true }
def trigAsync (fu : Fut) : Fut := { fu with lock := true, trig := true, cb := fu.cb + 1 }
def trigSync (fu : Fut) : Fut :=
  { fu with lock := true, trig := true, cb := fu.cb + 1, compl := true, data := valOf (fu.cb + 1) fu.shape }

/-- successful lock CAS on future `f` followed by the critical section of `get_or_trigger_internal` -/
def trigger (cfg : Cfg) (s : DState) (f : Nat) : DState :=
  match s.futs[f]? with
  | none => s
  | some fu =>
    if fu.trig then { s with futs := s.futs.set f (lockF fu) }
    else if cfg.async fu.shape then
      { s with futs := s.futs.set f (trigAsync fu), pending := s.pending ++ [(f, valOf (fu.cb + 1) fu.shape)] }
    else { s with futs := s.futs.set f (trigSync fu) }

inductive ScanRes
  | needLock (i : Nat)   -- nested future i is not completed: get_or_trigger_internal must take its lock
  | ret (v : Nat)        -- return v (data of a completed matching nested future, or NULL)
  | atEnd                -- every nested future is completed and none matches: create a new one
deriving Repr, DecidableEq

/-- the `for` loop over the nested list from nested index `i` on (`l` = the futures from that index on),
    as far as it runs without meeting an atomic operation -/
def scanList (cls : Nat → Nat) (r : Nat) : List Fut → Nat → ScanRes
  | [], _ => .atEnd
  | fu :: rest, i =>
    if fu.compl = false then .needLock i
    else if fu.data = 0 ∨ cls fu.shape = cls r then .ret fu.data
    else scanList cls r rest (i + 1)

def newFut (r : Nat) : Fut := ⟨r, false, false, 0, 0, false⟩

/-- continue the scan from nested index `i` (base lock held) -/
def applyScan (cfg : Cfg) (s : DState) (t : Nat) (th : DThread) (r i : Nat) : DState :=
  match scanList cfg.cls r (s.futs.drop (i + 1)) i with
  | .needLock j => setThr s t { th with pc := .lockScan j r }
  | .ret v => setThr s t { th with pc := .punlockRet v r }
  | .atEnd => { s with futs := s.futs ++ [newFut r], thr := s.thr.set t { th with pc := .punlockNew s.futs.length r } }

/-- entry of `get_or_trigger_internal(f)` outside the parent's lock -/
def enterTop (s : DState) (t : Nat) (th : DThread) (f r : Nat) : DState :=
  if complOf s f then setThr s t (dfin th (.trig r) (readFut s f))
  else setThr s t { th with pc := .lockTop f r }

def baseShape (s : DState) : Nat :=
  match s.futs[0]? with
  | some fu => fu.shape
  | none => 0

def didle (cfg : Cfg) (s : DState) (t : Nat) (th : DThread) : DState :=
  match th.todo with
  | [] => setThr s t { th with pc := .done }
  | .trig r :: _ =>
    if r = 0 ∨ cfg.cls (baseShape s) = cfg.cls r then enterTop s t th 0 r
    else setThr s t { th with pc := .plock r }
  | .fulfil :: _ =>
    match s.pending with
    | [] => setThr s t (dfin th .fulfil 0)
    | (f, v) :: rest =>
      setThr (modFut { s with pending := rest } f fun fu => { fu with compl := true, data := v }) t (dfin th .fulfil (f + 1))

def dstep (cfg : Cfg) (s : DState) (t : Nat) : DState :=
  match s.thr[t]? with
  | none => s
  | some th =>
    match th.pc with
    | .idle => didle cfg s t th
    | .lockTop f r =>
      if lockedOf s f then s else setThr (trigger cfg s f) t { th with pc := .unlockTop f r }
    | .unlockTop f r =>
      setThr (modFut s f unlockF) t (dfin th (.trig r) (readFut s f))
    | .plock r =>
      if lockedOf s 0 then s else applyScan cfg (modFut s 0 lockF) t th r 0
    | .lockScan i r =>
      if lockedOf s (i + 1) then s else setThr (trigger cfg s (i + 1)) t { th with pc := .unlockScan i r }
    | .unlockScan i r =>
      match s.futs[i + 1]? with
      | none => s
      | some fu =>
        if readFut s (i + 1) = 0 ∨ cfg.cls fu.shape = cfg.cls r then
          setThr (modFut s (i + 1) unlockF) t { th with pc := .punlockRet (readFut s (i + 1)) r }
        else applyScan cfg (modFut s (i + 1) unlockF) t th r (i + 1)
    | .punlockRet v r => setThr (modFut s 0 unlockF) t (dfin th (.trig r) v)
    | .punlockNew j r => enterTop (modFut s 0 unlockF) t th j r
    | .done => s

/-- `pre`: the base future is completed by its creator before it is shared (no trigger will ever happen) -/
def dinit (b : Nat) (pre : Bool) (progs : List (List DOp)) : DState :=
  ⟨[if pre then ⟨b, false, true, valOf 1 b, 0, false⟩ else newFut b], [], progs.map fun p => ⟨.idle, p, []⟩⟩

def drun (cfg : Cfg) (b : Nat) (pre : Bool) (progs : List (List DOp)) (sched : List Nat) : DState :=
  sched.foldl (dstep cfg) (dinit b pre progs)

end ParsecVerif.Future
