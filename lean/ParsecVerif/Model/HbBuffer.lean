import ParsecVerif.Model.MaxHeap
/-
  Model of the hierarchical bounded buffer of parsec/hbbuffer.c: an array `items[size]` of task
  pointers (NULL = empty), a parent store reached through `parent_push_fct`, and the three operations

    parsec_hbbuffer_push_all             walk i = 0.. : plain read of items[i], CAS(NULL -> elt) on an empty
                                         slot, next element continues at i+1; what is left when i reaches
                                         `size` goes to the parent as the ring  elt :: rest
    parsec_hbbuffer_push_all_by_priority scan all slots (first NULL wins, else the lowest priority below
                                         `topush`), CAS(best -> topush), the replaced task joins the front of
                                         the `ejected` ring; a failed CAS rescans with the same `topush`; no
                                         candidate: topush :: ejected ++ list goes to the parent
    parsec_hbbuffer_pop_best             scan all slots for the highest priority (first among equals),
                                         CAS(best -> NULL), retry from scratch on failure

  Granularity: ONE MODEL STEP PER SHARED-MEMORY ACCESS (plain read of items[i], CAS, the call of the parent
  push function) plus one step for the invocation of an operation.  This is finer than the hook
  granularity of the harness (park before every atomic primitive), see `macroStep`.

  Tasks are values (priority, id); a CAS compares values, which is pointer comparison as long as the
  identities in flight are distinct (the caller pushes only tasks it holds: `hand`).  Rings are lists in
  ring order starting at the pointer handed over.
-/
namespace ParsecVerif.HbBuffer
open ParsecVerif.MaxHeap (Task)

inductive Op
  | pushAll (ring : List Task) (dist : Int)      -- parsec_hbbuffer_push_all(b, ring, dist)
  | pushPrio (ring : List Task) (dist : Int)     -- parsec_hbbuffer_push_all_by_priority(b, ring, dist)
  | pop                                          -- parsec_hbbuffer_pop_best(b, offsetof(parsec_task_t, priority))
deriving Repr, DecidableEq

inductive Res
  | unit
  | item (x : Option Task)
  | rejected
deriving Repr, DecidableEq

/-- program points with the locals of the running operation -/
inductive Pc
  | idle
  | paRd (elt : Task) (next : List Task) (i : Nat) (d : Int)          -- `NULL != b->items[i]` (or i == size)
  | paCas (elt : Task) (next : List Task) (i : Nat) (d : Int)         -- cas(&items[i], NULL, elt)        [park]
  | bpRd (topush : Task) (list ej : List Task) (i : Nat) (bi : Option Nat) (bc : Option Task) (d : Int)
                                                                      -- candidate = items[i] (or end of the scan)
  | bpCas (topush : Task) (list ej : List Task) (k : Nat) (bc : Option Task) (d : Int)
                                                                      -- cas(&items[k], best_context, topush) [park]
  | up (ring : List Task) (d : Int)                                   -- parent_push_fct(parent_store, ring, d)
  | poRd (i : Nat) (best : Option (Task × Nat))                       -- candidate = items[i] (or end of the scan)
  | poCas (t : Task) (k : Nat)                                        -- cas(&items[k], best_elt, NULL)     [park]
deriving Repr, DecidableEq

structure Thread where
  pc : Pc
  todo : List Op
  hand : List Task          -- tasks the caller holds (may push); popped tasks arrive here
  rets : List Res           -- results of the completed operations, oldest first
deriving Repr

structure Mem where
  slots : List (Option Task)            -- b->items[0 .. size-1]
  parent : List Task                    -- everything handed to the parent store, in arrival order
  pcalls : List (Int × List Task)       -- log of the parent_push_fct calls (distance, ring)
deriving Repr

structure State where
  mem : Mem
  thr : List Thread
deriving Repr

/-- remove one occurrence of every task of `ring` from `hand` -/
def takeOut (hand : List Task) : List Task → List Task
  | [] => hand
  | x :: xs => takeOut (hand.erase x) xs

/-- the caller may only push tasks it holds, each once -/
def PushPre (hand ring : List Task) : Prop := ring.Nodup ∧ ∀ x ∈ ring, x ∈ hand

instance (hand ring : List Task) : Decidable (PushPre hand ring) := by unfold PushPre; infer_instance

def Thread.finish (th : Thread) (r : Res) : Thread := { th with pc := .idle, rets := th.rets ++ [r] }
def Thread.goto (th : Thread) (pc : Pc) : Thread := { th with pc := pc }

/-- invocation of the next operation of the program (no shared access) -/
def invoke (th : Thread) : Thread :=
  match th.todo with
  | [] => th
  | .pushAll ring d :: rest =>
    let th := { th with todo := rest }
    if ¬ PushPre th.hand ring ∨ (ring = [] ∧ d ≠ 0) then th.finish .rejected
    else
      let th := { th with hand := takeOut th.hand ring }
      if d ≠ 0 then th.goto (.up ring (d - 1))
      else match ring with
        | [] => th.finish .unit
        | e :: next => th.goto (.paRd e next 0 d)
  | .pushPrio ring d :: rest =>
    let th := { th with todo := rest }
    if ¬ PushPre th.hand ring ∨ (ring = [] ∧ d = 0) then th.finish .rejected      -- assert(NULL != list)
    else
      let th := { th with hand := takeOut th.hand ring }
      match ring with
      | [] => th.finish .unit                                  -- ejected == NULL: nothing to do
      | e :: l => if d ≠ 0 then th.goto (.up ring (d - 1)) else th.goto (.bpRd e l [] 0 none none d)
  | .pop :: rest => { th with todo := rest, pc := .poRd 0 none }

/-- end of the scan of push_all_by_priority -/
def bpDecide (th : Thread) (topush : Task) (list ej : List Task) (bi : Option Nat) (bc : Option Task) (d : Int) : Thread :=
  match bi with
  | some k => th.goto (.bpCas topush list ej k bc d)
  | none => th.goto (.up (topush :: ej ++ list) (d - 1))

/-- one micro step of a thread -/
def stepPc (m : Mem) (th : Thread) : Pc → Mem × Thread
  | .idle => (m, invoke th)
  | .paRd elt next i d =>
    if i ≥ m.slots.length then (m, th.goto (.up (elt :: next) (d - 1)))
    else match m.slots[i]? with
      | some none => (m, th.goto (.paCas elt next i d))
      | _ => (m, th.goto (.paRd elt next (i + 1) d))
  | .paCas elt next i d =>
    if m.slots[i]? = some none then
      ({ m with slots := m.slots.set i (some elt) },
        match next with
        | [] => th.finish .unit
        | e :: n => th.goto (.paRd e n (i + 1) d))
    else (m, th.goto (.paRd elt next (i + 1) d))
  | .bpRd topush list ej i bi bc d =>
    if i ≥ m.slots.length then (m, bpDecide th topush list ej bi bc d)
    else match m.slots[i]? with
      | some (some c) =>
        if c.prio < (bc.getD topush).prio then (m, th.goto (.bpRd topush list ej (i + 1) (some i) (some c) d))
        else (m, th.goto (.bpRd topush list ej (i + 1) bi bc d))
      | _ => (m, bpDecide th topush list ej (some i) none d)
  | .bpCas topush list ej k bc d =>
    if m.slots[k]? = some bc then
      let ej' := match bc with | some c => c :: ej | none => ej
      ({ m with slots := m.slots.set k (some topush) },
        match list with
        | [] => if ej' = [] then th.finish .unit else th.goto (.up ej' (d - 1))
        | t :: l => th.goto (.bpRd t l ej' 0 none none d))
    else (m, th.goto (.bpRd topush list ej 0 none none d))
  | .up ring d =>
    ({ m with parent := m.parent ++ ring, pcalls := m.pcalls ++ [(d, ring)] }, th.finish .unit)
  | .poRd i best =>
    if i ≥ m.slots.length then
      match best with
      | none => (m, th.finish (.item none))
      | some (t, k) => (m, th.goto (.poCas t k))
    else match m.slots[i]? with
      | some (some c) =>
        match best with
        | none => (m, th.goto (.poRd (i + 1) (some (c, i))))
        | some (t, k) =>
          if c.prio > t.prio then (m, th.goto (.poRd (i + 1) (some (c, i))))
          else (m, th.goto (.poRd (i + 1) (some (t, k))))
      | _ => (m, th.goto (.poRd (i + 1) best))
  | .poCas t k =>
    if m.slots[k]? = some (some t) then
      ({ m with slots := m.slots.set k none }, { th with pc := .idle, hand := t :: th.hand, rets := th.rets ++ [.item (some t)] })
    else (m, th.goto (.poRd 0 none))

def stepTh (m : Mem) (th : Thread) : Mem × Thread := stepPc m th th.pc

def step (s : State) (t : Nat) : State :=
  match s.thr[t]? with
  | none => s
  | some th => { mem := (stepTh s.mem th).1, thr := s.thr.set t (stepTh s.mem th).2 }

/-- initial state: buffer content, and per thread (tasks held, program) -/
def init (slots : List (Option Task)) (thr : List (List Task × List Op)) : State :=
  { mem := ⟨slots, [], []⟩, thr := thr.map fun p => ⟨.idle, p.2, p.1, []⟩ }

def run (s : State) (sched : List Nat) : State := sched.foldl step s

/-! ## macro steps: what one step of the cooperative scheduler executes -/

/-- program points at which the real code is parked by the hook (before a CAS) -/
def Pc.isPark : Pc → Bool
  | .paCas .. | .bpCas .. | .poCas .. => true
  | _ => false

def Thread.finished (th : Thread) : Bool := th.pc == .idle && th.todo.isEmpty

def threadAt (s : State) (t : Nat) : Thread := s.thr.getD t ⟨.idle, [], [], []⟩

/-- continue thread `t` until it is parked or finished -/
def runToPark : Nat → State → Nat → State
  | 0, s, _ => s
  | fuel + 1, s, t =>
    if (threadAt s t).pc.isPark || (threadAt s t).finished then s else runToPark fuel (step s t) t

/-- thread `t` leaves its park point (executes the CAS) and runs up to the next one -/
def macroStep (s : State) (t : Nat) : State := runToPark 1000000 (step s t) t

end ParsecVerif.HbBuffer
