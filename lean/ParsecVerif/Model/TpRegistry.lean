/-
  Model of the taskpool registry of parsec/parsec.c:
    static parsec_taskpool_t** taskpool_array = NULL;
    static uint32_t taskpool_array_size = 1, taskpool_array_pos = 0;
  with parsec_taskpool_reserve_id / _register / _unregister / _lookup / _sync_ids_context and the
  reset done by parsec_fini (parsec_taskpool_release_resources).

  The model keeps the code's bounds behaviour: the array is NULL before the first growth, growth in
  reserve/register is ONE doubling, `realloc` leaves the new cells uninitialised (`junk`) until the
  fill loop overwrites them (cell 0 is never filled), `register` writes `array[idx]` without a bounds
  check (an out-of-range write is reported as `crash`), `lookup` dereferences the array whenever
  `id <= pos` (a NULL array is reported as `crash`).  Asserts are not modelled (the checked build is
  RelWithDebInfo, i.e. -DNDEBUG); the preconditions they express are the harness' rejection rules.

  Every API call runs under the spin lock `taskpool_array_lock`: one model step = one call.  The
  small-step machine at the end splits a call at its two atomic operations (the CAS of
  parsec_atomic_lock, the fence of parsec_atomic_unlock) for the interleaving theorems.
  Integers are unbounded naturals (no uint32 wrap-around: fewer than 2^31 ids).
-/
namespace ParsecVerif.TpRegistry

/-- one cell of `taskpool_array`: NOTASKPOOL, a taskpool (by handle), or uninitialised storage -/
inductive Cell
  | free
  | tp (h : Nat)
  | junk
deriving DecidableEq, Repr

structure Reg where
  arr  : Option (List Cell)   -- none = NULL
  size : Nat                  -- taskpool_array_size
  pos  : Nat                  -- taskpool_array_pos
deriving DecidableEq, Repr

def Reg.init : Reg := ⟨none, 1, 0⟩

/-- `realloc(a, n * sizeof(ptr))`: old contents kept, new storage uninitialised -/
def realloc (a : Option (List Cell)) (n : Nat) : List Cell :=
  match a with
  | none => List.replicate n .junk
  | some l => l.take n ++ List.replicate (n - l.length) .junk

/-- `for (i = lo; i < hi; a[i++] = NOTASKPOOL);` -/
def fill (a : List Cell) (lo hi : Nat) : List Cell :=
  a.mapIdx (fun i c => if lo ≤ i ∧ i < hi then .free else c)

/-- `(NULL == taskpool_array) || (idx >= taskpool_array_size)` -/
def needGrow (r : Reg) (idx : Nat) : Bool := r.arr.isNone || decide (r.size ≤ idx)

/-- `size <<= 1; array = realloc(array, size); fill [size>>1, size)` -/
def growDouble (r : Reg) : Reg :=
  { r with size := r.size * 2,
           arr := some (fill (realloc r.arr (r.size * 2)) (r.size * 2 / 2) (r.size * 2)) }

/-- parsec_taskpool_reserve_id: `idx = ++pos`, grow once if needed; the id returned is `r.pos + 1` -/
def reserveReg (r : Reg) : Reg :=
  if needGrow { r with pos := r.pos + 1 } (r.pos + 1) then growDouble { r with pos := r.pos + 1 }
  else { r with pos := r.pos + 1 }

/-- the registry after the optional single doubling of parsec_taskpool_register -/
def regGrown (r : Reg) (idx : Nat) : Reg := if needGrow r idx then growDouble r else r

/-- parsec_taskpool_register: `array[idx] = tp` after at most one doubling; `none` = the store is
    outside the allocation -/
def registerReg (r : Reg) (idx h : Nat) : Option Reg :=
  match (regGrown r idx).arr with
  | none => none
  | some a => if idx < a.length then some { regGrown r idx with arr := some (a.set idx (.tp h)) } else none

/-- precondition of parsec_taskpool_unregister (its two asserts): `id < size ∧ array[id] == tp` -/
def canUnregister (r : Reg) (idx h : Nat) : Bool :=
  match r.arr with
  | none => false
  | some a => a[idx]? == some (.tp h)

def unregisterReg (r : Reg) (idx : Nat) : Reg :=
  match r.arr with
  | none => r
  | some a => { r with arr := some (a.set idx .free) }

inductive Out
  | rid (n : Nat)      -- id returned by reserve_id
  | reg (n : Nat)      -- index returned by register
  | ok
  | tp (h : Nat)       -- lookup found taskpool h
  | null               -- lookup returned NULL
  | junk               -- lookup returned the content of an uninitialised cell
  | rejected
  | crash              -- NULL dereference / access outside the allocation
  | dead               -- the process is gone
  | bad
deriving DecidableEq, Repr

/-- parsec_taskpool_lookup -/
def lookupReg (r : Reg) (id : Nat) : Out :=
  if id ≤ r.pos then
    match r.arr with
    | none => .crash
    | some a =>
      match a[id]? with
      | none => .crash
      | some .free => .null
      | some (.tp h) => .tp h
      | some .junk => .junk
  else .null

/-- `while (idx >= msz) msz <<= 1;` (fuel `idx + 1` suffices when `msz ≥ 1`) -/
def growTo (idx : Nat) : Nat → Nat → Nat
  | 0, msz => msz
  | fuel + 1, msz => if msz ≤ idx then growTo idx fuel (msz * 2) else msz

/-- parsec_taskpool_sync_ids_context with MPI initialised; `m` = result of the MAX all-reduce -/
def syncReg (r : Reg) (m : Nat) : Reg :=
  { arr := if r.size < growTo m (m + 1) r.size
           then some (fill (realloc r.arr (growTo m (m + 1) r.size)) r.size (growTo m (m + 1) r.size))
           else r.arr,
    size := growTo m (m + 1) r.size,
    pos := m }

/-! ## process state: registry + the `taskpool_id` fields of the harness' taskpools -/

def NH : Nat := 16
def NOID : Nat := 4294967295   -- `tp->taskpool_id = -1` of the taskpool constructor

structure St where
  reg  : Reg
  tpid : List Nat
  dead : Bool
deriving DecidableEq, Repr

def St.init : St := ⟨Reg.init, List.replicate NH NOID, false⟩

inductive Op
  | reserve (h : Nat)
  | setid (h v : Nat)        -- the application writes tp->taskpool_id itself
  | register (h : Nat)
  | unregister (h : Nat)
  | lookup (id : Nat)
  | lookupOwn (h : Nat)      -- parsec_taskpool_lookup(tp->taskpool_id)
  | sync (others : Nat)      -- all-reduce MAX of pos with the other ranks' maximum `others`
  | fini
deriving DecidableEq, Repr

def stepLive (s : St) : Op → St × Out
  | .reserve h =>
    if h < s.tpid.length then
      ({ s with reg := reserveReg s.reg, tpid := s.tpid.set h (s.reg.pos + 1) }, .rid (s.reg.pos + 1))
    else (s, .rejected)
  | .setid h v =>
    if h < s.tpid.length then ({ s with tpid := s.tpid.set h v }, .ok) else (s, .rejected)
  | .register h =>
    match s.tpid[h]? with
    | none => (s, .rejected)
    | some idx =>
      match registerReg s.reg idx h with
      | none => ({ s with dead := true }, .crash)
      | some r => ({ s with reg := r }, .reg idx)
  | .unregister h =>
    match s.tpid[h]? with
    | none => (s, .rejected)
    | some idx =>
      if canUnregister s.reg idx h then ({ s with reg := unregisterReg s.reg idx }, .ok)
      else (s, .rejected)
  | .lookup id =>
    ({ s with dead := decide (lookupReg s.reg id = .crash) }, lookupReg s.reg id)
  | .lookupOwn h =>
    match s.tpid[h]? with
    | none => (s, .rejected)
    | some id => ({ s with dead := decide (lookupReg s.reg id = .crash) }, lookupReg s.reg id)
  | .sync others => ({ s with reg := syncReg s.reg (max s.reg.pos others) }, .ok)
  | .fini => ({ s with reg := Reg.init }, .ok)

def step (s : St) (op : Op) : St × Out := if s.dead then (s, .dead) else stepLive s op

def runOuts : St → List Op → List Out
  | _, [] => []
  | s, op :: ops => (step s op).2 :: runOuts (step s op).1 ops

def runSt : St → List Op → St
  | s, [] => s
  | s, op :: ops => runSt (step s op).1 ops

/-- ids handed out by reserve_id, in order -/
def reservedIds (outs : List Out) : List Nat :=
  outs.filterMap (fun o => match o with | .rid n => some n | _ => none)

/-! ## several processes: collective synchronisation -/

def maxPos : List Reg → Nat
  | [] => 0
  | r :: rs => max r.pos (maxPos rs)

def syncAll (rs : List Reg) : List Reg := rs.map (fun r => syncReg r (maxPos rs))

/-! ## small-step machine: threads calling the API concurrently

A thread runs a list of API calls.  Its yield points are the atomic primitives of the real code:
the CAS of `parsec_atomic_lock` (retried until it succeeds) and the fence of `parsec_atomic_unlock`.
One step = from a yield point to the next:
* `start`     → parked before the CAS of call 0 (or `done` for an empty program);
* `atLock k`  → CAS; if the lock is taken the thread is parked before the next CAS attempt; otherwise
                it owns the lock, runs the whole critical section of call k and parks at the fence;
* `inCS k`    → fence, store 0 to the lock, then up to the CAS of call k+1 (or `done`). -/

inductive Pc
  | start
  | atLock (k : Nat)
  | inCS (k : Nat)
  | done
deriving DecidableEq, Repr

structure Ev where
  tid : Nat
  op  : Op
  out : Out
deriving DecidableEq, Repr

structure CState where
  st   : St
  lock : Bool
  pcs  : List Pc
  lin  : List Ev     -- ghost: calls in the order in which they acquired the lock
deriving DecidableEq, Repr

def cinit (s0 : St) (n : Nat) : CState := ⟨s0, false, List.replicate n .start, []⟩

def nextPc (prog : List Op) (k : Nat) : Pc := if k < prog.length then .atLock k else .done

def cstep (progs : List (List Op)) (s : CState) (t : Nat) : CState :=
  match s.pcs[t]? with
  | none => s
  | some .start => { s with pcs := s.pcs.set t (nextPc (progs[t]?.getD []) 0) }
  | some (.atLock k) =>
    if s.lock then s
    else
      match (progs[t]?.getD [])[k]? with
      | none => s
      | some op =>
        { st := (step s.st op).1, lock := true, pcs := s.pcs.set t (.inCS k),
          lin := s.lin ++ [⟨t, op, (step s.st op).2⟩] }
  | some (.inCS k) => { s with lock := false, pcs := s.pcs.set t (nextPc (progs[t]?.getD []) (k + 1)) }
  | some .done => s

def crun (progs : List (List Op)) (s : CState) : List Nat → CState
  | [] => s
  | t :: ts => crun progs (cstep progs s t) ts

/-- results obtained so far by thread `t`, in program order -/
def outsOf (s : CState) (t : Nat) : List Out := (s.lin.filter (fun e => e.tid == t)).map (·.out)

end ParsecVerif.TpRegistry
