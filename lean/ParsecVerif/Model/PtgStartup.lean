import ParsecVerif.Model.Ptg
/-!
  Chunked generation of the startup tasks: the cursor / restore logic of the generated `__jdf2c_startup_<class>`
  (parsec/interfaces/ptg/ptg-compiler/jdf2c.c : jdf_generate_startup_tasks).

  The generated function is the hook of a pseudo task.  Its C locals are initialised from the values saved in
  `this_task->locals` ("retrieve value saved during the last iteration"); on a re-entry (`reserved[0] != 0`) it jumps
  with `goto restore_context_0` INTO the loop nest, to the label placed just after the creation of a task in the
  innermost body, and execution continues from there: the rest of that iteration, the increment of the innermost loop,
  its remaining iterations, then the increment of the enclosing loop and full inner nests, and so on (`resumeSem`).
  All bounds and steps are re-evaluated on `this_task->locals`, i.e. on the saved values of the outer locals.

  Inside one invocation (`invokeGo`): every created task is pushed on a ring (`nb_tasks++`); when `nb_tasks` exceeds
  `reserved[0]` (1 at every entry, doubled while smaller than `task_startup_iter`) the ring is scheduled
  (`__parsec_schedule_vp`) and counted in `total_nb_tasks`; when that total exceeds `task_startup_chunk` the function
  returns PARSEC_HOOK_RETURN_AGAIN (the runtime reschedules the pseudo task: C16's first clause) — the locals of the
  task created last are the saved cursor.  When the loops end the remaining ring is scheduled and DONE is returned.
  Instances that are not startup tasks (or not local) `continue` the innermost loop without reaching the label.
  Mathlib-free.
-/
namespace ParsecVerif.PtgStartup
open ParsecVerif.Ptg

/-- the iteration points executed after `goto restore_context_0` with saved locals `env` (suffix for `ds`, `pre` = saved
    values of the enclosing locals); `none`: a loop does not terminate or the saved locals are malformed -/
def resumeSem : List LocalSem → List Int → List Int → Option (List (List Int))
  | [], _, _ => some []
  | .range _ hi st :: ds, pre, v :: env =>
      match resumeSem ds (pre ++ [v]) env, startupVals (v + st pre) (hi pre) (st pre) with
      | some inner, some vs =>
          (optFlatMap vs fun w => (startupSem ds (pre ++ [w])).map (·.map (w :: ·))).map fun rest => inner.map (v :: ·) ++ rest
      | _, _ => none
  | .expr _ :: ds, pre, v :: env => (resumeSem ds (pre ++ [v]) env).map (·.map (v :: ·))
  | _ :: _, _, [] => none

/-- result of one invocation of the startup function -/
structure Invocation where
  batches : List (List (List Int))      -- the rings handed to `__parsec_schedule_vp`, in order (creation order inside a ring)
  cursor : Option (List Int)            -- `some x`: returned AGAIN right after creating x; `none`: returned DONE
  deriving Repr

def invokeGo (iter chunk : Nat) (keep : List Int → Bool) :
    List (List Int) → (reserved total : Nat) → (ring : List (List Int)) → Invocation
  | [], _, _, ring => ⟨if ring.isEmpty then [] else [ring], none⟩
  | x :: rest, reserved, total, ring =>
    if keep x then
      if ring.length + 1 > reserved then
        if total + (ring.length + 1) > chunk then ⟨[ring ++ [x]], some x⟩
        else
          let r := invokeGo iter chunk keep rest (if reserved < iter then reserved * 2 else reserved) (total + (ring.length + 1)) []
          ⟨(ring ++ [x]) :: r.batches, r.cursor⟩
      else invokeGo iter chunk keep rest reserved total (ring ++ [x])
    else invokeGo iter chunk keep rest reserved total ring

/-- `reserved[0] = 1`, `total_nb_tasks = 0`, empty ring at every entry -/
def invoke (iter chunk : Nat) (keep : List Int → Bool) (pts : List (List Int)) : Invocation :=
  invokeGo iter chunk keep pts 1 0 []

/-- the iteration points one entry of the startup function runs through: from the top of the loop nest, or from the
    saved cursor -/
def entryPts (ds : List LocalSem) : Option (List Int) → Option (List (List Int))
  | none => startupSem ds []
  | some c => resumeSem ds [] c

/-- all invocations of the startup pseudo task of a class: first entry from the top of the loop nest, every later entry
    through the saved cursor.  One list of batches per invocation; `none`: non-termination (or out of fuel). -/
def startupRunGo (iter chunk : Nat) (keep : List Int → Bool) (ds : List LocalSem) :
    Nat → Option (List Int) → Option (List (List (List (List Int))))
  | 0, _ => none
  | fuel + 1, cur =>
    match entryPts ds cur with
    | none => none
    | some pts =>
      let r := invoke iter chunk keep pts
      match r.cursor with
      | none => some [r.batches]
      | some c => (startupRunGo iter chunk keep ds fuel (some c)).map (r.batches :: ·)

def startupRun (iter chunk : Nat) (keep : List Int → Bool) (ds : List LocalSem) : Option (List (List (List (List Int)))) :=
  match startupSem ds [] with
  | none => none
  | some pts => startupRunGo iter chunk keep ds (pts.length + 2) none

/-- the batches of startup tasks of class `c` of a program (single process), one list per invocation -/
def startupChunks (p : Program) (c : Nat) (iter chunk : Nat) : Option (List (List (List (List Int)))) :=
  match p.classes[c]? with
  | some cl => startupRun iter chunk (isStartup p.globals cl) (cl.sems p.globals)
  | none => some [[]]

end ParsecVerif.PtgStartup
