/-
  Model of the PaRSEC object system (parsec/class/parsec_object.h, parsec_object.c).

  Part 1: `parsec_class_initialize` — the class descriptor's single malloc'ed block that holds the
  NULL-terminated constructor array (base → derived) followed by the NULL-terminated destructor
  array (derived → base), built by two loops over the parent chain; `parsec_obj_run_constructors`
  / `parsec_obj_run_destructors` walk these arrays up to the NULL sentinel.  Pointers into the
  block are indices; malloc'ed memory starts as `junk`, and reading junk (or outside the block)
  is undefined behaviour (`none`).

  Part 2: one object's life as a sequential API (PARSEC_OBJ_NEW / CONSTRUCT / RETAIN / RELEASE /
  DESTRUCT).

  Part 3: small-step concurrent machine for one shared object.  One transition per atomic
  operation of the real code: `parsec_obj_update` is a single `parsec_atomic_fetch_add_int32`; the
  release that observes 0 calls `obj_release`, i.e. the destructors one after the other (each
  destructor call is its own step, so other threads may be scheduled between two destructors)
  and then `free` for dynamic objects.  Ghost state (not in the C code): how many references each
  thread holds, and whether some operation was performed by a thread holding none.
-/
namespace ParsecVerif.Object

/-! ## Part 1: class descriptors -/

/-- one class of the hierarchy: `cls_construct` / `cls_destruct` (NULL = `none`); the number
    identifies the function -/
structure Level where
  ctor : Option Nat
  dtor : Option Nat
deriving Repr, DecidableEq

/-- a word of the malloc'ed block -/
inductive Cell
  | junk
  | null
  | fn (id : Nat)
deriving Repr, DecidableEq

/-- the fields of `parsec_class_t` written by `parsec_class_initialize`.  `mem` is the block
    `cls_construct_array` points to (`[]` = NULL pointer); `cls_destruct_array = block + dtorAt`. -/
structure Cls where
  initialized : Bool
  depth : Nat
  mem : List Cell
  dtorAt : Nat
deriving Repr, DecidableEq

/-- static initialiser of `PARSEC_OBJ_CLASS_INSTANCE`: `0, 0, NULL, NULL` -/
def Cls.fresh : Cls := ⟨false, 0, [], 0⟩

/-- `parsec_object_t_class`: preinitialised, depth 0, both arrays NULL -/
def Cls.root : Cls := ⟨true, 0, [], 0⟩

/-- first loop: number of non-NULL constructors / destructors on the parent chain
    (the chain is listed from the class itself down to the root `parsec_object_t`) -/
def nCtor (ch : List Level) : Nat := ch.countP (fun l => l.ctor.isSome)
def nDtor (ch : List Level) : Nat := ch.countP (fun l => l.dtor.isSome)

/-- the two running pointers of the second loop -/
structure Fill where
  mem : List Cell
  cp : Nat
  dp : Nat
deriving Repr, DecidableEq

/-- `if (NULL != c->cls_construct) { --cls_construct_array; *cls_construct_array = c->cls_construct; }` -/
def ctorPart (l : Level) (f : Fill) : Fill :=
  match l.ctor with
  | some c => { f with cp := f.cp - 1, mem := f.mem.set (f.cp - 1) (.fn c) }
  | none => f

/-- `if (NULL != c->cls_destruct) { *cls_destruct_array = c->cls_destruct; cls_destruct_array++; }` -/
def dtorPart (l : Level) (f : Fill) : Fill :=
  match l.dtor with
  | some d => { f with mem := f.mem.set f.dp (.fn d), dp := f.dp + 1 }
  | none => f

def fillStep (f : Fill) (l : Level) : Fill := dtorPart l (ctorPart l f)

/-- block of `cc + dc + 2` words, `*(block + cc) = NULL`, pointers at `block + cc` and `block + cc + 1` -/
def fill0 (cc dc : Nat) : Fill :=
  { mem := (List.replicate (cc + dc + 2) Cell.junk).set cc .null, cp := cc, dp := cc + 1 }

/-- `for (i = 0; i < cls->cls_depth; i++) { …; c = c->cls_parent; }` -/
def fillLoop (ch : List Level) : Fill :=
  (ch.take ch.length).foldl fillStep (fill0 (nCtor ch) (nDtor ch))

/-- `parsec_class_initialize` (both `cls_initialized` tests collapse sequentially) -/
def classInitialize (ch : List Level) (c : Cls) : Cls :=
  if c.initialized then c
  else
    { initialized := true
      depth := ch.length
      mem := (fillLoop ch).mem.set (fillLoop ch).dp .null
      dtorAt := nCtor ch + 1 }

/-- `while (NULL != *p) { (*p)(object); p++; }` — the list of functions called, or `none` when the
    walk dereferences NULL / junk / leaves the block (undefined behaviour) -/
def readArr (mem : List Cell) : Nat → Nat → Option (List Nat)
  | _, 0 => none
  | i, fuel + 1 =>
    match mem[i]? with
    | some (.fn id) => (readArr mem (i + 1) fuel).map (id :: ·)
    | some .null => some []
    | _ => none

/-- `parsec_obj_run_constructors`: starts at `cls_construct_array` = the block -/
def runCtors (c : Cls) : Option (List Nat) := readArr c.mem 0 (c.mem.length + 1)
/-- `parsec_obj_run_destructors`: starts at `cls_destruct_array` -/
def runDtors (c : Cls) : Option (List Nat) := readArr c.mem c.dtorAt (c.mem.length + 1)

/-- what the documentation promises -/
def ctorOrder (ch : List Level) : List Nat := ch.reverse.filterMap (·.ctor)
def dtorOrder (ch : List Level) : List Nat := ch.filterMap (·.dtor)

/-! ### The generated family of classes used by the harness
  A class is named by its variant digits, base-most level first, each digit in 1..4:
  1 = no constructor, no destructor; 2 = constructor only; 3 = destructor only; 4 = both.
  The function id of a level is the number formed by the digits up to that level
  (class `k421`: levels 4, 42, 421).  Every chain ends with the root `parsec_object_t`. -/

def levelOf (v id : Nat) : Level :=
  { ctor := if v = 2 ∨ v = 4 then some id else none
    dtor := if v = 3 ∨ v = 4 then some id else none }

/-- chain of the class, derived → base, without the root; `acc` = id of the parent level -/
def chainAux : List Nat → Nat → List Level → List Level
  | [], _, out => out
  | v :: vs, acc, out => chainAux vs (acc * 10 + v) (levelOf v (acc * 10 + v) :: out)

def rootLevel : Level := ⟨none, none⟩

def chainOf (digits : List Nat) : List Level := chainAux digits 0 [] ++ [rootLevel]

/-! ## Part 2: sequential life of one object -/

inductive Kind
  | dyn   -- PARSEC_OBJ_NEW: obj_release = parsec_obj_destruct_and_free
  | sta   -- PARSEC_OBJ_CONSTRUCT: obj_release = parsec_obj_destruct
deriving Repr, DecidableEq

structure Obj where
  kind : Kind
  cls : Cls
  cnt : Int
  freed : Bool
deriving Repr

/-- PARSEC_OBJ_NEW / PARSEC_OBJ_CONSTRUCT: lazy class initialisation, count 1, constructors.
    Result: the object and the constructor calls (`none` = undefined behaviour). -/
def objCreate (k : Kind) (ch : List Level) (c : Cls) : Obj × Option (List Nat) :=
  ({ kind := k, cls := classInitialize ch c, cnt := 1, freed := false }, runCtors (classInitialize ch c))

/-- PARSEC_OBJ_RETAIN: returns the new count -/
def objRetain (o : Obj) : Obj := { o with cnt := o.cnt + 1 }

/-- PARSEC_OBJ_RELEASE: new object state, destructor calls made (`some []` when the count did not
    reach 0), whether the caller's pointer was set to NULL -/
def objRelease (o : Obj) : Obj × Option (List Nat) × Bool :=
  if o.cnt - 1 = 0 then
    ({ o with cnt := 0, freed := o.kind = .dyn }, runDtors o.cls, true)
  else ({ o with cnt := o.cnt - 1 }, some [], false)

/-- PARSEC_OBJ_DESTRUCT: runs the destructors whatever the count -/
def objDestruct (o : Obj) : Option (List Nat) := runDtors o.cls

/-! ## Part 3: concurrent machine for one shared object -/

inductive Op
  | retain
  | release
  | give (to : Nat)   -- hand one held reference to another thread (no effect on the object)
deriving Repr, DecidableEq

inductive Pc
  | start                    -- thread not yet at its first operation
  | ready                    -- parked just before its next operation (head of `prog`)
  | dtor (rest : List Nat)   -- inside obj_release: parked at the entry of destructor `rest.head`
  | done
deriving Repr, DecidableEq

structure Thread where
  pc : Pc
  prog : List Op     -- operations still to execute
  held : Nat         -- ghost: references this thread holds
deriving Repr, DecidableEq

/-- what happens to the object, in execution order -/
inductive Ev
  | retain (t : Nat) (v : Int)     -- PARSEC_OBJ_RETAIN by t, new count v
  | release (t : Nat) (v : Int)    -- PARSEC_OBJ_RELEASE by t, new count v (v = 0: destroys)
  | dtor (t : Nat) (id : Nat)      -- destructor `id` called by t
  | free (t : Nat)                 -- free(object) by t
deriving Repr, DecidableEq

structure Cfg where
  kind : Kind
  dtors : List Nat     -- the calls `parsec_obj_run_destructors` makes for the object's class
deriving Repr

structure State where
  cnt : Int
  thr : List Thread
  trace : List Ev
  viol : Bool          -- ghost: some retain/release/give was made by a thread holding no reference
deriving Repr

/-- a thread that finished an operation parks before the next one, or ends -/
def settle (th : Thread) : Thread :=
  { th with pc := if th.prog = [] then .done else .ready }

/-- end of `obj_release`: `free` for dynamic objects -/
def freeEv (cfg : Cfg) (t : Nat) : List Ev :=
  match cfg.kind with
  | .dyn => [.free t]
  | .sta => []

def setThr (s : State) (t : Nat) (th : Thread) : State := { s with thr := s.thr.set t th }

/-- the fetch-add of a release observed 0: enter `obj_release` -/
def enterRelease (cfg : Cfg) (s : State) (t : Nat) (th : Thread) : State :=
  match cfg.dtors with
  | [] => { s with thr := s.thr.set t (settle th), trace := s.trace ++ freeEv cfg t }
  | d :: ds => { s with thr := s.thr.set t { th with pc := .dtor (d :: ds) } }

/-- ghost: thread `u` (if it exists) receives one reference -/
def bump (thr : List Thread) (u : Nat) : List Thread :=
  match thr[u]? with
  | some r => thr.set u { r with held := r.held + 1 }
  | none => thr

def execOp (cfg : Cfg) (s : State) (t : Nat) (th : Thread) (op : Op) (rest : List Op) : State :=
  match op with
  | .retain =>
    { s with cnt := s.cnt + 1, trace := s.trace ++ [.retain t (s.cnt + 1)], viol := s.viol || th.held == 0,
             thr := s.thr.set t (settle { th with prog := rest, held := th.held + 1 }) }
  | .release =>
    if s.cnt - 1 = 0 then
      enterRelease cfg { s with cnt := s.cnt - 1, trace := s.trace ++ [.release t (s.cnt - 1)], viol := s.viol || th.held == 0 }
        t { th with prog := rest, held := th.held - 1 }
    else
      { s with cnt := s.cnt - 1, trace := s.trace ++ [.release t (s.cnt - 1)], viol := s.viol || th.held == 0,
               thr := s.thr.set t (settle { th with prog := rest, held := th.held - 1 }) }
  | .give u =>
    { s with viol := s.viol || th.held == 0,
             thr := bump (s.thr.set t (settle { th with prog := rest, held := th.held - 1 })) u }

/-- thread `t` runs from its park point to the next one -/
def step (cfg : Cfg) (s : State) (t : Nat) : State :=
  match s.thr[t]? with
  | none => s
  | some th =>
    match th.pc with
    | .start => setThr s t (settle th)
    | .done => s
    | .ready =>
      match th.prog with
      | [] => s
      | op :: rest => execOp cfg s t th op rest
    | .dtor [] => s
    | .dtor (d :: ds) =>
      match ds with
      | [] => { s with trace := s.trace ++ [.dtor t d] ++ freeEv cfg t, thr := s.thr.set t (settle th) }
      | _ :: _ => { s with trace := s.trace ++ [.dtor t d], thr := s.thr.set t { th with pc := .dtor ds } }

def run (cfg : Cfg) (s : State) (sched : List Nat) : State := sched.foldl (step cfg) s

/-- initial state: object count `c0`; thread `i` holds `spec[i].1` references and will run the
    program `spec[i].2` -/
def init (c0 : Int) (spec : List (Nat × List Op)) : State :=
  ⟨c0, spec.map (fun p => ⟨.start, p.2, p.1⟩), [], false⟩

/-- thread-local protocol check: with `h` references in hand (and ignoring any it may be given),
    every operation of the program is made while holding at least one -/
def safeFrom : Nat → List Op → Bool
  | _, [] => true
  | h, .retain :: r => decide (1 ≤ h) && safeFrom (h + 1) r
  | h, _ :: r => decide (1 ≤ h) && safeFrom (h - 1) r

def locallySafe (thr : List Thread) : Bool := thr.all fun th => safeFrom th.held th.prog

end ParsecVerif.Object
