/-
  Context / wait layer of the runtime (parsec/scheduling.c), as a small-step machine.

  Shared state: `context->active_taskpools` (`active`), the flag CONTEXT_ACTIVE (`started`), the start
  token taken by `parsec_context_start` (`token`), the master's position in the API (`mm`), for
  every worker its position in `__parsec_context_wait` (`wm`: parked at the "next round" barrier,
  looping on `!all_tasks_done`, exited the loop and waiting at the end-of-epoch barrier), for every
  thread (index 0 = master) what it is executing (`bases`: nothing, a task body of taskpool p, the
  completion callback of p) and whether it is inside `parsec_context_add_taskpool` (`subs`).

  One transition per atomic operation / API event of the real code:

    parsec_context_start      = startBarrier (wake the workers) ; startToken (active += 1)       [two steps, in that order]
    parsec_context_wait       = waitBegin (active -= 1) ; loop ... sawZero ; barrier ; waitReturn
    worker loop exit          = leave w            (reads active == 0 between two tasks)
    parsec_context_add_taskpool(q)
        normal taskpool       = addCall ; addInc (active += 1, BEFORE the startup hook) ; [startupAdd q'] ; addReturn
        taskpool without a termination detector and without pending action (`early`: this is what a
        compound taskpool is when it is added, see Model/Compound.lean): the local detector is
        installed and declared ready inside add_taskpool, finds nb_pending_actions == 0 and fires AT ONCE:
                              = addCall ; earlyCb (completion callback) ; earlyDec (active -= 1) ; addInc (active += 1) ; ...
    task execution            = taskBegin t p ; taskEnd t         (only by a looping worker, or the master inside a wait)
    parsec_taskpool_termination_detected(p)
                              = detect t p (all tasks ended: run the completion callback) ; dec t (active -= 1)
                                — two separate steps in that order; the callback may add taskpools in between
    parsec_taskpool_wait(p)   = tpWaitBegin p ; loop ... ; tpWaitReturn  (state TERMINATED, i.e. after dec)
    DTD                       = arm p (on_enter_wait: detector ready), insert t p (one more task)
    pending runtime actions   = startupReady t n (a startup hook sets n pending actions and declares the detector
                                ready), actionDone t q (a callback releases one action of q; the last release detects q's
                                termination and runs q's callback nested — q is pushed on the thread's `nests` stack; such a
                                nested callback may itself add a taskpool or release the last action of yet another taskpool),
                                nestDec t (active -= 1 for the innermost nested taskpool)

  Every applied step stamps the objects it touches with a global clock (this mirrors the stamps the
  harness takes from one global atomic counter), so that "before/after" statements are arithmetic.
-/
namespace ParsecVerif.Context

inductive TpSt | notAdded | adding | earlyCb | earlyDec | added | inCb | inCbN | done
deriving Repr, DecidableEq

structure Tp where
  st : TpSt := .notAdded
  early : Bool := false      -- static: no termdet module and no pending action when added
  dtd : Bool := false        -- static: detector armed by on_enter_wait, not by add
  ready : Bool := false
  total : Nat := 0
  pend : Nat := 0            -- pending runtime actions (besides the tasks)
  started : Nat := 0
  ended : Nat := 0
  cbs : Nat := 0             -- number of executions of the completion callback
  by_ : Nat := 0             -- thread currently adding it / running its callback
  addAt : Nat := 0           -- stamps (0 = never)
  firstBegin : Nat := 0
  lastEnd : Nat := 0
  cbAt : Nat := 0
  decAt : Nat := 0
deriving Repr

inductive Base | idle | task (p : Nat) | cb (p : Nat)
deriving Repr, DecidableEq

/-- inside parsec_context_add_taskpool(q): before the increment (`adding`), after it (`startup`) -/
inductive Sub | none | adding (q : Nat) | startup (q : Nat)
deriving Repr, DecidableEq

inductive WMode | parked | looping | exited
deriving Repr, DecidableEq

inductive MMode | out | starting | waiting | atBarrier | leaving | tpWait (p : Nat)
deriving Repr, DecidableEq

structure St where
  active : Int
  started : Bool
  token : Bool
  mm : MMode
  wm : List WMode
  bases : List Base
  subs : List Sub
  nests : List (List Nat)   -- per thread: the taskpools whose termination was detected NESTED in the completion callback the
                            -- thread is running (a callback released their last pending action), innermost first
  tps : List Tp
  clock : Nat
  epochEnd : Nat
  waitRets : List Nat
  tpWaitRets : List (Nat × Nat)
deriving Repr

inductive Tr
  | startBarrier | startToken | waitBegin | sawZero | leave (w : Nat) | barrier | waitReturn
  | tpWaitBegin (p : Nat) | tpWaitReturn
  | taskBegin (t p : Nat) | taskEnd (t : Nat) | detect (t p : Nat) | dec (t : Nat)
  | addCall (t q : Nat) | startupAdd (t q : Nat) | earlyCb (t : Nat) | earlyDec (t : Nat) | addInc (t : Nat)
  | addReturn (t : Nat)
  | arm (p : Nat) | insert (t p : Nat)
  | startupReady (t n : Nat) | actionDone (t q : Nat) | nestDec (t : Nat)
deriving Repr, DecidableEq

/-- initial state: `k` workers (so `k+1` threads), the given taskpools, nothing added, not started -/
def init (k : Nat) (tps : List Tp) : St :=
  { active := 0, started := false, token := false, mm := .out, wm := List.replicate k .parked,
    bases := List.replicate (k + 1) .idle, subs := List.replicate (k + 1) .none,
    nests := List.replicate (k + 1) [], tps := tps,
    clock := 1, epochEnd := 0, waitRets := [], tpWaitRets := [] }

def isTpWait : MMode → Bool
  | .tpWait _ => true
  | _ => false

/-- thread `t` is in a loop that selects and runs tasks -/
def canExec (s : St) (t : Nat) : Bool :=
  if t = 0 then (s.mm == .waiting || isTpWait s.mm) else s.wm[t - 1]? == some .looping

def idleT (s : St) (t : Nat) : Bool := s.bases[t]? == some .idle && s.subs[t]? == some .none

/-- who may call parsec_context_add_taskpool: the master from its own program (outside any wait),
    a running task body, a running completion callback -/
def mayAdd (s : St) (t : Nat) : Bool :=
  s.subs[t]? == some .none &&
  (match s.bases[t]? with
   | some (.task _) => true
   | some (.cb _) => true
   | some .idle => t == 0 && s.mm == .out
   | none => false)

def tick (s : St) : St := { s with clock := s.clock + 1 }

/-- one transition; `none` when it is not enabled -/
def step? (s : St) : Tr → Option St
  | .startBarrier =>
    if s.mm = .out ∧ s.started = false ∧ idleT s 0 = true then
      some (tick { s with started := true, mm := .starting, wm := s.wm.map (fun _ => .looping) })
    else none
  | .startToken =>
    if s.mm = .starting then some (tick { s with active := s.active + 1, token := true, mm := .out }) else none
  | .waitBegin =>
    if s.mm = .out ∧ s.started = true ∧ idleT s 0 = true then
      some (tick { s with active := s.active - 1, token := false, mm := .waiting })
    else none
  | .sawZero =>
    if s.mm = .waiting ∧ idleT s 0 = true ∧ s.active = 0 then some (tick { s with mm := .atBarrier }) else none
  | .leave w =>
    if s.wm[w]? = some .looping ∧ idleT s (w + 1) = true ∧ s.active = 0 then
      some (tick { s with wm := s.wm.set w .exited })
    else none
  | .barrier =>
    if s.mm = .atBarrier ∧ (∀ m ∈ s.wm, m = .exited) then
      some (tick { s with mm := .leaving, wm := s.wm.map (fun _ => .parked), epochEnd := s.clock })
    else none
  | .waitReturn =>
    if s.mm = .leaving then
      some (tick { s with mm := .out, started := false, waitRets := s.clock :: s.waitRets })
    else none
  | .tpWaitBegin p =>
    match s.tps[p]? with
    | some tp =>
      if s.mm = .out ∧ s.started = true ∧ idleT s 0 = true ∧ tp.st ≠ .notAdded then some (tick { s with mm := .tpWait p })
      else none
    | none => none
  | .tpWaitReturn =>
    match s.mm with
    | .tpWait p =>
      match s.tps[p]? with
      | some tp =>
        if tp.st = .done ∧ idleT s 0 = true then
          some (tick { s with mm := .out, tpWaitRets := (p, s.clock) :: s.tpWaitRets })
        else none
      | none => none
    | _ => none
  | .taskBegin t p =>
    match s.tps[p]? with
    | some tp =>
      if canExec s t = true ∧ idleT s t = true ∧ tp.st = .added ∧ tp.started < tp.total then
        some (tick { s with bases := s.bases.set t (.task p),
                            tps := s.tps.set p { tp with started := tp.started + 1,
                                                         firstBegin := if tp.firstBegin = 0 then s.clock else tp.firstBegin } })
      else none
    | none => none
  | .taskEnd t =>
    match s.bases[t]?, s.subs[t]? with
    | some (.task p), some .none =>
      match s.tps[p]? with
      | some tp =>
        some (tick { s with bases := s.bases.set t .idle,
                            tps := s.tps.set p { tp with ended := tp.ended + 1, lastEnd := s.clock } })
      | none => none
    | _, _ => none
  | .detect t p =>
    match s.tps[p]? with
    | some tp =>
      if canExec s t = true ∧ idleT s t = true ∧ tp.st = .added ∧ tp.ready = true ∧ (tp.ended = tp.total ∧ tp.pend = 0) then
        some (tick { s with bases := s.bases.set t (.cb p),
                            tps := s.tps.set p { tp with st := .inCb, cbs := tp.cbs + 1, cbAt := s.clock, by_ := t } })
      else none
    | none => none
  | .dec t =>
    match s.bases[t]?, s.subs[t]? with
    | some (.cb p), some .none =>
      match s.tps[p]? with
      | some tp =>
        if s.nests[t]? = some [] then
          some (tick { s with active := s.active - 1, bases := s.bases.set t .idle,
                              tps := s.tps.set p { tp with st := .done, decAt := s.clock } })
        else none
      | none => none
    | _, _ => none
  | .addCall t q =>
    match s.tps[q]? with
    | some tp =>
      if mayAdd s t = true ∧ tp.st = .notAdded then
        some (tick { s with subs := s.subs.set t (.adding q), tps := s.tps.set q { tp with st := .adding, by_ := t } })
      else none
    | none => none
  | .startupAdd t q =>
    match s.subs[t]?, s.tps[q]? with
    | some (.startup _), some tp =>
      if tp.st = .notAdded then
        some (tick { s with subs := s.subs.set t (.adding q), tps := s.tps.set q { tp with st := .adding, by_ := t } })
      else none
    | _, _ => none
  | .earlyCb t =>
    match s.subs[t]? with
    | some (.adding q) =>
      match s.tps[q]? with
      | some tp =>
        if tp.st = .adding ∧ tp.early = true then
          some (tick { s with tps := s.tps.set q { tp with st := .earlyCb, cbs := tp.cbs + 1, cbAt := s.clock } })
        else none
      | none => none
    | _ => none
  | .earlyDec t =>
    match s.subs[t]? with
    | some (.adding q) =>
      match s.tps[q]? with
      | some tp =>
        if tp.st = .earlyCb then
          some (tick { s with active := s.active - 1, tps := s.tps.set q { tp with st := .earlyDec, decAt := s.clock } })
        else none
      | none => none
    | _ => none
  | .addInc t =>
    match s.subs[t]? with
    | some (.adding q) =>
      match s.tps[q]? with
      | some tp =>
        if tp.st = .adding ∧ tp.early = false then
          some (tick { s with active := s.active + 1, subs := s.subs.set t (.startup q),
                              tps := s.tps.set q { tp with st := .added, ready := !tp.dtd, addAt := s.clock } })
        else if tp.st = .earlyDec then
          some (tick { s with active := s.active + 1, subs := s.subs.set t (.startup q),
                              tps := s.tps.set q { tp with st := .done, addAt := s.clock } })
        else none
      | none => none
    | _ => none
  | .addReturn t =>
    match s.subs[t]? with
    | some (.startup _) => some (tick { s with subs := s.subs.set t .none })
    | _ => none
  | .arm p =>
    match s.tps[p]? with
    | some tp =>
      if (s.mm = .waiting ∨ isTpWait s.mm = true) ∧ idleT s 0 = true ∧ tp.st = .added then
        some (tick { s with tps := s.tps.set p { tp with ready := true } })
      else none
    | none => none
  | .insert t p =>
    match s.tps[p]? with
    | some tp =>
      if tp.st = .added ∧ tp.dtd = true ∧ s.subs[t]? = some .none ∧
         (s.bases[t]? = some (.task p) ∨ (t = 0 ∧ s.bases[0]? = some .idle ∧ s.mm = .out)) then
        some (tick { s with tps := s.tps.set p { tp with total := tp.total + 1 } })
      else none
    | none => none

  | .startupReady t n =>
    -- the startup hook of q declares n pending runtime actions, then the detector ready
    -- (taskpool_set_runtime_actions ; taskpool_ready)
    match s.subs[t]? with
    | some (.startup q) =>
      match s.tps[q]? with
      | some tp =>
        if tp.st = .added ∧ tp.ready = false then
          some (tick { s with tps := s.tps.set q { tp with ready := true, pend := tp.pend + n } })
        else none
      | none => none
    | _ => none
  | .actionDone t q =>
    -- a completion callback releases one pending runtime action of taskpool q
    -- (taskpool_addto_runtime_actions(q, -1)); the release that reaches 0 on a ready detector detects
    -- the termination of q in the same atomic operation and runs q's callback nested in the current one
    match s.bases[t]?, s.subs[t]?, s.tps[q]? with
    | some (.cb _), some .none, some tp =>
      if tp.st = .added ∧ 0 < tp.pend then
        if tp.ready = true ∧ tp.pend = 1 ∧ tp.ended = tp.total ∧ tp.started = tp.total then
          some (tick { s with nests := s.nests.set t (q :: (s.nests[t]?).getD []),
                              tps := s.tps.set q { tp with pend := 0, st := .inCbN, cbs := tp.cbs + 1, cbAt := s.clock, by_ := t } })
        else
          some (tick { s with tps := s.tps.set q { tp with pend := tp.pend - 1 } })
      else none
    | _, _, _ => none
  | .nestDec t =>
    match s.subs[t]?, s.nests[t]? with
    | some .none, some (q :: rest) =>
      match s.tps[q]? with
      | some tp =>
        some (tick { s with active := s.active - 1, nests := s.nests.set t rest,
                            tps := s.tps.set q { tp with st := .done, decAt := s.clock } })
      | none => none
    | _, _ => none

def step (s : St) (tr : Tr) : St := (step? s tr).getD s

def run (k : Nat) (tps : List Tp) (trs : List Tr) : St := trs.foldl step (init k tps)

/-- a fresh (never added) taskpool descriptor: only the static fields may be chosen -/
def Tp.fresh (tp : Tp) : Prop :=
  tp.st = .notAdded ∧ tp.started = 0 ∧ tp.ended = 0 ∧ tp.cbs = 0 ∧ tp.addAt = 0 ∧ tp.firstBegin = 0 ∧
  tp.lastEnd = 0 ∧ tp.cbAt = 0 ∧ tp.decAt = 0 ∧ tp.ready = false ∧ (tp.early = true → tp.total = 0 ∧ tp.dtd = false) ∧ tp.pend = 0

def mkTp (total : Nat) (early dtd : Bool) : Tp := { total := if early then 0 else total, early := early, dtd := dtd && !early }

end ParsecVerif.Context
