/-
  Scheduler-module layer, common part.

  * `Task`: what the scheduler modules read of a `parsec_task_t`: an identity and `task->priority`.
    `seq` is a GHOST arrival stamp (0,1,2,… in the order tasks are handed to `schedule`, ring order
    inside one call).  No model function ever branches on `seq`; it exists so that "earliest
    scheduled among equals" can be stated.  `grp` is read by the ltq module only.
  * `chainSorted`: parsec/class/list.h `parsec_list_nolock_chain_sorted`, including the `pos`
    cursor that survives from one inserted element to the next (so the model is also right on lists
    that are NOT sorted, which the ip module produces).
  Rings are lists in ring order starting at the element handed to the call.
-/
namespace ParsecVerif.Sched

structure Task where
  id   : Nat
  prio : Int
  seq  : Nat := 0
  /-- stands for `data[0].data_in`: ltq groups consecutive ring elements that share an input -/
  grp  : Nat := 0
deriving DecidableEq, Repr

/-- `A_HIGHER_PRIORITY_THAN_B(a, b, off)` with HIGHER_IS_BETTER -/
def higher (a b : Task) : Bool := decide (a.prio > b.prio)

/-- `A_LOWER_PRIORITY_THAN_B(a, b, off)` -/
def lower (a b : Task) : Bool := decide (a.prio < b.prio)

/-- ghost stamping of a ring: arrival numbers `n, n+1, …` in ring order -/
def stamp : Nat → List Task → List Task
  | _, [] => []
  | n, t :: ts => { t with seq := n } :: stamp (n + 1) ts

/-- `parsec_list_nolock_add_before(list, position k, x)` -/
def insertAt (l : List Task) (k : Nat) (x : Task) : List Task := l.take k ++ x :: l.drop k

/-- the inner `for(; pos != GHOST; pos = pos->next) if( A_HIGHER(newel,pos) ) break;`:
    number of elements walked over before stopping -/
def skipLen (t : Task) : List Task → Nat
  | [] => 0
  | x :: xs => if higher t x then 0 else skipLen t xs + 1

/-- list contents + the `pos` cursor of `chain_sorted` (index of the element `pos` points to) -/
structure Cur where
  l   : List Task
  pos : Nat
deriving Repr

/-- `if( A_HIGHER_PRIORITY_THAN_B(newel, pos) ) pos = HEAD(list);`
    (`pos` always designates a real element; the `none` branch is unreachable and restarts
    from the head) -/
def chainStart (c : Cur) (t : Task) : Nat :=
  match c.l[c.pos]? with
  | some x => if higher t x then 0 else c.pos
  | none => 0

def chainIdx (c : Cur) (t : Task) : Nat :=
  chainStart c t + skipLen t (c.l.drop (chainStart c t))

/-- one iteration of the `for(newel = items; …)` loop: insert before the first strictly lower
    element found from the start position; `pos = newel` -/
def chainStep (c : Cur) (t : Task) : Cur :=
  ⟨insertAt c.l (chainIdx c t) t, chainIdx c t⟩

/-- `parsec_list_nolock_chain_sorted(list, ring, priority)`.  An empty list first receives the
    ring's first element; `pos` starts at the TAIL. -/
def chainSorted (l : List Task) : List Task → List Task
  | [] => l
  | r :: rs =>
    match l with
    | [] => (rs.foldl chainStep ⟨[r], 0⟩).l
    | _ :: _ => ((r :: rs).foldl chainStep ⟨l, l.length - 1⟩).l

end ParsecVerif.Sched
