import ParsecVerif.Model.Sched.Module
import ParsecVerif.Model.Sched.Prio
/-
  Module instances whose containers are shared by all streams of the virtual process and whose
  calls are one lock-protected container operation each:
    ap, ip, spq  (Model/Sched/Prio.lean)
    gd   parsec/mca/sched/gd/sched_gd_module.c    one dequeue; chain_front for a high-priority task
                                                   class at distance 0, else chain_back; try_pop_front
    rnd  parsec/mca/sched/rnd/sched_rnd_module.c  priorities overwritten with rand()+distance, ring
                                                   re-sorted, chain_sorted into one list; pop_front
  and the per-stream LIFO modules
    ll   parsec/mca/sched/ll/sched_ll_module.c    lifo_chain on the own LIFO, or on stream
                                                   (es+distance)%n for distance > 0; pop own, then steal
    llp  parsec/mca/sched/llp/sched_llp_module.c  lifo_chain_sorted / lifo_merge_ring (CHECK_RING_SORTED
                                                   is 0: `sorted` is always true); pop own, then steal
-/
namespace ParsecVerif.Sched

/-- state of a module whose object is shared by the `n` streams -/
structure Shared (σ : Type) where
  n  : Nat
  st : σ

def sharedModule {σ : Type} (sched : σ → SArg → σ) (sel : σ → σ × Option (Task × Int))
    (pend : σ → List Task) : Module where
  St := Shared σ
  nstreams s := s.n
  schedule s a := ⟨s.n, sched s.st a⟩
  select s _ := (⟨s.n, (sel s.st).1⟩, (sel s.st).2)
  pending s := pend s.st

def apModule : Module := sharedModule (fun s a => apSchedule s a.ring a.d) apSelect (·.list)
def ipModule : Module := sharedModule (fun s a => ipSchedule s a.ring a.d) ipSelect (·.list)
def spqModule : Module :=
  sharedModule (fun s a => spqSchedule s a.ring a.d) spqSelect (fun s => s.pls.flatMap (·.2))

/-! ### gd -/

def gdSchedule (dq : List Task) (a : SArg) : List Task :=
  if a.high && decide (a.d = 0) then a.ring ++ dq else dq ++ a.ring

def gdSelect (dq : List Task) : List Task × Option (Task × Int) :=
  match dq with
  | [] => ([], none)
  | t :: ts => (ts, some (t, 0))

def gdModule : Module := sharedModule gdSchedule gdSelect id

/-! ### rnd -/

/-- `priority = rand() + distance` along the ring; a missing random value reads as 0 -/
def rndAssign (d : Int) : List Task → List Int → List Task
  | [], _ => []
  | t :: ts, [] => { t with prio := 0 + d } :: rndAssign d ts []
  | t :: ts, r :: rs => { t with prio := r + d } :: rndAssign d ts rs

/-- stand-in for `parsec_list_nolock_sort` (a stable merge sort, ascending): stable ascending
    insertion sort.  The theorems only use that it permutes the ring. -/
def insAsc (t : Task) : List Task → List Task
  | [] => [t]
  | x :: xs => if lower t x then t :: x :: xs else x :: insAsc t xs

def sortAsc : List Task → List Task
  | [] => []
  | t :: ts => insAsc t (sortAsc ts)

def rndSchedule (l : List Task) (a : SArg) : List Task :=
  chainSorted l (sortAsc (rndAssign a.d a.ring a.rand))

def rndModule : Module := sharedModule rndSchedule gdSelect id

/-! ### ll -/

structure LlSt where
  n     : Nat
  lifos : List (List Task)
deriving Repr

def LlSt.init (n : Nat) : LlSt := ⟨n, List.replicate n []⟩

/-- `parsec_lifo_chain`: the ring goes in front, order preserved -/
def lifoChain (lifos : List (List Task)) (i : Nat) (ring : List Task) : List (List Task) :=
  lifos.set i (ring ++ lifos.getD i [])

def llTarget (n es : Nat) (d : Int) : Nat :=
  if d > 0 then
    (if (((es : Int) + d) % (n : Int)).toNat = es then (es + 1) % n else (((es : Int) + d) % (n : Int)).toNat)
  else es

def llSchedule (s : LlSt) (a : SArg) : LlSt :=
  ⟨s.n, lifoChain s.lifos (llTarget s.n a.es a.d) a.ring⟩

/-- the steal loop `for(i = (th+1)%n; i != th; i = (i+1)%n)`: `fuel` iterations left, `k` = LIFOs tried -/
def llScan (lifos : List (List Task)) (n es : Nat) : Nat → Nat → Option (Nat × Nat)
  | 0, _ => none
  | f + 1, k =>
    match lifos.getD ((es + k) % n) [] with
    | _ :: _ => some ((es + k) % n, k)
    | [] => llScan lifos n es f (k + 1)

def lifoPop (lifos : List (List Task)) (i : Nat) : List (List Task) := lifos.set i (lifos.getD i []).tail

def llSelect (s : LlSt) (es : Nat) : LlSt × Option (Task × Int) :=
  match (s.lifos.getD es []).head? with
  | some t => (⟨s.n, lifoPop s.lifos es⟩, some (t, 0))
  | none =>
    match llScan s.lifos s.n es (s.n - 1) 1 with
    | none => (s, none)
    | some (i, k) =>
      match (s.lifos.getD i []).head? with
      | some t => (⟨s.n, lifoPop s.lifos i⟩, some (t, (k : Int)))
      | none => (s, none)

def llModule : Module where
  St := LlSt
  nstreams s := s.n
  schedule := llSchedule
  select := llSelect
  pending s := s.lifos.flatten

/-! ### llp -/

/-- cursor of `lifo_merge_ring`: `front` ends with `prev` (empty: `prev == NULL`), `rest` starts at
    `next`; `mid` are the single elements already linked between `prev` and `next` (most recent
    first: each goes right behind `prev`); `d` counts the elements walked over -/
structure MZ where
  front : List Task
  mid   : List Task
  rest  : List Task
  d     : Nat
deriving Repr

/-- `while (next != NULL && !(d < distance || A_HIGHER(next, ring))) { prev = next; next = next->list_next; ++d; }` -/
def mergeAdvance (dist : Int) (hd : Task) (front mid : List Task) (d : Nat) : List Task → MZ
  | [] => ⟨front, mid, [], d⟩
  | nx :: rs =>
    if decide ((d : Int) < dist) || higher nx hd then ⟨front, mid, nx :: rs, d⟩
    else mergeAdvance dist hd (front ++ mid ++ [nx]) [] (d + 1) rs

/-- `next == NULL || !A_HIGHER_PRIORITY_THAN_B(next, ring->list_prev)` -/
def spliceOK (rest : List Task) (last : Task) : Bool :=
  match rest with
  | [] => true
  | nx :: _ => !higher nx last

/-- the `do { … } while (NULL != ring)` loop of `lifo_merge_ring` with `sorted == true`.
    The splice branch writes `prev->list_next = ring`: whatever was linked between `prev` and `next`
    (`mid`) would be unlinked — the model drops it exactly as the code would; `Proofs/Sched/Llp`
    shows that `mid` is empty whenever that branch is taken. -/
def mergeLoop (dist : Int) (last : Task) : List Task → MZ → List Task
  | [], z => z.front ++ z.mid ++ z.rest
  | hd :: tl, z =>
    if spliceOK (mergeAdvance dist hd z.front z.mid z.d z.rest).rest last then
      (mergeAdvance dist hd z.front z.mid z.d z.rest).front ++ (hd :: tl) ++ (mergeAdvance dist hd z.front z.mid z.d z.rest).rest
    else if (mergeAdvance dist hd z.front z.mid z.d z.rest).front.isEmpty then
      mergeLoop dist last tl ⟨[], [], hd :: (mergeAdvance dist hd z.front z.mid z.d z.rest).rest, (mergeAdvance dist hd z.front z.mid z.d z.rest).d⟩
    else
      mergeLoop dist last tl ⟨(mergeAdvance dist hd z.front z.mid z.d z.rest).front, hd :: (mergeAdvance dist hd z.front z.mid z.d z.rest).mid,
                              (mergeAdvance dist hd z.front z.mid z.d z.rest).rest, (mergeAdvance dist hd z.front z.mid z.d z.rest).d⟩

/-- `lifo_chain_sorted(lifo, ring, distance, priority, single_writer)` executed without concurrent
    writers: push in front when allowed, else detach everything, merge, reattach -/
def llpChain (lifo ring : List Task) (d : Int) : List Task :=
  match ring.getLast? with
  | none => lifo
  | some last =>
    if decide (d = 0) && spliceOK lifo last then ring ++ lifo
    else mergeLoop d last ring ⟨[], [], lifo, 0⟩

def llpSchedule (s : LlSt) (a : SArg) : LlSt :=
  ⟨s.n, s.lifos.set a.es (llpChain (s.lifos.getD a.es []) a.ring a.d)⟩

def llpModule : Module where
  St := LlSt
  nstreams s := s.n
  schedule := llpSchedule
  select := llSelect
  pending s := s.lifos.flatten

end ParsecVerif.Sched
