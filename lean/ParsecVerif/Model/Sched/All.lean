import ParsecVerif.Model.Sched.Simple
import ParsecVerif.Model.Sched.Hbb
import ParsecVerif.Model.Sched.Ltq
import ParsecVerif.Model.Sched.Vp
import ParsecVerif.Model.Sched.Proto
/-
  The 11 scheduler modules of parsec/mca/sched as instances of `Module`, the shape conditions on a
  buffer topology, and the parsing of the topology line printed by the harness.
-/
namespace ParsecVerif.C08
open ParsecVerif.Sched ParsecVerif.Proto

/-- the 11 scheduler modules of parsec/mca/sched -/
inductive ModId
  | ap | gd | ip | lfq | lhq | ll | llp | ltq | pbq | rnd | spq
deriving DecidableEq, Repr

def ModId.module : ModId → Module
  | .ap => apModule | .gd => gdModule | .ip => ipModule | .lfq => hbbModule | .lhq => hbbModule
  | .ll => llModule | .llp => llpModule | .ltq => ltqModule | .pbq => pbqModule | .rnd => rndModule
  | .spq => spqModule

def ModId.ofName : String → Option ModId
  | "ap" => some .ap | "gd" => some .gd | "ip" => some .ip | "lfq" => some .lfq | "lhq" => some .lhq
  | "ll" => some .ll | "llp" => some .llp | "ltq" => some .ltq | "pbq" => some .pbq | "rnd" => some .rnd
  | "spq" => some .spq | _ => none

/-- modules whose state is built from a buffer topology -/
def ModId.needsCfg : ModId → Bool
  | .lfq | .lhq | .ltq | .pbq => true
  | _ => false

/-- shape condition on a buffer topology (evaluated by the driver on the topology read from the real
    module): at least one stream, and every buffer appears in some stream's `hierarch_queues` -/
def cfgCovered (cfg : HbbCfg) : Bool :=
  decide (0 < cfg.hq.length) &&
  (List.range cfg.sizes.length).all (fun b => (List.range cfg.hq.length).any (fun es => (hqOf cfg es).contains b))

/-- ltq: every buffer is the own task queue of some stream -/
def cfgOwned (cfg : HbbCfg) : Bool :=
  decide (0 < cfg.hq.length) &&
  (List.range cfg.sizes.length).all (fun b => (List.range cfg.hq.length).any (fun es => taskQueue cfg es == b))

/-- initial state for `n` streams (modules without topology) -/
def ModId.init0 : (m : ModId) → Nat → Option m.module.St
  | .ap, n => some ⟨n, LSt.init⟩
  | .ip, n => some ⟨n, LSt.init⟩
  | .spq, n => some ⟨n, SpqSt.init⟩
  | .gd, n => some ⟨n, []⟩
  | .rnd, n => some ⟨n, []⟩
  | .ll, n => some (LlSt.init n)
  | .llp, n => some (LlSt.init n)
  | _, _ => none

/-- initial state from a topology; `none` if the topology violates the module's shape condition -/
def ModId.initCfg : (m : ModId) → HbbCfg → Option m.module.St
  | .lfq, cfg => if cfgCovered cfg then some (HbbSt.init cfg) else none
  | .lhq, cfg => if cfgCovered cfg then some (HbbSt.init cfg) else none
  | .pbq, cfg => if cfgCovered cfg then some (HbbSt.init cfg) else none
  | .ltq, cfg => if cfgOwned cfg then some (HbbSt.init cfg) else none
  | _, _ => none

/-! topology line: `sizes=16,16 par=-,- hq=0.1|1.0` -/

def natList? (s : String) (sep : String) : Option (List Nat) :=
  if s.isEmpty then some [] else (s.splitOn sep).mapM nat?

def parList? (s : String) : Option (List (Option Nat)) :=
  if s.isEmpty then some [] else
    (s.splitOn ",").mapM (fun w => if w == "-" then some none else (nat? w).map some)

def field? (w key : String) : Option String :=
  if w.startsWith (key ++ "=") then some ((w.drop (key.length + 1)).toString) else none

def cfg? : List String → Option HbbCfg
  | [a, b, c] =>
    match field? a "sizes", field? b "par", field? c "hq" with
    | some sa, some sb, some sc =>
      match natList? sa ",", parList? sb, (sc.splitOn "|").mapM (fun q => natList? q ".") with
      | some sizes, some par, some hq =>
        if par.length = sizes.length then some ⟨sizes, par, hq⟩ else none
      | _, _, _ => none
    | _, _, _ => none
  | _ => none

end ParsecVerif.C08
