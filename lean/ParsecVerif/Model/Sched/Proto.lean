import ParsecVerif.Base.Proto
import ParsecVerif.Model.Sched.Basic
/-! Line-protocol helpers shared by the scheduler drivers (pv_C09, pv_C08); see
    harness/common/sched_drv.h for the op grammar and the rejection rule. -/
namespace ParsecVerif.Sched
open ParsecVerif.Proto

def maxId : Nat := 4096

def task? (w : String) : Option Task :=
  match w.splitOn ":" with
  | [a, b] =>
    match nat? a, int? b with
    | some i, some p => some ⟨i, p, 0, 0⟩
    | _, _ => none
  | [a, b, c] =>
    match nat? a, int? b, nat? c with
    | some i, some p, some g => some ⟨i, p, 0, g⟩
    | _, _, _ => none
  | _ => none

def ring? (ws : List String) : Option (List Task) := ws.mapM task?

def showSel : Option (Task × Int) → String
  | none => "none"
  | some (t, d) => s!"{t.id} {d}"

def hasDup : List Nat → Bool
  | [] => false
  | x :: xs => xs.contains x || hasDup xs

/-- the precondition rule of the harness: ids below MAXID, distinct inside the ring, not pending -/
def ringRejected (pendingIds : List Nat) (ring : List Task) : Bool :=
  ring.any (fun t => decide (t.id ≥ maxId) || pendingIds.contains t.id) || hasDup (ring.map (·.id))

end ParsecVerif.Sched
