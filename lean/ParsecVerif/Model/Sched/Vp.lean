import ParsecVerif.Model.Sched.Module
/-
  `__parsec_schedule_vp` / `__parsec_get_next_task` (parsec/scheduling.c) on top of any module, for
  one virtual process, `parsec_runtime_keep_highest_priority_task = 1` (the default) and a compute
  stream as submitter:
    distance ≠ 0                → the whole ring goes to the module on stream 0 of the vp
    distance = 0, next_task set → the whole ring goes to the module on the submitting stream
    distance = 0, next_task free→ the ring's first task is retained in `es->next_task`, the rest (if
                                  any) goes to the module on the submitting stream
  `get_next_task` returns the retained task (reported distance 1) before asking the module.
-/
namespace ParsecVerif.Sched

structure VpSt (M : Module) where
  inner : M.St
  next  : List (Option Task)

def vpSchedule (M : Module) (s : VpSt M) (a : SArg) : VpSt M :=
  if a.d ≠ 0 then { s with inner := M.schedule s.inner { a with es := 0 } }
  else
    match s.next.getD a.es none with
    | some _ => { s with inner := M.schedule s.inner a }
    | none =>
      match a.ring with
      | [] => s
      | t :: rest =>
        if rest.isEmpty then { s with next := s.next.set a.es (some t) }
        else { inner := M.schedule s.inner { a with ring := rest }, next := s.next.set a.es (some t) }

def vpNext (M : Module) (s : VpSt M) (es : Nat) : VpSt M × Option (Task × Int) :=
  match s.next.getD es none with
  | some t => ({ s with next := s.next.set es none }, some (t, 1))
  | none => ({ s with inner := (M.select s.inner es).1 }, (M.select s.inner es).2)

def vpModule (M : Module) : Module where
  St := VpSt M
  nstreams s := M.nstreams s.inner
  schedule := vpSchedule M
  select := vpNext M
  pending s := M.pending s.inner ++ s.next.filterMap id

def VpSt.init (M : Module) (s0 : M.St) : VpSt M := ⟨s0, List.replicate (M.nstreams s0) none⟩

end ParsecVerif.Sched
